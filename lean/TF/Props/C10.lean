import TF.Proofs.MerkleUnique
import TF.Proofs.MerkleSched
import TF.Proofs.GenBridgeMerkle
/-!
# C10 — Merkle trees build correctly under any schedule; honest proofs are complete and minimal

Property theorems only (helper lemmas live in `TF/Proofs/Merkle*.lean`).  Everything is proved for an **arbitrary hash
function** `H : D → D → D` (the driver instantiates it with Tip5's `hash_pair`).

Notation.  `fromDigests H filler cutoff ds` is the model of `CpuParallel::from_digests` with the parallelisation
cut-off as a *parameter* (`fromDigestsFuel … fuel …` is the same with explicit loop fuel and result `none` when the
fuel runs out, i.e. non-termination).  `Spec.IsMerkleTree H filler ds nodes`: `nodes` has `2n` entries, `nodes[0]` is the
filler, the leafs are copied to `[n, 2n)` and `nodes[i] = H nodes[2i] nodes[2i+1]` for `1 ≤ i < n`.
`Spec.treeNodes` is the explicit tree (`nodeVal` over the leafs).  `Spec.needed h idxs` is the documented minimal
authentication structure: the non-root nodes that cannot be computed from the revealed leafs but whose sibling can
(`Spec.covered` = "computable"), in descending order of node index.  `authPath H f 0 h k` is the sibling path of leaf
node `k`.  Thread schedules: `fromDigestsSched H scheds …` (TF/Model/MerkleSched.lean) runs every parallel level as rayon does
at task granularity — one task per index, each reading the shared immutable `nodes` and writing slot `i` of the output
buffer — in the completion order `scheds cnt`; any number of threads, any chunking and any interleaving is such an
order, a permutation of `0..cnt`.  `from_digests_schedule_independent` proves the result equal to the pure-`map` model
for every such schedule and every cut-off.  (Trusted: rayon runs each task exactly once and `collect_into_vec` stores
result `i` in slot `i`; Rust's borrow rules keep `nodes` unwritten while the parallel iterator lives.)
-/
set_option linter.unusedSectionVars false
namespace TF.C10
open TF.Gen TF.Merkle

variable {D : Type} [DecidableEq D] (H : D → D → D)

/-- **termination for every cut-off** (0, 1, …, larger than the tree): the loop fuel `n + 1` of the model is never
    exhausted, for every list of digests -/
theorem from_digests_terminates (filler : D) (cutoff : Nat) (ds : List D) :
    ∃ r, fromDigestsFuel H filler cutoff (ds.length + 1) ds = some r :=
  fromDigestsFuel_terminates H filler cutoff ds
example : fromDigestsFuel Hx 0 0 5 [1, 2, 3, 4] = some (.ok ⟨[0, 193, 14, 30, 1, 2, 3, 4]⟩) := by decide +kernel

/-- the defect F2, for the record: with the loop guard as it was before the fix (`cnt >= cutoff` only) and cut-off 0
    the parallel loop never exits once the level size has reached 0 — whatever the fuel -/
theorem from_digests_diverged_before_F2 (acc : Nat) (nodes : List D) (fuel : Nat) :
    parLoopBeforeF2 H 0 fuel 0 acc nodes = none :=
  parLoopBeforeF2_diverges H acc nodes fuel
example : parLoopBeforeF2 Hx 0 1000 (2 / 2) 0 [0, 0, 1, 2] = none := by decide +kernel

/-- **construction is correct for every cut-off**: for `2^h` leafs the result is a Merkle tree — every inner node is the
    hash of its two children, the leafs are copied — and it is the explicit tree `Spec.treeNodes` -/
theorem from_digests_spec (filler : D) (cutoff : Nat) {ds : List D} {h : Nat} (hn : ds.length = 2^h) :
    ∃ t, fromDigests H filler cutoff ds = .ok t ∧ Spec.IsMerkleTree H filler ds t.nodes ∧
      t.nodes = Spec.treeNodes H filler h ds := by
  obtain ⟨t, h1, h2⟩ := fromDigests_ok H filler cutoff hn
  exact ⟨t, h1, h2, merkle_eq_treeNodes H hn h2⟩
example : ([1, 2, 3, 4] : List Nat).length = 2^2 := by decide

/-- the result does not depend on the cut-off (hence not on the environment variable) -/
theorem from_digests_cutoff_independent (filler : D) (c c' : Nat) (ds : List D) :
    fromDigests H filler c ds = fromDigests H filler c' ds := by
  by_cases he : ds = []
  · subst he; rw [fromDigests_empty, fromDigests_empty]
  · by_cases hp : ∃ h, ds.length = 2^h
    · obtain ⟨h, hn⟩ := hp
      obtain ⟨t, h1, _, e1⟩ := from_digests_spec H filler c hn
      obtain ⟨t', h2, _, e2⟩ := from_digests_spec H filler c' hn
      rw [h1, h2]
      cases t; cases t'
      simp only at e1 e2
      rw [e1, e2]
    · rw [fromDigests_not_pow2 H filler c he hp, fromDigests_not_pow2 H filler c' he hp]
example : fromDigests Hx 0 0 [1, 2, 3, 4] = fromDigests Hx 0 (2^30) [1, 2, 3, 4] := from_digests_cutoff_independent Hx 0 _ _ _

/-- **one parallel level gives the same result under every schedule**: whatever the order in which the tasks of a level
    complete (any permutation of `0..cnt`: any thread count, chunking, interleaving), the level is the pure `map` -/
theorem par_level_schedule_independent (sched : List Nat) (nodes : List D) (cnt : Nat)
    (hp : sched.Perm (List.range cnt)) : parLevelSched H sched nodes cnt = parLevel H nodes cnt :=
  parLevelSched_eq H sched nodes cnt hp
example : (roundRobin 3 8).Perm (List.range 8) ∧ roundRobin 3 8 = [0, 3, 6, 1, 4, 7, 2, 5] := by decide

/-- **construction gives the same result under every schedule and every cut-off**: with every parallel level running
    under an arbitrary schedule (a permutation of its tasks), `from_digests` returns what the sequential model returns —
    hence (by `from_digests_spec`) the tree whose every inner node is the hash of its children -/
theorem from_digests_schedule_independent (scheds : Nat → List Nat)
    (hs : ∀ cnt, (scheds cnt).Perm (List.range cnt)) (filler : D) (cutoff cutoff' : Nat) (ds : List D) :
    fromDigestsSched H scheds filler cutoff ds = fromDigests H filler cutoff' ds := by
  rw [fromDigestsSched_eq H scheds hs, from_digests_cutoff_independent H filler cutoff cutoff']
example : fromDigestsSched Hx (roundRobin 3) 0 0 [1, 2, 3, 4, 5, 6, 7, 8] = fromDigests Hx 0 (2^30) [1, 2, 3, 4, 5, 6, 7, 8] ∧
    fromDigestsSched Hx (roundRobin 3) 0 0 [1, 2, 3, 4, 5, 6, 7, 8]
      = .ok ⟨[0, 2825, 193, 449, 14, 30, 46, 62, 1, 2, 3, 4, 5, 6, 7, 8]⟩ := by decide +kernel

/-- a schedule that skips a task is *not* harmless (the hypothesis of the theorem is needed): `collect_into_vec` would
    hand back an unwritten slot -/
theorem schedule_must_cover_all_tasks :
    parLevelSched Hx [0] [0, 0, 0, 0, 1, 2, 3, 4] 2 = .panic ∧
    parLevel Hx [0, 0, 0, 0, 1, 2, 3, 4] 2 = .ok [0, 0, 14, 30, 1, 2, 3, 4] := by
  decide +kernel

/-- **rejection**: no leafs, or a number of leafs that is not a power of two, is an error for every cut-off; and
    conversely a tree is only ever returned for a power of two -/
theorem from_digests_rejects (filler : D) (cutoff : Nat) (ds : List D) :
    (ds = [] → fromDigests H filler cutoff ds = .err .tooFewLeafs) ∧
    (ds ≠ [] → (¬ ∃ h, ds.length = 2^h) → fromDigests H filler cutoff ds = .err .incorrectNumberOfLeafs) ∧
    (∀ t, fromDigests H filler cutoff ds = .ok t → ∃ h, ds.length = 2^h) := by
  refine ⟨fun he => by subst he; exact fromDigests_empty H filler cutoff,
    fun he hp => fromDigests_not_pow2 H filler cutoff he hp, ?_⟩
  intro t ht
  by_cases he : ds = []
  · subst he; rw [fromDigests_empty] at ht; cases ht
  · apply Classical.byContradiction
    intro hp
    rw [fromDigests_not_pow2 H filler cutoff he hp] at ht; cases ht
example : fromDigests Hx 0 0 [1, 2, 3] = .err .incorrectNumberOfLeafs := by decide +kernel

/-- **the authentication structure is exactly the documented minimal node set**: for in-range indices (any order,
    repetitions) `authentication_structure` returns the tree's nodes at `Spec.needed h idxs`, and that list is strictly
    descending (so de-duplicated) and consists exactly of the non-root nodes that are needed (their sibling is
    computable) but not computable themselves -/
theorem auth_structure_minimal (filler : D) {ds : List D} {h : Nat} {t : Tree D} (hn : ds.length = 2^h) (hh : h ≤ 31)
    (hm : Spec.IsMerkleTree H filler ds t.nodes) {idxs : List Nat} (hi : ∀ i ∈ idxs, i < 2^h) :
    authIdx (2^h) idxs = .ok (Spec.needed h idxs) ∧
    t.authStructure idxs = .ok ((Spec.needed h idxs).map (fun k => (t.nodes[k]?).getD filler)) ∧
    (∀ k ∈ Spec.needed h idxs, (t.nodes[k]?).isSome) ∧
    (Spec.needed h idxs).Pairwise (· > ·) ∧
    (∀ k, k ∈ Spec.needed h idxs ↔
      (k < 2^(h+1) ∧ 2 ≤ k ∧ Spec.covered h idxs k = false ∧ Spec.covered h idxs (sib k) = true)) := by
  refine ⟨authIdx_eq_needed (by omega) hi, tree_authStructure H hn (by omega) hm hi, ?_, needed_desc h idxs,
    fun k => mem_needed⟩
  intro k hk
  have hlt : k < t.nodes.length := by rw [hm.1, hn, ← two_pow_succ]; exact (mem_needed.1 hk).1
  rw [List.getElem?_eq_getElem hlt]; rfl
example : Spec.needed 3 [0, 2, 0] = [11, 9, 3] := by decide +kernel

/-- **honest proofs verify**: for every list of in-range leaf indices — any order, with repetitions — the inclusion proof
    produced from a tree built with any cut-off is accepted against the tree's root (no panic anywhere) -/
theorem honest_proof_verifies (filler : D) (cutoff : Nat) {ds : List D} {h : Nat} {t : Tree D} (hn : ds.length = 2^h)
    (hh : h ≤ MAX_TREE_HEIGHT) (ht : fromDigests H filler cutoff ds = .ok t) {idxs : List Nat}
    (hi : ∀ i ∈ idxs, i < ds.length) :
    ∃ p root, t.inclusionProof idxs = .ok p ∧ t.root = .ok root ∧ verify H p root = .ok true := by
  have hh' : h ≤ 31 := hh
  obtain ⟨t', ht', hm⟩ := fromDigests_ok H filler cutoff hn
  rw [ht] at ht'; cases ht'
  have hi' : ∀ i ∈ idxs, i < 2^h := fun i hx => by rw [← hn]; exact hi i hx
  have hsz : t.nodes.length ≤ USIZE := by
    rw [hm.1, hn, ← two_pow_succ]
    have : 2^(h+1) ≤ 2^32 := two_pow_le_of_le (by omega)
    have : (2:Nat)^32 ≤ 2^64 := by decide
    unfold USIZE; omega
  refine ⟨_, _, tree_inclusionProof H hn (by omega) hm hsz hi', tree_root H hn hm, ?_⟩
  rw [verify_eq_refVerify]
  congr 1
  unfold Spec.refVerify
  by_cases hne : idxs = []
  · subst hne
    simp [Proof.isTrivial, honestProof, needed_nil]
  · rw [honest_wellFormed hh' hi', honest_refRoot H hn hh' hm hi' hne]
    simp
example : ∃ t, fromDigests Hx 0 1 [1, 2, 3, 4, 5, 6, 7, 8] = .ok t ∧
    (do let p ← t.inclusionProof [5, 0, 5]; let r ← t.root; verify Hx p r) = .ok true := ⟨_, rfl, by decide +kernel⟩

/-- **paths expand**: the honest proof for `idxs` expands (`into_authentication_paths`) to the individual sibling paths of
    the tree, in the order of `idxs`, and each path hashes its leaf up to the root -/
theorem paths_expand (filler : D) (cutoff : Nat) {ds : List D} {h : Nat} {t : Tree D} (hn : ds.length = 2^h)
    (hh : h ≤ MAX_TREE_HEIGHT) (ht : fromDigests H filler cutoff ds = .ok t) {idxs : List Nat}
    (hi : ∀ i ∈ idxs, i < ds.length) :
    ∃ p, t.inclusionProof idxs = .ok p ∧
      intoAuthPaths H p = .ok (idxs.map (fun i => authPath H (leafFn filler ds h) 0 h (i + 2^h))) ∧
      ∀ i ∈ idxs, t.root = .ok (foldPath H (i + 2^h) (leafFn filler ds h (i + 2^h))
        (authPath H (leafFn filler ds h) 0 h (i + 2^h))) := by
  have hh' : h ≤ 31 := hh
  obtain ⟨t', ht', hm⟩ := fromDigests_ok H filler cutoff hn
  rw [ht] at ht'; cases ht'
  have hi' : ∀ i ∈ idxs, i < 2^h := fun i hx => by rw [← hn]; exact hi i hx
  have hsz : t.nodes.length ≤ USIZE := by
    rw [hm.1, hn, ← two_pow_succ]
    have : 2^(h+1) ≤ 2^32 := two_pow_le_of_le (by omega)
    have : (2:Nat)^32 ≤ 2^64 := by decide
    unfold USIZE; omega
  refine ⟨_, tree_inclusionProof H hn (by omega) hm hsz hi', honest_paths H hn hh' hm hi', ?_⟩
  intro i hx
  rw [tree_root H hn hm]
  congr 1
  have := foldPath_authPath H (leafFn filler ds h) h 0 (i + 2^h)
  simp only [nodeVal, Nat.zero_add] at this
  rw [this]
  congr 1
  have := hi' i hx
  rw [Nat.div_eq_of_lt_le] <;> omega
example : (do let t ← fromDigests Hx 0 256 [1, 2, 3, 4]; let p ← t.inclusionProof [2, 1]; intoAuthPaths Hx p)
    = .ok [[4, 14], [1, 30]] := by decide +kernel

/-- an out-of-range index (anywhere in the list) is an error, not a panic, for every accessor that takes indices -/
theorem out_of_range_is_error (filler : D) (cutoff : Nat) {ds : List D} {h : Nat} {t : Tree D} (hn : ds.length = 2^h)
    (hh : h ≤ MAX_TREE_HEIGHT) (ht : fromDigests H filler cutoff ds = .ok t) {idxs : List Nat}
    (hbad : ∃ i ∈ idxs, ds.length ≤ i) :
    t.inclusionProof idxs = .err .leafIndexInvalid ∧ t.authStructure idxs = .err .leafIndexInvalid ∧
    t.indexedLeafs idxs = .err .leafIndexInvalid := by
  have hh' : h ≤ 31 := hh
  obtain ⟨t', ht', hm⟩ := fromDigests_ok H filler cutoff hn
  rw [ht] at ht'; cases ht'
  have hsz : t.nodes.length ≤ USIZE := by
    rw [hm.1, hn, ← two_pow_succ]
    have : 2^(h+1) ≤ 2^32 := two_pow_le_of_le (by omega)
    have : (2:Nat)^32 ≤ 2^64 := by decide
    unfold USIZE; omega
  exact ⟨tree_inclusionProof_err H hn hm hsz hbad, tree_authStructure_err H hn (by omega) hm hbad,
    tree_indexedLeafs_err H hm hsz hbad⟩
example : (do let t ← fromDigests Hx 0 256 [1, 2, 3, 4]; t.inclusionProof [2, 4]) = .err .leafIndexInvalid := by
  decide +kernel

/-! ## Regenerated-from-source bridge (tools/rs2lean_bt4.py, `TF/Gen/MerkleLoops.lean`)

`CpuParallel::from_digests` is regenerated from the text of `merkle_tree.rs` on every run: digests opaque (`D`),
`Tip5::hash_pair` = `H`, `Digest::default()` = `filler`, the lazily initialised `PARALLELIZATION_CUTOFF` = `cutoff`, the
rayon `into_par_iter().map(..).collect_into_vec(..)` a pure `List.map`; `d0` is the value read after an out-of-range index
(the `_ok` twin is false there).  Proofs: `TF/Proofs/GenBridgeMerkle.lean`. -/
section GenBridge
open TF.GenBridge.Merkle
open TF.Gen.Loops (merkle_from_digests merkle_from_digests_ok)
variable (d0 : D)

/-- **the regenerated `from_digests` is the hand model** — every hash function, every cut-off, every digest list that fits
    a 64-bit address space (`len < 2^63`; a `Vec<Digest>` holds at most `isize::MAX / 40` elements), digests opaque: no
    check of the `_ok` twin fails (no overflow, no index out of bounds, no `clone_from_slice` length mismatch) and the
    regenerated function, read through `toRes` (`Ok(nodes)` ↦ tree, the two error kinds), *is* `fromDigestsFuel` with the
    same fuel `len + 1` (`none` = out of fuel on both sides), hence `some (fromDigests …)`.  Contains: the lock-step of the
    `while` level loop with `parLoop` including `count_acc`, the bit trick of `is_power_of_two` = `2^log2 n == n`, the
    sequential loop = `seqLoop`, the initial vector and `digests.len() - count_acc` -/
theorem gen_from_digests_eq_model (filler : D) (cutoff : Nat) (ds : List D) (hlen : ds.length < 2^63) :
    merkle_from_digests_ok H d0 filler cutoff ds = true ∧
    (merkle_from_digests H d0 filler cutoff ds).map toRes = fromDigestsFuel H filler cutoff (ds.length + 1) ds ∧
    (merkle_from_digests H d0 filler cutoff ds).map toRes = some (fromDigests H filler cutoff ds) := by
  have key : merkle_from_digests_ok H d0 filler cutoff ds = true ∧
      (merkle_from_digests H d0 filler cutoff ds).map toRes = fromDigestsFuel H filler cutoff (ds.length + 1) ds := by
    by_cases he : ds = []
    · subst he; exact ⟨rfl, rfl⟩
    · have he' : ds.isEmpty = false := by cases ds <;> simp_all
      cases hp : TF.isPow2 ds.length
      · obtain ⟨h1, h2⟩ := gen_not_pow2 H d0 filler cutoff he hp
        refine ⟨h2, ?_⟩
        rw [h1, fromDigestsFuel]
        have hp' : TF.Merkle.isPow2 ds.length = false := by rw [← isPow2_trick_eq_model]; exact hp
        simp only [he', hp', Bool.false_eq_true, if_false, Bool.not_false, if_true]
        rfl
      · exact gen_pow2 H d0 filler cutoff he hp hlen
  refine ⟨key.1, key.2, ?_⟩
  obtain ⟨r, hr⟩ := from_digests_terminates H filler cutoff ds
  rw [key.2, fromDigests, hr]
example : (merkle_from_digests Hx 7 0 1 [1, 2, 3, 4]).map toRes = some (fromDigests Hx 0 1 [1, 2, 3, 4]) ∧
    fromDigests Hx 0 1 [1, 2, 3, 4] = .ok ⟨[0, 193, 14, 30, 1, 2, 3, 4]⟩ ∧
    (merkle_from_digests Hx 7 0 1 [1, 2, 3]).map toRes = some (.err .incorrectNumberOfLeafs) ∧
    (merkle_from_digests Hx 7 0 1 []).map toRes = some (.err .tooFewLeafs) := by decide +kernel

/-- the excluded inputs: for a power-of-two number of digests from `2^63` on, `vec![default; 2 * n]` overflows `usize`
    (the `_ok` twin is false); such a vector cannot exist in a 64-bit address space -/
theorem gen_from_digests_beyond_address_space (filler : D) (cutoff : Nat) (ds : List D) (hlen : 2^63 ≤ ds.length)
    (hp : TF.isPow2 ds.length = true) : merkle_from_digests_ok H d0 filler cutoff ds = false := by
  have he : ds.isEmpty = false := by
    cases ds with
    | nil => simp at hlen
    | cons _ _ => rfl
  have c1 : decide (2 * ds.length < 18446744073709551616) = false := decide_eq_false (by omega)
  unfold merkle_from_digests_ok
  simp only [he, Bool.false_eq_true, if_false, pow2_trick, hp, Bool.not_true, c1, Bool.false_and]
example (ds : List Nat) (h : ds.length = 2^63) : 2^63 ≤ ds.length ∧ TF.isPow2 ds.length = true :=
  ⟨Nat.le_of_eq h.symm, (isPow2_trick_iff _).2 ⟨63, h⟩⟩

/-- **TRANSFER**: `from_digests_terminates`, `from_digests_spec`, `from_digests_cutoff_independent` and
    `from_digests_schedule_independent` hold of the function *as regenerated from the current source*: (i) it finishes
    within its fuel for every cut-off (0, 1, …, larger than the tree) with no failing check; (ii) for `2^h` leafs it returns
    the Merkle tree — every inner node the hash of its children, leafs copied — which is the explicit tree
    `Spec.treeNodes`; (iii) its result does not depend on the cut-off; (iv) under every thread schedule of every parallel
    level (any permutation of the tasks) and any cut-off, the task-level model of the rayon run returns what the
    regenerated sequential reading returns -/
theorem gen_from_digests_transfer (filler : D) (ds : List D) (hlen : ds.length < 2^63) :
    (∀ cutoff, merkle_from_digests_ok H d0 filler cutoff ds = true ∧
      ∃ r, merkle_from_digests H d0 filler cutoff ds = some r) ∧
    (∀ cutoff h, ds.length = 2^h → ∃ nodes, merkle_from_digests H d0 filler cutoff ds = some (.ok nodes) ∧
      Spec.IsMerkleTree H filler ds nodes ∧ nodes = Spec.treeNodes H filler h ds) ∧
    (∀ c c', merkle_from_digests H d0 filler c ds = merkle_from_digests H d0 filler c' ds) ∧
    (∀ (scheds : Nat → List Nat), (∀ cnt, (scheds cnt).Perm (List.range cnt)) → ∀ cutoff cutoff',
      some (fromDigestsSched H scheds filler cutoff ds) = (merkle_from_digests H d0 filler cutoff' ds).map toRes) := by
  have hspec : ∀ cutoff h, ds.length = 2^h → ∃ nodes, merkle_from_digests H d0 filler cutoff ds = some (.ok nodes) ∧
      Spec.IsMerkleTree H filler ds nodes ∧ nodes = Spec.treeNodes H filler h ds := by
    intro cutoff h hn
    obtain ⟨t, h1, h2, h3⟩ := from_digests_spec H filler cutoff hn
    have hg := (gen_from_digests_eq_model H d0 filler cutoff ds hlen).2.2
    rw [h1] at hg
    cases hr : merkle_from_digests H d0 filler cutoff ds with
    | none => rw [hr] at hg; cases hg
    | some r =>
      rw [hr] at hg
      cases r with
      | error e =>
        exfalso
        simp only [Option.map_some, toRes, Option.some.injEq] at hg
        split at hg <;> cases hg
      | ok nodes =>
        simp only [Option.map_some, toRes, Option.some.injEq, Res.ok.injEq] at hg
        subst hg
        exact ⟨nodes, rfl, h2, h3⟩
  refine ⟨fun cutoff => ?_, hspec, fun c c' => ?_, fun scheds hs cutoff cutoff' => ?_⟩
  · obtain ⟨h1, _, h3⟩ := gen_from_digests_eq_model H d0 filler cutoff ds hlen
    refine ⟨h1, ?_⟩
    cases hr : merkle_from_digests H d0 filler cutoff ds with
    | none => rw [hr] at h3; cases h3
    | some r => exact ⟨r, rfl⟩
  · by_cases he : ds = []
    · subst he; rfl
    · cases hp : TF.isPow2 ds.length
      · rw [(gen_not_pow2 H d0 filler c he hp).1, (gen_not_pow2 H d0 filler c' he hp).1]
      · obtain ⟨h, hn⟩ := (isPow2_trick_iff _).1 hp
        obtain ⟨n1, e1, _, t1⟩ := hspec c h hn
        obtain ⟨n2, e2, _, t2⟩ := hspec c' h hn
        rw [e1, e2, t1, t2]
  · rw [(gen_from_digests_eq_model H d0 filler cutoff' ds hlen).2.2,
      from_digests_schedule_independent H scheds hs filler cutoff cutoff' ds]
/-- non-vacuity: eight leafs, two parallel levels then the sequential loop (cut-off 2), all sequential (cut-off 2^30),
    all parallel (cut-off 0), and a round-robin schedule on three threads -/
example : (merkle_from_digests Hx 7 0 2 [1, 2, 3, 4, 5, 6, 7, 8]).map toRes
      = some (.ok ⟨[0, 2825, 193, 449, 14, 30, 46, 62, 1, 2, 3, 4, 5, 6, 7, 8]⟩) ∧
    (merkle_from_digests Hx 7 0 (2^30) [1, 2, 3, 4, 5, 6, 7, 8]).map toRes
      = (merkle_from_digests Hx 7 0 0 [1, 2, 3, 4, 5, 6, 7, 8]).map toRes ∧
    merkle_from_digests_ok Hx 7 0 0 [1, 2, 3, 4, 5, 6, 7, 8] = true ∧
    some (fromDigestsSched Hx (roundRobin 3) 0 0 [1, 2, 3, 4, 5, 6, 7, 8])
      = (merkle_from_digests Hx 7 0 2 [1, 2, 3, 4, 5, 6, 7, 8]).map toRes := by decide +kernel

end GenBridge

end TF.C10
