import TF.Proofs.Codec
import TF.Proofs.GenBridgeCodec
import TF.Proofs.GenBridgeCodecGeneric
/-!
# C13 — decoding is total, strict and resource-bounded on arbitrary sequences

Same model as C03 (`TF/Model/Codec.lean`), tied to the crate by the correspondence family `codec13`
(near-valid sequences, `catch_unwind`, allocation-counting global allocator).

Notation: `Good s` — the sequence consists of canonical field elements (`Canon s`) and has fewer than `2^32` elements
(longer sequences cannot be materialised; beyond that `sequence_index + item_length` could overflow `usize`, which the
model turns into `Outcome.panic`). `NoZeroWidthItems t` — decidable; excludes exactly the class of finding F10, for
which the negation is proved below (`zero_width_*`). `Val.size` counts the nodes of a decoded value, `Ty.size` the
nodes of the type expression (a constant per type).

Memory itself is not observable in Lean: what is proved is that the *decoded value* (everything `decode` ever
returns) is linear in the sequence length whatever the length fields say, and that counts are bounded by the
sequence length, and that the work done on *any* outcome is linear too (`decode_work_bound`). That the Rust code does not pre-allocate from untrusted counts is tested by the harness
(peak bytes per decode ≤ 512·(len+1)+4096), not proved.
-/
namespace TF.C13
open TF.Codec

/-- **Never a panic or arithmetic overflow**: every type without zero-width list items, every canonical sequence. -/
theorem decode_never_panics (t : Ty) (s : List Nat) (hz : NoZeroWidthItems t) (hc : Canon s)
    (hl : s.length < 2^32) : decode t s ≠ .panic :=
  TF.Codec.decode_ne_panic t s hz ⟨hc, hl⟩
example : NoZeroWidthItems (.vec (.tuple [.phantom, .vec (.option .u128)])) ∧
    Canon [18446744069414584320, 4294967296, 0] ∧ [18446744069414584320, 4294967296, 0].length < 2^32 := by decide

/-- **Total and strict**: the outcome is either an error, or a well-typed value whose one and only encoding is the
    input sequence. -/
theorem decode_total_strict (t : Ty) (s : List Nat) (hz : NoZeroWidthItems t) (hc : Canon s) (hl : s.length < 2^32) :
    (∃ k, decode t s = .err k) ∨ (∃ v, decode t s = .ok v ∧ HasTy t v ∧ encode t v = s) := by
  cases h : decode t s with
  | ok v => exact .inr ⟨v, rfl, TF.Codec.decode_hasTy t s v hc h, TF.Codec.encode_decode t s v h⟩
  | err k => exact .inl ⟨k, rfl⟩
  | panic => exact absurd h (TF.Codec.decode_ne_panic t s hz ⟨hc, hl⟩)
example : decode (.tuple [.u32, .vec .u8]) [2, 1, 7, 9] = .ok (.list [.num 9, .list [.num 7]]) := rfl

/-- **Everything that is not the encoding of a value is rejected** (strictness at full strength). -/
theorem rejects_everything_else (t : Ty) (s : List Nat) (hz : NoZeroWidthItems t) (hc : Canon s)
    (hl : s.length < 2^32) (hne : ∀ v, HasTy t v → encode t v ≠ s) : ∃ k, decode t s = .err k := by
  rcases decode_total_strict t s hz hc hl with h | ⟨v, _, hv, he⟩
  · exact h
  · exact absurd he (hne v hv)
example : decode (.tuple [.u32, .vec .u8]) [9, 1, 7, 9] = .err .tooShort := rfl

/-- **Resource bound**: whatever the length fields claim, a decoded value has at most `Ty.size t · max 1 |s|` nodes. -/
theorem decode_size_bound (t : Ty) (s : List Nat) (v : Val) (h : decode t s = .ok v) :
    v.size ≤ t.size * max 1 s.length :=
  TF.Codec.decode_size t s v h
example : decode (.vec (.vec .u8)) [2, 1, 0, 2, 1, 5] = .ok (.list [.list [], .list [.num 5]]) := rfl

/-- **Work bound, any outcome** (ok, err or panic): the number of decoder calls and loop iterations `decode t s`
    performs — `cost t s`, defined along the control flow of `decode` in `TF/Model/Codec.lean` — is at most
    `Ty.work t · max 1 |s|`, whatever counts and length prefixes the sequence contains. -/
theorem decode_work_bound (t : Ty) (s : List Nat) : cost t s ≤ t.work * max 1 s.length :=
  TF.Codec.cost_le t s
example : cost (.vec (.vec .u8)) [18446744069414584320, 2, 1, 5, 18446744069414584320] = 8 ∧
    decode (.vec (.vec .u8)) [18446744069414584320, 2, 1, 5, 18446744069414584320] = .err .tooShort ∧
    (Ty.vec (.vec .u8)).work = 7 := ⟨rfl, rfl, rfl⟩

/-- an accepted `Vec` never has more items than the sequence has elements (no type of the grammar without
    zero-width items; with them nothing is accepted at all, see `zero_width_vec_never_accepts`) -/
theorem vec_count_bounded (t : Ty) (n : Nat) (rest : List Nat) (v : Val)
    (h : decode (.vec t) (n :: rest) = .ok v) : n ≤ rest.length := by
  simp only [decode, decodeVec] at h
  obtain ⟨vs, hvs, rfl⟩ := Outcome.map_eq_ok.1 h
  unfold decodeList at hvs
  cases hs : staticLength t with
  | some w =>
    simp only [hs] at hvs
    split at hvs; · simp at hvs
    split at hvs; · simp at hvs
    split at hvs; · simp at hvs
    split at hvs; · simp at hvs
    rename_i h1 h2 h3 h4
    have : n * 1 ≤ n * w := Nat.mul_le_mul_left n (by omega)
    omega
  | none =>
    simp only [hs] at hvs
    split at hvs <;> simp at hvs
    rename_i vs' hd
    have h1 := decodeDyn_ok (fun x => encode t x) (fun c => decode t c) (fun c v hc => TF.Codec.encode_decode t c v hc)
      n 0 rest vs' [] hd
    have h2 : (encodeItems (fun x => encode t x) true vs').length ≥ vs'.length := by
      clear h1 hd hvs
      induction vs' with
      | nil => simp
      | cons x xs ih => simp only [encodeItems_cons, prefixed_true, List.length_append, List.length_cons]; omega
    rw [List.append_nil] at h1
    rw [← h1.1, ← h1.2]; exact h2
example : decode (.vec .u64) [9223372036854775808, 1, 2] = .err .invalidLen := rfl

/-! ## strictness, case by case -/

/-- a type of static length `n` accepts no canonical sequence of another length -/
theorem rejects_wrong_length (t : Ty) (s : List Nat) (n : Nat) (hz : NoZeroWidthItems t) (hc : Canon s)
    (hl : s.length < 2^32) (hs : staticLength t = some n) (hne : s.length ≠ n) : ∃ k, decode t s = .err k := by
  rcases decode_total_strict t s hz hc hl with h | ⟨v, _, hv, he⟩
  · exact h
  · exact absurd (he ▸ TF.Codec.encode_length_static t v n hv hs) hne
example : staticLength Ty.digest = some 5 ∧ decode Ty.digest [1, 2, 3, 4] = .err .tooShort ∧
    decode Ty.digest [1, 2, 3, 4, 5, 6] = .err .tooLong := ⟨rfl, rfl, rfl⟩

/-- 32-bit limbs: an element `≥ 2^32` is rejected in `u32`, `u64`, `u128`, `U32s<N>` -/
theorem rejects_limb_out_of_range_u32 (x : Nat) (h : 2^32 ≤ x) : decode .u32 [x] = .err .range := by
  simp only [decode, decodeSmall]; rw [if_neg (by omega)]
example : decode .u32 [4294967296] = .err .range ∧ decode .u32 [4294967295] = .ok (.num 4294967295) := ⟨rfl, rfl⟩
theorem rejects_limb_out_of_range_u64 (a b : Nat) (h : 2^32 ≤ a ∨ 2^32 ≤ b) : decode .u64 [a, b] = .err .range := by
  have : ([a, b].any fun x => decide (x > 2^32 - 1)) = true := by
    simp only [List.any_cons, List.any_nil, Bool.or_false, Bool.or_eq_true, decide_eq_true_eq]; omega
  simp [decode, decodeLimbs, this]
example : decode .u64 [4294967295, 4294967296] = .err .range ∧
    decode .u64 [4294967295, 4294967295] = .ok (.num (2^64 - 1)) := ⟨rfl, rfl⟩
theorem rejects_limb_out_of_range_u128 (a b c d : Nat) (h : 2^32 ≤ a ∨ 2^32 ≤ b ∨ 2^32 ≤ c ∨ 2^32 ≤ d) :
    decode .u128 [a, b, c, d] = .err .range := by
  have : ([a, b, c, d].any fun x => decide (x > 2^32 - 1)) = true := by
    simp only [List.any_cons, List.any_nil, Bool.or_false, Bool.or_eq_true, decide_eq_true_eq]; omega
  simp [decode, decodeLimbs, this]
example : decode .u128 [0, 0, 0, 18446744069414584320] = .err .range := rfl
theorem rejects_small_out_of_range (x : Nat) :
    (2^8 ≤ x → decode .u8 [x] = .err .range) ∧ (2^16 ≤ x → decode .u16 [x] = .err .range) := by
  constructor <;> intro h <;> simp only [decode, decodeSmall] <;> rw [if_neg (by omega)]
example : decode .u8 [256] = .err .range ∧ decode .u16 [65536] = .err .range := ⟨rfl, rfl⟩
/-- booleans and option tags greater than 1 -/
theorem rejects_bool_out_of_range (x : Nat) (h : 1 < x) : decode .bool [x] = .err .range := by
  simp only [decode, decodeSmall]; rw [if_neg (by omega)]
example : decode .bool [2] = .err .range ∧ decode .bool [1] = .ok (.num 1) := ⟨rfl, rfl⟩
theorem rejects_option_tag (t : Ty) (tag : Nat) (rest : List Nat) (h : 1 < tag) :
    decode (.option t) (tag :: rest) = .err .range := by
  simp only [decode]; rw [if_neg (by omega), if_neg (by omega)]
example : decode (.option .u8) [2, 7] = .err .range ∧ decode (.option .u8) [1, 7] = .ok (.opt (some (.num 7))) := ⟨rfl, rfl⟩
/-- a `None` followed by anything -/
theorem rejects_none_with_payload (t : Ty) (x : Nat) (rest : List Nat) :
    decode (.option t) (0 :: x :: rest) = .err .tooLong := by simp [decode]
/-- unknown enum discriminant -/
theorem rejects_unknown_discriminant (vars : List (List Ty)) (d : Nat) (rest : List Nat) (h : vars.length ≤ d) :
    decode (.enum vars) (d :: rest) = .err .badDiscriminant := by
  have : ∀ (vars : List (List Ty)) (d : Nat), vars.length ≤ d → decodeVariant vars d rest = .err .badDiscriminant := by
    intro vars
    induction vars with
    | nil => intro d _; simp [decodeVariant]
    | cons fs more ih =>
      intro d hd
      cases d with
      | zero => simp at hd
      | succ d => simp only [decodeVariant]; exact ih d (by simp at hd; omega)
  simp [decode, this vars d h]
example : decode (.enum [[], [.u8]]) [2, 7] = .err .badDiscriminant ∧
    decode (.enum [[], [.u8]]) [1, 7] = .ok (.variant 1 [.num 7]) := ⟨rfl, rfl⟩
/-- inconsistent count of a `Vec` with statically sized items -/
theorem rejects_inconsistent_count (t : Ty) (w n : Nat) (rest : List Nat) (hs : staticLength t = some w)
    (hne : rest.length ≠ n * w) : ∃ k, decode (.vec t) (n :: rest) = .err k := by
  simp only [decode, decodeVec, decodeList, hs]
  by_cases h1 : n * w ≥ 2^64
  · exact ⟨.invalidLen, by simp [h1]⟩
  · by_cases h2 : rest.length < n * w
    · exact ⟨.tooShort, by simp [h1, h2]⟩
    · exact ⟨.tooLong, by rw [if_neg h1, if_neg h2, if_pos (by omega)]; rfl⟩
example : staticLength .u64 = some 2 ∧ decode (.vec .u64) [2, 1, 0, 2] = .err .tooShort ∧
    decode (.vec .u64) [1, 1, 0, 2] = .err .tooLong := ⟨rfl, rfl, rfl⟩
/-- inconsistent length prefix of a dynamically sized tuple component / list item: the accepted sequence *is* the
    layout `prefix = length of the component's encoding` (instance of uniqueness) -/
theorem rejects_inconsistent_prefix (t : Ty) (ts : List Ty) (s : List Nat) (v : Val) (vs : List Val)
    (h : decode (.tuple (t :: ts)) s = .ok (.list (v :: vs))) :
    s = encodeFields ts vs ++ prefixed (isDyn t) (encode t v) := by
  have := TF.Codec.encode_decode _ s _ h
  simpa [encode, encodeFields] using this.symm
example : decode (.tuple [.vec .u8, .u32]) [9, 2, 1, 7] = .ok (.list [.list [.num 7], .num 9]) ∧
    decode (.tuple [.vec .u8, .u32]) [9, 3, 1, 7] = .err .tooShort ∧
    decode (.tuple [.vec .u8, .u32]) [9, 1, 0, 7] = .err .tooLong := ⟨rfl, rfl, rfl⟩
/-- a polynomial whose leading coefficient is zero is never accepted; an inconsistent length indicator neither -/
theorem rejects_poly_trailing_zero (t : Ty) (s : List Nat) (v : Val) (h : decode (.poly t) s = .ok v) :
    ∃ cs, v = .list cs ∧ lastIsZero cs = false := by
  cases s with
  | nil => simp [decode] at h
  | cons ind rest =>
    simp only [decode] at h
    split at h; · simp at h
    split at h; · simp at h
    split at h
    · rename_i cs _
      split at h
      · simp at h
      · rename_i hz
        simp only [Outcome.ok.injEq] at h
        exact ⟨cs, h.symm, by simpa using hz⟩
    · simp at h
    · simp at h
theorem rejects_poly_bad_indicator (t : Ty) (ind : Nat) (rest : List Nat) (h : rest.length ≠ ind) :
    ∃ k, decode (.poly t) (ind :: rest) = .err k := by
  simp only [decode, List.length_cons]
  by_cases h1 : rest.length + 1 < ind + 1
  · exact ⟨.tooShort, by simp [h1]⟩
  · exact ⟨.tooLong, by rw [if_neg h1, if_pos (by omega)]⟩
example : decode (.poly .bfe) [3, 2, 5, 0] = .err .trailingZeros := rfl

/-! ## finding F10 in general form: list items of static width 0 -/

/-- `Vec<T>` with `T` of static width 0: decoding `[n]` panics for every `n` (`chunks_exact(0)`), … -/
theorem zero_width_vec_panics (t : Ty) (n : Nat) (hs : staticLength t = some 0) : decode (.vec t) [n] = .panic := by
  simp [decode, decodeVec, decodeList, hs]
example : staticLength (.array 0 .u32) = some 0 ∧ decode (.vec (.array 0 .u32)) [0] = .panic := ⟨rfl, rfl⟩
/-- … and no sequence whatsoever is accepted, in particular not the encoding of any vector -/
theorem zero_width_vec_never_accepts (t : Ty) (s : List Nat) (v : Val) (hs : staticLength t = some 0) :
    decode (.vec t) s ≠ .ok v := by
  cases s with
  | nil => simp [decode, decodeVec]
  | cons n rest =>
    simp only [decode, decodeVec, decodeList, hs, Nat.mul_zero, ne_eq, Outcome.map_eq_ok, not_exists, not_and]
    intro vs h
    split at h; · simp at h
    split at h; · simp at h
    split at h; · simp at h
    simp at h
example : staticLength (.struct []) = some 0 := rfl
/-- `[T; N]` with `T` of static width 0 accepts nothing either: `N > 0` rejects the (empty) encoding of every array
    value, `N = 0` panics on it -/
theorem zero_width_array_never_accepts (t : Ty) (n : Nat) (s : List Nat) (v : Val) (hs : staticLength t = some 0) :
    decode (.array n t) s ≠ .ok v := by
  simp only [decode]
  split
  · simp
  · simp only [decodeList, hs, Nat.mul_zero, ne_eq, Outcome.map_eq_ok, not_exists, not_and]
    intro vs h
    split at h; · simp at h
    split at h; · simp at h
    split at h; · simp at h
    simp at h
example : decode (.array 3 .phantom) [] = .err .empty ∧ decode (.array 0 .phantom) [] = .panic := ⟨rfl, rfl⟩
theorem zero_width_array_own_encoding (t : Ty) (n : Nat) (vs : List Val) (hs : staticLength t = some 0)
    (hv : HasTy (.array n t) (.list vs)) :
    encode (.array n t) (.list vs) = [] ∧
    decode (.array n t) [] = if n > 0 then .err .empty else .panic := by
  constructor
  · simp only [HasTy, hasTy, Bool.and_eq_true, beq_iff_eq, List.all_eq_true] at hv
    have := encodeItems_length_static (fun x => encode t x) 0 vs
      (fun x hx => TF.Codec.encode_length_static t x 0 (hv.2 x hx) hs)
    simp only [encode, isDyn, hs, Option.isNone_some]
    exact List.eq_nil_of_length_eq_zero (by simpa using this)
  · by_cases h : n > 0
    · simp [decode, h]
    · have : n = 0 := by omega
      subst this
      simp [decode, decodeList, hs]
example : staticLength (.tuple [.phantom, .array 0 .u32, .u32s 0, .struct []]) = some 0 := by decide

end TF.C13

/-! ## regenerated-from-source bridge: strictness and totality of the leaf decoders (P03)

Same regenerated definitions as in `TF/Props/C03.lean` (`TF/Gen/CodecLeaves.lean`, `TF.Gen.Loops.codec_*_decode`, written by
`tools/rs2lean_conv.py` from the macro bodies and impls of `bfield_codec.rs`; raw Montgomery words, `vals r = r.map
bfe_value`, errors are variant names, `f_ok` true iff `f` cannot overflow / index out of range / fail an `unwrap`).  The
bridges `gen_*_decode` (all sequences, `TF/Proofs/GenBridgeCodec.lean`) carry the strictness lemmas above over to the code
as it is in the source now. -/
namespace TF.C13
open TF.Codec TF.Gen TF.GenBridge.Codec

/-- **regenerated leaf decoders = hand model, on every sequence of words**, and none of them can panic (no arithmetic
    overflow in the limb sums, no index out of range): totality of the leaves for the code as it is now -/
theorem gen_leaf_decoders_eq_model (r : List Nat) :
    Loops.codec_u64_decode r = exceptNat (decode .u64 (vals r)) ∧
    Loops.codec_u128_decode r = exceptNat (decode .u128 (vals r)) ∧
    Loops.codec_u8_decode r = exceptNat (decode .u8 (vals r)) ∧
    Loops.codec_u16_decode r = exceptNat (decode .u16 (vals r)) ∧
    Loops.codec_u32_decode r = exceptNat (decode .u32 (vals r)) ∧
    Loops.codec_bool_decode r = exceptBool (decode .bool (vals r)) ∧
    exceptVal (Loops.codec_bfe_decode r) = exceptNat (decode .bfe (vals r)) ∧
    Loops.codec_u64_decode_ok r = true ∧ Loops.codec_u128_decode_ok r = true ∧ Loops.codec_u8_decode_ok r = true ∧
    Loops.codec_u16_decode_ok r = true ∧ Loops.codec_u32_decode_ok r = true ∧ Loops.codec_bool_decode_ok r = true ∧
    Loops.codec_bfe_decode_ok r = true :=
  ⟨(gen_u64_decode r).1, (gen_u128_decode r).1, (gen_u8_decode r).1, (gen_u16_decode r).1, (gen_u32_decode r).1,
    (gen_bool_decode r).1, (gen_bfe_decode r).1, (gen_u64_decode r).2, (gen_u128_decode r).2, (gen_u8_decode r).2,
    (gen_u16_decode r).2, (gen_u32_decode r).2, (gen_bool_decode r).2, (gen_bfe_decode r).2⟩
example : Loops.codec_u64_decode [bfe_new 18446744069414584320, 0] = .error "ElementOutOfRange" ∧
    Loops.codec_u64_decode_ok [bfe_new 18446744069414584320, bfe_new 18446744069414584320] = true ∧
    Loops.codec_u128_decode_ok [bfe_new 4294967295, bfe_new 4294967295, bfe_new 4294967295, bfe_new 4294967295] = true := by
  decide +kernel

/-- **transfer** of `rejects_limb_out_of_range_u64` / `_u128`: a limb whose value is `≥ 2^32` is rejected with
    `ElementOutOfRange` by the regenerated decoders, wherever it stands -/
theorem gen_rejects_limb_out_of_range (a b c d : Nat) :
    ((2^32 ≤ bfe_value a ∨ 2^32 ≤ bfe_value b) → Loops.codec_u64_decode [a, b] = .error "ElementOutOfRange") ∧
    ((2^32 ≤ bfe_value a ∨ 2^32 ≤ bfe_value b ∨ 2^32 ≤ bfe_value c ∨ 2^32 ≤ bfe_value d) →
      Loops.codec_u128_decode [a, b, c, d] = .error "ElementOutOfRange") := by
  constructor
  · intro h
    rw [(gen_u64_decode [a, b]).1]
    show exceptNat (decode .u64 [bfe_value a, bfe_value b]) = _
    rw [rejects_limb_out_of_range_u64 _ _ h]; rfl
  · intro h
    rw [(gen_u128_decode [a, b, c, d]).1]
    show exceptNat (decode .u128 [bfe_value a, bfe_value b, bfe_value c, bfe_value d]) = _
    rw [rejects_limb_out_of_range_u128 _ _ _ _ h]; rfl
example : (2:Nat)^32 ≤ bfe_value (bfe_new 4294967296) ∧
    Loops.codec_u128_decode [0, bfe_new 4294967296, 0, 0] = .error "ElementOutOfRange" ∧
    Loops.codec_u128_decode [0, bfe_new 4294967295, 0, 0] = .ok 18446744069414584320 := by decide +kernel

/-- **transfer** of `rejects_small_out_of_range`, `rejects_limb_out_of_range_u32`, `rejects_bool_out_of_range`: values that
    do not fit are rejected with `ElementOutOfRange` by the regenerated `u8` / `u16` / `u32` / `bool` decoders -/
theorem gen_rejects_small_and_bool_out_of_range (a : Nat) :
    (2^8 ≤ bfe_value a → Loops.codec_u8_decode [a] = .error "ElementOutOfRange") ∧
    (2^16 ≤ bfe_value a → Loops.codec_u16_decode [a] = .error "ElementOutOfRange") ∧
    (2^32 ≤ bfe_value a → Loops.codec_u32_decode [a] = .error "ElementOutOfRange") ∧
    (1 < bfe_value a → Loops.codec_bool_decode [a] = .error "ElementOutOfRange") := by
  refine ⟨fun h => ?_, fun h => ?_, fun h => ?_, fun h => ?_⟩
  · rw [(gen_u8_decode [a]).1]
    show exceptNat (decode .u8 [bfe_value a]) = _
    rw [(rejects_small_out_of_range _).1 h]; rfl
  · rw [(gen_u16_decode [a]).1]
    show exceptNat (decode .u16 [bfe_value a]) = _
    rw [(rejects_small_out_of_range _).2 h]; rfl
  · rw [(gen_u32_decode [a]).1]
    show exceptNat (decode .u32 [bfe_value a]) = _
    rw [rejects_limb_out_of_range_u32 _ h]; rfl
  · rw [(gen_bool_decode [a]).1]
    show exceptBool (decode .bool [bfe_value a]) = _
    rw [rejects_bool_out_of_range _ h]; rfl
example : (2:Nat)^8 ≤ bfe_value (bfe_new 256) ∧ Loops.codec_u8_decode [bfe_new 256] = .error "ElementOutOfRange" ∧
    Loops.codec_u8_decode [bfe_new 255] = .ok 255 ∧ Loops.codec_bool_decode [bfe_new 2] = .error "ElementOutOfRange" ∧
    Loops.codec_bool_decode [bfe_new 1] = .ok true ∧ Loops.codec_bool_decode [bfe_new 0] = .ok false := by
  decide +kernel

/-- **transfer** of `rejects_wrong_length`: the regenerated leaf decoders accept only sequences of exactly their static
    length, and say which way the length is wrong -/
theorem gen_rejects_wrong_length (r : List Nat) (n : Nat) :
    (Loops.codec_u64_decode r = .ok n → some r.length = Loops.codec_u64_static_length) ∧
    (Loops.codec_u128_decode r = .ok n → some r.length = Loops.codec_u128_static_length) ∧
    (Loops.codec_u8_decode r = .ok n → some r.length = Loops.codec_u8_static_length) ∧
    (Loops.codec_u16_decode r = .ok n → some r.length = Loops.codec_u16_static_length) ∧
    (Loops.codec_u32_decode r = .ok n → some r.length = Loops.codec_u32_static_length) ∧
    (r = [] → Loops.codec_u64_decode r = .error "EmptySequence" ∧ Loops.codec_u8_decode r = .error "EmptySequence") ∧
    (0 < r.length → r.length < 2 → Loops.codec_u64_decode r = .error "SequenceTooShort") ∧
    (2 < r.length → Loops.codec_u64_decode r = .error "SequenceTooLong") ∧
    (0 < r.length → r.length < 4 → Loops.codec_u128_decode r = .error "SequenceTooShort") ∧
    (4 < r.length → Loops.codec_u128_decode r = .error "SequenceTooLong") ∧
    (1 < r.length → Loops.codec_u8_decode r = .error "SequenceTooLong" ∧ Loops.codec_u16_decode r = .error "SequenceTooLong" ∧
      Loops.codec_u32_decode r = .error "SequenceTooLong") := by
  have hl : (vals r).length = r.length := by unfold vals; rw [List.length_map]
  have lim : ∀ k, exceptNat (decodeLimbs k (vals r)) = .ok n → r.length = k := by
    intro k h
    unfold decodeLimbs at h
    by_cases h1 : (vals r).isEmpty = true
    · rw [if_pos h1] at h; simp only [exceptNat] at h; cases h
    · rw [if_neg h1] at h
      by_cases h2 : (vals r).length < k
      · rw [if_pos h2] at h; simp only [exceptNat] at h; cases h
      · rw [if_neg h2] at h
        by_cases h3 : (vals r).length > k
        · rw [if_pos h3] at h; simp only [exceptNat] at h; cases h
        · omega
  have sm : ∀ b, exceptNat (decodeSmall b (vals r)) = .ok n → r.length = 1 := by
    intro b h
    match r, h with
    | [_], _ => rfl
    | [], h => simp only [vals, List.map_nil, decodeSmall, exceptNat] at h; cases h
    | _ :: _ :: _, h => simp only [vals, List.map_cons, decodeSmall, exceptNat] at h; cases h
  have d64 : decode .u64 (vals r) = decodeLimbs 2 (vals r) := by simp only [decode]
  have d128 : decode .u128 (vals r) = decodeLimbs 4 (vals r) := by simp only [decode]
  have d8 : decode .u8 (vals r) = decodeSmall (2^8) (vals r) := by simp only [decode]
  have d16 : decode .u16 (vals r) = decodeSmall (2^16) (vals r) := by simp only [decode]
  have d32 : decode .u32 (vals r) = decodeSmall (2^32) (vals r) := by simp only [decode]
  refine ⟨fun h => ?_, fun h => ?_, fun h => ?_, fun h => ?_, fun h => ?_, fun h => ?_, fun h0 h => ?_, fun h => ?_,
    fun h0 h => ?_, fun h => ?_, fun h => ?_⟩
  · rw [(gen_u64_decode r).1, d64] at h; rw [lim 2 h]; rfl
  · rw [(gen_u128_decode r).1, d128] at h; rw [lim 4 h]; rfl
  · rw [(gen_u8_decode r).1, d8] at h; rw [sm _ h]; rfl
  · rw [(gen_u16_decode r).1, d16] at h; rw [sm _ h]; rfl
  · rw [(gen_u32_decode r).1, d32] at h; rw [sm _ h]; rfl
  · subst h; exact ⟨rfl, rfl⟩
  · match r, h0, h with
    | [_], _, _ => rfl
  · match r, h with
    | _ :: _ :: _ :: _, _ => rfl
  · match r, h0, h with
    | [_], _, _ => rfl
    | [_, _], _, _ => rfl
    | [_, _, _], _, _ => rfl
  · match r, h with
    | _ :: _ :: _ :: _ :: _ :: _, _ => rfl
  · match r, h with
    | _ :: _ :: _, _ => exact ⟨rfl, rfl, rfl⟩
example : Loops.codec_u64_decode [0] = .error "SequenceTooShort" ∧ Loops.codec_u128_decode [0, 0, 0, 0, 0] = .error "SequenceTooLong" ∧
    Loops.codec_u32_decode [0, 0] = .error "SequenceTooLong" := by decide +kernel

end TF.C13

/-! ## regenerated-from-source bridge: the generic combinators (BT8)

The list decoders and the `Vec<T>` / `[T; N]` / `Option<T>` / `Box<T>` / `PhantomData<T>` decoders regenerated from the source
(`TF/Gen/CodecGeneric.lean`, `tools/rs2lean_codec.py`; bridges in `TF/Props/C03.lean`, proofs in
`TF/Proofs/GenBridgeCodecGeneric.lean`).  `Item G toVal (decode ty)`: the regenerated decoder `G` (on `u64` words, into
`Res = ok | err | panic`) is observed as the model's `decode ty` on the canonical values.  The strictness / totality
theorems of this file are restated for such decoders and, directly, for the regenerated combinators with an arbitrary
item codec. -/
namespace TF.C13
open TF.Codec TF.Gen TF.GenBridge.Codec TF.GenBridge.CodecG TF.RustStd

/-- **transfer of `decode_never_panics`**: a regenerated decoder observed as `decode ty` never panics on fewer than `2^32`
    words when `ty` has no zero-width list items … -/
theorem gen_decode_never_panics {ε α : Type} (ty : Ty) (G : List Nat → Res ε α) (toVal : α → Val)
    (h : Item G toVal (decode ty)) (hz : NoZeroWidthItems ty) (r : List Nat) (hw : Words r) (hl : r.length < 2^32) :
    (G r).noPanic = true :=
  item_noPanic h r hw (decode_never_panics ty (vals r) hz (canon_vals r hw) (by rw [vals_length]; exact hl))

/-- … and the excluded class is real in the regenerated code (F10): with a zero-width item type the regenerated `Vec`
    decoder panics on `[n]`, whatever the item decoder is -/
theorem gen_zero_width_vec_panics {ε α : Type} (T_decode : List Nat → Res ε α) (into : ε → DynErr) (x : Nat) :
    (Loops.codec_decode_list_static (some 0) T_decode into x []).noPanic = false := by
  simp [Loops.codec_decode_list_static, Res.unwrapO, TF.RustStd.checked_mul, Res.need, Res.noPanic]

/-- **transfer of `vec_count_bounded`**: the regenerated `Vec` decoder accepts a count only if at least that many words
    follow (no allocation from the untrusted count) -/
theorem gen_vec_count_bounded {ε α : Type} (t : Ty) (T_decode : List Nat → Res ε α) (into : ε → DynErr) (toVal : α → Val)
    (h : Item T_decode toVal (decode t)) (x : Nat) (rest : List Nat) (hw : Words (x :: rest)) (l : List α)
    (hg : Loops.codec_vec_decode (staticLength t) T_decode into (x :: rest) = .ok l) : bfe_value x ≤ rest.length := by
  have := item_ok (vec_item t T_decode into toVal h) (x :: rest) hw l hg
  rw [vals_cons] at this
  have := vec_count_bounded t _ _ _ this
  rwa [vals_length] at this

/-- **transfer of `rejects_inconsistent_count`**: statically sized items, remaining length ≠ count · width ⇒ rejected -/
theorem gen_rejects_inconsistent_count {ε α : Type} (t : Ty) (w : Nat) (hs : staticLength t = some w)
    (T_decode : List Nat → Res ε α) (into : ε → DynErr) (toVal : α → Val) (h : Item T_decode toVal (decode t))
    (x : Nat) (rest : List Nat) (hw : Words (x :: rest)) (hne : rest.length ≠ bfe_value x * w) :
    ∃ e, Loops.codec_vec_decode (staticLength t) T_decode into (x :: rest) = .err e := by
  obtain ⟨k, hk⟩ := rejects_inconsistent_count t w (bfe_value x) (vals rest) hs (by rw [vals_length]; exact hne)
  exact item_rejects (vec_item t T_decode into toVal h) (x :: rest) hw k (by rw [vals_cons]; exact hk)

/-- **transfer of `rejects_option_tag` / `rejects_none_with_payload`**: the regenerated `Option` decoder rejects a tag `> 1`
    and a `None` tag followed by anything -/
theorem gen_rejects_option_tag {ε α : Type} (t : Ty) (T_decode : List Nat → Res ε α) (into : ε → DynErr) (toVal : α → Val)
    (h : Item T_decode toVal (decode t)) (x : Nat) (rest : List Nat) (hw : Words (x :: rest)) :
    (1 < bfe_value x → ∃ e, Loops.codec_option_decode T_decode into (x :: rest) = .err e) ∧
    (bfe_value x = 0 → rest ≠ [] → ∃ e, Loops.codec_option_decode T_decode into (x :: rest) = .err e) := by
  refine ⟨fun h1 => ?_, fun h0 hne => ?_⟩
  · exact item_rejects (option_item t T_decode into toVal h) (x :: rest) hw .range
      (by rw [vals_cons]; exact rejects_option_tag t _ _ h1)
  · cases rest with
    | nil => exact absurd rfl hne
    | cons y ys =>
      exact item_rejects (option_item t T_decode into toVal h) (x :: y :: ys) hw .tooLong
        (by rw [vals_cons, vals_cons, h0]; exact rejects_none_with_payload t _ _)
/-- **transfer of `rejects_poly_trailing_zero`**: whatever the regenerated `Polynomial` decoder accepts has a non-zero last
    coefficient (also when there is exactly one coefficient) -/
theorem gen_rejects_poly_trailing_zero {ε α : Type} (t : Ty) (T_decode : List Nat → Res ε α) (into : ε → DynErr) (isz : α → Bool)
    (toVal : α → Val) (h : Item T_decode toVal (decode t)) (hz : ∀ a, isz a = valIsZero (toVal a)) (r : List Nat)
    (hw : Words r) (l : List α) (hg : Loops.codec_poly_decode (staticLength t) T_decode into isz r = .ok l) :
    lastIsZero (l.map toVal) = false := by
  have := item_ok (poly_item t T_decode into isz toVal h hz) r hw l hg
  obtain ⟨cs, hcs, hl⟩ := rejects_poly_trailing_zero t _ _ this
  cases hcs; exact hl
example : (Loops.codec_decode_list_static (some 0) (fun _ => (Res.ok () : Res String Unit)) (fun _ => ⟨""⟩) 3 []).noPanic = false :=
  gen_zero_width_vec_panics _ _ 3

end TF.C13
