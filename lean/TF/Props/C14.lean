import TF.Proofs.Codec
/-!
# C14 — the derive macro generates a correct, layout-compatible codec

The constructors `Ty.struct fs` (unit / named-field / tuple structs: `fs` = the *included* fields in declaration
order; `#[bfield_codec(ignore)]` fields are not part of the shape, the generated `decode` fills them with
`Default::default()`) and `Ty.enum vars` (variants in declaration order with their tuple fields) model what
`bfieldcodec_derive/src/lib.rs` generates. The quantifier over *all programs* of the shape grammar is the
quantifier over `fs : List Ty` / `vars : List (List Ty)` (any field count, any static/dynamic mix, any nesting —
generic parameters are instantiated types). The tie between the `quote!` templates and these constructors is a
finite corpus (family `derive`: 43 type definitions × both macro versions, compared bit for bit, plus 48 random shape definitions
generated from the seed by `harness/build.rs`) — see
`tools/props/C14.json`.

The theorems below are the C03/C13 guarantees *for these constructors* (the mutual induction of
`TF/Proofs/Codec.lean` covers them together with the hand-written types, so derived and hand-written types nest
freely), plus the documented layout.
-/
namespace TF.C14
open TF.Codec

/-- round trip for every derived struct and enum (fields of any codec type) -/
theorem derive_round_trip_struct (fs : List Ty) (vs : List Val) (hv : HasTy (.struct fs) (.list vs))
    (hz : NoZeroWidthItems (.struct fs)) (hb : (encode (.struct fs) (.list vs)).length < 2^64) :
    decode (.struct fs) (encode (.struct fs) (.list vs)) = .ok (.list vs) :=
  TF.Codec.decode_encode _ _ hv hz hb
example : HasTy (.struct [.vec .u32, .u8, .option (.struct [.u64])])
    (.list [.list [.num 1, .num 2], .num 255, .opt (some (.list [.num (2^64-1)]))]) := by decide
theorem derive_round_trip_enum (vars : List (List Ty)) (k : Nat) (vs : List Val)
    (hv : HasTy (.enum vars) (.variant k vs)) (hz : NoZeroWidthItems (.enum vars))
    (hb : (encode (.enum vars) (.variant k vs)).length < 2^64) :
    decode (.enum vars) (encode (.enum vars) (.variant k vs)) = .ok (.variant k vs) :=
  TF.Codec.decode_encode _ _ hv hz hb
example : HasTy (.enum [[], [.u8, .vec .u8, .u16], [.option .u8]]) (.variant 1 [.num 3, .list [.num 4], .num 5]) := by
  decide

/-- uniqueness: whatever generated `decode` accepts is the encoding of the decoded value -/
theorem derive_unique_struct (fs : List Ty) (s : List Nat) (v : Val) (h : decode (.struct fs) s = .ok v) :
    encode (.struct fs) v = s := TF.Codec.encode_decode _ s v h
theorem derive_unique_enum (vars : List (List Ty)) (s : List Nat) (v : Val) (h : decode (.enum vars) s = .ok v) :
    encode (.enum vars) v = s := TF.Codec.encode_decode _ s v h
example : decode (.enum [[], [.u32, .vec .u64]]) [1, 5, 2, 7, 0, 8, 0, 9] =
    .ok (.variant 1 [.num 9, .list [.num 7, .num 8]]) := rfl

/-- an accepted value has the right shape: an existing variant with well-typed fields / all fields well-typed -/
theorem derive_decode_welltyped (t : Ty) (s : List Nat) (v : Val) (hc : Canon s) (h : decode t s = .ok v) :
    HasTy t v := TF.Codec.decode_hasTy t s v hc h
example : Canon [1, 5, 2, 7, 0, 8, 0, 9] := by decide

/-- static length of generated impls is honoured by every encoding -/
theorem derive_static_length_spec (t : Ty) (v : Val) (n : Nat) (hv : HasTy t v) (hs : staticLength t = some n) :
    (encode t v).length = n := TF.Codec.encode_length_static t v n hv hs
example : staticLength (.enum [[.u64], [.u32, .u32], [.array 2 .u8]]) = some 3 := by decide

/-- total and strict: no panic, and nothing but the encoding of a value is accepted -/
theorem derive_total_strict (t : Ty) (s : List Nat) (hz : NoZeroWidthItems t) (hc : Canon s) (hl : s.length < 2^32) :
    (∃ k, decode t s = .err k) ∨ (∃ v, decode t s = .ok v ∧ HasTy t v ∧ encode t v = s) := by
  cases h : decode t s with
  | ok v => exact .inr ⟨v, rfl, TF.Codec.decode_hasTy t s v hc h, TF.Codec.encode_decode t s v h⟩
  | err k => exact .inl ⟨k, rfl⟩
  | panic => exact absurd h (TF.Codec.decode_ne_panic t s hz ⟨hc, hl⟩)
example : NoZeroWidthItems (.struct [.enum [[], [.vec (.struct [.u8])]], .u32]) := by decide

/-! ## documented layout -/

/-- struct: the included fields in **reverse** declaration order, each length-prefixed iff its type is dynamically
    sized; ignored fields do not occur -/
theorem derive_layout_struct (fs : List Ty) (vs : List Val) :
    encode (.struct fs) (.list vs) =
      ((fs.zip vs).reverse.flatMap fun tv => prefixed (isDyn tv.1) (encode tv.1 tv.2)) := by
  have : ∀ (ts : List Ty) (vs : List Val),
      encodeFields ts vs = ((ts.zip vs).reverse.flatMap fun tv => prefixed (isDyn tv.1) (encode tv.1 tv.2)) := by
    intro ts
    induction ts with
    | nil => intro vs; simp [encodeFields]
    | cons t ts ih =>
      intro vs
      cases vs with
      | nil => simp [encodeFields]
      | cons v vs => simp [encodeFields, ih vs]
  simp [encode, this]
example : encode (.struct [.u32, .vec .u8, .u64]) (.list [.num 9, .list [.num 1, .num 2], .num (2^32)]) =
    [0, 1, 3, 2, 1, 2, 9] := rfl

/-- enum: the **discriminant first** (index of the variant in declaration order), then the variant's fields laid
    out like a struct -/
theorem derive_layout_enum (vars : List (List Ty)) (k : Nat) (fs : List Ty) (vs : List Val) (h : vars[k]? = some fs) :
    encode (.enum vars) (.variant k vs) = k :: encode (.struct fs) (.list vs) := by
  simp [encode, TF.Codec.encodeVariant_eq vars k fs vs h]
example : encode (.enum [[], [.u32, .vec .u64]]) (.variant 1 [.num 9, .list [.num 7, .num 8]]) = [1, 5, 2, 7, 0, 8, 0, 9] :=
  rfl

/-- the length prefix of a field is present iff the field type's `static_length()` is `None` -/
theorem derive_prefix_iff_dynamic (t : Ty) (e : List Nat) :
    prefixed (isDyn t) e = if staticLength t = none then e.length :: e else e := by
  unfold isDyn prefixed
  cases staticLength t <;> simp

/-- struct static length: the sum of the field lengths if all are static, else `None` -/
theorem derive_static_length_struct (fs : List Ty) :
    staticLength (.struct fs) =
      if fs.all (fun t => (staticLength t).isSome) then some ((fs.map fun t => (staticLength t).getD 0).sum) else none := by
  simp only [staticLength]
  induction fs with
  | nil => simp [staticLengthSum]
  | cons t ts ih =>
    simp only [staticLengthSum, ih, List.all_cons, List.map_cons, List.sum_cons]
    cases h1 : staticLength t with
    | none => simp
    | some a =>
      by_cases h2 : (ts.all fun t => (staticLength t).isSome) = true
      · simp [h2]
      · simp [h2]
example : staticLength (.struct [.u64, .array 3 .u32, .phantom]) = some 5 ∧ staticLength (.struct [.u64, .vec .u8]) = none := by
  decide

/-- enum static length: `Some(w + 1)` iff every variant is static of the same width `w` (at least one variant) -/
theorem derive_static_length_enum (fs : List Ty) (rest : List (List Ty)) (n : Nat) :
    staticLength (.enum (fs :: rest)) = some n ↔
      ∃ w, n = w + 1 ∧ ∀ gs ∈ fs :: rest, staticLength (.struct gs) = some w := by
  have hw : ∀ (vars : List (List Ty)) (w : Nat),
      variantsHaveWidth vars w = true ↔ ∀ gs ∈ vars, staticLengthSum gs = some w := by
    intro vars w
    induction vars with
    | nil => simp [variantsHaveWidth]
    | cons g more ih => rw [variantsHaveWidth_cons, ih]; simp
  simp only [staticLength]
  constructor
  · intro h
    obtain ⟨w, rfl, hv⟩ := staticLengthEnum_some h
    exact ⟨w, rfl, (hw _ w).1 hv⟩
  · rintro ⟨w, rfl, hall⟩
    have h1 := hall fs (by simp)
    have h2 : variantsHaveWidth rest w = true := (hw rest w).2 (fun gs hg => hall gs (by simp [hg]))
    simp [staticLengthEnum, h1, h2]
example : staticLength (.enum [[], [.u32]]) = none ∧ staticLength (.enum [[.u32], [.u32]]) = some 2 ∧
    staticLength (.enum [[], [], []]) = some 1 ∧ staticLength (.enum [[.phantom], []]) = some 1 := by decide

/-! ## strict decoding of generated impls -/

/-- decoding reads the discriminant first and rejects unknown ones -/
theorem derive_rejects_unknown_discriminant (vars : List (List Ty)) (d : Nat) (rest : List Nat)
    (h : vars.length ≤ d) : decode (.enum vars) (d :: rest) = .err .badDiscriminant := by
  have : ∀ (vars : List (List Ty)) (d : Nat), vars.length ≤ d → decodeVariant vars d rest = .err .badDiscriminant := by
    intro vars
    induction vars with
    | nil => intro d _; simp [decodeVariant]
    | cons fs more ih =>
      intro d hd
      cases d with
      | zero => simp at hd
      | succ d => simp only [decodeVariant]; exact ih d (by simp at hd; omega)
  simp [decode, this vars d h]
example : decode (.enum [[], [.u32]]) [2] = .err .badDiscriminant := rfl
theorem derive_rejects_empty_enum_sequence (vars : List (List Ty)) : decode (.enum vars) [] = .err .empty := by
  simp [decode]
/-- a unit variant followed by anything, a unit struct given anything -/
theorem derive_rejects_trailing (x : Nat) (rest : List Nat) :
    decode (.struct []) (x :: rest) = .err .tooLong ∧ decode (.enum [[]]) (0 :: x :: rest) = .err .tooLong := by
  simp [decode, decodeFields, decodeVariant, finishFields]
/-- decoding a known discriminant is decoding the variant's fields as a struct -/
theorem derive_decode_variant (vars : List (List Ty)) (d : Nat) (fs : List Ty) (rest : List Nat)
    (h : vars[d]? = some fs) :
    decode (.enum vars) (d :: rest) = (decode (.struct fs) rest).bind fun v =>
      match v with
      | .list vs => .ok (.variant d vs)
      | _ => .panic := by
  have : ∀ (vars : List (List Ty)) (k : Nat), vars[k]? = some fs →
      decodeVariant vars k rest = finishFields (decodeFields fs rest) := by
    intro vars
    induction vars with
    | nil => intro k hk; simp at hk
    | cons g more ih =>
      intro k hk
      cases k with
      | zero => simp at hk; subst hk; simp [decodeVariant]
      | succ k => simp at hk; simp [decodeVariant, ih k hk]
  simp only [decode, this vars d h]
  cases finishFields (decodeFields fs rest) <;> simp [Outcome.map, Outcome.bind]

example : decode (.enum [[], [.u32, .vec .u8]]) [1, 2, 1, 7, 9] = .ok (.variant 1 [.num 9, .list [.num 7]]) ∧
    decode (.struct [.u32, .vec .u8]) [2, 1, 7, 9] = .ok (.list [.num 9, .list [.num 7]]) := ⟨rfl, rfl⟩
/-! ## derived types of static width 0 inherit finding F10 when used as list items -/
theorem derive_zero_width_shapes :
    staticLength (.struct []) = some 0 ∧ staticLength (.struct [.phantom, .phantom]) = some 0 ∧
    decode (.vec (.struct [])) [2] = .panic ∧
    decode (.array 2 (.struct [.phantom, .phantom]))
      (encode (.array 2 (.struct [.phantom, .phantom])) (.list [.list [.unit, .unit], .list [.unit, .unit]])) = .err .empty :=
  ⟨rfl, rfl, rfl, rfl⟩

end TF.C14
