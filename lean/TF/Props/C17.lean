import TF.Proofs.PolyVal
import TF.Proofs.PolyApi
import TF.Proofs.PolyValDiv
import TF.Proofs.GenBridgePoly
/-!
# C17 — polynomials have value semantics: stored leading zeros never change results

Property theorems only (lemmas: `TF/Proofs/Poly.lean`, `TF/Proofs/PolyMul.lean`, `TF/Proofs/PolyVal.lean`; models:
`TF/Model/Poly.lean`, `TF/Model/PolyMul.lean`, `TF/Model/PolyVal.lean`).

Notation.  `K` an arbitrary field, `FK = FieldOps.ofField K root`.  A polynomial is its raw coefficient storage
`List K` (lowest degree first); `p ++ List.replicate k 0` is `p` with `k` stored leading zeros;
`denote : List K → K[X]`.  "`a` and `a'` are two storages of the same polynomial" is `denote a = denote a'`
(`storage_eq_iff_padding` shows this is the same as "equal up to stored zeros").  A result `none` is a panic.

Every theorem `…_respects_denote` has the form `denote a = denote a' → op a = op a'`:
* for operations reading their operand through `degree()/coefficients()/resize` the two results are **literally
  equal**, as `Option` values — so the panic behaviour is the same as well (*no panic under padding*), for **every**
  transform `T`, threshold and thread count, with no hypothesis on `T`;
* for operations that copy raw storage (`+`, `-`, `scalar_mul`, `scale`, `shift_coefficients`, …) the results denote
  the same polynomial (their raw storages may differ in stored zeros, which no public accessor shows).

`Cow::Borrowed` versus `Cow::Owned` has no counterpart in the model (both are the same list); that borrowing never
changes a result is covered by the differential run (family `polyv`) only.
-/
open Polynomial

namespace TF.C17
open TF TF.Model.Poly
variable {K : Type} [Field K] (root : Nat → Option K)
local notation "FK" => FieldOps.ofField K root
open Classical

/-! ### storage versus value -/

/-- appending zero coefficients above the leading term does not change the denoted polynomial -/
theorem padding_denote (p : List K) (k : Nat) : denote (p ++ List.replicate k 0) = denote p :=
  denote_append_zeros p k
example : denote ([1, 2] ++ List.replicate 17 (0 : ℚ)) = denote [1, 2] := padding_denote _ _

/-- two storages denote the same polynomial iff they are equal up to stored leading zeros
    (they have the same normalisation, and each is its normalisation padded) -/
theorem storage_eq_iff_padding (a a' : List K) :
    denote a = denote a' ↔
      ∃ c k k', a = c ++ List.replicate k 0 ∧ a' = c ++ List.replicate k' 0 := by
  constructor
  · intro h
    obtain ⟨k, hk⟩ := exists_zeros (fun _ => none) a
    obtain ⟨k', hk'⟩ := exists_zeros (fun _ => none) a'
    exact ⟨normalize (FieldOps.ofField K) a, k, k', hk, by rw [normalize_congr _ h]; exact hk'⟩
  · rintro ⟨c, k, k', rfl, rfl⟩
    rw [denote_append_zeros, denote_append_zeros]
example : denote ([1, 2, 0] : List ℚ) = denote [1, 2] := by simp

/-- `==` is equality of the denoted polynomials -/
theorem eq_iff_denote (a b : List K) : Model.Poly.eq FK a b = true ↔ denote a = denote b :=
  Model.Poly.eq_iff_denote root a b
example : Model.Poly.eq (FieldOps.ofField ℚ) [1, 2] [1, 2, 0] = true := by
  rw [eq_iff_denote]; simp

/-- `==` respects storage in both argument positions -/
theorem eq_respects_denote {a a' b b' : List K} (ha : denote a = denote a') (hb : denote b = denote b') :
    Model.Poly.eq FK a b = Model.Poly.eq FK a' b' := eq_congr root ha hb
example : denote ([3, 0, 0] : List ℚ) = denote [3] := by simp

/-- equal polynomials hash equally (after fix F4 the hasher is fed `coefficients()`), for every hasher `h` -/
theorem hash_respects_eq {δ : Type} (h : List K → δ) (a b : List K) (hab : Model.Poly.eq FK a b = true) :
    hashWith FK h a = hashWith FK h b := by
  unfold hashWith
  rw [normalize_congr root ((eq_iff_denote root a b).1 hab)]
example : Model.Poly.eq (FieldOps.ofField ℚ) [1, 2] [1, 2, 0] = true := by
  rw [eq_iff_denote]; simp

/-- `degree()`: −1 exactly for the zero polynomial, else Mathlib's `natDegree` -/
theorem degree_spec (p : List K) :
    Model.Poly.degree FK p = if denote p = 0 then -1 else ((denote p).natDegree : Int) :=
  Model.Poly.degree_spec root p
example : Model.Poly.degree (FieldOps.ofField ℚ) [0, 0] = -1 := by
  rw [degree_spec]; simp

/-- `leading_coefficient()`: `None` exactly for zero, else the leading coefficient — never `Some(0)` -/
theorem leading_coefficient_spec (p : List K) :
    leadingCoefficient FK p = (if denote p = 0 then none else some (denote p).leadingCoeff) ∧
    leadingCoefficient FK p ≠ some 0 := by
  have h := Model.Poly.leadingCoefficient_spec root p
  refine ⟨h, ?_⟩
  rw [h]
  split
  · simp
  · next hne => simpa using hne
example : leadingCoefficient (FieldOps.ofField ℚ) [1, 2, 0] ≠ some 0 := (leading_coefficient_spec _ _).2

/-- `coefficients()` / `into_coefficients()`: the unique storage of the same polynomial whose last element is
    non-zero (empty for zero) -/
theorem coefficients_spec (p : List K) :
    denote (coefficients FK p) = denote p ∧ Normal (coefficients FK p) ∧
    (∀ q, denote q = denote p → Normal q → q = coefficients FK p) :=
  ⟨denote_normalize root p, normal_normalize root p,
    fun q hq hn => by
      unfold coefficients
      rw [← normalize_congr root hq, normalize_of_normal root hn]⟩
example : Normal ([1, 2] : List ℚ) := by simp [Normal]

/-- all accessors and predicates depend on the denoted polynomial only -/
theorem accessors_respect_denote {a a' : List K} (h : denote a = denote a') :
    Model.Poly.degree FK a = Model.Poly.degree FK a' ∧ coefficients FK a = coefficients FK a' ∧
    intoCoefficients FK a = intoCoefficients FK a' ∧
    leadingCoefficient FK a = leadingCoefficient FK a' ∧ isZero FK a = isZero FK a' ∧
    isOne FK a = isOne FK a' ∧ isX FK a = isX FK a' := by
  have hn := normalize_congr root h
  unfold Model.Poly.degree coefficients intoCoefficients leadingCoefficient isZero isOne isX
  rw [hn]
  exact ⟨rfl, rfl, rfl, rfl, rfl, rfl, rfl⟩
example : denote ([0, 1, 0, 0] : List ℚ) = denote [0, 1] := by simp

/-- the `BFieldCodec` encoding depends on the denoted polynomial only (it is the encoding of `coefficients()`),
    for every item encoding -/
theorem encode_respects_denote (encE : K → List Nat) {a a' : List K} (h : denote a = denote a') :
    encode FK encE a = encode FK encE a' := by
  unfold encode; rw [normalize_congr root h]
example : encode (FieldOps.ofField ℚ) (fun _ => [7]) [1, 2, 0] = encode (FieldOps.ofField ℚ) (fun _ => [7]) [1, 2] :=
  encode_respects_denote _ _ (by simp)

/-- the hash depends on the denoted polynomial only -/
theorem hash_respects_denote {δ : Type} (h : List K → δ) {a a' : List K} (haa : denote a = denote a') :
    hashWith FK h a = hashWith FK h a' := by
  unfold hashWith; rw [normalize_congr root haa]
example : hashWith (FieldOps.ofField ℚ) List.length [1, 2, 0] = hashWith (FieldOps.ofField ℚ) List.length [1, 2] :=
  hash_respects_denote _ _ (by simp)

/-! ### ring operations that copy raw storage: same polynomial -/

/-- `+`, `+=`, `-`, unary `-`, `scalar_mul(_mut)`, `scale`, `shift_coefficients`, `formal_derivative`, `mod_x_to_the_n`
    in every argument position -/
theorem ring_ops_respect_denote {a a' b b' : List K} (ha : denote a = denote a') (hb : denote b = denote b')
    (s : K) (n : Nat) :
    denote (add FK a b) = denote (add FK a' b') ∧
    denote (addAssign FK a b) = denote (addAssign FK a' b') ∧
    denote (sub FK a b) = denote (sub FK a' b') ∧
    denote (neg FK a) = denote (neg FK a') ∧
    denote (scalarMul FK a s) = denote (scalarMul FK a' s) ∧
    denote (scale FK a s) = denote (scale FK a' s) ∧
    denote (shiftCoefficients FK a n) = denote (shiftCoefficients FK a' n) ∧
    denote (formalDerivative FK a) = denote (formalDerivative FK a') ∧
    denote (modXToTheN a n) = denote (modXToTheN a' n) := by
  refine ⟨?_, ?_, ?_, ?_, ?_, ?_, ?_, ?_, ?_⟩
  · rw [denote_add, denote_add, ha, hb]
  · rw [denote_addAssign, denote_addAssign, ha, hb]
  · rw [denote_sub, denote_sub, ha, hb]
  · rw [denote_neg, denote_neg, ha]
  · rw [denote_scalarMul, denote_scalarMul, ha]
  · rw [denote_scale, denote_scale, ha]
  · rw [denote_shiftCoefficients, denote_shiftCoefficients, ha]
  · rw [denote_formalDerivative, denote_formalDerivative, ha]
  · exact denote_modXToTheN_congr ha n
example : denote ([1, 2, 0] : List ℚ) = denote [1, 2] ∧ denote ([] : List ℚ) = denote [0, 0] := by simp

/-- what the copied-storage operations compute (`+=` is `+`; the derivative is the formal derivative) -/
theorem add_assign_spec (a b : List K) : denote (addAssign FK a b) = denote a + denote b := denote_addAssign root a b
example : denote (addAssign (FieldOps.ofField ℚ) [1] [1, 2, 0]) = denote ([1] : List ℚ) + denote [1, 2, 0] :=
  add_assign_spec _ _ _
theorem formal_derivative_spec (p : List K) : denote (formalDerivative FK p) = derivative (denote p) :=
  denote_formalDerivative root p
example : denote (formalDerivative (FieldOps.ofField ℚ) [1, 2, 0]) = derivative (denote ([1, 2, 0] : List ℚ)) :=
  formal_derivative_spec _ _

/-- evaluation (Horner over the raw storage) depends on the denoted polynomial only -/
theorem evaluate_respects_denote {a a' : List K} (h : denote a = denote a') (x : K) :
    evaluate FK a x = evaluate FK a' x := by
  rw [eval_denote, eval_denote, h]
example : evaluate (FieldOps.ofField ℚ) [1, 2, 0, 0] 5 = evaluate (FieldOps.ofField ℚ) [1, 2] 5 :=
  evaluate_respects_denote _ (by simp) _

/-- `truncate(k)` (after fix F6) reads `coefficients()`: literally the same result on every storage, and it is the
    polynomial with the `k+1` highest coefficients -/
theorem truncate_respects_denote {a a' : List K} (h : denote a = denote a') (k : Nat) :
    truncate FK a k = truncate FK a' k := truncate_congr root h k
example : truncate (FieldOps.ofField ℚ) [1, 2, 0] 0 = truncate (FieldOps.ofField ℚ) [1, 2] 0 :=
  truncate_respects_denote _ (by simp) _
theorem truncate_spec (p : List K) (k i : Nat) :
    (denote (truncate FK p k)).coeff i = (denote p).coeff (i + ((coefficients FK p).length - (k + 1))) :=
  coeff_truncate root p k i
example : (denote (truncate (FieldOps.ofField ℚ) [1, 2, 0] 0)).coeff 0
    = (denote ([1, 2, 0] : List ℚ)).coeff (0 + ((coefficients (FieldOps.ofField ℚ) [1, 2, 0]).length - (0 + 1))) :=
  truncate_spec _ _ _ _

/-- `mod_x_to_the_n(n)` keeps the coefficients below `n` -/
theorem mod_x_to_the_n_spec (p : List K) (n i : Nat) :
    (denote (modXToTheN p n)).coeff i = if i < n then (denote p).coeff i else 0 := coeff_modXToTheN p n i
example : (denote (modXToTheN ([1, 2, 3] : List ℚ) 2)).coeff 2 = if 2 < 2 then (denote ([1, 2, 3] : List ℚ)).coeff 2 else 0 :=
  mod_x_to_the_n_spec _ _ _

/-! ### products: literally the same result, including the same panic behaviour -/

/-- `naive_multiply`, `*`, `slow_square`, `pow` — NTT-free, total -/
theorem naive_products_respect_denote {a a' b b' : List K} (ha : denote a = denote a') (hb : denote b = denote b')
    (e : Nat) :
    naiveMultiply FK a b = naiveMultiply FK a' b' ∧ mul FK a b = mul FK a' b' ∧
    slowSquare FK a = slowSquare FK a' ∧ pow FK a e = pow FK a' e :=
  ⟨naiveMultiply_congr root ha hb, naiveMultiply_congr root ha hb, slowSquare_congr root ha, pow_congr root ha e⟩
example : slowSquare (FieldOps.ofField ℚ) [1, 2, 0] = slowSquare (FieldOps.ofField ℚ) [1, 2] :=
  (naive_products_respect_denote _ (by simp) (rfl : denote ([] : List ℚ) = denote []) 0).2.2.1

/-- `fast_multiply`, `multiply`, `fast_square`, `square`, `fast_pow`: for **every** transform pair (no hypothesis),
    every threshold and cut-off, the results on two storages of the same polynomials are equal as `Option` values —
    the same polynomial storage *and* the same panic behaviour (no panic under padding; F5's `[1,2,0]`) -/
theorem ntt_products_respect_denote (T : Transform K) (threshold : Int) (cutoff : Nat)
    {a a' b b' : List K} (ha : denote a = denote a') (hb : denote b = denote b') (e : Nat) :
    fastMultiply FK T a b = fastMultiply FK T a' b' ∧
    multiply FK threshold T a b = multiply FK threshold T a' b' ∧
    fastSquare FK T a = fastSquare FK T a' ∧
    square FK cutoff T a = square FK cutoff T a' ∧
    fastPow FK cutoff threshold T a e = fastPow FK cutoff threshold T a' e :=
  ⟨fastMultiply_congr root T ha hb, multiply_congr root threshold T ha hb, fastSquare_congr root T ha,
    square_congr root cutoff T ha, fastPow_congr root cutoff threshold T ha e⟩
example : square (FieldOps.ofField ℚ) 64 exampleTransform [1, 2, 0] = square (FieldOps.ofField ℚ) 64 exampleTransform [1, 2] :=
  (ntt_products_respect_denote _ exampleTransform 256 64 (by simp) (rfl : denote ([] : List ℚ) = denote []) 0).2.2.2.1

/-- `square` on a padded operand: no panic under padding, stated with explicit padding -/
theorem square_padding (T : Transform K) (cutoff : Nat) (p : List K) (k : Nat) :
    square FK cutoff T (p ++ List.replicate k 0) = square FK cutoff T p :=
  square_congr root cutoff T (denote_append_zeros p k)
example : square (FieldOps.ofField ℚ) 64 exampleTransform ([1, 2] ++ List.replicate 1 0)
    = square (FieldOps.ofField ℚ) 64 exampleTransform [1, 2] := square_padding _ _ _ _ _

/-- `batch_multiply` and `par_batch_multiply` (every thread count) on factor lists that agree as polynomials
    position by position: both panic, or both return storages of the same polynomial -/
theorem batch_products_respect_denote (T : Transform K) (threshold : Int) (numThreads : Nat)
    {fs gs : List (List K)} (h : List.Forall₂ (fun a b => denote a = denote b) fs gs) :
    RelO (batchMultiply FK threshold T fs) (batchMultiply FK threshold T gs) ∧
    RelO (parBatchMultiply FK threshold T numThreads fs) (parBatchMultiply FK threshold T numThreads gs) := by
  have hm : MulCongr (multiply FK threshold T) := fun a a' b b' ha hb => multiply_congr root threshold T ha hb
  exact ⟨batchMultiplyWith_rel root hm (forall₂_map_some h),
    parBatchMultiplyWith_rel root hm numThreads (forall₂_map_some h)⟩
example : List.Forall₂ (fun a b => denote a = denote b) [[1, 2, 0], ([] : List ℚ)] [[1, 2], [0]] := by
  refine .cons (by simp) (.cons (by simp) .nil)

/-! ### G07 — the rest of the public API (docs/POLY_API_COVERAGE.md)

Constructors, scalar operators, evaluation across fields, `truncate` with machine arithmetic, and the operations whose
models live in `TF/Model/PolyDiv.lean` / `TF/Model/PolyInterp.lean` (division, reduction, gcd, bulk and coset
evaluation).  `Rel2`/`Rel3`/`RelO`: both sides panic, or both return storages of the same polynomial(s). -/

open TF.Proofs.PolyV TF.Model.PolyD in
/-- constructors: `x_to_the(n) = Xⁿ`, `from_constant(c) = c`, `Zero::zero() = 0`, `One::one() = 1`,
    `From<XFieldElement>` is the coordinate polynomial, and `From<Vec<_>>`/`From<[_; N]>`/`From<&[_]>` applied to two
    lists that differ in trailing zeros give `==` polynomials -/
theorem constructors_spec (n : Nat) (c : K) (t : K × K × K) {a a' : List K} (h : denote a = denote a') :
    denote (xToThe FK n) = X ^ n ∧ denote (fromConstant c) = C c ∧ denote (zero : List K) = 0 ∧
    denote (one FK) = 1 ∧ denote (fromXfe t) = C t.1 + C t.2.1 * X + C t.2.2 * X ^ 2 ∧
    Model.Poly.eq FK (fromList a) (fromList a') = true :=
  ⟨denote_xToThe root n, denote_fromConstant c, denote_zero, denote_one root, denote_fromXfe t,
    (eq_iff_denote root _ _).2 h⟩
example : denote ([1, 2, 0] : List ℚ) = denote [1, 2] := by simp

/-- the scalar operators `p * s`, `s * p` (`BFieldElement`/`XFieldElement` on the left) and `scalar_mul`, scalar and
    coefficients possibly in different fields (`φ₁`, `φ₂` the embeddings into the result field): the result is
    `φ₁(p) · φ₂(s)`, on every storage -/
theorem scalar_operators_respect_denote {K₁ K₂ : Type} [Field K₁] [Field K₂] (φ₁ : K₁ →+* K) (φ₂ : K₂ →+* K)
    {a a' : List K₁} (h : denote a = denote a') (s : K₂) :
    denote (scalarMulG (fun x y => φ₁ x * φ₂ y) a s) = (denote a).map φ₁ * C (φ₂ s) ∧
    denote (scalarMulG (fun x y => φ₁ x * φ₂ y) a s) = denote (scalarMulG (fun x y => φ₁ x * φ₂ y) a' s) := by
  rw [denote_scalarMulG, denote_scalarMulG, h]; exact ⟨rfl, rfl⟩
example : denote ([3, 0] : List ℚ) = denote [3] := by simp

/-- `evaluate::<Ind, Eval>` of a polynomial over `K` at a point of an extension field `L` is `eval₂` along the
    embedding — it depends on the denoted polynomial only; at a point of `K` itself it is `eval` -/
theorem evaluate_mixed_respects_denote {L : Type} [Field L] [Algebra K L] (rootL : Nat → Option L)
    {a a' : List K} (h : denote a = denote a') (x : L) (y : K) :
    evaluateLift (FieldOps.ofField L rootL) (algebraMap K L) a x = (denote a).eval₂ (algebraMap K L) x ∧
    evaluateLift (FieldOps.ofField L rootL) (algebraMap K L) a x
      = evaluateLift (FieldOps.ofField L rootL) (algebraMap K L) a' x ∧
    evaluateLift FK id a y = evaluateLift FK id a' y := by
  refine ⟨evaluateLift_spec rootL a x, ?_, ?_⟩
  · rw [evaluateLift_spec, evaluateLift_spec, h]
  · rw [evaluateLift_id, evaluateLift_id, h]
example : evaluateLift (FieldOps.ofField ℚ) (algebraMap ℚ ℚ) [1, 2, 0] 3
    = evaluateLift (FieldOps.ofField ℚ) (algebraMap ℚ ℚ) [1, 2] 3 :=
  (evaluate_mixed_respects_denote (fun _ => none) (fun _ => none) (by simp) 3 0).2.1

/-- `truncate(k)` as compiled (after the repair F13: `take(k.saturating_add(1))`): for EVERY `k` (`usize::MAX` included)
    it reads `coefficients()` only — the same result on every storage — and it is the `truncate` of `truncate_spec` for
    every polynomial with fewer than `2^64` coefficients -/
theorem truncate_usize_respects_denote {a a' : List K} (h : denote a = denote a') (k : Nat) :
    truncateUsize FK a k = truncateUsize FK a' k ∧
    ((normalize FK a).length < 2 ^ 64 → truncateUsize FK a k = truncate FK a k) :=
  ⟨truncateUsize_congr root h k, truncateUsize_eq root a k⟩
example : truncateUsize (FieldOps.ofField ℚ) [1, 2, 0] 0 = truncateUsize (FieldOps.ofField ℚ) [1, 2] 0 :=
  (truncate_usize_respects_denote _ (by simp) 0).1

/-- **defect F13, for the record** (repaired by a `fix:` commit; negation witness for the code as it was): at
    `k = usize::MAX` the `truncate` compiled before the repair returned the zero polynomial for every input, whereas the
    documented result ("degree = min(k, degree)", `truncate_spec`) is the polynomial itself;
    `[1,2,3].truncate(usize::MAX)` was `0 ≠ 1 + 2X + 3X²`; the repaired function returns `[1,2,3]` -/
theorem truncate_usize_max_violated_before_F13 :
    truncateBeforeF13 (FieldOps.ofField ℚ) [1, 2, 3] (2 ^ 64 - 1) = [] ∧
    truncate (FieldOps.ofField ℚ) [1, 2, 3] (2 ^ 64 - 1) = [1, 2, 3] ∧
    denote (truncateBeforeF13 (FieldOps.ofField ℚ) [1, 2, 3] (2 ^ 64 - 1)) ≠ denote ([1, 2, 3] : List ℚ) := by
  have h0 := truncateBeforeF13_max (fun _ => none) ([1, 2, 3] : List ℚ)
  refine ⟨h0, ?_, ?_⟩
  · have hn : normalize (FieldOps.ofField ℚ) [1, 2, 3] = [1, 2, 3] :=
      normalize_of_normal (fun _ => none) (by simp [Normal])
    unfold truncate
    rw [hn]
    show List.drop (([1, 2, 3] : List ℚ).length - (2 ^ 64 - 1 + 1)) [1, 2, 3] = [1, 2, 3]
    have : ([1, 2, 3] : List ℚ).length - (2 ^ 64 - 1 + 1) = 0 := by norm_num
    rw [this]; rfl
  · rw [h0]
    intro h
    have := congrArg (fun p => p.coeff 0) h
    simp at this
example : (2 : Nat) ^ 64 - 1 + 1 = 2 ^ 64 := by norm_num

open TF.Proofs.PolyV TF.Model.PolyD in
/-- `divide`, `naive_divide`, `/`, `%` in both argument positions: both panic (zero divisor), or both return
    storages of the same quotient and remainder -/
theorem division_respects_denote {a a' d d' : List K} (ha : denote a = denote a') (hd : denote d = denote d') :
    Rel2 (naiveDivide FK a d) (naiveDivide FK a' d') ∧ Rel2 (divide FK a d) (divide FK a' d') ∧
    RelO (Model.PolyD.div FK a d) (Model.PolyD.div FK a' d') ∧
    RelO (Model.PolyD.rem FK a d) (Model.PolyD.rem FK a' d') :=
  ⟨naiveDivide_congr root ha hd, naiveDivide_congr root ha hd, div_congr root ha hd, rem_congr root ha hd⟩
example : denote ([0, 0] : List ℚ) = denote [] := by simp

open TF.Proofs.PolyV TF.Model.PolyD in
/-- `xgcd` in both argument positions: the gcd **and both Bézout coefficients** depend on the denoted polynomials
    only (the Euclid loop is run on the two storages side by side; no certificate determines the coefficients) -/
theorem xgcd_respects_denote {x x' y y' : List K} (hx : denote x = denote x') (hy : denote y = denote y') :
    Rel3 (xgcd FK x y) (xgcd FK x' y') := xgcd_congr root hx hy
example : denote ([1, 0, 1, 0] : List ℚ) = denote [1, 0, 1] := by simp

open TF.Proofs.PolyV TF.Model.PolyD TF.Proofs.PolyD in
/-- `reduce` (all four arms) and `fast_reduce` (all three stages), every threshold value, both argument positions:
    both panic (zero modulus) or both return storages of the same remainder.  `NttDft N ω` is property C06. -/
theorem reduce_respects_denote (N : NttOps K) (ω : Nat → K) (hN : NttDft N ω) (ms cutoff stage2 : Nat)
    {a a' m m' : List K} (ha : denote a = denote a') (hm : denote m = denote m') :
    RelO (reduce FK N ms cutoff stage2 a m) (reduce FK N ms cutoff stage2 a' m') ∧
    RelO (fastReduce FK N cutoff stage2 a m) (fastReduce FK N cutoff stage2 a' m') :=
  ⟨reduce_congr root N (nttConv_of_nttDft hN) ms cutoff stage2 ha hm,
    fastReduce_congr root N (nttConv_of_nttDft hN) cutoff stage2 ha hm⟩
example : denote ([3, 1, 0] : List ℚ) = denote [3, 1] := by simp

open TF.Model.PolyD TF.Proofs.PolyD in
/-- `structured_multiple_of_degree(n)` for a polynomial of degree ≥ 1: the same panic behaviour and the same multiple
    on every storage (for constants the code returns `c⁻¹·Xⁿ`, tied by the correspondence run only) -/
theorem structured_multiple_respects_denote {p p' : List K} (h : denote p = denote p') (n : Nat)
    (hd : 1 ≤ (denote p).natDegree) :
    RelO (structuredMultipleOfDegree FK p n) (structuredMultipleOfDegree FK p' n) := by
  have hp : denote p ≠ 0 := by intro h0; rw [h0] at hd; simp at hd
  by_cases hn : (denote p).natDegree ≤ n
  · obtain ⟨s, h1, _, h2, h3, h4⟩ := structuredMultipleOfDegree_spec root p n hp hn
    obtain ⟨s', h1', _, h2', h3', h4'⟩ := structuredMultipleOfDegree_spec root p' n (h ▸ hp) (h ▸ hn)
    rw [h1, h1']
    show denote s = denote s'
    have key : ∀ (t : List K), denote p ∣ denote t → (denote t - X ^ n).degree < (denote p).degree →
        denote t = X ^ n - X ^ n % denote p := by
      intro t ⟨q, hq⟩ hdeg
      have hcert : (X ^ n : K[X]) = q * denote p + (X ^ n - denote t) := by rw [hq]; ring
      have hdeg' : (X ^ n - denote t : K[X]).degree < (denote p).degree := by
        rw [← neg_sub, degree_neg]; exact hdeg
      rw [← (div_mod_of_certificate hcert hdeg').2]; ring
    rw [key s h2 (h4 hd).2, key s' (h ▸ h2') (h ▸ (h4' (h ▸ hd)).2)]
  · rw [structuredMultipleOfDegree_none root p n (Or.inr (by omega)),
      structuredMultipleOfDegree_none root p' n (Or.inr (by rw [← h]; omega))]
    trivial
example : (1 : Nat) ≤ (X ^ 2 + 1 : ℚ[X]).natDegree := by
  rw [show (X ^ 2 + 1 : ℚ[X]) = X ^ 2 + C 1 by simp, natDegree_X_pow_add_C]; norm_num

open TF.Proofs.PolyV TF.Model.PolyD TF.Proofs.PolyD in
/-- `clean_divide` inside its contract (non-zero divisor dividing the dividend), every cut-off, both positions:
    both return storages of the same quotient -/
theorem clean_divide_respects_denote {L : Type} [Field L] [Algebra K L] (rootL : Nat → Option L) (E : ExtOps K L)
    (NX : NttOps L) (ω : Nat → L) (hN : NttDft NX ω)
    (hlift : ∀ k, E.lift k = algebraMap K L k) (hunlift : ∀ k, E.unlift (algebraMap K L k) = some k)
    (hoff : E.offset ≠ 0) (cutoff : Nat) {a a' d d' : List K} (ha : denote a = denote a') (hd : denote d = denote d')
    (hd0 : denote d ≠ 0) (hdvd : denote d ∣ denote a) :
    RelO (cleanDivide FK (FieldOps.ofField L rootL) E NX cutoff a d)
      (cleanDivide FK (FieldOps.ofField L rootL) E NX cutoff a' d') := by
  obtain ⟨q, h1, h2⟩ := cleanDivide_spec root rootL E hN hlift hunlift hoff cutoff a d hd0 hdvd
  obtain ⟨q', h1', h2'⟩ := cleanDivide_spec root rootL E hN hlift hunlift hoff cutoff a' d' (hd ▸ hd0)
    (ha ▸ hd ▸ hdvd)
  rw [h1, h1']
  show denote q = denote q'
  rw [← ha, ← hd, ← h2] at h2'
  exact (mul_right_cancel₀ hd0 h2').symm
example : denote ([1, 1] : List ℚ) ∣ denote ([0, 1, 1] : List ℚ) := ⟨X, by simp; ring⟩

open TF.Model.PolyI in
/-- bulk evaluation — `batch_evaluate` (every ratio, leaf size ≥ 1, cut-off ≥ 2), `par_batch_evaluate` (every thread
    count), `iterative_batch_evaluate`, `divide_and_conquer_batch_evaluate` over any correct tree — returns
    literally the same values on every storage of the polynomial -/
theorem batch_evaluate_respects_denote {E : Ext K} (hE : E.Lawful) (R RT T threads : Nat) (hRT : 0 < RT) (hT : 2 ≤ T)
    {p p' : List K} (h : denote p = denote p') (domain : List K) (t : ZTree K) (ht : t.Good) :
    batchEvaluateWith FK E R RT T p domain = batchEvaluateWith FK E R RT T p' domain ∧
    iterativeBatchEvaluate FK p domain = iterativeBatchEvaluate FK p' domain ∧
    dcEval FK E p t = dcEval FK E p' t ∧
    (∀ out out', parBatchEvaluateWith FK E R RT T threads p domain = some out →
      parBatchEvaluateWith FK E R RT T threads p' domain = some out' → out = out') := by
  refine ⟨?_, ?_, ?_, ?_⟩
  · rw [batchEvaluateWith_total root hE R RT T hRT hT, batchEvaluateWith_total root hE R RT T hRT hT, h]
  · unfold iterativeBatchEvaluate
    exact List.map_congr_left (fun x _ => by rw [eval_denote, eval_denote, h])
  · rw [dcEval_spec root hE p t ht, dcEval_spec root hE p' t ht, h]
  · intro out out' h1 h2
    rw [parBatchEvaluateWith_sound root hE R RT T threads p domain out h1,
      parBatchEvaluateWith_sound root hE R RT T threads p' domain out' h2, h]
example : denote ([0, 1, 0, 0] : List ℚ) = denote [0, 1] := by simp


open TF.Model.PolyI in
/-- (helper) the panic condition of `fast_coset_evaluate` -/
theorem fce_none_iff {E : Ext K} (p : List K) (offset : K) (order : Nat) :
    fastCosetEvaluate FK E p offset order = none ↔
      ¬ (TF.Model.PolyI.degSucc FK p ≤ order ∧ (order = 0 ∨ TF.Model.PolyI.isPow2 order = true)) := by
  unfold fastCosetEvaluate nttChecked
  simp only [TF.Model.PolyI.length_resize]
  by_cases h1 : TF.Model.PolyI.degSucc FK p ≤ order <;> by_cases h2 : order = 0 <;>
    by_cases h3 : TF.Model.PolyI.isPow2 order = true <;>
    simp [h1, h2, h3]

open TF.Model.PolyI in
/-- `fast_coset_evaluate`: the same panic condition (order not above the degree, or not a power of two) and the same
    values on every storage -/
theorem fast_coset_evaluate_respects_denote {E : Ext K} (hN : Ext.LawfulNtt root E) {p p' : List K}
    (h : denote p = denote p') (offset : K) (order : Nat) (ω : K) (hω : root order = some ω) :
    (fastCosetEvaluate FK E p offset order = none ↔ fastCosetEvaluate FK E p' offset order = none) ∧
    (∀ out out', fastCosetEvaluate FK E p offset order = some out →
      fastCosetEvaluate FK E p' offset order = some out' → out = out') := by
  constructor
  · rw [TF.C17.fce_none_iff root p, TF.C17.fce_none_iff root p']
    unfold TF.Model.PolyI.degSucc; rw [normalize_congr root h]
  · intro out out' h1 h2
    rw [fastCosetEvaluate_sound root hN p offset order ω hω out h1,
      fastCosetEvaluate_sound root hN p' offset order ω hω out' h2, h]
example : denote ([5, 0, 0] : List ℚ) = denote [5] := by simp

end TF.C17

/-! ## regenerated-from-source bridge (tools/rs2lean_poly.py, `TF/Gen/PolyLoops.lean`) — BT6

The storage observers of `polynomial.rs` — `degree`, `coefficients()`, `normalize`, `into_coefficients`,
`leading_coefficient`, `==`, `is_zero`, `is_one`, `is_x` — and the constructors `new`, `zero`, `one`, `from_constant`,
`into_owned` are **also regenerated from the text of `polynomial.rs` on every run** (`TF.Gen.Poly.*`): the field operations are
the parameter `F : FieldOps α`, a polynomial is its storage list, a function that can panic (index, `unwrap`, …) returns
`Option` with `none` = panic, `while` loops carry a fuel.  The theorems below (proofs in `TF/Proofs/GenBridgePoly.lean`) say, for
**every** `F` and **every** storage (stored leading zeros included): the regenerated function returns exactly the hand
model's value — in particular it never panics and its fuel suffices.  "Stored leading zeros never change results" hinges on
exactly these functions; a one-token change in one of them (e.g. `degree` not skipping zeros) breaks the corresponding
theorem here.  The driver evaluates the regenerated definitions next to the hand model (`GEN-MISMATCH`). -/
namespace TF.C17
open TF TF.Model.Poly

/-- regenerated `degree` (the `while deg >= 0 && coefficients[deg].is_zero()` loop) = hand model: all `F`, all storages -/
theorem gen_degree_eq_model {α : Type} (F : FieldOps α) (p : List α) :
    TF.Gen.Poly.degree F p = some (Model.Poly.degree F p) := TF.GenBridge.Poly.degree_eq F p
example : TF.Gen.Poly.degree bfieldOps [1, 2, 0, 0] = some 1 ∧ TF.Gen.Poly.degree bfieldOps [0, 0] = some (-1) := by decide

/-- regenerated `coefficients()` (`rposition` + slice), `normalize` (the `pop` loop) and `into_coefficients` = hand models -/
theorem gen_coefficients_eq_model {α : Type} (F : FieldOps α) (p : List α) :
    TF.Gen.Poly.coefficients F p = some (coefficients F p) ∧ TF.Gen.Poly.normalize F p = some (normalize F p) ∧
    TF.Gen.Poly.into_coefficients F p = some (intoCoefficients F p) :=
  ⟨TF.GenBridge.Poly.coefficients_eq F p, TF.GenBridge.Poly.normalize_eq F p, TF.GenBridge.Poly.into_coefficients_eq F p⟩
example : TF.Gen.Poly.coefficients bfieldOps [1, 2, 0, 0] = some [1, 2] ∧ TF.Gen.Poly.normalize bfieldOps [0, 0] = some [] := by
  decide

/-- regenerated `leading_coefficient` (`match self.degree() { -1 => None, n => Some(coefficients[n]) }`) = hand model -/
theorem gen_leading_coefficient_eq_model {α : Type} (F : FieldOps α) (p : List α) :
    TF.Gen.Poly.leading_coefficient F p = some (leadingCoefficient F p) := TF.GenBridge.Poly.leading_coefficient_eq F p
example : TF.Gen.Poly.leading_coefficient bfieldOps [1, 2, 0] = some (some 2) ∧
    TF.Gen.Poly.leading_coefficient bfieldOps [0] = some none := by decide

/-- regenerated `PartialEq::eq`, `is_zero` (`*self == Self::zero()`), `is_one`, `is_x` = hand models -/
theorem gen_predicates_eq_model {α : Type} (F : FieldOps α) (p q : List α) :
    TF.Gen.Poly.eq F p q = some (Model.Poly.eq F p q) ∧ TF.Gen.Poly.is_zero F p = some (isZero F p) ∧
    TF.Gen.Poly.is_one F p = some (isOne F p) ∧ TF.Gen.Poly.is_x F p = some (isX F p) :=
  ⟨TF.GenBridge.Poly.eq_eq F p q, TF.GenBridge.Poly.is_zero_eq F p, TF.GenBridge.Poly.is_one_eq F p,
    TF.GenBridge.Poly.is_x_eq F p⟩
example : TF.Gen.Poly.eq bfieldOps [1, 2] [1, 2, 0] = some true ∧ TF.Gen.Poly.is_zero bfieldOps [0, 0] = some true ∧
    TF.Gen.Poly.is_one bfieldOps [1, 0] = some true ∧ TF.Gen.Poly.is_x bfieldOps [0, 1, 0] = some true := by decide

/-- regenerated constructors = hand models (definitionally) -/
theorem gen_constructors_eq_model {α : Type} (F : FieldOps α) (c : α) (l : List α) :
    TF.Gen.Poly.new l = l ∧ (TF.Gen.Poly.zero : List α) = zero ∧ TF.Gen.Poly.one F = one F ∧
    TF.Gen.Poly.from_constant c = fromConstant c ∧ TF.Gen.Poly.into_owned l = intoOwned l :=
  ⟨rfl, rfl, rfl, rfl, rfl⟩
example : TF.Gen.Poly.one bfieldOps = [1] ∧ TF.Gen.Poly.from_constant (7 : Nat) = [7] := by decide

section transfer
variable {K : Type} [Field K] (root : Nat → Option K)
local notation "FK" => FieldOps.ofField K root
open Classical Polynomial

/-- **`accessors_respect_denote` / `degree_spec` / `leading_coefficient_spec` for the regenerated code**: on two storages of
    the same polynomial every regenerated observer returns the same `some` value (no panic under padding), and
    regenerated `degree` / `leading_coefficient` compute Mathlib's degree / leading coefficient -/
theorem gen_accessors_transfer {a a' : List K} (h : denote a = denote a') :
    TF.Gen.Poly.degree FK a = TF.Gen.Poly.degree FK a' ∧ TF.Gen.Poly.coefficients FK a = TF.Gen.Poly.coefficients FK a' ∧
    TF.Gen.Poly.into_coefficients FK a = TF.Gen.Poly.into_coefficients FK a' ∧
    TF.Gen.Poly.leading_coefficient FK a = TF.Gen.Poly.leading_coefficient FK a' ∧
    TF.Gen.Poly.is_zero FK a = TF.Gen.Poly.is_zero FK a' ∧ TF.Gen.Poly.is_one FK a = TF.Gen.Poly.is_one FK a' ∧
    TF.Gen.Poly.is_x FK a = TF.Gen.Poly.is_x FK a' ∧
    TF.Gen.Poly.degree FK a = some (if denote a = 0 then -1 else ((denote a).natDegree : Int)) ∧
    TF.Gen.Poly.leading_coefficient FK a = some (if denote a = 0 then none else some (denote a).leadingCoeff) := by
  obtain ⟨h1, h2, h3, h4, h5, h6, h7⟩ := accessors_respect_denote root h
  simp only [TF.GenBridge.Poly.degree_eq, TF.GenBridge.Poly.coefficients_eq, TF.GenBridge.Poly.into_coefficients_eq,
    TF.GenBridge.Poly.leading_coefficient_eq, TF.GenBridge.Poly.is_zero_eq, TF.GenBridge.Poly.is_one_eq,
    TF.GenBridge.Poly.is_x_eq, h1, h2, h3, h4, h5, h6, h7, true_and]
  exact ⟨by rw [← h1, degree_spec], by rw [← h4, (leading_coefficient_spec root a).1]⟩
example : denote ([0, 1, 0, 0] : List ℚ) = denote [0, 1] := by simp

/-- `eq_iff_denote` for the regenerated `==`: it never panics and decides equality of the denoted polynomials -/
theorem gen_eq_transfer (a b : List K) : TF.Gen.Poly.eq FK a b = some (decide (denote a = denote b)) := by
  rw [(gen_predicates_eq_model FK a b).1]
  congr 1
  by_cases h : denote a = denote b
  · simp [h, (eq_iff_denote root a b).2 h]
  · have : Model.Poly.eq FK a b ≠ true := fun he => h ((eq_iff_denote root a b).1 he)
    simp [h, this]
example : TF.Gen.Poly.eq (FieldOps.ofField ℚ) [1, 2] [1, 2, 0] = some true := by
  rw [gen_eq_transfer]; simp

end transfer
end TF.C17

/-! ### regenerated ring operations, evaluation, truncation (BT6, continued) -/
namespace TF.C17
open TF TF.Model.Poly

/-- regenerated `+`, `-` (`zip_longest` + `match`), unary `-` (`scalar_mul_mut(-ONE)`), `+=` = hand models -/
theorem gen_ring_ops_eq_model {α : Type} (F : FieldOps α) (a b : List α) :
    TF.Gen.Poly.add F a b = add F a b ∧ TF.Gen.Poly.sub F a b = sub F a b ∧ TF.Gen.Poly.neg F a = neg F a ∧
    TF.Gen.Poly.add_assign F a b = some (addAssign F a b) :=
  ⟨TF.GenBridge.Poly.add_eq F a b, TF.GenBridge.Poly.sub_eq F a b, rfl, TF.GenBridge.Poly.add_assign_eq F a b⟩
example : TF.Gen.Poly.add bfieldOps [1, 2] [1, 1, 1] = [2, 3, 1] ∧ TF.Gen.Poly.sub bfieldOps [1] [1, 1] = [0, 18446744069414584320] ∧
    TF.Gen.Poly.add_assign bfieldOps [1, 2] [1, 1, 1] = some [2, 3, 1] := by decide

/-- regenerated `evaluate` (Horner loop, any indeterminate / result type), `formal_derivative` = hand models -/
theorem gen_evaluate_eq_model {α ι ε : Type} (F : FieldOps α) (zeroE : ε) (mulX : ε → ι → ε) (addC : ε → α → ε)
    (p : List α) (x : ι) :
    TF.Gen.Poly.evaluate F zeroE mulX addC p x = evaluateG zeroE mulX addC p x ∧
    TF.Gen.Poly.formal_derivative F p = formalDerivative F p :=
  ⟨TF.GenBridge.Poly.evaluate_eq F zeroE mulX addC p x, TF.GenBridge.Poly.formal_derivative_eq F p⟩
example : TF.Gen.Poly.evaluate bfieldOps 0 bfieldOps.mul bfieldOps.add [1, 2, 3] 2 = 17 ∧
    TF.Gen.Poly.formal_derivative bfieldOps [1, 2, 3] = [2, 6] := by decide

/-- regenerated `truncate` reads `coefficients()` (not the raw storage) and saturates `k + 1` in `usize`: it is the hand
    model `truncateUsize` for every `k`; regenerated `mod_x_to_the_n` and `reverse` = hand models -/
theorem gen_truncate_eq_model {α : Type} (F : FieldOps α) (p : List α) (k : Nat) :
    TF.Gen.Poly.truncate F p k = some (truncateUsize F p k) ∧ TF.Gen.Poly.mod_x_to_the_n F p k = some (modXToTheN p k) ∧
    TF.Gen.Poly.reverse F p = some (Model.Poly.reverse F p) :=
  ⟨by rw [TF.GenBridge.Poly.truncate_eq]; simp [truncateUsize, USIZE_MOD, List.take_reverse],
    TF.GenBridge.Poly.mod_x_to_the_n_eq F p k, TF.GenBridge.Poly.reverse_eq F p⟩
example : TF.Gen.Poly.truncate bfieldOps [0, 1, 2, 3, 4, 0, 0] 1 = some [3, 4] := by decide

section transfer2
variable {K : Type} [Field K] (root : Nat → Option K)
local notation "FK" => FieldOps.ofField K root
open Classical Polynomial

/-- **`truncate_usize_respects_denote`, `evaluate_respects_denote`, `add_assign_spec`, `formal_derivative_spec` for the
    regenerated code**: on two storages of the same polynomial regenerated `truncate` and `evaluate` return the same value -/
theorem gen_value_semantics_transfer {a a' : List K} (h : denote a = denote a') (b : List K) (k : Nat) (x : K) :
    TF.Gen.Poly.truncate FK a k = TF.Gen.Poly.truncate FK a' k ∧
    TF.Gen.Poly.evaluate FK (FK).zero (FK).mul (FK).add a x = TF.Gen.Poly.evaluate FK (FK).zero (FK).mul (FK).add a' x ∧
    (∃ r, TF.Gen.Poly.add_assign FK a b = some r ∧ denote r = denote a + denote b) ∧
    denote (TF.Gen.Poly.formal_derivative FK a) = derivative (denote a) := by
  refine ⟨?_, ?_, ⟨_, (gen_ring_ops_eq_model FK a b).2.2.2, add_assign_spec root a b⟩, ?_⟩
  · rw [(gen_truncate_eq_model FK a k).1, (gen_truncate_eq_model FK a' k).1, (truncate_usize_respects_denote root h k).1]
  · rw [(gen_evaluate_eq_model FK _ _ _ a x).1, (gen_evaluate_eq_model FK _ _ _ a' x).1]
    exact evaluate_respects_denote root h x
  · rw [(gen_evaluate_eq_model FK (FK).zero (FK).mul (FK).add a x).2]; exact formal_derivative_spec root a
example : denote ([1, 2, 0, 0] : List ℚ) = denote [1, 2] := by simp

end transfer2
end TF.C17
