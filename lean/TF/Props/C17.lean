import TF.Proofs.PolyVal
/-!
# C17 — polynomials have value semantics: stored leading zeros never change results

Property theorems only (lemmas: `TF/Proofs/Poly.lean`, `TF/Proofs/PolyMul.lean`, `TF/Proofs/PolyVal.lean`; models:
`TF/Model/Poly.lean`, `TF/Model/PolyMul.lean`, `TF/Model/PolyVal.lean`).

Notation.  `K` an arbitrary field, `FK = FieldOps.ofField K root`.  A polynomial is its raw coefficient storage
`List K` (lowest degree first); `p ++ List.replicate k 0` is `p` with `k` stored leading zeros;
`denote : List K → K[X]`.  "`a` and `a'` are two storages of the same polynomial" is `denote a = denote a'`
(`storage_eq_iff_padding` shows this is the same as "equal up to stored zeros").  A result `none` is a panic.

Every theorem `…_respects_denote` has the form `denote a = denote a' → op a = op a'`:
* for operations reading their operand through `degree()/coefficients()/resize` the two results are **literally
  equal**, as `Option` values — so the panic behaviour is the same as well (*no panic under padding*), for **every**
  transform `T`, threshold and thread count, with no hypothesis on `T`;
* for operations that copy raw storage (`+`, `-`, `scalar_mul`, `scale`, `shift_coefficients`, …) the results denote
  the same polynomial (their raw storages may differ in stored zeros, which no public accessor shows).

`Cow::Borrowed` versus `Cow::Owned` has no counterpart in the model (both are the same list); that borrowing never
changes a result is covered by the differential run (family `polyv`) only.
-/
open Polynomial

namespace TF.C17
open TF TF.Model.Poly
variable {K : Type} [Field K] (root : Nat → Option K)
local notation "FK" => FieldOps.ofField K root
open Classical

/-! ### storage versus value -/

/-- appending zero coefficients above the leading term does not change the denoted polynomial -/
theorem padding_denote (p : List K) (k : Nat) : denote (p ++ List.replicate k 0) = denote p :=
  denote_append_zeros p k
example : denote ([1, 2] ++ List.replicate 17 (0 : ℚ)) = denote [1, 2] := padding_denote _ _

/-- two storages denote the same polynomial iff they are equal up to stored leading zeros
    (they have the same normalisation, and each is its normalisation padded) -/
theorem storage_eq_iff_padding (a a' : List K) :
    denote a = denote a' ↔
      ∃ c k k', a = c ++ List.replicate k 0 ∧ a' = c ++ List.replicate k' 0 := by
  constructor
  · intro h
    obtain ⟨k, hk⟩ := exists_zeros (fun _ => none) a
    obtain ⟨k', hk'⟩ := exists_zeros (fun _ => none) a'
    exact ⟨normalize (FieldOps.ofField K) a, k, k', hk, by rw [normalize_congr _ h]; exact hk'⟩
  · rintro ⟨c, k, k', rfl, rfl⟩
    rw [denote_append_zeros, denote_append_zeros]
example : denote ([1, 2, 0] : List ℚ) = denote [1, 2] := by simp

/-- `==` is equality of the denoted polynomials -/
theorem eq_iff_denote (a b : List K) : Model.Poly.eq FK a b = true ↔ denote a = denote b :=
  Model.Poly.eq_iff_denote root a b
example : Model.Poly.eq (FieldOps.ofField ℚ) [1, 2] [1, 2, 0] = true := by
  rw [eq_iff_denote]; simp

/-- `==` respects storage in both argument positions -/
theorem eq_respects_denote {a a' b b' : List K} (ha : denote a = denote a') (hb : denote b = denote b') :
    Model.Poly.eq FK a b = Model.Poly.eq FK a' b' := eq_congr root ha hb
example : denote ([3, 0, 0] : List ℚ) = denote [3] := by simp

/-- equal polynomials hash equally (after fix F4 the hasher is fed `coefficients()`), for every hasher `h` -/
theorem hash_respects_eq {δ : Type} (h : List K → δ) (a b : List K) (hab : Model.Poly.eq FK a b = true) :
    hashWith FK h a = hashWith FK h b := by
  unfold hashWith
  rw [normalize_congr root ((eq_iff_denote root a b).1 hab)]
example : Model.Poly.eq (FieldOps.ofField ℚ) [1, 2] [1, 2, 0] = true := by
  rw [eq_iff_denote]; simp

/-- `degree()`: −1 exactly for the zero polynomial, else Mathlib's `natDegree` -/
theorem degree_spec (p : List K) :
    Model.Poly.degree FK p = if denote p = 0 then -1 else ((denote p).natDegree : Int) :=
  Model.Poly.degree_spec root p
example : Model.Poly.degree (FieldOps.ofField ℚ) [0, 0] = -1 := by
  rw [degree_spec]; simp

/-- `leading_coefficient()`: `None` exactly for zero, else the leading coefficient — never `Some(0)` -/
theorem leading_coefficient_spec (p : List K) :
    leadingCoefficient FK p = (if denote p = 0 then none else some (denote p).leadingCoeff) ∧
    leadingCoefficient FK p ≠ some 0 := by
  have h := Model.Poly.leadingCoefficient_spec root p
  refine ⟨h, ?_⟩
  rw [h]
  split
  · simp
  · next hne => simpa using hne
example : leadingCoefficient (FieldOps.ofField ℚ) [1, 2, 0] ≠ some 0 := (leading_coefficient_spec _ _).2

/-- `coefficients()` / `into_coefficients()`: the unique storage of the same polynomial whose last element is
    non-zero (empty for zero) -/
theorem coefficients_spec (p : List K) :
    denote (coefficients FK p) = denote p ∧ Normal (coefficients FK p) ∧
    (∀ q, denote q = denote p → Normal q → q = coefficients FK p) :=
  ⟨denote_normalize root p, normal_normalize root p,
    fun q hq hn => by
      unfold coefficients
      rw [← normalize_congr root hq, normalize_of_normal root hn]⟩
example : Normal ([1, 2] : List ℚ) := by simp [Normal]

/-- all accessors and predicates depend on the denoted polynomial only -/
theorem accessors_respect_denote {a a' : List K} (h : denote a = denote a') :
    Model.Poly.degree FK a = Model.Poly.degree FK a' ∧ coefficients FK a = coefficients FK a' ∧
    intoCoefficients FK a = intoCoefficients FK a' ∧
    leadingCoefficient FK a = leadingCoefficient FK a' ∧ isZero FK a = isZero FK a' ∧
    isOne FK a = isOne FK a' ∧ isX FK a = isX FK a' := by
  have hn := normalize_congr root h
  unfold Model.Poly.degree coefficients intoCoefficients leadingCoefficient isZero isOne isX
  rw [hn]
  exact ⟨rfl, rfl, rfl, rfl, rfl, rfl, rfl⟩
example : denote ([0, 1, 0, 0] : List ℚ) = denote [0, 1] := by simp

/-- the `BFieldCodec` encoding depends on the denoted polynomial only (it is the encoding of `coefficients()`),
    for every item encoding -/
theorem encode_respects_denote (encE : K → List Nat) {a a' : List K} (h : denote a = denote a') :
    encode FK encE a = encode FK encE a' := by
  unfold encode; rw [normalize_congr root h]
example : encode (FieldOps.ofField ℚ) (fun _ => [7]) [1, 2, 0] = encode (FieldOps.ofField ℚ) (fun _ => [7]) [1, 2] :=
  encode_respects_denote _ _ (by simp)

/-- the hash depends on the denoted polynomial only -/
theorem hash_respects_denote {δ : Type} (h : List K → δ) {a a' : List K} (haa : denote a = denote a') :
    hashWith FK h a = hashWith FK h a' := by
  unfold hashWith; rw [normalize_congr root haa]
example : hashWith (FieldOps.ofField ℚ) List.length [1, 2, 0] = hashWith (FieldOps.ofField ℚ) List.length [1, 2] :=
  hash_respects_denote _ _ (by simp)

/-! ### ring operations that copy raw storage: same polynomial -/

/-- `+`, `+=`, `-`, unary `-`, `scalar_mul(_mut)`, `scale`, `shift_coefficients`, `formal_derivative`, `mod_x_to_the_n`
    in every argument position -/
theorem ring_ops_respect_denote {a a' b b' : List K} (ha : denote a = denote a') (hb : denote b = denote b')
    (s : K) (n : Nat) :
    denote (add FK a b) = denote (add FK a' b') ∧
    denote (addAssign FK a b) = denote (addAssign FK a' b') ∧
    denote (sub FK a b) = denote (sub FK a' b') ∧
    denote (neg FK a) = denote (neg FK a') ∧
    denote (scalarMul FK a s) = denote (scalarMul FK a' s) ∧
    denote (scale FK a s) = denote (scale FK a' s) ∧
    denote (shiftCoefficients FK a n) = denote (shiftCoefficients FK a' n) ∧
    denote (formalDerivative FK a) = denote (formalDerivative FK a') ∧
    denote (modXToTheN a n) = denote (modXToTheN a' n) := by
  refine ⟨?_, ?_, ?_, ?_, ?_, ?_, ?_, ?_, ?_⟩
  · rw [denote_add, denote_add, ha, hb]
  · rw [denote_addAssign, denote_addAssign, ha, hb]
  · rw [denote_sub, denote_sub, ha, hb]
  · rw [denote_neg, denote_neg, ha]
  · rw [denote_scalarMul, denote_scalarMul, ha]
  · rw [denote_scale, denote_scale, ha]
  · rw [denote_shiftCoefficients, denote_shiftCoefficients, ha]
  · rw [denote_formalDerivative, denote_formalDerivative, ha]
  · exact denote_modXToTheN_congr ha n
example : denote ([1, 2, 0] : List ℚ) = denote [1, 2] ∧ denote ([] : List ℚ) = denote [0, 0] := by simp

/-- what the copied-storage operations compute (`+=` is `+`; the derivative is the formal derivative) -/
theorem add_assign_spec (a b : List K) : denote (addAssign FK a b) = denote a + denote b := denote_addAssign root a b
example : denote (addAssign (FieldOps.ofField ℚ) [1] [1, 2, 0]) = denote ([1] : List ℚ) + denote [1, 2, 0] :=
  add_assign_spec _ _ _
theorem formal_derivative_spec (p : List K) : denote (formalDerivative FK p) = derivative (denote p) :=
  denote_formalDerivative root p
example : denote (formalDerivative (FieldOps.ofField ℚ) [1, 2, 0]) = derivative (denote ([1, 2, 0] : List ℚ)) :=
  formal_derivative_spec _ _

/-- evaluation (Horner over the raw storage) depends on the denoted polynomial only -/
theorem evaluate_respects_denote {a a' : List K} (h : denote a = denote a') (x : K) :
    evaluate FK a x = evaluate FK a' x := by
  rw [eval_denote, eval_denote, h]
example : evaluate (FieldOps.ofField ℚ) [1, 2, 0, 0] 5 = evaluate (FieldOps.ofField ℚ) [1, 2] 5 :=
  evaluate_respects_denote _ (by simp) _

/-- `truncate(k)` (after fix F6) reads `coefficients()`: literally the same result on every storage, and it is the
    polynomial with the `k+1` highest coefficients -/
theorem truncate_respects_denote {a a' : List K} (h : denote a = denote a') (k : Nat) :
    truncate FK a k = truncate FK a' k := truncate_congr root h k
example : truncate (FieldOps.ofField ℚ) [1, 2, 0] 0 = truncate (FieldOps.ofField ℚ) [1, 2] 0 :=
  truncate_respects_denote _ (by simp) _
theorem truncate_spec (p : List K) (k i : Nat) :
    (denote (truncate FK p k)).coeff i = (denote p).coeff (i + ((coefficients FK p).length - (k + 1))) :=
  coeff_truncate root p k i
example : (denote (truncate (FieldOps.ofField ℚ) [1, 2, 0] 0)).coeff 0
    = (denote ([1, 2, 0] : List ℚ)).coeff (0 + ((coefficients (FieldOps.ofField ℚ) [1, 2, 0]).length - (0 + 1))) :=
  truncate_spec _ _ _ _

/-- `mod_x_to_the_n(n)` keeps the coefficients below `n` -/
theorem mod_x_to_the_n_spec (p : List K) (n i : Nat) :
    (denote (modXToTheN p n)).coeff i = if i < n then (denote p).coeff i else 0 := coeff_modXToTheN p n i
example : (denote (modXToTheN ([1, 2, 3] : List ℚ) 2)).coeff 2 = if 2 < 2 then (denote ([1, 2, 3] : List ℚ)).coeff 2 else 0 :=
  mod_x_to_the_n_spec _ _ _

/-! ### products: literally the same result, including the same panic behaviour -/

/-- `naive_multiply`, `*`, `slow_square`, `pow` — NTT-free, total -/
theorem naive_products_respect_denote {a a' b b' : List K} (ha : denote a = denote a') (hb : denote b = denote b')
    (e : Nat) :
    naiveMultiply FK a b = naiveMultiply FK a' b' ∧ mul FK a b = mul FK a' b' ∧
    slowSquare FK a = slowSquare FK a' ∧ pow FK a e = pow FK a' e :=
  ⟨naiveMultiply_congr root ha hb, naiveMultiply_congr root ha hb, slowSquare_congr root ha, pow_congr root ha e⟩
example : slowSquare (FieldOps.ofField ℚ) [1, 2, 0] = slowSquare (FieldOps.ofField ℚ) [1, 2] :=
  (naive_products_respect_denote _ (by simp) (rfl : denote ([] : List ℚ) = denote []) 0).2.2.1

/-- `fast_multiply`, `multiply`, `fast_square`, `square`, `fast_pow`: for **every** transform pair (no hypothesis),
    every threshold and cut-off, the results on two storages of the same polynomials are equal as `Option` values —
    the same polynomial storage *and* the same panic behaviour (no panic under padding; F5's `[1,2,0]`) -/
theorem ntt_products_respect_denote (T : Transform K) (threshold : Int) (cutoff : Nat)
    {a a' b b' : List K} (ha : denote a = denote a') (hb : denote b = denote b') (e : Nat) :
    fastMultiply FK T a b = fastMultiply FK T a' b' ∧
    multiply FK threshold T a b = multiply FK threshold T a' b' ∧
    fastSquare FK T a = fastSquare FK T a' ∧
    square FK cutoff T a = square FK cutoff T a' ∧
    fastPow FK cutoff threshold T a e = fastPow FK cutoff threshold T a' e :=
  ⟨fastMultiply_congr root T ha hb, multiply_congr root threshold T ha hb, fastSquare_congr root T ha,
    square_congr root cutoff T ha, fastPow_congr root cutoff threshold T ha e⟩
example : square (FieldOps.ofField ℚ) 64 exampleTransform [1, 2, 0] = square (FieldOps.ofField ℚ) 64 exampleTransform [1, 2] :=
  (ntt_products_respect_denote _ exampleTransform 256 64 (by simp) (rfl : denote ([] : List ℚ) = denote []) 0).2.2.2.1

/-- `square` on a padded operand: no panic under padding, stated with explicit padding -/
theorem square_padding (T : Transform K) (cutoff : Nat) (p : List K) (k : Nat) :
    square FK cutoff T (p ++ List.replicate k 0) = square FK cutoff T p :=
  square_congr root cutoff T (denote_append_zeros p k)
example : square (FieldOps.ofField ℚ) 64 exampleTransform ([1, 2] ++ List.replicate 1 0)
    = square (FieldOps.ofField ℚ) 64 exampleTransform [1, 2] := square_padding _ _ _ _ _

/-- `batch_multiply` and `par_batch_multiply` (every thread count) on factor lists that agree as polynomials
    position by position: both panic, or both return storages of the same polynomial -/
theorem batch_products_respect_denote (T : Transform K) (threshold : Int) (numThreads : Nat)
    {fs gs : List (List K)} (h : List.Forall₂ (fun a b => denote a = denote b) fs gs) :
    RelO (batchMultiply FK threshold T fs) (batchMultiply FK threshold T gs) ∧
    RelO (parBatchMultiply FK threshold T numThreads fs) (parBatchMultiply FK threshold T numThreads gs) := by
  have hm : MulCongr (multiply FK threshold T) := fun a a' b b' ha hb => multiply_congr root threshold T ha hb
  exact ⟨batchMultiplyWith_rel root hm (forall₂_map_some h),
    parBatchMultiplyWith_rel root hm numThreads (forall₂_map_some h)⟩
example : List.Forall₂ (fun a b => denote a = denote b) [[1, 2, 0], ([] : List ℚ)] [[1, 2], [0]] := by
  refine .cons (by simp) (.cons (by simp) .nil)

end TF.C17
