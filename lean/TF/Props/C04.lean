import TF.Proofs.MerkleUnique
import TF.Proofs.GenBridgeMerkleIndex
/-!
# C04 — Merkle inclusion-proof verification is sound, exact and total

Property theorems only (helper lemmas live in `TF/Proofs/Merkle*.lean`).  Everything is proved for an **arbitrary hash
function** `H : D → D → D` (the driver instantiates it with Tip5's `hash_pair`), so "sound" means: a wrong claim yields
an explicit collision `Collision H` (`∃ a b c d, (a,b) ≠ (c,d) ∧ H a b = H c d`).

Notation.  `Proof D` = `MerkleTreeInclusionProof` (`height`, `leafs : List (index × digest)`, `auth`); `verify H p root :
Res Bool` is the model of `MerkleTreeInclusionProof::verify` (`Res` = `ok | err | panic`, where `panic` marks every
arithmetic overflow / out-of-bounds access / `zip_eq` mismatch of the Rust code; all numbers are unbounded naturals, so
"all of `usize`" is a special case).  `Spec.refVerify` is the reference verifier: trivial proofs are accepted; otherwise
`Spec.wellFormed p` (height ≤ `MAX_TREE_HEIGHT`, all indices `< 2^height`, repeated indices carry equal digests, and
`auth` has **exactly** the length of the minimal node set `Spec.needed`) and the naive recursive recomputation
`Spec.refRoot` (claimed leafs + supplied nodes placed at `Spec.needed`, see `Spec.refVal`) equals the expected root.
`Spec.IsMerkleTree H filler ds nodes`: `nodes` is the heap-ordered honest tree over the leafs `ds`.
-/
set_option linter.unusedSectionVars false
namespace TF.C04
open TF.Gen TF.Merkle

variable {D : Type} [DecidableEq D] (H : D → D → D)

/-- **totality**: for every proof — any height, any indices, any multiset/order of claims, any length and content of the
    authentication structure — and every root, `verify` returns a verdict; no panic, i.e. no arithmetic overflow, no
    out-of-bounds access -/
theorem verify_total (p : Proof D) (root : D) : ∃ b, verify H p root = .ok b :=
  ⟨_, verify_eq_refVerify H p root⟩
example : verify Hx ⟨2^64 - 1, [(2^64 - 1, 7), (0, 7)], [1, 2, 3]⟩ 5 = .ok false := by decide +kernel

/-- **exactness**: the verdict is that of the reference recomputation: accepted iff the proof is trivial, or it is
    well-formed — in particular supplies exactly the minimal node set — and hashing the claimed leafs together with the
    supplied nodes, placed at the positions determined by indices and height, reproduces the root -/
theorem verify_exact (p : Proof D) (root : D) : verify H p root = .ok (Spec.refVerify H p root) :=
  verify_eq_refVerify H p root

theorem verify_accepts_iff (p : Proof D) (root : D) :
    verify H p root = .ok true ↔ (p.isTrivial = true ∨ (Spec.wellFormed p = true ∧ Spec.refRoot H p = some root)) := by
  rw [verify_eq_refVerify]
  unfold Spec.refVerify
  constructor
  · intro h
    have h' : (p.isTrivial || (Spec.wellFormed p && decide (Spec.refRoot H p = some root))) = true := by
      injection h
    simpa using h'
  · intro h
    congr 1
    simpa using h
example : verify Hx ⟨2, [(0, 1), (2, 3), (0, 1)], [4, 2]⟩ 193 = .ok true := by decide +kernel
example : verify Hx ⟨2, [(0, 1), (2, 3)], [4, 2, 2]⟩ 193 = .ok false := by decide +kernel      -- surplus node
example : verify Hx ⟨2, [(0, 1), (2, 3), (0, 2)], [4, 2]⟩ 193 = .ok false := by decide +kernel -- conflicting repetition
example : verify Hx ⟨32, [], []⟩ 193 = .ok true := by decide +kernel                           -- trivial proof

/-- **malformed proofs are rejected** (corollary of exactness): a non-trivial proof with a height above
    `MAX_TREE_HEIGHT`, an index outside `[0, 2^height)`, a repeated index with conflicting digests, or an authentication
    structure with a surplus or a missing node is rejected against every root -/
theorem verify_rejects_malformed (p : Proof D) (root : D) (hnt : p.isTrivial = false)
    (hbad : MAX_TREE_HEIGHT < p.height ∨ (∃ x ∈ p.leafs, 2^p.height ≤ x.1) ∨
      (∃ x ∈ p.leafs, ∃ y ∈ p.leafs, x.1 = y.1 ∧ x.2 ≠ y.2) ∨
      p.auth.length ≠ (Spec.needed p.height (p.leafs.map (·.1))).length) :
    verify H p root = .ok false := by
  rw [verify_eq_refVerify]
  congr 1
  unfold Spec.refVerify
  rw [hnt]
  cases hw : Spec.wellFormed p
  · rfl
  · exfalso
    obtain ⟨h1, h2, h3, h4⟩ := (wellFormed_iff p).1 hw
    rcases hbad with hb | ⟨x, hx, hb⟩ | ⟨x, hx, y, hy, e, ne⟩ | hb
    · unfold MAX_TREE_HEIGHT at hb; omega
    · have := h2 x hx; omega
    · unfold Spec.consistent at h3
      simp only [List.all_eq_true, Bool.or_eq_true, bne_iff_ne, ne_eq, decide_eq_true_eq] at h3
      rcases h3 x hx y hy with h' | h'
      · exact h' e
      · exact ne h'
    · exact hb h4
example : (⟨32, [(0, 1)], []⟩ : Proof Nat).isTrivial = false ∧ MAX_TREE_HEIGHT < 32 := by decide

/-- **soundness** (collision-extracting): if a non-trivial proof is accepted against the root of an honest tree of the
    stated height, then every claimed `(index, digest)` is the tree's leaf at that index — or an explicit collision of
    the hash function is exhibited -/
theorem verify_sound (filler : D) {ds : List D} {t : Tree D} {p : Proof D} {root : D}
    (hn : ds.length = 2^p.height) (hm : Spec.IsMerkleTree H filler ds t.nodes) (hr : t.root = .ok root)
    (hv : verify H p root = .ok true) (hnt : p.isTrivial = false) :
    (∀ x ∈ p.leafs, t.leaf x.1 = some x.2) ∨ Collision H := by
  rcases (verify_accepts_iff H p root).1 hv with ht | ⟨hw, hroot⟩
  · rw [hnt] at ht; cases ht
  obtain ⟨hh, hrange, hcons, hlen⟩ := (wellFormed_iff p).1 hw
  rw [tree_root H hn hm] at hr
  injection hr with hr
  -- a non-trivial well-formed proof claims at least one leaf
  have hne : p.leafs ≠ [] := by
    intro hnil
    rw [hnil] at hlen
    simp only [List.map_nil, needed_nil, List.length_nil] at hlen
    have : p.auth = [] := List.eq_nil_of_length_eq_zero hlen
    simp [Proof.isTrivial, hnil, this] at hnt
  obtain ⟨x0, hx0⟩ := List.exists_mem_of_ne_nil _ hne
  have hx0i : x0.1 ∈ p.leafs.map (·.1) := List.mem_map.2 ⟨x0, hx0, rfl⟩
  have hsz : t.nodes.length ≤ USIZE := by
    rw [hm.1, hn, ← two_pow_succ]
    have : 2^(p.height+1) ≤ 2^32 := two_pow_le_of_le (by omega)
    have : (2:Nat)^32 ≤ 2^64 := by decide
    unfold USIZE; omega
  have hrv : Spec.refVal H (Spec.leafAt p.height p.leafs) (Spec.authAt p.height (p.leafs.map (·.1)) p.auth) p.height
      (anc p.height x0.1 p.height) = some (nodeVal H (leafFn filler ds p.height) p.height (anc p.height x0.1 p.height)) := by
    rw [anc_top (hrange x0 hx0), hr]; exact hroot
  rcases refVal_sound H hw (leafFn filler ds p.height) p.height (Nat.le_refl _) x0.1 hx0i hrv with hl | hc
  · left
    intro x hx
    have hxi : x.1 ∈ p.leafs.map (·.1) := List.mem_map.2 ⟨x, hx, rfl⟩
    have h1 := hl x.1 hxi (by rw [anc_top (hrange x hx), anc_top (hrange x0 hx0)])
    have h2 : Spec.leafAt p.height p.leafs (x.1 + 2^p.height) = some x.2 :=
      (consistent_iff (n := 2^p.height)).2 hcons x hx
    rw [h2] at h1
    injection h1 with h1
    have hlt : x.1 < ds.length := by rw [hn]; exact hrange x hx
    rw [tree_leaf H hm hsz, if_pos hlt, h1]
    simp [leafFn, List.getElem?_eq_getElem hlt]
  · exact Or.inr hc
example : ∃ t root, fromDigests Hx 0 256 [1, 2, 3, 4] = .ok t ∧ t.root = .ok root ∧
    verify Hx ⟨2, [(0, 1), (2, 3)], [4, 2]⟩ root = .ok true := ⟨_, _, rfl, rfl, by decide +kernel⟩

/-- soundness against a tree built by `from_digests` (any cut-off) -/
theorem verify_sound_built (filler : D) (cutoff : Nat) {ds : List D} {t : Tree D} {p : Proof D} {root : D}
    (hn : ds.length = 2^p.height) (ht : fromDigests H filler cutoff ds = .ok t) (hr : t.root = .ok root)
    (hv : verify H p root = .ok true) (hnt : p.isTrivial = false) :
    (∀ x ∈ p.leafs, t.leaf x.1 = some x.2) ∨ Collision H := by
  obtain ⟨t', ht', hm⟩ := fromDigests_ok H filler cutoff hn
  rw [ht] at ht'; cases ht'
  exact verify_sound H filler hn hm hr hv hnt

/-- **accessors are total and never present an inner node as a leaf** (after fix F1): on a tree over `n` leafs whose
    node vector is addressable, `leaf i` is the `i`-th leaf for `i < n` and `None` for *every* `i ≥ n` in the naturals
    (so in `usize`); `node i` is `nodes[i]` or `None`; `indexed_leafs`, `authentication_structure` and
    `inclusion_proof_for_leaf_indices` return `Ok` for in-range index lists and `Err` otherwise — never a panic -/
theorem accessors_total (filler : D) {ds : List D} {h : Nat} {t : Tree D} (hn : ds.length = 2^h) (hh : h ≤ MAX_TREE_HEIGHT)
    (hm : Spec.IsMerkleTree H filler ds t.nodes) :
    (∀ i, t.leaf i = if i < ds.length then ds[i]? else none) ∧
    (∀ i, ds.length ≤ i → t.leaf i = none) ∧
    (∀ i, t.node i = t.nodes[i]?) ∧
    (∀ idxs, (∀ i ∈ idxs, i < ds.length) →
      (∃ l, t.indexedLeafs idxs = .ok l) ∧ (∃ a, t.authStructure idxs = .ok a) ∧ (∃ p, t.inclusionProof idxs = .ok p)) ∧
    (∀ idxs, (∃ i ∈ idxs, ds.length ≤ i) →
      t.indexedLeafs idxs = .err .leafIndexInvalid ∧ t.authStructure idxs = .err .leafIndexInvalid ∧
      t.inclusionProof idxs = .err .leafIndexInvalid) := by
  have hh' : h ≤ 31 := hh
  have hsz : t.nodes.length ≤ USIZE := by
    rw [hm.1, hn, ← two_pow_succ]
    have : 2^(h+1) ≤ 2^32 := two_pow_le_of_le (by omega)
    have : (2:Nat)^32 ≤ 2^64 := by decide
    unfold USIZE; omega
  refine ⟨tree_leaf H hm hsz, ?_, fun _ => rfl, ?_, ?_⟩
  · intro i hi
    rw [tree_leaf H hm hsz, if_neg (by omega)]
  · intro idxs hi
    have hi' : ∀ i ∈ idxs, i < 2^h := fun i hx => by rw [← hn]; exact hi i hx
    exact ⟨⟨_, tree_indexedLeafs H hn hm hsz hi'⟩, ⟨_, tree_authStructure H hn (by omega) hm hi'⟩,
      ⟨_, tree_inclusionProof H hn (by omega) hm hsz hi'⟩⟩
  · intro idxs hbad
    exact ⟨tree_indexedLeafs_err H hm hsz hbad, tree_authStructure_err H hn (by omega) hm hbad,
      tree_inclusionProof_err H hn hm hsz hbad⟩
example : (do let t ← fromDigests Hx 0 256 [1, 2, 3, 4]; pure (t.leaf (2^64 - 3), t.leaf (2^64 - 1), t.leaf 4, t.leaf 3))
    = Res.ok (none, none, none, some 4) := by decide +kernel

/-- **path expansion is total**: `into_authentication_paths` succeeds exactly on well-formed proofs and returns an
    error otherwise (any height, indices, lengths) — never a panic; on success there is one path per claim, of length
    `height`, made of the recomputed or supplied sibling on every level -/
theorem into_paths_total (p : Proof D) :
    (Spec.wellFormed p = true ∧ ∃ paths, intoAuthPaths H p = .ok paths ∧ paths.length = p.leafs.length ∧
      ∀ (t : Nat) (x : Nat × D) (path : List D), p.leafs[t]? = some x → paths[t]? = some path →
        path.length = p.height ∧ ∀ j, j < p.height →
          path[j]? = Spec.sibVal H (Spec.leafAt p.height p.leafs) (Spec.authAt p.height (p.leafs.map (·.1)) p.auth) j
            (sib (anc p.height x.1 j)))
    ∨ (Spec.wellFormed p = false ∧ ∃ e, intoAuthPaths H p = .err e) := by
  rcases intoAuthPaths_spec H p with ⟨hw, paths, h1, h2, h3⟩ | h
  · left
    refine ⟨hw, paths, h1, h2, ?_⟩
    intro t x path hx hp
    obtain ⟨hl, hs⟩ := h3 t x path hx hp
    exact ⟨hl, fun j hj => (hs j hj).1⟩
  · exact Or.inr h
example : intoAuthPaths Hx ⟨2, [(0, 1), (2, 3)], [4, 2]⟩ = .ok [[2, 30], [4, 14]] := by decide +kernel
example : intoAuthPaths Hx (⟨64, [], []⟩ : Proof Nat) = .err .treeTooHigh := by decide +kernel

/-- every expanded path authenticates its claim: hashing the claimed digest up along the returned path gives the root
    recomputed by the reference verifier (hence the expected root whenever `verify` accepts) -/
theorem into_paths_authenticate {p : Proof D} {paths : List (List D)} (hp : intoAuthPaths H p = .ok paths) :
    ∀ (t : Nat) (x : Nat × D) (path : List D), p.leafs[t]? = some x → paths[t]? = some path →
      Spec.refRoot H p = some (foldPath H (x.1 + 2^p.height) x.2 path) :=
  paths_fold H hp
example : foldPath Hx (2 + 2^2) 3 [4, 14] = 193 := by decide +kernel

end TF.C04

/-! ## regenerated-from-source bridge: Merkle index arithmetic (P03)

`MerkleTree::{num_leafs, height, node, leaf}` (with the `checked_add` of fix F1) and `PartialMerkleTree::num_leafs` (the
height check against `MAX_TREE_HEIGHT` and the shift) are **regenerated from the source on every run**
(`TF/Gen/MerkleIndex.lean`, `TF.Gen.Loops.mt_*` / `pmt_num_leafs`, written by `tools/rs2lean_conv.py`; every function `f` has
a twin `f_ok`, true iff nothing overflows / panics).  A `MerkleTree` is its node vector, digests are opaque (five words,
never inspected): the model's `Tree D` at `D = List Nat`; `PartialMerkleTree` is seen through `tree_height` only.
`resExcept` prints a model outcome as the source's `Result<_, MerkleTreeError>` (error = variant name).
Proofs: `TF/Proofs/GenBridgeMerkleIndex.lean`. -/
namespace TF.C04
open TF.Gen TF.Merkle TF.GenBridge.MerkleIndex

/-- regenerated accessors = hand model, for every node vector and every index: `num_leafs`, `node`, `leaf` (incl. indices
    where `first_leaf + index` overflows `usize`) cannot panic; `height` is `ilog2(num_leafs)` and panics exactly on a tree
    without leafs -/
theorem gen_tree_accessors_eq_model (ns : List (List Nat)) (i : Nat) :
    Loops.mt_num_leafs ns = (Tree.mk ns).numLeafs ∧ Loops.mt_num_leafs_ok ns = true ∧
    Loops.mt_node ns i = (Tree.mk ns).node i ∧ Loops.mt_node_ok ns i = true ∧
    Loops.mt_leaf ns i = (Tree.mk ns).leaf i ∧ Loops.mt_leaf_ok ns i = true ∧
    (Tree.mk ns).height = (if Loops.mt_height_ok ns then .ok (Loops.mt_height ns) else .panic) ∧
    (Loops.mt_height_ok ns = true ↔ 2 ≤ ns.length) :=
  ⟨rfl, rfl, rfl, rfl, (gen_leaf ns i).1, (gen_leaf ns i).2, (gen_height ns).1, (gen_height ns).2⟩
example : Loops.mt_leaf [[0], [1], [2], [3]] 1 = some [3] ∧ Loops.mt_leaf [[0], [1], [2], [3]] 2 = none ∧
    Loops.mt_leaf [[0], [1], [2], [3]] (2^64 - 2) = none ∧ Loops.mt_height [[0], [1], [2], [3]] = 1 ∧
    Loops.mt_height_ok [[0]] = false ∧ Loops.mt_node [[0], [1], [2], [3]] 4 = none := by decide +kernel

/-- regenerated `PartialMerkleTree::num_leafs` = hand model, for every height in `usize` or beyond: `TreeTooHigh` exactly
    above `MAX_TREE_HEIGHT`, otherwise `2^height`; the shift cannot overflow -/
theorem gen_partial_num_leafs_eq_model (h : Nat) :
    Loops.pmt_num_leafs h = resExcept (numLeafs h) ∧ Loops.pmt_num_leafs_ok h = true ∧
    (h ≤ MAX_TREE_HEIGHT → Loops.pmt_num_leafs h = .ok (2^h)) ∧
    (MAX_TREE_HEIGHT < h → Loops.pmt_num_leafs h = .error "TreeTooHigh") := by
  refine ⟨(gen_pmt_num_leafs h).1, (gen_pmt_num_leafs h).2, fun hh => ?_, fun hh => ?_⟩
  · rw [(gen_pmt_num_leafs h).1]
    have h31 : h ≤ 31 := hh
    unfold numLeafs shl1
    rw [if_neg (by omega), if_pos (by omega)]; rfl
  · rw [(gen_pmt_num_leafs h).1]
    unfold numLeafs
    rw [if_pos hh]; rfl
example : Loops.pmt_num_leafs 31 = .ok 2147483648 ∧ Loops.pmt_num_leafs 32 = .error "TreeTooHigh" ∧
    Loops.pmt_num_leafs (2^64 - 1) = .error "TreeTooHigh" ∧ MAX_TREE_HEIGHT = 31 := by decide +kernel

/-- **transfer** of `accessors_total` to the code as it is in the source now: on the node vector of a Merkle tree over
    `2^h` leaf digests (`h ≤ MAX_TREE_HEIGHT`, any hash on word lists) the regenerated `leaf` returns exactly the leafs and
    `None` beyond them (never an inner node, also where the index addition would overflow), `num_leafs` is the number of
    leafs, `height` is `h` and cannot panic -/
theorem gen_accessors_transfer (Hw : List Nat → List Nat → List Nat) (filler : List Nat) {ds : List (List Nat)} {h : Nat}
    {ns : List (List Nat)} (hn : ds.length = 2^h) (hh : h ≤ MAX_TREE_HEIGHT) (hm : Spec.IsMerkleTree Hw filler ds ns) :
    (∀ i, Loops.mt_leaf ns i = if i < ds.length then ds[i]? else none) ∧
    (∀ i, ds.length ≤ i → Loops.mt_leaf ns i = none) ∧
    Loops.mt_num_leafs ns = ds.length ∧ Loops.mt_height_ok ns = true ∧ Loops.mt_height ns = h := by
  have acc := accessors_total Hw filler (t := Tree.mk ns) hn hh hm
  have hl : ns.length = 2 * ds.length := hm.1
  have hnl : Loops.mt_num_leafs ns = ds.length := by
    show ns.length / 2 = ds.length
    omega
  have hpos : 0 < 2^h := Nat.pos_of_ne_zero (by simp)
  refine ⟨fun i => ?_, fun i hi => ?_, hnl, ?_, ?_⟩
  · rw [(gen_leaf ns i).1]; exact acc.1 i
  · rw [(gen_leaf ns i).1]; exact acc.2.1 i hi
  · exact (gen_height ns).2.mpr (by omega)
  · show Nat.log2 (Loops.mt_num_leafs ns) = h
    rw [hnl, hn, Nat.log2_two_pow]
example : ([[1], [2]] : List (List Nat)).length = 2^1 ∧ 1 ≤ MAX_TREE_HEIGHT ∧
    Loops.mt_leaf [[0], [9], [1], [2]] 1 = some [2] ∧ Loops.mt_height [[0], [9], [1], [2]] = 1 := by decide +kernel

end TF.C04
