import TF.Proofs.MerkleUnique
/-!
# C04 — Merkle inclusion-proof verification is sound, exact and total

Property theorems only (helper lemmas live in `TF/Proofs/Merkle*.lean`).  Everything is proved for an **arbitrary hash
function** `H : D → D → D` (the driver instantiates it with Tip5's `hash_pair`), so "sound" means: a wrong claim yields
an explicit collision `Collision H` (`∃ a b c d, (a,b) ≠ (c,d) ∧ H a b = H c d`).

Notation.  `Proof D` = `MerkleTreeInclusionProof` (`height`, `leafs : List (index × digest)`, `auth`); `verify H p root :
Res Bool` is the model of `MerkleTreeInclusionProof::verify` (`Res` = `ok | err | panic`, where `panic` marks every
arithmetic overflow / out-of-bounds access / `zip_eq` mismatch of the Rust code; all numbers are unbounded naturals, so
"all of `usize`" is a special case).  `Spec.refVerify` is the reference verifier: trivial proofs are accepted; otherwise
`Spec.wellFormed p` (height ≤ `MAX_TREE_HEIGHT`, all indices `< 2^height`, repeated indices carry equal digests, and
`auth` has **exactly** the length of the minimal node set `Spec.needed`) and the naive recursive recomputation
`Spec.refRoot` (claimed leafs + supplied nodes placed at `Spec.needed`, see `Spec.refVal`) equals the expected root.
`Spec.IsMerkleTree H filler ds nodes`: `nodes` is the heap-ordered honest tree over the leafs `ds`.
-/
set_option linter.unusedSectionVars false
namespace TF.C04
open TF.Gen TF.Merkle

variable {D : Type} [DecidableEq D] (H : D → D → D)

/-- **totality**: for every proof — any height, any indices, any multiset/order of claims, any length and content of the
    authentication structure — and every root, `verify` returns a verdict; no panic, i.e. no arithmetic overflow, no
    out-of-bounds access -/
theorem verify_total (p : Proof D) (root : D) : ∃ b, verify H p root = .ok b :=
  ⟨_, verify_eq_refVerify H p root⟩
example : verify Hx ⟨2^64 - 1, [(2^64 - 1, 7), (0, 7)], [1, 2, 3]⟩ 5 = .ok false := by decide +kernel

/-- **exactness**: the verdict is that of the reference recomputation: accepted iff the proof is trivial, or it is
    well-formed — in particular supplies exactly the minimal node set — and hashing the claimed leafs together with the
    supplied nodes, placed at the positions determined by indices and height, reproduces the root -/
theorem verify_exact (p : Proof D) (root : D) : verify H p root = .ok (Spec.refVerify H p root) :=
  verify_eq_refVerify H p root

theorem verify_accepts_iff (p : Proof D) (root : D) :
    verify H p root = .ok true ↔ (p.isTrivial = true ∨ (Spec.wellFormed p = true ∧ Spec.refRoot H p = some root)) := by
  rw [verify_eq_refVerify]
  unfold Spec.refVerify
  constructor
  · intro h
    have h' : (p.isTrivial || (Spec.wellFormed p && decide (Spec.refRoot H p = some root))) = true := by
      injection h
    simpa using h'
  · intro h
    congr 1
    simpa using h
example : verify Hx ⟨2, [(0, 1), (2, 3), (0, 1)], [4, 2]⟩ 193 = .ok true := by decide +kernel
example : verify Hx ⟨2, [(0, 1), (2, 3)], [4, 2, 2]⟩ 193 = .ok false := by decide +kernel      -- surplus node
example : verify Hx ⟨2, [(0, 1), (2, 3), (0, 2)], [4, 2]⟩ 193 = .ok false := by decide +kernel -- conflicting repetition
example : verify Hx ⟨32, [], []⟩ 193 = .ok true := by decide +kernel                           -- trivial proof

/-- **malformed proofs are rejected** (corollary of exactness): a non-trivial proof with a height above
    `MAX_TREE_HEIGHT`, an index outside `[0, 2^height)`, a repeated index with conflicting digests, or an authentication
    structure with a surplus or a missing node is rejected against every root -/
theorem verify_rejects_malformed (p : Proof D) (root : D) (hnt : p.isTrivial = false)
    (hbad : MAX_TREE_HEIGHT < p.height ∨ (∃ x ∈ p.leafs, 2^p.height ≤ x.1) ∨
      (∃ x ∈ p.leafs, ∃ y ∈ p.leafs, x.1 = y.1 ∧ x.2 ≠ y.2) ∨
      p.auth.length ≠ (Spec.needed p.height (p.leafs.map (·.1))).length) :
    verify H p root = .ok false := by
  rw [verify_eq_refVerify]
  congr 1
  unfold Spec.refVerify
  rw [hnt]
  cases hw : Spec.wellFormed p
  · rfl
  · exfalso
    obtain ⟨h1, h2, h3, h4⟩ := (wellFormed_iff p).1 hw
    rcases hbad with hb | ⟨x, hx, hb⟩ | ⟨x, hx, y, hy, e, ne⟩ | hb
    · unfold MAX_TREE_HEIGHT at hb; omega
    · have := h2 x hx; omega
    · unfold Spec.consistent at h3
      simp only [List.all_eq_true, Bool.or_eq_true, bne_iff_ne, ne_eq, decide_eq_true_eq] at h3
      rcases h3 x hx y hy with h' | h'
      · exact h' e
      · exact ne h'
    · exact hb h4
example : (⟨32, [(0, 1)], []⟩ : Proof Nat).isTrivial = false ∧ MAX_TREE_HEIGHT < 32 := by decide

/-- **soundness** (collision-extracting): if a non-trivial proof is accepted against the root of an honest tree of the
    stated height, then every claimed `(index, digest)` is the tree's leaf at that index — or an explicit collision of
    the hash function is exhibited -/
theorem verify_sound (filler : D) {ds : List D} {t : Tree D} {p : Proof D} {root : D}
    (hn : ds.length = 2^p.height) (hm : Spec.IsMerkleTree H filler ds t.nodes) (hr : t.root = .ok root)
    (hv : verify H p root = .ok true) (hnt : p.isTrivial = false) :
    (∀ x ∈ p.leafs, t.leaf x.1 = some x.2) ∨ Collision H := by
  rcases (verify_accepts_iff H p root).1 hv with ht | ⟨hw, hroot⟩
  · rw [hnt] at ht; cases ht
  obtain ⟨hh, hrange, hcons, hlen⟩ := (wellFormed_iff p).1 hw
  rw [tree_root H hn hm] at hr
  injection hr with hr
  -- a non-trivial well-formed proof claims at least one leaf
  have hne : p.leafs ≠ [] := by
    intro hnil
    rw [hnil] at hlen
    simp only [List.map_nil, needed_nil, List.length_nil] at hlen
    have : p.auth = [] := List.eq_nil_of_length_eq_zero hlen
    simp [Proof.isTrivial, hnil, this] at hnt
  obtain ⟨x0, hx0⟩ := List.exists_mem_of_ne_nil _ hne
  have hx0i : x0.1 ∈ p.leafs.map (·.1) := List.mem_map.2 ⟨x0, hx0, rfl⟩
  have hsz : t.nodes.length ≤ USIZE := by
    rw [hm.1, hn, ← two_pow_succ]
    have : 2^(p.height+1) ≤ 2^32 := two_pow_le_of_le (by omega)
    have : (2:Nat)^32 ≤ 2^64 := by decide
    unfold USIZE; omega
  have hrv : Spec.refVal H (Spec.leafAt p.height p.leafs) (Spec.authAt p.height (p.leafs.map (·.1)) p.auth) p.height
      (anc p.height x0.1 p.height) = some (nodeVal H (leafFn filler ds p.height) p.height (anc p.height x0.1 p.height)) := by
    rw [anc_top (hrange x0 hx0), hr]; exact hroot
  rcases refVal_sound H hw (leafFn filler ds p.height) p.height (Nat.le_refl _) x0.1 hx0i hrv with hl | hc
  · left
    intro x hx
    have hxi : x.1 ∈ p.leafs.map (·.1) := List.mem_map.2 ⟨x, hx, rfl⟩
    have h1 := hl x.1 hxi (by rw [anc_top (hrange x hx), anc_top (hrange x0 hx0)])
    have h2 : Spec.leafAt p.height p.leafs (x.1 + 2^p.height) = some x.2 :=
      (consistent_iff (n := 2^p.height)).2 hcons x hx
    rw [h2] at h1
    injection h1 with h1
    have hlt : x.1 < ds.length := by rw [hn]; exact hrange x hx
    rw [tree_leaf H hm hsz, if_pos hlt, h1]
    simp [leafFn, List.getElem?_eq_getElem hlt]
  · exact Or.inr hc
example : ∃ t root, fromDigests Hx 0 256 [1, 2, 3, 4] = .ok t ∧ t.root = .ok root ∧
    verify Hx ⟨2, [(0, 1), (2, 3)], [4, 2]⟩ root = .ok true := ⟨_, _, rfl, rfl, by decide +kernel⟩

/-- soundness against a tree built by `from_digests` (any cut-off) -/
theorem verify_sound_built (filler : D) (cutoff : Nat) {ds : List D} {t : Tree D} {p : Proof D} {root : D}
    (hn : ds.length = 2^p.height) (ht : fromDigests H filler cutoff ds = .ok t) (hr : t.root = .ok root)
    (hv : verify H p root = .ok true) (hnt : p.isTrivial = false) :
    (∀ x ∈ p.leafs, t.leaf x.1 = some x.2) ∨ Collision H := by
  obtain ⟨t', ht', hm⟩ := fromDigests_ok H filler cutoff hn
  rw [ht] at ht'; cases ht'
  exact verify_sound H filler hn hm hr hv hnt

/-- **accessors are total and never present an inner node as a leaf** (after fix F1): on a tree over `n` leafs whose
    node vector is addressable, `leaf i` is the `i`-th leaf for `i < n` and `None` for *every* `i ≥ n` in the naturals
    (so in `usize`); `node i` is `nodes[i]` or `None`; `indexed_leafs`, `authentication_structure` and
    `inclusion_proof_for_leaf_indices` return `Ok` for in-range index lists and `Err` otherwise — never a panic -/
theorem accessors_total (filler : D) {ds : List D} {h : Nat} {t : Tree D} (hn : ds.length = 2^h) (hh : h ≤ MAX_TREE_HEIGHT)
    (hm : Spec.IsMerkleTree H filler ds t.nodes) :
    (∀ i, t.leaf i = if i < ds.length then ds[i]? else none) ∧
    (∀ i, ds.length ≤ i → t.leaf i = none) ∧
    (∀ i, t.node i = t.nodes[i]?) ∧
    (∀ idxs, (∀ i ∈ idxs, i < ds.length) →
      (∃ l, t.indexedLeafs idxs = .ok l) ∧ (∃ a, t.authStructure idxs = .ok a) ∧ (∃ p, t.inclusionProof idxs = .ok p)) ∧
    (∀ idxs, (∃ i ∈ idxs, ds.length ≤ i) →
      t.indexedLeafs idxs = .err .leafIndexInvalid ∧ t.authStructure idxs = .err .leafIndexInvalid ∧
      t.inclusionProof idxs = .err .leafIndexInvalid) := by
  have hh' : h ≤ 31 := hh
  have hsz : t.nodes.length ≤ USIZE := by
    rw [hm.1, hn, ← two_pow_succ]
    have : 2^(h+1) ≤ 2^32 := two_pow_le_of_le (by omega)
    have : (2:Nat)^32 ≤ 2^64 := by decide
    unfold USIZE; omega
  refine ⟨tree_leaf H hm hsz, ?_, fun _ => rfl, ?_, ?_⟩
  · intro i hi
    rw [tree_leaf H hm hsz, if_neg (by omega)]
  · intro idxs hi
    have hi' : ∀ i ∈ idxs, i < 2^h := fun i hx => by rw [← hn]; exact hi i hx
    exact ⟨⟨_, tree_indexedLeafs H hn hm hsz hi'⟩, ⟨_, tree_authStructure H hn (by omega) hm hi'⟩,
      ⟨_, tree_inclusionProof H hn (by omega) hm hsz hi'⟩⟩
  · intro idxs hbad
    exact ⟨tree_indexedLeafs_err H hm hsz hbad, tree_authStructure_err H hn (by omega) hm hbad,
      tree_inclusionProof_err H hn hm hsz hbad⟩
example : (do let t ← fromDigests Hx 0 256 [1, 2, 3, 4]; pure (t.leaf (2^64 - 3), t.leaf (2^64 - 1), t.leaf 4, t.leaf 3))
    = Res.ok (none, none, none, some 4) := by decide +kernel

/-- **path expansion is total**: `into_authentication_paths` succeeds exactly on well-formed proofs and returns an
    error otherwise (any height, indices, lengths) — never a panic; on success there is one path per claim, of length
    `height`, made of the recomputed or supplied sibling on every level -/
theorem into_paths_total (p : Proof D) :
    (Spec.wellFormed p = true ∧ ∃ paths, intoAuthPaths H p = .ok paths ∧ paths.length = p.leafs.length ∧
      ∀ (t : Nat) (x : Nat × D) (path : List D), p.leafs[t]? = some x → paths[t]? = some path →
        path.length = p.height ∧ ∀ j, j < p.height →
          path[j]? = Spec.sibVal H (Spec.leafAt p.height p.leafs) (Spec.authAt p.height (p.leafs.map (·.1)) p.auth) j
            (sib (anc p.height x.1 j)))
    ∨ (Spec.wellFormed p = false ∧ ∃ e, intoAuthPaths H p = .err e) := by
  rcases intoAuthPaths_spec H p with ⟨hw, paths, h1, h2, h3⟩ | h
  · left
    refine ⟨hw, paths, h1, h2, ?_⟩
    intro t x path hx hp
    obtain ⟨hl, hs⟩ := h3 t x path hx hp
    exact ⟨hl, fun j hj => (hs j hj).1⟩
  · exact Or.inr h
example : intoAuthPaths Hx ⟨2, [(0, 1), (2, 3)], [4, 2]⟩ = .ok [[2, 30], [4, 14]] := by decide +kernel
example : intoAuthPaths Hx (⟨64, [], []⟩ : Proof Nat) = .err .treeTooHigh := by decide +kernel

/-- every expanded path authenticates its claim: hashing the claimed digest up along the returned path gives the root
    recomputed by the reference verifier (hence the expected root whenever `verify` accepts) -/
theorem into_paths_authenticate {p : Proof D} {paths : List (List D)} (hp : intoAuthPaths H p = .ok paths) :
    ∀ (t : Nat) (x : Nat × D) (path : List D), p.leafs[t]? = some x → paths[t]? = some path →
      Spec.refRoot H p = some (foldPath H (x.1 + 2^p.height) x.2 path) :=
  paths_fold H hp
example : foldPath Hx (2 + 2^2) 3 [4, 14] = 193 := by decide +kernel

end TF.C04
