import TF.Proofs.BField
import TF.Proofs.BFieldModel
import TF.Proofs.BFieldZMod
import TF.Proofs.XField
import TF.Proofs.Shah
import TF.Proofs.XFieldInv
import TF.Proofs.GenBridgeBField
/-!
# C01 — base and extension field arithmetic is exact and canonical

Property theorems only (helper lemmas live in `TF/Proofs`).  The word-level definitions `montyred`, `bfe_new`,
`bfe_value`, `bfe_add`, `bfe_sub`, `bfe_mul`, `mod_reduce` are **regenerated from `b_field_element.rs`** on every run
(`TF/Gen/BField.lean`), so these theorems are re-checked against what the source says now.

Notation: a field element is represented by its raw Montgomery word `r`; `canon r := r < P`;
its value is `bfe_value r` (the translated `canonical_representation`).
-/
namespace TF.C01
open TF.Gen TF.BF TF.Model TF.Spec

/-- Montgomery reduction is exact on its whole domain `x < P·2^64` (all products of canonical words):
    canonical result, `montyred x · 2^64 ≡ x (mod P)`, and no arithmetic overflow anywhere. -/
theorem montyred_exact (x : Nat) (hx : x < P * 2^64) :
    montyred x < P ∧ (montyred x * 2^64) % P = x % P ∧ montyred_ok x = true :=
  ⟨(montyred_spec x hx).1, (montyred_spec x hx).2, montyred_ok_true x⟩
example : (18446744069414584320 * 18446744069414584320 : Nat) < P * 2^64 := by decide

/-- `BFieldElement::new` on every `u64`: canonical word, value `v mod P`, no overflow. -/
theorem new_exact (v : Nat) (hv : v < 2^64) :
    bfe_new v < P ∧ bfe_value (bfe_new v) = v % P ∧ bfe_new_ok v = true :=
  ⟨(new_spec v hv).1, (new_spec v hv).2, new_ok v hv⟩
example : (18446744073709551615 : Nat) < 2^64 := by decide

/-- the reported value of every canonical word is canonical -/
theorem value_canonical (r : Nat) (hr : r < P) : bfe_value r < P ∧ bfe_value_ok r = true :=
  ⟨value_lt r (Nat.lt_trans hr Pn_lt_W), value_ok r⟩

/-- `value ∘ new = id` on canonical values and `new ∘ value = id` on canonical words:
    the value-level API is a bijection between `[0,P)` and canonical words -/
theorem value_new_roundtrip (v : Nat) (hv : v < P) : bfe_value (bfe_new v) = v := value_new v hv
theorem new_value_roundtrip (r : Nat) (hr : r < P) : bfe_new (bfe_value r) = r := new_value r hr

/-- exactly one internal representation per field element: derived `Eq`/`Hash` on the raw word coincide with
    equality of values -/
theorem representation_unique (a b : Nat) (ha : a < P) (hb : b < P) : bfe_value a = bfe_value b ↔ a = b :=
  ⟨repr_unique a b ha hb, fun h => by rw [h]⟩

/-- addition of canonical elements: canonical, value is the sum mod `P`, no overflow -/
theorem add_exact (a b : Nat) (ha : a < P) (hb : b < P) :
    bfe_add a b < P ∧ bfe_value (bfe_add a b) = (bfe_value a + bfe_value b) % P ∧ bfe_add_ok a b = true :=
  ⟨(add_spec a b ha hb).1, (add_spec a b ha hb).2, add_ok a b (Nat.le_of_lt hb)⟩

/-- subtraction of canonical elements: canonical, `value (a-b) + value b ≡ value a`, no overflow -/
theorem sub_exact (a b : Nat) (ha : a < P) (hb : b < P) :
    bfe_sub a b < P ∧ (bfe_value (bfe_sub a b) + bfe_value b) % P = bfe_value a ∧ bfe_sub_ok a b = true :=
  ⟨(sub_spec a b ha hb).1, (sub_spec a b ha hb).2, sub_ok a b⟩

/-- multiplication of canonical elements: canonical, value is the product mod `P`, no overflow -/
theorem mul_exact (a b : Nat) (ha : a < P) (hb : b < P) :
    bfe_mul a b < P ∧ bfe_value (bfe_mul a b) = (bfe_value a * bfe_value b) % P ∧ bfe_mul_ok a b = true :=
  ⟨(mul_spec a b ha hb).1, (mul_spec a b ha hb).2, mul_ok a b ha hb⟩
example : (18446744069414584320 : Nat) < P := by decide

/-- `From<u128>`: every 128-bit input is reduced exactly (`mod_reduce` then `new`), without overflow -/
theorem from_u128_exact (x : Nat) (hx : x < 2^128) :
    BF.fromU128 x < P ∧ bfe_value (BF.fromU128 x) = x % P ∧ mod_reduce_ok x = true := by
  have h := mod_reduce_spec x (by unfold W; omega)
  have hn := new_spec (mod_reduce x) h.1
  refine ⟨hn.1, ?_, mod_reduce_ok_true x⟩
  unfold BF.fromU128
  rw [hn.2]; exact h.2
example : (340282366920938463463374607431768211455 : Nat) < 2^128 := by decide

/-- `From<i64>` (and through it `From<i8/i16/i32/isize>`): every signed input is mapped to its residue mod `P` -/
theorem from_i64_exact (v : Int) (h1 : -(2:Int)^63 ≤ v) (h2 : v < (2:Int)^63) :
    BF.fromI64 v < P ∧ ((bfe_value (BF.fromI64 v) : Nat) : Int) = v % (18446744069414584321 : Int) :=
  fromI64_spec v h1 h2
example : -(2:Int)^63 ≤ -9223372036854775808 ∧ (-9223372036854775808 : Int) < (2:Int)^63 := by decide

/-- `From<BFieldElement> for i64`: the representative in `[-2^63, 2^63)`... of the value: it is congruent to the value and
    in the `i64` range (values above `i64::MAX` are mapped to `value - P`) -/
theorem to_i64_exact (a : Nat) (ha : a < P) :
    -(2:Int)^63 ≤ BF.toI64 a ∧ BF.toI64 a < (2:Int)^63 ∧ (BF.toI64 a) % (18446744069414584321 : Int) = (bfe_value a : Int) :=
  toI64_spec a ha

/-- `TryFrom<BFieldElement>` for `u8/u16/u32/usize` (`bits` = 8/16/32/64) and `i8/i16/i32/isize`: succeeds exactly when
    the canonical value fits, and then returns it -/
theorem try_into_exact (bits : Nat) (a : Nat) :
    (BF.tryIntoU bits a = some (bfe_value a) ↔ bfe_value a < 2^bits) ∧
    (BF.tryIntoU bits a = none ↔ ¬ bfe_value a < 2^bits) ∧
    (BF.tryIntoI bits a = some (bfe_value a) ↔ bfe_value a < 2^(bits-1)) ∧
    (BF.tryIntoI bits a = none ↔ ¬ bfe_value a < 2^(bits-1)) := by
  unfold BF.tryIntoU BF.tryIntoI
  refine ⟨?_, ?_, ?_, ?_⟩ <;> (simp only; split <;> simp_all)

/-- the raw-word operations are the field operations of `ZMod P` under the bijection `toF` between canonical words
    and `ZMod P` (so every generic algorithm of the library that reaches the base field only through its operators
    computes in the field `ZMod P`) -/
theorem field_iso (a b : Nat) (ha : a < P) (hb : b < P) :
    toF (bfe_add a b) = toF a + toF b ∧ toF (bfe_sub a b) = toF a - toF b ∧
    toF (bfe_mul a b) = toF a * toF b ∧ toF (BF.neg a) = - toF a ∧
    (toF a = toF b ↔ a = b) :=
  ⟨toF_add a b ha hb, toF_sub a b ha hb, toF_mul a b ha hb, toF_neg a ha,
   ⟨toF_inj a b ha hb, fun h => by rw [h]⟩⟩

/-- `mod_pow` (every `u64` exponent — in fact every exponent) is the repeated product -/
theorem mod_pow_exact (a : Nat) (ha : a < P) (e : Nat) :
    BF.modPow a e < P ∧ bfe_value (BF.modPow a e) = (bfe_value a) ^ e % P := modPow_value a ha e

/-- `inverse`: for every non-zero element, the unique multiplicative inverse (canonical); panics exactly on zero -/
theorem inverse_exact (x : Nat) (hx : x < P) :
    (x = BF.zero → BF.inverse x = none) ∧
    (x ≠ BF.zero → ∃ r, BF.inverse x = some r ∧ r < P ∧ (bfe_value r * bfe_value x) % P = 1 ∧
        ∀ y, y < P → (y * bfe_value x) % P = 1 → y = bfe_value r) := by
  refine ⟨(inverse_chain x hx).1, fun hnz => ?_⟩
  obtain ⟨r, hr, hc, hm⟩ := inverse_spec x hx hnz
  refine ⟨r, hr, hc, hm, fun y hy h => ?_⟩
  exact inverse_unique (bfe_value x) y (bfe_value r) hy (value_lt r (Nat.lt_trans hc Pn_lt_W)) h hm
example : (1 : Nat) < P ∧ (1 : Nat) ≠ BF.zero := by decide

/-- `inverse_or_zero` -/
theorem inverse_or_zero_exact (x : Nat) (hx : x < P) :
    (x = BF.zero → BF.inverseOrZero x = BF.zero) ∧
    (x ≠ BF.zero → (bfe_value (BF.inverseOrZero x) * bfe_value x) % P = 1) := by
  constructor
  · intro h; unfold BF.inverseOrZero; simp [h]
  · intro h
    obtain ⟨r, hr, _, hm⟩ := inverse_spec x hx h
    have h0 : (x == BF.zero) = false := by simpa using h
    unfold BF.inverseOrZero
    simp only [h0, hr, Option.getD_some, Bool.false_eq_true, if_false]
    exact hm

/-- `Div`: `a / b = a · b⁻¹`, panics exactly for `b = 0` -/
theorem div_exact (a b : Nat) (ha : a < P) (hb : b < P) :
    (b = BF.zero → BF.div a b = none) ∧
    (b ≠ BF.zero → ∃ r, BF.div a b = some r ∧ r < P ∧ toF r * toF b = toF a) := by
  constructor
  · intro h; unfold BF.div; rw [h, inverse_zero]; rfl
  · intro h
    obtain ⟨bi, hbi, hc, hv⟩ := toF_inverse b hb h
    refine ⟨bfe_mul bi a, by unfold BF.div; rw [hbi]; rfl, canon_mul _ _ hc ha, ?_⟩
    rw [toF_mul _ _ hc ha, hv]
    have : toF b ≠ 0 := fun h0 => h ((toF_eq_zero b hb).1 h0)
    field_simp

/-- **batch inversion**: any vector of non-zero elements is mapped to the vector of inverses (canonical words);
    a vector containing zero panics; the empty vector is returned unchanged -/
theorem batch_inversion_exact (xs : List Nat) :
    ((∀ x ∈ xs, x < P ∧ x ≠ BF.zero) →
      ∃ rs, BF.batchInversion xs = some rs ∧ (∀ r ∈ rs, r < P) ∧ rs.map toF = xs.map (fun x => (toF x)⁻¹)) ∧
    (BF.zero ∈ xs → BF.batchInversion xs = none) :=
  ⟨batchInversion_spec xs, batchInversion_zero xs⟩
example : ∀ x ∈ [BF.one, bfe_new 5], x < P ∧ x ≠ BF.zero := by decide

/-- extension field: the product of two elements with canonical coefficients has canonical coefficients and is the
    polynomial product modulo `X³ − X + 1` (ring identity in an arbitrary point `t`, explicit quotient) -/
theorem xfe_mul_exact (x y : XF.X3) (hx : TF.XFp.canon3 x) (hy : TF.XFp.canon3 y) (t : Fp) :
    TF.XFp.canon3 (XF.mul x y) ∧
    TF.XFp.ev t x * TF.XFp.ev t y = TF.XFp.ev t (XF.mul x y)
      + (t^3 - t + 1) * ((toF x.2.2 * toF y.2.1 + toF x.2.1 * toF y.2.2) + toF x.2.2 * toF y.2.2 * t) :=
  ⟨(TF.XFp.mul_coeffs x y hx hy).1, TF.XFp.mul_is_product_mod_shah x y hx hy t⟩

/-- extension field addition and subtraction are coefficient-wise -/
theorem xfe_add_sub_exact (x y : XF.X3) (hx : TF.XFp.canon3 x) (hy : TF.XFp.canon3 y) (t : Fp) :
    (TF.XFp.canon3 (XF.add x y) ∧ TF.XFp.ev t (XF.add x y) = TF.XFp.ev t x + TF.XFp.ev t y) ∧
    (TF.XFp.canon3 (XF.sub x y) ∧ TF.XFp.ev t (XF.sub x y) = TF.XFp.ev t x - TF.XFp.ev t y) :=
  ⟨TF.XFp.add_coeffs x y hx hy t, TF.XFp.sub_coeffs x y hx hy t⟩

/-- `X³ − X + 1` has no root in `F_p`, hence is irreducible: the extension is a **field** -/
theorem shah_polynomial_irreducible :
    Irreducible (Polynomial.X^3 - Polynomial.X + 1 : Polynomial (ZMod 18446744069414584321)) :=
  TF.Shah.shah_irreducible

/-- extension field: every non-zero element (canonical triple) has exactly one multiplicative inverse with respect to
    the product of the specification `TF.Spec.xmul` (the product formula of `XFieldElement::mul` on values) -/
theorem xfe_inverse_exists_unique (x : TF.Spec.X3) (hx : TF.Shah.canon3 x) (hnz : x ≠ TF.Spec.xzero) :
    (∃ y, TF.Shah.canon3 y ∧ TF.Spec.xmul x y = TF.Spec.xone) ∧
    (∀ y₁ y₂, TF.Shah.canon3 y₁ → TF.Shah.canon3 y₂ → TF.Spec.xmul x y₁ = TF.Spec.xone →
      TF.Spec.xmul x y₂ = TF.Spec.xone → y₁ = y₂) :=
  ⟨TF.Shah.spec_inverse_exists x hx hnz, fun y₁ y₂ h₁ h₂ e₁ e₂ => TF.Shah.spec_inverse_unique x y₁ y₂ hx hnz h₁ h₂ e₁ e₂⟩
example : TF.Shah.canon3 (1, 2, 3) ∧ ((1, 2, 3) : TF.Spec.X3) ≠ TF.Spec.xzero := by
  refine ⟨⟨by decide, by decide, by decide⟩, by decide⟩

/-- **`XFieldElement::inverse` returns the unique inverse** — on triples of canonical values.  The model
    `TF.Model.XFInv.xfeInverse` follows the Rust code: `[c0,c1,c2]` as a polynomial, `Polynomial::xgcd` with the shah
    polynomial `X³ − X + 1` (the C09 model), the Bézout coefficient reduced by `naive_divide` modulo the shah polynomial,
    the remainder zero-padded to three coefficients.  For every non-zero input it does not panic, the result is
    canonical, it is a two-sided inverse for the specification product, and it is the only one; for zero it panics. -/
theorem xfe_inverse_exact (x : TF.Spec.X3) (hx : TF.Shah.canon3 x) :
    (x = TF.Spec.xzero → TF.Model.XFInv.xfeInverse x = none) ∧
    (x ≠ TF.Spec.xzero → ∃ r, TF.Model.XFInv.xfeInverse x = some r ∧ TF.Shah.canon3 r ∧
        TF.Spec.xmul r x = TF.Spec.xone ∧ TF.Spec.xmul x r = TF.Spec.xone ∧
        ∀ y, TF.Shah.canon3 y → TF.Spec.xmul x y = TF.Spec.xone → y = r) := by
  refine ⟨fun h => (TF.XFInvProofs.xfeInverse_none_iff x hx).2 h, fun hnz => ?_⟩
  obtain ⟨r, h1, h2, h3, h4⟩ := TF.XFInvProofs.xfeInverse_spec x hx hnz
  exact ⟨r, h1, h2, h3, h4, fun y hy e => TF.Shah.spec_inverse_unique x y r hx hnz hy h2 e h4⟩
example : TF.Shah.canon3 (1, 2, 3) ∧ ((1, 2, 3) : TF.Spec.X3) ≠ TF.Spec.xzero ∧
    (TF.Model.XFInv.xfeInverse (1, 2, 3)).map (fun r => TF.Spec.xmul r (1, 2, 3)) = some TF.Spec.xone := by
  refine ⟨⟨by decide, by decide, by decide⟩, by decide, by decide +kernel⟩

/-- the same on **raw Montgomery words** (`TF.Model.XF.inverse` = `bfe_value` ∘ model ∘ `bfe_new`, what the driver
    runs against the crate), for the word-level product `XF.mul` (the three result expressions of the Rust `Mul`):
    panics exactly on zero; otherwise canonical words `r` with `r·x = x·r = 1`, unique -/
theorem xfe_inverse_words_exact (x : XF.X3) (hx : TF.XFp.canon3 x) :
    (XF.inverse x = none ↔ x = XF.zero) ∧
    (x ≠ XF.zero → ∃ r, XF.inverse x = some r ∧ TF.XFp.canon3 r ∧ XF.mul r x = XF.one ∧ XF.mul x r = XF.one ∧
        ∀ y, TF.XFp.canon3 y → XF.mul y x = XF.one → y = r) :=
  ⟨TF.XFInvProofs.inverse_none_iff x hx, TF.XFInvProofs.inverse_spec x hx⟩
example : TF.XFp.canon3 XF.one ∧ XF.one ≠ XF.zero := ⟨TF.XFInvProofs.canon3_one, by decide⟩

/-- `inverse_or_zero` on the extension field: zero for zero, `inverse()` otherwise; never panics -/
theorem xfe_inverse_or_zero_exact (x : XF.X3) (hx : TF.XFp.canon3 x) :
    (x = XF.zero → XF.inverseOrZero x = some XF.zero) ∧
    (x ≠ XF.zero → ∃ r, XF.inverseOrZero x = some r ∧ XF.inverse x = some r ∧ TF.XFp.canon3 r ∧
        XF.mul r x = XF.one) := by
  refine ⟨(TF.XFInvProofs.inverseOrZero_spec x hx).1, fun hnz => ?_⟩
  obtain ⟨r, h1, h2⟩ := (TF.XFInvProofs.inverseOrZero_spec x hx).2 hnz
  obtain ⟨r', h3, h4, h5, _⟩ := TF.XFInvProofs.inverse_spec x hx hnz
  obtain rfl : r' = r := by rw [h2] at h3; exact (Option.some.inj h3).symm
  exact ⟨r', h1, h2, h4, h5⟩
example : TF.XFp.canon3 XF.zero ∧ XF.inverseOrZero XF.zero = some XF.zero := ⟨TF.XFInvProofs.canon3_zero, rfl⟩

/-- `Div` on the extension field: `a / b = a · b⁻¹` (canonical) and `(a / b) · b = a`; panics exactly for `b = 0` -/
theorem xfe_div_exact (a b : XF.X3) (ha : TF.XFp.canon3 a) (hb : TF.XFp.canon3 b) :
    (b = XF.zero → XF.div a b = none) ∧
    (b ≠ XF.zero → ∃ bi r, XF.inverse b = some bi ∧ XF.div a b = some r ∧ r = XF.mul a bi ∧ TF.XFp.canon3 r ∧
        XF.mul r b = a) :=
  TF.XFInvProofs.div_spec a b ha hb
example : TF.XFp.canon3 XF.one ∧ XF.one ≠ XF.zero := ⟨TF.XFInvProofs.canon3_one, by decide⟩

end TF.C01

/-! ## regenerated-from-source bridge

`BFieldElement::{mod_pow, mod_pow_u32, mod_pow_u64, inverse}` (with the nested `exp` of `inverse`) are **also regenerated
from `b_field_element.rs` on every run** (`TF/Gen/BFieldLoops.lean`, `TF.Gen.Loops.bfe_*`, written by
`tools/rs2lean_bfe.py`): `while` loops are fuel-indexed recursions (`none` = out of fuel), the `_ok` companion is true
iff no `assert!` fails and no plain operation overflows.  The theorems below (proofs in `TF/Proofs/GenBridgeBField.lean`)
say that the regenerated functions terminate within their fuel and return the hand model's value, for every base word
and every `u64` exponent; the `…_transfer` corollaries restate `mod_pow_exact` / `inverse_exact` for the regenerated
code.  A one-token change of one of these Rust functions changes `TF.Gen.Loops.bfe_*`; these theorems are then re-checked
or break. -/
namespace TF.C01
open TF.Gen TF.BF TF.Model

/-- regenerated `mod_pow` (the bit loop) = hand model, every base word, every `u64` exponent -/
theorem gen_mod_pow_eq_model (a e : Nat) (he : e < 2 ^ 64) : Loops.bfe_mod_pow a e = some (BF.modPow a e) :=
  TF.GenBridge.BField.gen_mod_pow_eq a e he
example : Loops.bfe_mod_pow (bfe_new 7) 18446744069414584320 = some (bfe_new 1) ∧
    Loops.bfe_mod_pow_ok (bfe_new 7) 18446744073709551615 = true ∧ Loops.bfe_mod_pow (bfe_new 7) 0 = some BF.one := by
  decide +kernel

/-- regenerated `mod_pow_u32` / `mod_pow_u64` = hand model -/
theorem gen_mod_pow_u32_u64_eq_model (a e : Nat) :
    (e < 2 ^ 32 → Loops.bfe_mod_pow_u32 a e = some (BF.modPow a e)) ∧
    (e < 2 ^ 64 → Loops.bfe_mod_pow_u64 a e = some (BF.modPow a e)) :=
  ⟨TF.GenBridge.BField.gen_mod_pow_u32_eq a e, TF.GenBridge.BField.gen_mod_pow_u64_eq a e⟩
example : Loops.bfe_mod_pow_u32 (bfe_new 2) 32 = some (bfe_new 4294967296) := by decide +kernel

/-- regenerated local `exp(base, k)` of `inverse` = `k` squarings -/
theorem gen_inverse_exp_eq_model (base k : Nat) (hk : k < 2 ^ 64) :
    Loops.bfe_inverse_exp base k = some (BF.sqN base k) :=
  TF.GenBridge.BField.gen_exp_eq base k hk
example : Loops.bfe_inverse_exp (bfe_new 2) 5 = some (bfe_new 4294967296) := by decide +kernel

/-- regenerated `inverse` (addition chain) = hand model: the same chain value for every non-zero word; on zero the hand
    model panics and the regenerated `_ok` flag is false (the `assert_ne!` fails) -/
theorem gen_inverse_eq_model (x : Nat) :
    BF.inverse x = (if x == BF.zero then none else Loops.bfe_inverse x) ∧ Loops.bfe_inverse_ok BF.zero = false :=
  ⟨TF.GenBridge.BField.gen_inverse_eq x, TF.GenBridge.BField.gen_inverse_ok_zero⟩
example : Loops.bfe_inverse (bfe_new 2) = some (bfe_new 9223372034707292161) ∧
    Loops.bfe_inverse_ok (bfe_new 2) = true := by decide +kernel

/-- **transfer**: `mod_pow_exact` and `inverse_exact` for the code as it is in the source now -/
theorem gen_mod_pow_inverse_transfer (a : Nat) (ha : a < P) :
    (∀ e, e < 2 ^ 64 → ∃ r, Loops.bfe_mod_pow a e = some r ∧ r < P ∧ bfe_value r = (bfe_value a) ^ e % P) ∧
    (a ≠ BF.zero → ∃ r, Loops.bfe_inverse a = some r ∧ r < P ∧ (bfe_value r * bfe_value a) % P = 1) := by
  refine ⟨fun e he => ⟨_, gen_mod_pow_eq_model a e he, (mod_pow_exact a ha e).1, (mod_pow_exact a ha e).2⟩, fun hnz => ?_⟩
  obtain ⟨r, hr, hc, hm, _⟩ := (inverse_exact a ha).2 hnz
  refine ⟨r, ?_, hc, hm⟩
  have h := (gen_inverse_eq_model a).1
  have hz : (a == BF.zero) = false := by simpa using hnz
  rw [hz] at h
  simpa [h] using hr
example : (bfe_new 2) < P ∧ bfe_new 2 ≠ BF.zero := by decide +kernel

end TF.C01
