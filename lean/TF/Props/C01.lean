import TF.Proofs.BField
import TF.Proofs.BFieldModel
import TF.Proofs.BFieldZMod
import TF.Proofs.XField
import TF.Proofs.Shah
import TF.Proofs.XFieldInv
import TF.Proofs.BFieldMore
import TF.Proofs.XFieldMore
import TF.Proofs.XFieldK
import TF.Proofs.XFieldCyc
import TF.Proofs.GenBridgeBField
import TF.Proofs.GenBridgePacc
import TF.Proofs.GenBridgeField
import TF.Proofs.GenBridgeBFieldOk
/-!
# C01 — base and extension field arithmetic is exact and canonical

Property theorems only (helper lemmas live in `TF/Proofs`).  The word-level definitions `montyred`, `bfe_new`,
`bfe_value`, `bfe_add`, `bfe_sub`, `bfe_mul`, `mod_reduce` are **regenerated from `b_field_element.rs`** on every run
(`TF/Gen/BField.lean`), so these theorems are re-checked against what the source says now.

Notation: a field element is represented by its raw Montgomery word `r`; `canon r := r < P`;
its value is `bfe_value r` (the translated `canonical_representation`).
-/
namespace TF.C01
open TF.Gen TF.BF TF.Model TF.Spec

/-- Montgomery reduction is exact on its whole domain `x < P·2^64` (all products of canonical words):
    canonical result, `montyred x · 2^64 ≡ x (mod P)`, and no arithmetic overflow anywhere. -/
theorem montyred_exact (x : Nat) (hx : x < P * 2^64) :
    montyred x < P ∧ (montyred x * 2^64) % P = x % P ∧ montyred_ok x = true :=
  ⟨(montyred_spec x hx).1, (montyred_spec x hx).2, montyred_ok_true x⟩
example : (18446744069414584320 * 18446744069414584320 : Nat) < P * 2^64 := by decide

/-- `BFieldElement::new` on every `u64`: canonical word, value `v mod P`, no overflow. -/
theorem new_exact (v : Nat) (hv : v < 2^64) :
    bfe_new v < P ∧ bfe_value (bfe_new v) = v % P ∧ bfe_new_ok v = true :=
  ⟨(new_spec v hv).1, (new_spec v hv).2, new_ok v hv⟩
example : (18446744073709551615 : Nat) < 2^64 := by decide

/-- the reported value of every canonical word is canonical -/
theorem value_canonical (r : Nat) (hr : r < P) : bfe_value r < P ∧ bfe_value_ok r = true :=
  ⟨value_lt r (Nat.lt_trans hr Pn_lt_W), value_ok r⟩

/-- `value ∘ new = id` on canonical values and `new ∘ value = id` on canonical words:
    the value-level API is a bijection between `[0,P)` and canonical words -/
theorem value_new_roundtrip (v : Nat) (hv : v < P) : bfe_value (bfe_new v) = v := value_new v hv
theorem new_value_roundtrip (r : Nat) (hr : r < P) : bfe_new (bfe_value r) = r := new_value r hr

/-- exactly one internal representation per field element: derived `Eq`/`Hash` on the raw word coincide with
    equality of values -/
theorem representation_unique (a b : Nat) (ha : a < P) (hb : b < P) : bfe_value a = bfe_value b ↔ a = b :=
  ⟨repr_unique a b ha hb, fun h => by rw [h]⟩

/-- addition of canonical elements: canonical, value is the sum mod `P`, no overflow -/
theorem add_exact (a b : Nat) (ha : a < P) (hb : b < P) :
    bfe_add a b < P ∧ bfe_value (bfe_add a b) = (bfe_value a + bfe_value b) % P ∧ bfe_add_ok a b = true :=
  ⟨(add_spec a b ha hb).1, (add_spec a b ha hb).2, add_ok a b (Nat.le_of_lt hb)⟩

/-- subtraction of canonical elements: canonical, `value (a-b) + value b ≡ value a`, no overflow -/
theorem sub_exact (a b : Nat) (ha : a < P) (hb : b < P) :
    bfe_sub a b < P ∧ (bfe_value (bfe_sub a b) + bfe_value b) % P = bfe_value a ∧ bfe_sub_ok a b = true :=
  ⟨(sub_spec a b ha hb).1, (sub_spec a b ha hb).2, sub_ok a b⟩

/-- multiplication of canonical elements: canonical, value is the product mod `P`, no overflow -/
theorem mul_exact (a b : Nat) (ha : a < P) (hb : b < P) :
    bfe_mul a b < P ∧ bfe_value (bfe_mul a b) = (bfe_value a * bfe_value b) % P ∧ bfe_mul_ok a b = true :=
  ⟨(mul_spec a b ha hb).1, (mul_spec a b ha hb).2, mul_ok a b ha hb⟩
example : (18446744069414584320 : Nat) < P := by decide

/-- `From<u128>`: every 128-bit input is reduced exactly (`mod_reduce` then `new`), without overflow -/
theorem from_u128_exact (x : Nat) (hx : x < 2^128) :
    BF.fromU128 x < P ∧ bfe_value (BF.fromU128 x) = x % P ∧ mod_reduce_ok x = true := by
  have h := mod_reduce_spec x (by unfold W; omega)
  have hn := new_spec (mod_reduce x) h.1
  refine ⟨hn.1, ?_, mod_reduce_ok_true x⟩
  unfold BF.fromU128
  rw [hn.2]; exact h.2
example : (340282366920938463463374607431768211455 : Nat) < 2^128 := by decide

/-- `From<i64>` (and through it `From<i8/i16/i32/isize>`): every signed input is mapped to its residue mod `P` -/
theorem from_i64_exact (v : Int) (h1 : -(2:Int)^63 ≤ v) (h2 : v < (2:Int)^63) :
    BF.fromI64 v < P ∧ ((bfe_value (BF.fromI64 v) : Nat) : Int) = v % (18446744069414584321 : Int) :=
  fromI64_spec v h1 h2
example : -(2:Int)^63 ≤ -9223372036854775808 ∧ (-9223372036854775808 : Int) < (2:Int)^63 := by decide

/-- `From<BFieldElement> for i64`: the representative in `[-2^63, 2^63)`... of the value: it is congruent to the value and
    in the `i64` range (values above `i64::MAX` are mapped to `value - P`) -/
theorem to_i64_exact (a : Nat) (ha : a < P) :
    -(2:Int)^63 ≤ BF.toI64 a ∧ BF.toI64 a < (2:Int)^63 ∧ (BF.toI64 a) % (18446744069414584321 : Int) = (bfe_value a : Int) :=
  toI64_spec a ha

/-- `TryFrom<BFieldElement>` for `u8/u16/u32/usize` (`bits` = 8/16/32/64) and `i8/i16/i32/isize`: succeeds exactly when
    the canonical value fits, and then returns it -/
theorem try_into_exact (bits : Nat) (a : Nat) :
    (BF.tryIntoU bits a = some (bfe_value a) ↔ bfe_value a < 2^bits) ∧
    (BF.tryIntoU bits a = none ↔ ¬ bfe_value a < 2^bits) ∧
    (BF.tryIntoI bits a = some (bfe_value a) ↔ bfe_value a < 2^(bits-1)) ∧
    (BF.tryIntoI bits a = none ↔ ¬ bfe_value a < 2^(bits-1)) := by
  unfold BF.tryIntoU BF.tryIntoI
  refine ⟨?_, ?_, ?_, ?_⟩ <;> (simp only; split <;> simp_all)

/-- the raw-word operations are the field operations of `ZMod P` under the bijection `toF` between canonical words
    and `ZMod P` (so every generic algorithm of the library that reaches the base field only through its operators
    computes in the field `ZMod P`) -/
theorem field_iso (a b : Nat) (ha : a < P) (hb : b < P) :
    toF (bfe_add a b) = toF a + toF b ∧ toF (bfe_sub a b) = toF a - toF b ∧
    toF (bfe_mul a b) = toF a * toF b ∧ toF (BF.neg a) = - toF a ∧
    (toF a = toF b ↔ a = b) :=
  ⟨toF_add a b ha hb, toF_sub a b ha hb, toF_mul a b ha hb, toF_neg a ha,
   ⟨toF_inj a b ha hb, fun h => by rw [h]⟩⟩

/-- `mod_pow` (every `u64` exponent — in fact every exponent) is the repeated product -/
theorem mod_pow_exact (a : Nat) (ha : a < P) (e : Nat) :
    BF.modPow a e < P ∧ bfe_value (BF.modPow a e) = (bfe_value a) ^ e % P := modPow_value a ha e

/-- `inverse`: for every non-zero element, the unique multiplicative inverse (canonical); panics exactly on zero -/
theorem inverse_exact (x : Nat) (hx : x < P) :
    (x = BF.zero → BF.inverse x = none) ∧
    (x ≠ BF.zero → ∃ r, BF.inverse x = some r ∧ r < P ∧ (bfe_value r * bfe_value x) % P = 1 ∧
        ∀ y, y < P → (y * bfe_value x) % P = 1 → y = bfe_value r) := by
  refine ⟨(inverse_chain x hx).1, fun hnz => ?_⟩
  obtain ⟨r, hr, hc, hm⟩ := inverse_spec x hx hnz
  refine ⟨r, hr, hc, hm, fun y hy h => ?_⟩
  exact inverse_unique (bfe_value x) y (bfe_value r) hy (value_lt r (Nat.lt_trans hc Pn_lt_W)) h hm
example : (1 : Nat) < P ∧ (1 : Nat) ≠ BF.zero := by decide

/-- `inverse_or_zero` -/
theorem inverse_or_zero_exact (x : Nat) (hx : x < P) :
    (x = BF.zero → BF.inverseOrZero x = BF.zero) ∧
    (x ≠ BF.zero → (bfe_value (BF.inverseOrZero x) * bfe_value x) % P = 1) := by
  constructor
  · intro h; unfold BF.inverseOrZero; simp [h]
  · intro h
    obtain ⟨r, hr, _, hm⟩ := inverse_spec x hx h
    have h0 : (x == BF.zero) = false := by simpa using h
    unfold BF.inverseOrZero
    simp only [h0, hr, Option.getD_some, Bool.false_eq_true, if_false]
    exact hm

/-- `Div`: `a / b = a · b⁻¹`, panics exactly for `b = 0` -/
theorem div_exact (a b : Nat) (ha : a < P) (hb : b < P) :
    (b = BF.zero → BF.div a b = none) ∧
    (b ≠ BF.zero → ∃ r, BF.div a b = some r ∧ r < P ∧ toF r * toF b = toF a) := by
  constructor
  · intro h; unfold BF.div; rw [h, inverse_zero]; rfl
  · intro h
    obtain ⟨bi, hbi, hc, hv⟩ := toF_inverse b hb h
    refine ⟨bfe_mul bi a, by unfold BF.div; rw [hbi]; rfl, canon_mul _ _ hc ha, ?_⟩
    rw [toF_mul _ _ hc ha, hv]
    have : toF b ≠ 0 := fun h0 => h ((toF_eq_zero b hb).1 h0)
    field_simp

/-- **batch inversion**: any vector of non-zero elements is mapped to the vector of inverses (canonical words);
    a vector containing zero panics; the empty vector is returned unchanged -/
theorem batch_inversion_exact (xs : List Nat) :
    ((∀ x ∈ xs, x < P ∧ x ≠ BF.zero) →
      ∃ rs, BF.batchInversion xs = some rs ∧ (∀ r ∈ rs, r < P) ∧ rs.map toF = xs.map (fun x => (toF x)⁻¹)) ∧
    (BF.zero ∈ xs → BF.batchInversion xs = none) :=
  ⟨batchInversion_spec xs, batchInversion_zero xs⟩
example : ∀ x ∈ [BF.one, bfe_new 5], x < P ∧ x ≠ BF.zero := by decide

/-- extension field: the product of two elements with canonical coefficients has canonical coefficients and is the
    polynomial product modulo `X³ − X + 1` (ring identity in an arbitrary point `t`, explicit quotient) -/
theorem xfe_mul_exact (x y : XF.X3) (hx : TF.XFp.canon3 x) (hy : TF.XFp.canon3 y) (t : Fp) :
    TF.XFp.canon3 (XF.mul x y) ∧
    TF.XFp.ev t x * TF.XFp.ev t y = TF.XFp.ev t (XF.mul x y)
      + (t^3 - t + 1) * ((toF x.2.2 * toF y.2.1 + toF x.2.1 * toF y.2.2) + toF x.2.2 * toF y.2.2 * t) :=
  ⟨(TF.XFp.mul_coeffs x y hx hy).1, TF.XFp.mul_is_product_mod_shah x y hx hy t⟩

/-- extension field addition and subtraction are coefficient-wise -/
theorem xfe_add_sub_exact (x y : XF.X3) (hx : TF.XFp.canon3 x) (hy : TF.XFp.canon3 y) (t : Fp) :
    (TF.XFp.canon3 (XF.add x y) ∧ TF.XFp.ev t (XF.add x y) = TF.XFp.ev t x + TF.XFp.ev t y) ∧
    (TF.XFp.canon3 (XF.sub x y) ∧ TF.XFp.ev t (XF.sub x y) = TF.XFp.ev t x - TF.XFp.ev t y) :=
  ⟨TF.XFp.add_coeffs x y hx hy t, TF.XFp.sub_coeffs x y hx hy t⟩

/-- `X³ − X + 1` has no root in `F_p`, hence is irreducible: the extension is a **field** -/
theorem shah_polynomial_irreducible :
    Irreducible (Polynomial.X^3 - Polynomial.X + 1 : Polynomial (ZMod 18446744069414584321)) :=
  TF.Shah.shah_irreducible

/-- extension field: every non-zero element (canonical triple) has exactly one multiplicative inverse with respect to
    the product of the specification `TF.Spec.xmul` (the product formula of `XFieldElement::mul` on values) -/
theorem xfe_inverse_exists_unique (x : TF.Spec.X3) (hx : TF.Shah.canon3 x) (hnz : x ≠ TF.Spec.xzero) :
    (∃ y, TF.Shah.canon3 y ∧ TF.Spec.xmul x y = TF.Spec.xone) ∧
    (∀ y₁ y₂, TF.Shah.canon3 y₁ → TF.Shah.canon3 y₂ → TF.Spec.xmul x y₁ = TF.Spec.xone →
      TF.Spec.xmul x y₂ = TF.Spec.xone → y₁ = y₂) :=
  ⟨TF.Shah.spec_inverse_exists x hx hnz, fun y₁ y₂ h₁ h₂ e₁ e₂ => TF.Shah.spec_inverse_unique x y₁ y₂ hx hnz h₁ h₂ e₁ e₂⟩
example : TF.Shah.canon3 (1, 2, 3) ∧ ((1, 2, 3) : TF.Spec.X3) ≠ TF.Spec.xzero := by
  refine ⟨⟨by decide, by decide, by decide⟩, by decide⟩

/-- **`XFieldElement::inverse` returns the unique inverse** — on triples of canonical values.  The model
    `TF.Model.XFInv.xfeInverse` follows the Rust code: `[c0,c1,c2]` as a polynomial, `Polynomial::xgcd` with the shah
    polynomial `X³ − X + 1` (the C09 model), the Bézout coefficient reduced by `naive_divide` modulo the shah polynomial,
    the remainder zero-padded to three coefficients.  For every non-zero input it does not panic, the result is
    canonical, it is a two-sided inverse for the specification product, and it is the only one; for zero it panics. -/
theorem xfe_inverse_exact (x : TF.Spec.X3) (hx : TF.Shah.canon3 x) :
    (x = TF.Spec.xzero → TF.Model.XFInv.xfeInverse x = none) ∧
    (x ≠ TF.Spec.xzero → ∃ r, TF.Model.XFInv.xfeInverse x = some r ∧ TF.Shah.canon3 r ∧
        TF.Spec.xmul r x = TF.Spec.xone ∧ TF.Spec.xmul x r = TF.Spec.xone ∧
        ∀ y, TF.Shah.canon3 y → TF.Spec.xmul x y = TF.Spec.xone → y = r) := by
  refine ⟨fun h => (TF.XFInvProofs.xfeInverse_none_iff x hx).2 h, fun hnz => ?_⟩
  obtain ⟨r, h1, h2, h3, h4⟩ := TF.XFInvProofs.xfeInverse_spec x hx hnz
  exact ⟨r, h1, h2, h3, h4, fun y hy e => TF.Shah.spec_inverse_unique x y r hx hnz hy h2 e h4⟩
example : TF.Shah.canon3 (1, 2, 3) ∧ ((1, 2, 3) : TF.Spec.X3) ≠ TF.Spec.xzero ∧
    (TF.Model.XFInv.xfeInverse (1, 2, 3)).map (fun r => TF.Spec.xmul r (1, 2, 3)) = some TF.Spec.xone := by
  refine ⟨⟨by decide, by decide, by decide⟩, by decide, by decide +kernel⟩

/-- the same on **raw Montgomery words** (`TF.Model.XF.inverse` = `bfe_value` ∘ model ∘ `bfe_new`, what the driver
    runs against the crate), for the word-level product `XF.mul` (the three result expressions of the Rust `Mul`):
    panics exactly on zero; otherwise canonical words `r` with `r·x = x·r = 1`, unique -/
theorem xfe_inverse_words_exact (x : XF.X3) (hx : TF.XFp.canon3 x) :
    (XF.inverse x = none ↔ x = XF.zero) ∧
    (x ≠ XF.zero → ∃ r, XF.inverse x = some r ∧ TF.XFp.canon3 r ∧ XF.mul r x = XF.one ∧ XF.mul x r = XF.one ∧
        ∀ y, TF.XFp.canon3 y → XF.mul y x = XF.one → y = r) :=
  ⟨TF.XFInvProofs.inverse_none_iff x hx, TF.XFInvProofs.inverse_spec x hx⟩
example : TF.XFp.canon3 XF.one ∧ XF.one ≠ XF.zero := ⟨TF.XFInvProofs.canon3_one, by decide⟩

/-- `inverse_or_zero` on the extension field: zero for zero, `inverse()` otherwise; never panics -/
theorem xfe_inverse_or_zero_exact (x : XF.X3) (hx : TF.XFp.canon3 x) :
    (x = XF.zero → XF.inverseOrZero x = some XF.zero) ∧
    (x ≠ XF.zero → ∃ r, XF.inverseOrZero x = some r ∧ XF.inverse x = some r ∧ TF.XFp.canon3 r ∧
        XF.mul r x = XF.one) := by
  refine ⟨(TF.XFInvProofs.inverseOrZero_spec x hx).1, fun hnz => ?_⟩
  obtain ⟨r, h1, h2⟩ := (TF.XFInvProofs.inverseOrZero_spec x hx).2 hnz
  obtain ⟨r', h3, h4, h5, _⟩ := TF.XFInvProofs.inverse_spec x hx hnz
  obtain rfl : r' = r := by rw [h2] at h3; exact (Option.some.inj h3).symm
  exact ⟨r', h1, h2, h4, h5⟩
example : TF.XFp.canon3 XF.zero ∧ XF.inverseOrZero XF.zero = some XF.zero := ⟨TF.XFInvProofs.canon3_zero, rfl⟩

/-- `Div` on the extension field: `a / b = a · b⁻¹` (canonical) and `(a / b) · b = a`; panics exactly for `b = 0` -/
theorem xfe_div_exact (a b : XF.X3) (ha : TF.XFp.canon3 a) (hb : TF.XFp.canon3 b) :
    (b = XF.zero → XF.div a b = none) ∧
    (b ≠ XF.zero → ∃ bi r, XF.inverse b = some bi ∧ XF.div a b = some r ∧ r = XF.mul a bi ∧ TF.XFp.canon3 r ∧
        XF.mul r b = a) :=
  TF.XFInvProofs.div_spec a b ha hb
example : TF.XFp.canon3 XF.one ∧ XF.one ≠ XF.zero := ⟨TF.XFInvProofs.canon3_one, by decide⟩

/-! ## Growth: the rest of the public surface of `b_field_element.rs`, `x_field_element.rs`, `traits.rs`

The one-liners `bfe_increment`, `bfe_decrement`, `bfe_add_assign`, `bfe_sub_assign`, `bfe_mul_assign`, `bfe_neg`, `bfe_square`,
`bfe_generator`, `bfe_zero/one`, `bfe_is_zero/is_one`, `bfe_is_canonical`, `bfe_raw_u64/u128`, `bfe_from_raw_u64`,
`bfe_raw_u16s`, `bfe_from_raw_u16s`, `bfe_raw_bytes`, `bfe_from_raw_bytes` are **regenerated from the source** on every
run (`TF/Gen/BField.lean`); the loops are modelled in `TF/Model/BFieldMore.lean`. -/

/-- `increment` / `decrement`: `+1` / `-1` modulo `P`, canonical, no overflow -/
theorem increment_decrement_exact (a : Nat) (ha : a < P) :
    (bfe_increment a < P ∧ bfe_value (bfe_increment a) = (bfe_value a + 1) % P ∧ bfe_increment_ok a = true) ∧
    (bfe_decrement a < P ∧ (bfe_value (bfe_decrement a) + 1) % P = bfe_value a ∧ bfe_decrement_ok a = true) := by
  have h1 := add_spec a BF.one ha canon_one
  have h2 := sub_spec a BF.one ha canon_one
  rw [show bfe_value BF.one = 1 from val_one] at h1 h2
  exact ⟨⟨h1.1, h1.2, add_ok a BF.one (Nat.le_of_lt canon_one)⟩, ⟨h2.1, h2.2, sub_ok a BF.one⟩⟩
example : bfe_value (bfe_increment (bfe_new 18446744069414584320)) = 0 ∧
    bfe_value (bfe_decrement (bfe_new 0)) = 18446744069414584320 := by decide

/-- the assign operators `+=`, `-=`, `*=` are the binary operators (so `add_exact`, `sub_exact`, `mul_exact` apply);
    `Neg` is `0 - a`; `FiniteField::square` is `a * a` -/
theorem assign_ops_exact (a b : Nat) :
    bfe_add_assign a b = bfe_add a b ∧ bfe_sub_assign a b = bfe_sub a b ∧ bfe_mul_assign a b = bfe_mul a b ∧
    bfe_add_assign_ok a b = bfe_add_ok a b ∧ bfe_sub_assign_ok a b = bfe_sub_ok a b ∧ bfe_mul_assign_ok a b = bfe_mul_ok a b ∧
    bfe_neg a = BF.neg a ∧ bfe_square a = bfe_mul a a :=
  ⟨rfl, rfl, rfl, rfl, rfl, rfl, rfl, rfl⟩

/-- `Neg` and `square` on canonical elements: canonical, `(-a) + a = 0`, `square a = a²` -/
theorem neg_square_exact (a : Nat) (ha : a < P) :
    (bfe_neg a < P ∧ toF (bfe_neg a) = - toF a ∧ bfe_neg_ok a = true) ∧
    (bfe_square a < P ∧ toF (bfe_square a) = toF a ^ 2 ∧ bfe_square_ok a = true) :=
  ⟨⟨TF.XFp.canon_neg a ha, toF_neg a ha, sub_ok _ a⟩,
   ⟨canon_mul a a ha ha, by rw [show bfe_square a = bfe_mul a a from rfl, toF_mul a a ha ha, pow_two], mul_ok a a ha ha⟩⟩
example : bfe_value (bfe_neg (bfe_new 1)) = 18446744069414584320 := by decide

/-- `raw_u16s` / `from_raw_u16s`: the four little-endian 16-bit chunks of the raw word; mutually inverse on all
    64-bit words and all chunk arrays -/
theorem raw_u16s_roundtrip :
    (∀ a, a < 2^64 → bfe_raw_u16s a = [a % 65536, a / 65536 % 65536, a / 4294967296 % 65536, a / 281474976710656 % 65536] ∧
      BF.fromRawU16s (bfe_raw_u16s a) = some a) ∧
    (∀ c0 c1 c2 c3, c0 < 65536 → c1 < 65536 → c2 < 65536 → c3 < 65536 →
      bfe_from_raw_u16s c0 c1 c2 c3 = c0 + 65536 * c1 + 4294967296 * c2 + 281474976710656 * c3 ∧
      bfe_raw_u16s (bfe_from_raw_u16s c0 c1 c2 c3) = [c0, c1, c2, c3]) := by
  constructor
  · intro a ha
    refine ⟨raw_u16s_eq a, ?_⟩
    rw [raw_u16s_eq a]
    rw [fromRawU16s_eq, from_raw_u16s_eq _ _ _ _ (Nat.mod_lt _ (by decide)) (Nat.mod_lt _ (by decide)) (Nat.mod_lt _ (by decide))
      (Nat.mod_lt _ (by decide))]
    congr 1; omega
  · intro c0 c1 c2 c3 h0 h1 h2 h3
    refine ⟨from_raw_u16s_eq c0 c1 c2 c3 h0 h1 h2 h3, ?_⟩
    rw [from_raw_u16s_eq c0 c1 c2 c3 h0 h1 h2 h3, raw_u16s_eq]
    have e0 : (c0 + 65536 * c1 + 4294967296 * c2 + 281474976710656 * c3) % 65536 = c0 := by omega
    have e1 : (c0 + 65536 * c1 + 4294967296 * c2 + 281474976710656 * c3) / 65536 % 65536 = c1 := by omega
    have e2 : (c0 + 65536 * c1 + 4294967296 * c2 + 281474976710656 * c3) / 4294967296 % 65536 = c2 := by omega
    have e3 : (c0 + 65536 * c1 + 4294967296 * c2 + 281474976710656 * c3) / 281474976710656 % 65536 = c3 := by omega
    rw [e0, e1, e2, e3]
example : bfe_raw_u16s 18446744069414584320 = [0, 0, 65535, 65535] := by decide

/-- `raw_bytes` / `from_raw_bytes`: the eight little-endian bytes of the raw word; mutually inverse on all 64-bit words
    and all byte arrays -/
theorem raw_bytes_roundtrip :
    (∀ a, a < 2^64 → BF.fromRawBytes (bfe_raw_bytes a) = some a ∧ ∀ b ∈ bfe_raw_bytes a, b < 256) ∧
    (∀ b0 b1 b2 b3 b4 b5 b6 b7, b0 < 256 → b1 < 256 → b2 < 256 → b3 < 256 → b4 < 256 → b5 < 256 → b6 < 256 → b7 < 256 →
      bfe_from_raw_bytes b0 b1 b2 b3 b4 b5 b6 b7 < 2^64 ∧
      bfe_raw_bytes (bfe_from_raw_bytes b0 b1 b2 b3 b4 b5 b6 b7) = [b0, b1, b2, b3, b4, b5, b6, b7]) := by
  constructor
  · intro a ha
    rw [raw_bytes_eq]
    refine ⟨?_, ?_⟩
    · rw [fromRawBytes_eq, from_raw_bytes_eq, bytes_of_word a ha]
    · intro b hb
      simp only [List.mem_cons, List.not_mem_nil, or_false] at hb
      rcases hb with rfl | rfl | rfl | rfl | rfl | rfl | rfl | rfl <;> exact Nat.mod_lt _ (by decide)
  · intro b0 b1 b2 b3 b4 b5 b6 b7 h0 h1 h2 h3 h4 h5 h6 h7
    obtain ⟨hw, e0, e1, e2, e3, e4, e5, e6, e7⟩ := word_of_bytes b0 b1 b2 b3 b4 b5 b6 b7 h0 h1 h2 h3 h4 h5 h6 h7 _
      (from_raw_bytes_eq b0 b1 b2 b3 b4 b5 b6 b7)
    refine ⟨hw, ?_⟩
    rw [raw_bytes_eq, e0, e1, e2, e3, e4, e5, e6, e7]
example : bfe_raw_bytes 18446744069414584320 = [0, 0, 0, 0, 255, 255, 255, 255] := by decide

/-- **raw constructors and canonicity, stated honestly.**  `from_raw_u64` (and with it `from_raw_u16s`, `from_raw_bytes`)
    stores any 64-bit word.  `is_canonical w ↔ w < P`.  A canonical word is the word `new` would have produced for its
    value, so it is an element "obtained through the value-level API"; a non-canonical word `P ≤ w < 2^64` still has a
    canonical *value* (`w · 2^-64 mod P`) but is **not** the representation `new` chooses for it. -/
theorem raw_constructors_canonicity (w : Nat) (hw : w < 2^64) :
    bfe_from_raw_u64 w = w ∧ bfe_raw_u64 w = w ∧ bfe_raw_u128 w = w ∧
    (bfe_is_canonical w = true ↔ w < P) ∧
    bfe_value w < P ∧ (bfe_value w * 2^64) % P = w % P ∧
    (w < P → bfe_new (bfe_value w) = w) ∧
    (P ≤ w → bfe_new (bfe_value w) ≠ w) := by
  have hv := value_lt w hw
  refine ⟨rfl, rfl, rfl, by unfold bfe_is_canonical; simp [P], hv, ?_, new_value w, ?_⟩
  · unfold bfe_value; exact (montyred_spec w (by unfold Pn W at *; omega)).2
  · intro hge heq
    have := (new_spec (bfe_value w) (Nat.lt_trans hv Pn_lt_W)).1
    rw [heq] at this
    unfold canon Pn at this; unfold P at hge; omega
example : (18446744069414584321 : Nat) < 2^64 ∧ P ≤ 18446744069414584321 := by decide

/-- the concrete witness for what a non-canonical raw word does: the words `P` and `0` both have value `0` but are
    different words, so derived `Eq`/`Hash` separate two representations of the same field element; and adding a word
    above `P` on the right overflows (`Self::P - rhs.0` underflows: a panic in debug builds) -/
theorem noncanonical_raw_word_witness :
    bfe_value (bfe_from_raw_u64 18446744069414584321) = bfe_value (bfe_from_raw_u64 0) ∧
    bfe_from_raw_u64 18446744069414584321 ≠ bfe_from_raw_u64 0 ∧
    BF.fromRawU16s [1, 0, 65535, 65535] = some 18446744069414584321 ∧
    BF.fromRawBytes [1, 0, 0, 0, 255, 255, 255, 255] = some 18446744069414584321 ∧
    bfe_is_canonical 18446744069414584321 = false ∧
    bfe_add_ok 0 18446744069414584322 = false := by decide

/-- constants: `ZERO`/`zero()`/`Default` are the word 0 with value 0, `ONE`/`one()` has value 1, `generator()` is 7,
    `MINUS_TWO_INVERSE · 2 = -1`, `MAX = P - 1`, `P = 2^64 - 2^32 + 1`; all canonical -/
theorem constants_exact :
    bfe_ZERO = 0 ∧ bfe_zero = bfe_ZERO ∧ BF.default = bfe_ZERO ∧ bfe_value bfe_ZERO = 0 ∧
    bfe_ONE < P ∧ bfe_one = bfe_ONE ∧ bfe_value bfe_ONE = 1 ∧
    bfe_generator < P ∧ bfe_value bfe_generator = 7 ∧ bfe_generator_ok = true ∧
    bfe_new MINUS_TWO_INVERSE < P ∧ (2 * bfe_value (bfe_new MINUS_TWO_INVERSE) + 1) % P = 0 ∧
    P = 2^64 - 2^32 + 1 ∧ BFE_BYTES = 8 := by decide

/-- `generator()` generates the whole multiplicative group: its order is `P - 1` -/
theorem generator_exact : orderOf (toF bfe_generator) = P - 1 := by
  rw [toF_generator]; exact orderOf_seven

/-- `is_zero` / `is_one` on canonical elements decide `value = 0` / `value = 1` -/
theorem is_zero_is_one_exact (a : Nat) (ha : a < P) :
    (bfe_is_zero a = true ↔ bfe_value a = 0) ∧ (bfe_is_one a = true ↔ bfe_value a = 1) := by
  constructor
  · rw [show bfe_is_zero a = (a == BF.zero) from rfl, beq_iff_eq]
    exact ⟨fun h => h ▸ val_zero, fun h => repr_unique a _ ha canon_zero (h.trans val_zero.symm)⟩
  · rw [show bfe_is_one a = (a == BF.one) from rfl, beq_iff_eq]
    exact ⟨fun h => h ▸ val_one, fun h => repr_unique a _ ha canon_one (h.trans val_one.symm)⟩
example : bfe_is_one (bfe_new 1) = true ∧ bfe_is_zero (bfe_new 1) = false := by decide

/-- `mod_pow_u32` / `mod_pow_u64` are `mod_pow`, i.e. the repeated product, for every exponent -/
theorem mod_pow_u32_u64_exact (a : Nat) (ha : a < P) (e : Nat) :
    BF.modPowU32 a e = BF.modPow a e ∧ BF.modPowU64 a e = BF.modPow a e ∧
    BF.modPowU32 a e < P ∧ bfe_value (BF.modPowU32 a e) = (bfe_value a) ^ e % P :=
  ⟨rfl, rfl, (modPow_value a ha e).1, (modPow_value a ha e).2⟩

/-- `From<u8/u16/u32/u64/usize>` is `new` (canonical, value `v mod P`); `From<BFieldElement> for u64/u128/i128` is the
    canonical value -/
theorem from_to_uint_exact (v : Nat) (hv : v < 2^64) (a : Nat) (ha : a < P) :
    BF.fromU64 v < P ∧ bfe_value (BF.fromU64 v) = v % P ∧ BF.toU64 a = bfe_value a ∧ BF.toU64 a < P ∧
    BF.fromU64 (BF.toU64 a) = a :=
  ⟨(new_spec v hv).1, (new_spec v hv).2, rfl, value_lt a (Nat.lt_trans ha Pn_lt_W), new_value a ha⟩

/-- `Sum`: the sum of the values (zero for the empty iterator), canonical -/
theorem sum_exact (xs : List Nat) (h : ∀ x ∈ xs, x < P) :
    BF.sum xs < P ∧ toF (BF.sum xs) = (xs.map toF).sum := sum_spec xs h
example : ∀ x ∈ [bfe_new 5, bfe_new 18446744069414584320], x < P := by decide

/-- `power_accumulator::<N, M>` lane-wise: `base^(2^M) · tail`, canonical -/
theorem power_accumulator_exact (m base tail : Nat) (hb : base < P) (ht : tail < P) :
    BF.powerAccumulator m base tail < P ∧ toF (BF.powerAccumulator m base tail) = toF base ^ (2 ^ m) * toF tail :=
  powerAccumulator_spec m base tail hb ht

/-- `primitive_root_of_unity(n) = Some(w)`: `w` is the canonical word of the table entry for `n` and has multiplicative
    order exactly `n` (for `n ≥ 1`); the extension-field version is the lift of the base-field one -/
theorem primitive_root_exact (n : Nat) :
    (∀ w, BF.primitiveRoot n = some w →
      ∃ r, (n, r) ∈ PRIMITIVE_ROOTS ∧ w = bfe_new r ∧ w < P ∧ (0 < n → orderOf (toF w) = n)) ∧
    XF.primitiveRoot n = (BF.primitiveRoot n).map XF.lift ∧
    (∀ x, XF.primitiveRoot n = some x → ∃ w, BF.primitiveRoot n = some w ∧ XF.unlift x = some w) := by
  refine ⟨fun w h => primitiveRoot_spec n w h, rfl, fun x h => ?_⟩
  unfold XF.primitiveRoot at h
  cases hb : BF.primitiveRoot n with
  | none => rw [hb] at h; cases h
  | some w =>
    rw [hb] at h; cases h
    exact ⟨w, rfl, by simp [XF.unlift, XF.newConst, XF.new, show bfe_ZERO = BF.zero from rfl]⟩
example : BF.primitiveRoot 4294967296 = some (bfe_new 1753635133440165772) ∧ BF.primitiveRoot 3 = none := by decide

/-- **`get_cyclic_group_elements` on the base field** (content and termination).
    * no bound, `g ≠ 0` of multiplicative order `k`: the loop ends (because `g^k = 1` — `k` exists by Fermat) after
      `max k 2 - 1` iterations and returns the canonical words of `[1, g, g², …, g^(max k 2 - 1)]`: the whole cyclic
      group generated by `g` when `k ≥ 2`; for `g = 1` the list is `[1, 1]` (the element is pushed before the test);
    * bound `m`: the first `min (max k 2) (max m 2)` powers (for `g = 0`: `max m 2` elements `1, 0, 0, …`), so a bound
      of 0 or 1 acts like 2;
    * `g = 0` without a bound: the loop never ends (no fuel suffices). -/
theorem get_cyclic_group_elements_exact (g : Nat) (hg : g < P) :
    (g ≠ BF.zero → ∀ fuel, max (orderOf (toF g)) 2 ≤ fuel + 1 →
      ∃ l, BF.cyclicGroup fuel g none = some l ∧ (∀ x ∈ l, x < P) ∧
        l.map toF = (List.range (max (orderOf (toF g)) 2)).map (fun i => toF g ^ i)) ∧
    (∀ m fuel L, L = (if g = BF.zero then max m 2 else min (max (orderOf (toF g)) 2) (max m 2)) → L ≤ fuel + 1 →
      ∃ l, BF.cyclicGroup fuel g (some m) = some l ∧ (∀ x ∈ l, x < P) ∧
        l.map toF = (List.range L).map (fun i => toF g ^ i)) ∧
    (∀ fuel, BF.cyclicGroup fuel BF.zero none = none) :=
  ⟨fun hnz fuel hf => cyclicGroup_none g hg hnz fuel hf,
   fun m fuel L hL hf => cyclicGroup_some g hg m fuel L hL hf,
   cyclicGroup_zero_none⟩
example : BF.cyclicGroup 10 (bfe_new 281474976710656) none =
      some [bfe_new 1, bfe_new 281474976710656, bfe_new 18446744069414584320, bfe_new 18446462594437873665] ∧
    BF.cyclicGroup 10 (bfe_new 1) none = some [bfe_new 1, bfe_new 1] ∧
    BF.cyclicGroup 10 0 (some 0) = some [bfe_new 1, 0] := by decide

/-! ### extension field -/

/-- the assign operators, the operators with the `BFieldElement` on the left, and `Sub` (implemented as `self + (-other)`)
    agree with the coefficient-wise operators of `xfe_add_sub_exact` / `xfe_mul_exact` on canonical elements; the mixed
    operators are the operators on the lifted base-field element -/
theorem xfe_operator_variants_exact (a b : XF.X3) (k : Nat) (ha : TF.XFp.canon3 a) (hb : TF.XFp.canon3 b) (hk : k < P) :
    XF.addAssign a b = XF.add a b ∧ XF.subAssign a b = XF.sub a b ∧ XF.mulAssign a b = XF.mul a b ∧
    XF.sub' a b = XF.sub a b ∧ XF.neg' a = XF.neg a ∧
    XF.addB' a k = XF.addB a k ∧ XF.bAdd k a = XF.addB a k ∧ XF.bMul k a = XF.mulB a k ∧
    XF.subAssignB a k = XF.subB a k ∧ XF.subB' a k = XF.subB a k ∧ XF.bSub' k a = XF.bSub k a ∧
    XF.mulAssignB a k = XF.mulB a k ∧
    XF.addB a k = XF.add a (XF.lift k) ∧ XF.subB a k = XF.sub a (XF.lift k) ∧ XF.mulB a k = XF.mul a (XF.lift k) :=
  ⟨rfl, rfl, rfl, TF.XFp.sub'_eq a b ha hb, rfl, rfl, rfl, rfl, rfl, TF.XFp.subB'_eq a k ha hk, TF.XFp.bSub'_eq k a ha hk,
   rfl, TF.XFp.addB_eq_lift a k ha, TF.XFp.subB_eq_lift a k ha, TF.XFp.mulB_eq_lift a k ha hk⟩
example : TF.XFp.canon3 XF.one ∧ BF.one < P := ⟨TF.XFInvProofs.canon3_one, canon_one⟩

/-- `new_const` = `lift`, `unlift ∘ lift = Some`, `unlift x = Some a` only for `x = lift a`; `is_zero`/`is_one` decide
    equality with the constants; `TryFrom<&[BFieldElement]>` accepts exactly slices of length 3 -/
theorem xfe_constructors_exact (a : Nat) (x : XF.X3) (l : List Nat) :
    XF.newConst a = XF.lift a ∧ XF.unlift (XF.lift a) = some a ∧ (XF.unlift x = some a → x = XF.lift a) ∧
    XF.unlift' x = XF.unlift x ∧
    (XF.isZero x = true ↔ x = XF.zero) ∧ (XF.isOne x = true ↔ x = XF.one) ∧
    (XF.tryFromSlice l = some x ↔ l = [x.1, x.2.1, x.2.2]) ∧ (XF.tryFromSlice l = none ↔ l.length ≠ 3) := by
  refine ⟨rfl, by simp [XF.unlift, XF.lift], ?_, rfl, TF.XFp.x_is_zero_iff x, TF.XFp.x_is_one_iff x, ?_, ?_⟩
  · obtain ⟨c0, c1, c2⟩ := x
    simp only [XF.unlift, XF.lift, Bool.and_eq_true, beq_iff_eq]
    intro h
    split at h
    · rename_i h'; cases h; rw [h'.1, h'.2]
    · cases h
  · obtain ⟨c0, c1, c2⟩ := x
    match l with
    | [] | [_] | [_, _] | _ :: _ :: _ :: _ :: _ => simp [XF.tryFromSlice]
    | [d0, d1, d2] => simp [XF.tryFromSlice, XF.new]
  · match l with
    | [] | [_] | [_, _] | _ :: _ :: _ :: _ :: _ => simp [XF.tryFromSlice]
    | [d0, d1, d2] => simp [XF.tryFromSlice]

/-- `XFieldElement::increment(i)` / `decrement(i)`: coefficient `i` is incremented / decremented modulo `P`, the others
    are untouched, the result is canonical; an index `≥ 3` panics -/
theorem xfe_increment_decrement_exact (x : XF.X3) (hx : TF.XFp.canon3 x) (i : Nat) (t : Fp) :
    (3 ≤ i → XF.increment x i = none ∧ XF.decrement x i = none) ∧
    (i < 3 → ∃ y z, XF.increment x i = some y ∧ XF.decrement x i = some z ∧ TF.XFp.canon3 y ∧ TF.XFp.canon3 z ∧
      TF.XFp.ev t y = TF.XFp.ev t x + t ^ i ∧ TF.XFp.ev t z = TF.XFp.ev t x - t ^ i) := by
  constructor
  · intro hi
    obtain ⟨n, rfl⟩ : ∃ n, i = n + 3 := ⟨i - 3, by omega⟩
    exact TF.XFp.increment_oob x n
  · intro hi
    exact TF.XFp.incdec_spec x hx i hi t
example : XF.increment (bfe_new 18446744069414584320, 0, 0) 0 = some (0, 0, 0) ∧ XF.increment (0, 0, 0) 3 = none := by decide

/-- `Sum` on the extension field: coefficient-wise sum (zero for the empty iterator), canonical -/
theorem xfe_sum_exact (xs : List XF.X3) (h : ∀ x ∈ xs, TF.XFp.canon3 x) (t : Fp) :
    TF.XFp.canon3 (XF.sum xs) ∧ TF.XFp.ev t (XF.sum xs) = (xs.map (TF.XFp.ev t)).sum := TF.XFp.sum_spec t xs h

/-- **`mod_pow_u64` / `mod_pow_u32` on the extension field are the repeated product**: for every `u64` exponent `e` the
    result has canonical coefficients and its value is `x · x · … · x` (`e` factors of the specification product
    `TF.Spec.xmul`, `1` for `e = 0`) -/
theorem xfe_mod_pow_exact (x : XF.X3) (hx : TF.XFp.canon3 x) (e : Nat) (he : e < 2^64) :
    TF.XFp.canon3 (XF.modPow x e) ∧ XF.toVal (XF.modPow x e) = TF.XFp.xnpow (XF.toVal x) e ∧
    XF.modPowU32 x e = XF.modPow x e :=
  ⟨(TF.XFp.modPow_spec x hx e he).1, (TF.XFp.modPow_spec x hx e he).2, rfl⟩
example : TF.XFp.xnpow (0, 1, 0) 3 = (18446744069414584320, 1, 0) := by decide

/-- **`get_cyclic_group_elements` on the extension field** (content): if iteration `N` is the first at which the loop's
    exit test holds — the next power `g^(N+2)` is one, or the bound `m ≤ N + 2` is reached — then with enough fuel the
    call returns the canonical triples of `[1, g, …, g^(N+1)]` (powers = repeated specification product).  With a bound
    the loop always ends; zero without a bound never does. -/
theorem xfe_get_cyclic_group_elements_exact (g : XF.X3) (hg : TF.XFp.canon3 g) (max : Option Nat) :
    (∀ N fuel, N < fuel →
      (TF.XFp.xnpow (XF.toVal g) (N + 2) = TF.Spec.xone ∨ ∃ m, max = some m ∧ m ≤ N + 2) →
      (∀ j, j < N → ¬ (TF.XFp.xnpow (XF.toVal g) (j + 2) = TF.Spec.xone ∨ ∃ m, max = some m ∧ m ≤ j + 2)) →
      ∃ l, XF.cyclicGroup fuel g max = some l ∧ (∀ x ∈ l, TF.XFp.canon3 x) ∧
        l.map XF.toVal = (List.range (N + 2)).map (TF.XFp.xnpow (XF.toVal g))) ∧
    (∀ fuel, XF.cyclicGroup fuel XF.zero none = none) := by
  constructor
  · intro N fuel hf hs hb
    apply TF.XFp.x_cyclicGroup_core g hg max N fuel hf
    · exact (TF.XFp.xstop_iff g hg max N).2 hs
    · intro j hj
      rw [Bool.eq_false_iff, Ne, TF.XFp.xstop_iff g hg max j]
      exact hb j hj
  · exact TF.XFp.x_cyclicGroup_zero_none
example : XF.cyclicGroup 5 (0, 0, 0) (some 3) = some [XF.one, (0, 0, 0), (0, 0, 0)] := by decide

/-- with a bound `m` the extension-field loop always ends (for every `g`, also zero) and returns between 2 and
    `max m 2` elements `[1, g, g², …]` -/
theorem xfe_get_cyclic_group_elements_bounded (g : XF.X3) (hg : TF.XFp.canon3 g) (m fuel : Nat) (hf : max m 2 ≤ fuel + 1) :
    ∃ l, XF.cyclicGroup fuel g (some m) = some l ∧ (∀ x ∈ l, TF.XFp.canon3 x) ∧ 2 ≤ l.length ∧ l.length ≤ max m 2 ∧
      l.map XF.toVal = (List.range l.length).map (TF.XFp.xnpow (XF.toVal g)) :=
  TF.XFp.x_cyclicGroup_some g hg m fuel hf
example : TF.XFp.canon3 XF.one ∧ max 0 2 ≤ 1 + 1 := ⟨TF.XFInvProofs.canon3_one, by decide⟩

/-- **`XFieldElement::get_cyclic_group_elements(None)` terminates for every non-zero element** and returns exactly the
    powers up to the order.  The extension field `K = F_p[X]/(X³ − X + 1)` is a finite field with `P³` elements
    (`TF/Proofs/XFieldK.lean`), so every non-zero `g` has a multiplicative order `k` — the least positive exponent with
    `g^k = 1` (powers = repeated specification product `TF.Spec.xmul`), and `k ∣ P³ − 1`.  Without a bound the loop ends
    after `max k 2 − 1` iterations (for every fuel `≥ max k 2 − 1`; `none` = still running) and returns the canonical
    triples of `[1, g, g², …, g^(max k 2 − 1)]`: the whole cyclic group generated by `g` when `k ≥ 2`, `[1, 1]` for
    `g = 1`.  Zero without a bound never returns (`xfe_get_cyclic_group_elements_exact`). -/
theorem xfe_get_cyclic_group_elements_unbounded_exact (g : XF.X3) (hg : TF.XFp.canon3 g) (hnz : g ≠ XF.zero) :
    ∃ k, 0 < k ∧ k ∣ P ^ 3 - 1 ∧ TF.XFp.xnpow (XF.toVal g) k = TF.Spec.xone ∧
      (∀ j, 0 < j → j < k → TF.XFp.xnpow (XF.toVal g) j ≠ TF.Spec.xone) ∧
      ∀ fuel, max k 2 ≤ fuel + 1 →
        ∃ l, XF.cyclicGroup fuel g none = some l ∧ (∀ x ∈ l, TF.XFp.canon3 x) ∧ l.length = max k 2 ∧
          l.map XF.toVal = (List.range (max k 2)).map (TF.XFp.xnpow (XF.toVal g)) :=
  TF.XK.x_cyclicGroup_none g hg hnz
example : TF.XFp.canon3 (XF.lift (bfe_new 281474976710656)) ∧ XF.lift (bfe_new 281474976710656) ≠ XF.zero ∧
    XF.cyclicGroup 10 (XF.lift (bfe_new 281474976710656)) none =
      some [XF.one, XF.lift (bfe_new 281474976710656), XF.lift (bfe_new 18446744069414584320),
        XF.lift (bfe_new 18446462594437873665)] := by
  refine ⟨⟨by unfold canon; decide, by unfold canon; decide, by unfold canon; decide⟩, by decide, by decide +kernel⟩

/-- the termination statement on its own: for every non-zero element some fuel suffices -/
theorem xfe_get_cyclic_group_elements_unbounded_terminates (g : XF.X3) (hg : TF.XFp.canon3 g) (hnz : g ≠ XF.zero) :
    ∃ fuel l, XF.cyclicGroup fuel g none = some l := by
  obtain ⟨k, _, _, _, _, h⟩ := xfe_get_cyclic_group_elements_unbounded_exact g hg hnz
  obtain ⟨l, hl, _⟩ := h (max k 2) (by omega)
  exact ⟨max k 2, l, hl⟩
example : TF.XFp.canon3 (0, BF.one, 0) ∧ ((0, BF.one, 0) : XF.X3) ≠ XF.zero :=
  ⟨⟨by unfold canon; decide, by unfold canon; decide, by unfold canon; decide⟩, by decide⟩

/-- **`FiniteField::batch_inversion` for `XFieldElement`**: any vector of non-zero elements (canonical coefficient
    words) is mapped to the vector of their inverses — same length, entry `i` is canonical, a two-sided inverse of
    `xs[i]` for the word-level product `XF.mul`, and equal to what `XFieldElement::inverse` returns on `xs[i]`;
    a vector containing zero panics; the empty vector is returned unchanged.  (The two loops are analysed for an
    arbitrary multiplicative map into a field and instantiated with the embedding of canonical triples into
    `F_p[X]/(X³ − X + 1)`, `TF/Proofs/XFieldK.lean`.) -/
theorem xfe_batch_inversion_exact (xs : List XF.X3) :
    ((∀ x ∈ xs, TF.XFp.canon3 x ∧ x ≠ XF.zero) →
      ∃ rs, XF.batchInversion xs = some rs ∧ rs.length = xs.length ∧
        ∀ i (h1 : i < rs.length) (h2 : i < xs.length), TF.XFp.canon3 rs[i] ∧ XF.mul rs[i] xs[i] = XF.one ∧
          XF.mul xs[i] rs[i] = XF.one ∧ XF.inverse xs[i] = some rs[i]) ∧
    (XF.zero ∈ xs → XF.batchInversion xs = none) ∧
    XF.batchInversion [] = some [] :=
  ⟨TF.XK.x_batchInversion_spec xs, TF.XFp.x_batchInversion_zero xs, rfl⟩
example : (∀ x ∈ [XF.one, (0, BF.one, 0)], TF.XFp.canon3 x ∧ x ≠ XF.zero) ∧ XF.zero ∈ [XF.one, XF.zero] := by
  refine ⟨fun x hx => ?_, by decide⟩
  simp only [List.mem_cons, List.not_mem_nil, or_false] at hx
  rcases hx with rfl | rfl
  · exact ⟨TF.XFInvProofs.canon3_one, by decide⟩
  · exact ⟨⟨by unfold canon; decide, by unfold canon; decide, by unfold canon; decide⟩, by decide⟩

end TF.C01

/-! ## regenerated-from-source bridge

`BFieldElement::{mod_pow, mod_pow_u32, mod_pow_u64, inverse}` (with the nested `exp` of `inverse`) are **also regenerated
from `b_field_element.rs` on every run** (`TF/Gen/BFieldLoops.lean`, `TF.Gen.Loops.bfe_*`, written by
`tools/rs2lean_bfe.py`): `while` loops are fuel-indexed recursions (`none` = out of fuel), the `_ok` companion is true
iff no `assert!` fails and no plain operation overflows.  The theorems below (proofs in `TF/Proofs/GenBridgeBField.lean`)
say that the regenerated functions terminate within their fuel and return the hand model's value, for every base word
and every `u64` exponent; the `…_transfer` corollaries restate `mod_pow_exact` / `inverse_exact` for the regenerated
code.  A one-token change of one of these Rust functions changes `TF.Gen.Loops.bfe_*`; these theorems are then re-checked
or break. -/
namespace TF.C01
open TF.Gen TF.BF TF.Model

/-- regenerated `mod_pow` (the bit loop) = hand model, every base word, every `u64` exponent -/
theorem gen_mod_pow_eq_model (a e : Nat) (he : e < 2 ^ 64) : Loops.bfe_mod_pow a e = some (BF.modPow a e) :=
  TF.GenBridge.BField.gen_mod_pow_eq a e he
example : Loops.bfe_mod_pow (bfe_new 7) 18446744069414584320 = some (bfe_new 1) ∧
    Loops.bfe_mod_pow_ok (bfe_new 7) 18446744073709551615 = true ∧ Loops.bfe_mod_pow (bfe_new 7) 0 = some BF.one := by
  decide +kernel

/-- regenerated `mod_pow_u32` / `mod_pow_u64` = hand model -/
theorem gen_mod_pow_u32_u64_eq_model (a e : Nat) :
    (e < 2 ^ 32 → Loops.bfe_mod_pow_u32 a e = some (BF.modPow a e)) ∧
    (e < 2 ^ 64 → Loops.bfe_mod_pow_u64 a e = some (BF.modPow a e)) :=
  ⟨TF.GenBridge.BField.gen_mod_pow_u32_eq a e, TF.GenBridge.BField.gen_mod_pow_u64_eq a e⟩
example : Loops.bfe_mod_pow_u32 (bfe_new 2) 32 = some (bfe_new 4294967296) := by decide +kernel

/-- regenerated local `exp(base, k)` of `inverse` = `k` squarings -/
theorem gen_inverse_exp_eq_model (base k : Nat) (hk : k < 2 ^ 64) :
    Loops.bfe_inverse_exp base k = some (BF.sqN base k) :=
  TF.GenBridge.BField.gen_exp_eq base k hk
example : Loops.bfe_inverse_exp (bfe_new 2) 5 = some (bfe_new 4294967296) := by decide +kernel

/-- regenerated `inverse` (addition chain) = hand model: the same chain value for every non-zero word; on zero the hand
    model panics and the regenerated `_ok` flag is false (the `assert_ne!` fails) -/
theorem gen_inverse_eq_model (x : Nat) :
    BF.inverse x = (if x == BF.zero then none else Loops.bfe_inverse x) ∧ Loops.bfe_inverse_ok BF.zero = false :=
  ⟨TF.GenBridge.BField.gen_inverse_eq x, TF.GenBridge.BField.gen_inverse_ok_zero⟩
example : Loops.bfe_inverse (bfe_new 2) = some (bfe_new 9223372034707292161) ∧
    Loops.bfe_inverse_ok (bfe_new 2) = true := by decide +kernel

/-- **transfer**: `mod_pow_exact` and `inverse_exact` for the code as it is in the source now -/
theorem gen_mod_pow_inverse_transfer (a : Nat) (ha : a < P) :
    (∀ e, e < 2 ^ 64 → ∃ r, Loops.bfe_mod_pow a e = some r ∧ r < P ∧ bfe_value r = (bfe_value a) ^ e % P) ∧
    (a ≠ BF.zero → ∃ r, Loops.bfe_inverse a = some r ∧ r < P ∧ (bfe_value r * bfe_value a) % P = 1) := by
  refine ⟨fun e he => ⟨_, gen_mod_pow_eq_model a e he, (mod_pow_exact a ha e).1, (mod_pow_exact a ha e).2⟩, fun hnz => ?_⟩
  obtain ⟨r, hr, hc, hm, _⟩ := (inverse_exact a ha).2 hnz
  refine ⟨r, ?_, hc, hm⟩
  have h := (gen_inverse_eq_model a).1
  have hz : (a == BF.zero) = false := by simpa using hnz
  rw [hz] at h
  simpa [h] using hr
example : (bfe_new 2) < P ∧ bfe_new 2 ≠ BF.zero := by decide +kernel

end TF.C01

/-! ## regenerated `power_accumulator` and the `_ok` flags of the regenerated loops

`BFieldElement::power_accumulator::<N, M>` is regenerated too (`TF.Gen.Loops.bfe_power_accumulator`, `N` and `M` are
ordinary arguments, arrays are lists, `result[j] = …` is `List.set`).  Proofs: `TF/Proofs/GenBridgePacc.lean`,
`TF/Proofs/GenBridgeBFieldOk.lean`. -/
namespace TF.C01
open TF.Gen TF.BF TF.Model

/-- regenerated `power_accumulator::<N, M>` = hand model in every lane, for all arrays of length `N` and all
    `N, M < 2^64` (`usize` const generics): it terminates within its fuel and lane `k` is
    `BF.powerAccumulator M base[k] tail[k]` -/
theorem gen_power_accumulator_eq_model (N M : Nat) (base tail : List Nat) (hN : N < 2 ^ 64) (hM : M < 2 ^ 64)
    (hb : base.length = N) (ht : tail.length = N) :
    Loops.bfe_power_accumulator N M base tail = some (List.zipWith (BF.powerAccumulator M) base tail) :=
  TF.GenBridge.BField.gen_power_accumulator_eq N M base tail hN hM hb ht
example : Loops.bfe_power_accumulator 4 2 [bfe_new 10, bfe_new 100, bfe_new 1000, bfe_new 1]
      [bfe_new 5, bfe_new 6, bfe_new 7, bfe_new 8] =
    some [bfe_new 50000, bfe_new 600000000, bfe_new 7000000000000, bfe_new 8] := by decide +kernel

/-- **transfer**: `power_accumulator_exact` for the code as it is in the source now — on arrays of `N` canonical words
    the regenerated function returns `N` canonical words, lane `k` has the value `base[k]^(2^M) · tail[k]`, and no index
    is out of bounds and nothing overflows on the way (`_ok`) -/
theorem gen_power_accumulator_transfer (N M : Nat) (base tail : List Nat) (hN : N < 2 ^ 64) (hM : M < 2 ^ 64)
    (hb : base.length = N) (ht : tail.length = N) (hbc : ∀ x ∈ base, x < P) (htc : ∀ x ∈ tail, x < P) :
    ∃ r, Loops.bfe_power_accumulator N M base tail = some r ∧ r.length = N ∧
      (∀ k (h : k < r.length) (h1 : k < base.length) (h2 : k < tail.length),
        r[k] < P ∧ toF r[k] = toF base[k] ^ (2 ^ M) * toF tail[k]) ∧
      Loops.bfe_power_accumulator_ok N M base tail = true := by
  refine ⟨_, gen_power_accumulator_eq_model N M base tail hN hM hb ht, ?_, ?_,
    TF.GenBridge.BField.gen_power_accumulator_ok_true N M base tail hN hM hb ht hbc htc⟩
  · rw [List.length_zipWith, hb, ht, Nat.min_self]
  · intro k h h1 h2
    rw [List.getElem_zipWith]
    exact power_accumulator_exact M _ _ (hbc _ (List.getElem_mem _)) (htc _ (List.getElem_mem _))
example : Loops.bfe_power_accumulator_ok 2 3 [bfe_new 18446744069414584320, bfe_new 7] [bfe_new 2, bfe_new 0] = true ∧
    (∀ x ∈ [bfe_new 18446744069414584320, bfe_new 7], x < P) := by decide +kernel

/-- **the `_ok` flags of the regenerated loops hold on the documented domain** (canonical words, `u64` exponents): no
    `u128` product overflows, Montgomery reduction does not overflow, no shift amount is out of range, the loop counters
    stay in range (debug build = release build); the only assertion that can fail is `assert_ne!(self, zero)` of
    `inverse`, and it fails exactly on zero -/
theorem gen_loops_ok (a : Nat) (ha : a < P) :
    (∀ e, e < 2 ^ 64 → Loops.bfe_mod_pow_ok a e = true ∧ Loops.bfe_mod_pow_u32_ok a e = true ∧
      Loops.bfe_mod_pow_u64_ok a e = true) ∧
    (∀ k, k < 2 ^ 64 → Loops.bfe_inverse_exp_ok a k = true) ∧
    (Loops.bfe_inverse_ok a = true ↔ a ≠ BF.zero) ∧
    Loops.bfe_square_ok a = true := by
  refine ⟨fun e he => ?_, fun k hk => TF.GenBridge.BField.gen_exp_ok_true a k ha hk, ⟨fun h hz => ?_, fun h => ?_⟩,
    TF.GenBridge.BField.square_ok_true a ha⟩
  · have h := TF.GenBridge.BField.gen_mod_pow_ok_true a e ha he
    exact ⟨h, h, h⟩
  · rw [hz, TF.GenBridge.BField.gen_inverse_ok_zero] at h; cases h
  · exact TF.GenBridge.BField.gen_inverse_ok_true a ha h
example : bfe_new 18446744069414584320 < P ∧ bfe_new 18446744069414584320 ≠ BF.zero ∧
    Loops.bfe_inverse_ok (bfe_new 18446744069414584320) = true := by decide +kernel

end TF.C01

/-! ## `get_cyclic_group_elements` on the extension field in terms of the multiplicative order -/
namespace TF.C01
open TF.Gen TF.BF TF.Model

/-- **`XFieldElement::get_cyclic_group_elements(max)` for a non-zero element, with and without a bound** — the analogue
    of `get_cyclic_group_elements_exact` for the extension field.  `k` is the multiplicative order of `g` (least positive
    exponent with `g^k = 1`, `k ∣ P³ − 1`); the call returns exactly `L = TF.XK.cycLen k max` elements `[1, g, …, g^(L−1)]`,
    `L = max k 2` without a bound, `L = min (max k 2) (max m 2)` with the bound `m` (a bound of 0 or 1 acts like 2), for
    every fuel `≥ L − 1` -/
theorem xfe_get_cyclic_group_elements_order_exact (g : XF.X3) (hg : TF.XFp.canon3 g) (hnz : g ≠ XF.zero) :
    ∃ k, 0 < k ∧ k ∣ P ^ 3 - 1 ∧ TF.XFp.xnpow (XF.toVal g) k = TF.Spec.xone ∧
      (∀ j, 0 < j → j < k → TF.XFp.xnpow (XF.toVal g) j ≠ TF.Spec.xone) ∧
      ∀ (mx : Option Nat) (fuel : Nat), TF.XK.cycLen k mx ≤ fuel + 1 →
        ∃ l, XF.cyclicGroup fuel g mx = some l ∧ (∀ x ∈ l, TF.XFp.canon3 x) ∧ l.length = TF.XK.cycLen k mx ∧
          l.map XF.toVal = (List.range (TF.XK.cycLen k mx)).map (TF.XFp.xnpow (XF.toVal g)) :=
  TF.XK.x_cyclicGroup_order g hg hnz
example : TF.XK.cycLen 4 none = 4 ∧ TF.XK.cycLen 4 (some 3) = 3 ∧ TF.XK.cycLen 4 (some 0) = 2 ∧ TF.XK.cycLen 1 none = 2 ∧
    XF.cyclicGroup 10 (XF.lift (bfe_new 281474976710656)) (some 3) =
      some [XF.one, XF.lift (bfe_new 281474976710656), XF.lift (bfe_new 18446744069414584320)] := by
  refine ⟨by decide, by decide, by decide, by decide, by decide +kernel⟩

end TF.C01

/-! ## `FiniteField::batch_inversion` regenerated from source over an abstract field (P10)

The provided trait method `FiniteField::batch_inversion` is regenerated from the text of `traits.rs` on every run
(`TF/Gen/FieldLoops.lean`, P10 block of `tools/rs2lean_bt4.py`) with `Self` an **opaque type** and the field operations it
uses — `Self::zero()`, `Self::one()`, `*` / `*=`, `is_zero()`, `inverse()` with its panic flag — as parameters.
`outcome ok v = if ok then some v else none` reads the pair (`_ok` flag, value) in the hand model's convention (`none` =
the `assert!` on a zero element fails, `inverse()` panics, or an index is out of range).  Proofs:
`TF/Proofs/GenBridgeField.lean`. -/
namespace TF.C01
open TF.Gen TF.BF TF.Model TF.GenBridge.Field
open TF.Gen.Loops (ff_batch_inversion ff_batch_inversion_ok)

/-- **regenerated `batch_inversion` = the generic hand model**, for every element type, every record of field operations
    (not even assumed to be a field), every input vector: same vector of results, panic exactly when the model's `none`.
    `inverse : D → Option D` is the partial inverse (`none` = `inverse()` panics); `d0` is never read when the flag holds -/
theorem gen_batch_inversion_eq_model {D : Type} (zero one : D) (mul : D → D → D) (isZero : D → Bool)
    (inverse : D → Option D) (d0 : D) (input : List D) :
    outcome (ff_batch_inversion_ok zero one mul isZero (fun x => (inverse x).getD d0) (fun x => (inverse x).isSome) d0 input)
        (ff_batch_inversion zero one mul isZero (fun x => (inverse x).getD d0) (fun x => (inverse x).isSome) d0 input)
      = batchInversionG mul isZero inverse one input :=
  gen_batch_inversion_eq zero one mul isZero d0 inverse input
/-- non-vacuity on the rationals-free toy record `(Nat, *, · == 0, x ↦ some x)`: scratch products `[1, 2, 6]`, then back -/
example : ff_batch_inversion 0 1 (· * ·) (· == 0) (fun x => x) (fun _ => true) 7 [2, 3, 4] = [288, 192, 144] ∧
    ff_batch_inversion_ok 0 1 (· * ·) (· == 0) (fun x => x) (fun _ => true) 7 [2, 3, 4] = true ∧
    ff_batch_inversion_ok 0 1 (· * ·) (· == 0) (fun x => x) (fun _ => true) 7 [2, 0, 4] = false ∧
    ff_batch_inversion 0 1 (· * ·) (· == 0) (fun x => x) (fun _ => true) 7 ([] : List Nat) = [] := by decide

/-- **transfer** of `batch_inversion_exact` (base field) and `xfe_batch_inversion_exact` (extension field) to the code as
    it is in the source now, instantiated with the word-level operations of the two fields: any vector of non-zero
    elements is mapped without panic to the vector of inverses; a vector containing zero panics -/
theorem gen_batch_inversion_transfer :
    (∀ xs : List Nat,
      let ok := ff_batch_inversion_ok BF.zero BF.one bfe_mul (fun x => x == BF.zero) (fun x => (BF.inverse x).getD 0)
        (fun x => (BF.inverse x).isSome) 0 xs
      let rs := ff_batch_inversion BF.zero BF.one bfe_mul (fun x => x == BF.zero) (fun x => (BF.inverse x).getD 0)
        (fun x => (BF.inverse x).isSome) 0 xs
      ((∀ x ∈ xs, x < P ∧ x ≠ BF.zero) →
        ok = true ∧ (∀ r ∈ rs, r < P) ∧ rs.map toF = xs.map (fun x => (toF x)⁻¹)) ∧
      (BF.zero ∈ xs → ok = false)) ∧
    (∀ xs : List XF.X3,
      let ok := ff_batch_inversion_ok XF.zero XF.one XF.mul XF.isZero (fun x => (XF.inverse x).getD XF.zero)
        (fun x => (XF.inverse x).isSome) XF.zero xs
      let rs := ff_batch_inversion XF.zero XF.one XF.mul XF.isZero (fun x => (XF.inverse x).getD XF.zero)
        (fun x => (XF.inverse x).isSome) XF.zero xs
      ((∀ x ∈ xs, TF.XFp.canon3 x ∧ x ≠ XF.zero) →
        ok = true ∧ rs.length = xs.length ∧
          ∀ i (h1 : i < rs.length) (h2 : i < xs.length), TF.XFp.canon3 rs[i] ∧ XF.mul rs[i] xs[i] = XF.one ∧
            XF.inverse xs[i] = some rs[i]) ∧
      (XF.zero ∈ xs → ok = false)) := by
  constructor
  · intro xs
    have hg := gen_batch_inversion_eq_model BF.zero BF.one bfe_mul (fun x => x == BF.zero) BF.inverse 0 xs
    rw [← bf_batchInversion_eq] at hg
    refine ⟨fun hx => ?_, fun hz => ?_⟩
    · obtain ⟨rs, h1, h2, h3⟩ := (batch_inversion_exact xs).1 hx
      rw [h1] at hg
      unfold outcome at hg
      split at hg
      · rename_i hok
        cases hg
        exact ⟨hok, h2, h3⟩
      · cases hg
    · have h1 := (batch_inversion_exact xs).2 hz
      rw [h1] at hg
      unfold outcome at hg
      split at hg
      · cases hg
      · rename_i hok
        simpa using hok
  · intro xs
    have hg := gen_batch_inversion_eq_model XF.zero XF.one XF.mul XF.isZero XF.inverse XF.zero xs
    have hm : batchInversionG XF.mul XF.isZero XF.inverse XF.one xs = XF.batchInversion xs := rfl
    rw [hm] at hg
    refine ⟨fun hx => ?_, fun hz => ?_⟩
    · obtain ⟨rs, h1, h2, h3⟩ := (xfe_batch_inversion_exact xs).1 hx
      rw [h1] at hg
      unfold outcome at hg
      split at hg
      · rename_i hok
        cases hg
        exact ⟨hok, h2, fun i a b => ⟨(h3 i a b).1, (h3 i a b).2.1, (h3 i a b).2.2.2⟩⟩
      · cases hg
    · have h1 := (xfe_batch_inversion_exact xs).2.1 hz
      rw [h1] at hg
      unfold outcome at hg
      split at hg
      · cases hg
      · rename_i hok
        simpa using hok
example : (∀ x ∈ [BF.one, bfe_new 5], x < P ∧ x ≠ BF.zero) ∧
    ff_batch_inversion_ok BF.zero BF.one bfe_mul (fun x => x == BF.zero) (fun x => (BF.inverse x).getD 0)
      (fun x => (BF.inverse x).isSome) 0 [BF.one, bfe_new 5] = true := by decide +kernel

end TF.C01
