import TF.Proofs.BField
/-!
# C01 — base and extension field arithmetic is exact and canonical

Property theorems only (helper lemmas live in `TF/Proofs`).  The word-level definitions `montyred`, `bfe_new`,
`bfe_value`, `bfe_add`, `bfe_sub`, `bfe_mul`, `mod_reduce` are **regenerated from `b_field_element.rs`** on every run
(`TF/Gen/BField.lean`), so these theorems are re-checked against what the source says now.

Notation: a field element is represented by its raw Montgomery word `r`; `canon r := r < P`;
its value is `bfe_value r` (the translated `canonical_representation`).
-/
namespace TF.C01
open TF.Gen TF.BF

/-- Montgomery reduction is exact on its whole domain `x < P·2^64` (all products of canonical words):
    canonical result, `montyred x · 2^64 ≡ x (mod P)`, and no arithmetic overflow anywhere. -/
theorem montyred_exact (x : Nat) (hx : x < P * 2^64) :
    montyred x < P ∧ (montyred x * 2^64) % P = x % P ∧ montyred_ok x = true :=
  ⟨(montyred_spec x hx).1, (montyred_spec x hx).2, montyred_ok_true x⟩
example : (18446744069414584320 * 18446744069414584320 : Nat) < P * 2^64 := by decide

/-- `BFieldElement::new` on every `u64`: canonical word, value `v mod P`, no overflow. -/
theorem new_exact (v : Nat) (hv : v < 2^64) :
    bfe_new v < P ∧ bfe_value (bfe_new v) = v % P ∧ bfe_new_ok v = true :=
  ⟨(new_spec v hv).1, (new_spec v hv).2, new_ok v hv⟩
example : (18446744073709551615 : Nat) < 2^64 := by decide

/-- the reported value of every canonical word is canonical -/
theorem value_canonical (r : Nat) (hr : r < P) : bfe_value r < P ∧ bfe_value_ok r = true :=
  ⟨value_lt r (Nat.lt_trans hr Pn_lt_W), value_ok r⟩

/-- `value ∘ new = id` on canonical values and `new ∘ value = id` on canonical words:
    the value-level API is a bijection between `[0,P)` and canonical words -/
theorem value_new_roundtrip (v : Nat) (hv : v < P) : bfe_value (bfe_new v) = v := value_new v hv
theorem new_value_roundtrip (r : Nat) (hr : r < P) : bfe_new (bfe_value r) = r := new_value r hr

/-- exactly one internal representation per field element: derived `Eq`/`Hash` on the raw word coincide with
    equality of values -/
theorem representation_unique (a b : Nat) (ha : a < P) (hb : b < P) : bfe_value a = bfe_value b ↔ a = b :=
  ⟨repr_unique a b ha hb, fun h => by rw [h]⟩

/-- addition of canonical elements: canonical, value is the sum mod `P`, no overflow -/
theorem add_exact (a b : Nat) (ha : a < P) (hb : b < P) :
    bfe_add a b < P ∧ bfe_value (bfe_add a b) = (bfe_value a + bfe_value b) % P ∧ bfe_add_ok a b = true :=
  ⟨(add_spec a b ha hb).1, (add_spec a b ha hb).2, add_ok a b (Nat.le_of_lt hb)⟩

/-- subtraction of canonical elements: canonical, `value (a-b) + value b ≡ value a`, no overflow -/
theorem sub_exact (a b : Nat) (ha : a < P) (hb : b < P) :
    bfe_sub a b < P ∧ (bfe_value (bfe_sub a b) + bfe_value b) % P = bfe_value a ∧ bfe_sub_ok a b = true :=
  ⟨(sub_spec a b ha hb).1, (sub_spec a b ha hb).2, sub_ok a b⟩

/-- multiplication of canonical elements: canonical, value is the product mod `P`, no overflow -/
theorem mul_exact (a b : Nat) (ha : a < P) (hb : b < P) :
    bfe_mul a b < P ∧ bfe_value (bfe_mul a b) = (bfe_value a * bfe_value b) % P ∧ bfe_mul_ok a b = true :=
  ⟨(mul_spec a b ha hb).1, (mul_spec a b ha hb).2, mul_ok a b ha hb⟩
example : (18446744069414584320 : Nat) < P := by decide

end TF.C01
