import TF.Proofs.MmrAcc
import TF.Proofs.MmrAccBounded
import TF.Proofs.MmrAccBatch
import TF.Proofs.MmrAccVerify
import TF.Proofs.GenBridgeMmrPeaks
import TF.Proofs.GenBridgeMmrAccu
/-!
# C11 — the MMR accumulator always commits to the current leaf list

Property theorems only.  Model: `TF/Model/MmrAcc.lean` (hand-written, generic over the digest type `D` and the
compression function `H`, tied to `mmr_accumulator.rs` / `shared_basic.rs` / `shared.rs` by the correspondence family
`mmra`; it calls the **translated** `right_lineage_length_from_leaf_index` and
`leaf_index_to_mt_index_and_peak_index`).  Specification: `TF/Spec/MmrAcc.lean`.

Notation.  Leaves are a function `f : Nat → D` of which only `f 0 … f (n-1)` matter.
`peaksDirect H n f`: for each set bit of `n` from the highest down, `root` of the perfect tree over the next `2^k`
leaves — the obviously-right definition.  `peaks H n f`: the same list by recursion on the low bit.
`authPath H n f i`: from-scratch authentication path of leaf `i` (a *valid proof*).  `update f i x`: replace leaf `i`.
`applyUpdates f ms`: apply the `(index, value)` updates `ms` in order (`TF/Proofs/MmrAccBatch.lean`).
`bagSpec H z`: `z` for no peak, the peak for one, `H p₀ (H p₁ (… (H pₖ₋₂ pₖ₋₁)))` otherwise.
All theorems hold for **every** `H` (no property of the hash is used), `none` = the Rust code panics.
-/
namespace TF.C11
open TF TF.Spec.MmrAcc TF.Model.MmrAcc TF.MmrAccP TF.MmrAccB TF.MmrAccBatch

variable {D : Type} (H : D → D → D)

/-- the two definitions of the from-scratch peaks agree -/
theorem peaks_eq_peaksDirect (n : Nat) (f : Nat → D) : peaks H n f = peaksDirect H n f :=
  peaks_eq_peaksDirect' H n f
example : peaks (fun a b : Nat => a * 10 + b) 3 (fun i => i + 1) = [12, 3] := by decide +kernel

/-- **append refines the from-scratch peaks**: appending `f n` to the accumulator of `f 0 … f (n-1)` (any `n` with
    `n + 1 < 2^64`) never panics and yields leaf count `n+1` and the from-scratch peaks of `f 0 … f n`; the number of
    merges is the carry chain (`trailing_ones n`) computed by the translated `right_lineage_length_from_leaf_index` -/
theorem append_refines (n : Nat) (hn : n + 1 < 2^64) (f : Nat → D) :
    ∃ ap, append H { leaf_count := n, peaks := peaks H n f } (f n)
      = some ({ leaf_count := n + 1, peaks := peaks H (n+1) f }, ap) :=
  append_refines_model H n hn f
example : (9223372036854775807 : Nat) + 1 < 2^64 := by decide

/-- an accumulator with fewer peaks than merges needed panics on append (`pop().unwrap()`); e.g. `init(vec![], 3)` -/
theorem append_panics_on_short_peak_list (t : Nat) (st ap : List D) (h : st.length < t + 2) :
    mergeLoop H (t+1) st ap = none := mergeLoop_none H t st ap h
example : ([7] : List Nat).length < 0 + 2 := by decide

/-- **`new_from_leafs`** of the list `[f 0, …, f (n-1)]`: leaf count `n`, from-scratch peaks -/
theorem new_from_leafs_spec (n : Nat) (hn : n < 2^64) (f : Nat → D) :
    new_from_leafs H ((List.range n).map f) = some { leaf_count := n, peaks := peaks H n f } :=
  new_from_leafs_range H n hn f
example : (4096 : Nat) < 2^64 := by decide

/-- **single mutation with a valid proof**: for `i < n < 2^64` and the from-scratch authentication path of leaf `i`,
    `mutate_leaf` never panics, keeps the leaf count and yields the from-scratch peaks of the leaf list with leaf `i`
    replaced (Merkle-tree index / peak index come from the translated `leaf_index_to_mt_index_and_peak_index`) -/
theorem mutate_leaf_refines (f : Nat → D) (x : D) (n i : Nat) (hin : i < n) (hn : n < 2^64) (ap : List D)
    (hap : authPath H n f i = some ap) :
    mutate_leaf H { leaf_count := n, peaks := peaks H n f } { leaf_index := i, new_leaf := x, auth := ap }
      = some { leaf_count := n, peaks := peaks H n (update f i x) } :=
  mutate_leaf_refines_model H f x n i hin hn ap hap
example : authPath (fun a b : Nat => a * 10 + b) 3 (fun i => i + 1) 1 = some [1] := by decide +kernel

/-- a valid proof exists for every leaf in range -/
theorem valid_proof_exists (f : Nat → D) (n i : Nat) (hin : i < n) : ∃ ap, authPath H n f i = some ap :=
  authPath_isSome H f n i hin

/-- mutation of a leaf out of range panics (`assert!`) -/
theorem mutate_leaf_out_of_range_panics (a : Acc D) (m : LeafMutation D) (h : a.leaf_count ≤ m.leaf_index) :
    mutate_leaf H a m = none := by
  unfold mutate_leaf calculate_new_peaks_from_leaf_mutation
  rw [if_neg (by omega)]; rfl

/-- **history theorem**.  Starting from an accumulator that holds the from-scratch peaks of `n` leaves — in
    particular from the empty accumulator — after any finite sequence of appends, of leaf mutations and of batch leaf
    mutations (`OpB.batch ms tracked`: distinct in-range leafs `ms`, any order, handing over the proofs of any in-range
    leafs `tracked`), each carried out with the valid (from-scratch) proofs of the moment (`histOkB`: every index is
    in range when its turn comes, the count stays below `2^64`, below `2^63` at a batch step), the accumulator holds
    the leaf count and the from-scratch peaks of the current leaf list. -/
theorem history_refines [BEq D] [LawfulBEq D] (ops : List (OpB D)) (n : Nat) (f : Nat → D) (hok : histOkB n ops) :
    modelRunB H (n, f) { leaf_count := n, peaks := peaks H n f } ops
      = some { leaf_count := (specRunB (n, f) ops).1,
               peaks := peaks H (specRunB (n, f) ops).1 (specRunB (n, f) ops).2 } :=
  historyB_refines_model H ops n f hok
example : histOkB 0 [OpB.append (5 : Nat), OpB.append 6, OpB.mutate 1 7, OpB.append 8, OpB.batch [(2, 1), (0, 9)] [1, 2],
    OpB.append 3] := by
  simp [histOkB, opOkB, nextCountB]

/-- the same for histories of appends and single mutations only, for which no equality test on digests is needed -/
theorem history_refines_no_batch (ops : List (Op D)) (n : Nat) (f : Nat → D) (hok : histOk n ops) :
    modelRun H (n, f) { leaf_count := n, peaks := peaks H n f } ops
      = some { leaf_count := (specRun (n, f) ops).1,
               peaks := peaks H (specRun (n, f) ops).1 (specRun (n, f) ops).2 } :=
  history_refines_model H ops n f hok
example : histOk 0 [Op.append (5 : Nat), Op.append 6, Op.mutate 1 7, Op.append 8, Op.mutate 0 9] := by
  simp [histOk, opOk, nextCount]

/-- **bagging**: `bag_peaks` is the documented fold — `z` (the hash of the encoded 128-bit zero) for no peak, the
    peak itself for one peak, `H p₀ (H p₁ (… (H pₖ₋₂ pₖ₋₁)))` otherwise -/
theorem bag_peaks_spec (z : D) (ps : List D) : bag_peaks H z ps = bagSpec H z ps := bag_peaks_eq H z ps
example : bag_peaks (fun a b : Nat => a * 10 + b) 0 [1, 2, 3] = 1 * 10 + (2 * 10 + 3) := by decide

/-- **`verify_batch_update` rejects repeated and out-of-range indices** (returns `false`, does not panic), whatever
    the peaks, appended leaves, proofs and order -/
theorem verify_batch_update_rejects_dup_or_oob [BEq D] (a : Acc D) (np app : List D) (muts : List (LeafMutation D))
    (h : (∃ i j, ∃ (hi : i < muts.length) (hj : j < muts.length), i ≠ j ∧ muts[i].leaf_index = muts[j].leaf_index) ∨
         (∃ m ∈ muts, a.leaf_count ≤ m.leaf_index)) :
    verify_batch_update H a np app muts = some false := by
  rcases h with ⟨i, j, hi, hj, hne, heq⟩ | ⟨m, hm, hoob⟩
  · apply verify_false_of_not_unique
    apply allUnique_false_of_dup _ i j (by simpa using hi) (by simpa using hj) hne
    simpa using heq
  · exact verify_false_of_oob H a np app muts m hm hoob
example : ∃ m ∈ [({ leaf_index := 5, new_leaf := 0, auth := [] } : LeafMutation Nat)], (3 : Nat) ≤ m.leaf_index :=
  ⟨_, List.mem_singleton.mpr rfl, by decide⟩

/-! ## batch operations — full statements and their proofs, bounded model checks (kept as tests) -/

/-- FULL STATEMENT: batch mutation with distinct in-range indices and valid proofs (relative to the leaf list
    *before* the batch), in any order, with any tracked valid proofs: the accumulator holds the from-scratch peaks of
    the updated list, every tracked proof is the from-scratch proof afterwards and exactly the changed ones are
    reported -/
def batch_mutate_refines_statement : Prop :=
  ∀ (D : Type) [BEq D] [LawfulBEq D] (H : D → D → D) (n : Nat) (f : Nat → D) (ms : List (Nat × D)) (tracked : List Nat),
    n < 2^63 → (ms.map Prod.fst).Nodup → (∀ m ∈ ms, m.1 < n) → (∀ t ∈ tracked, t < n) →
    batch_mutate_leaf_and_update_mps H { leaf_count := n, peaks := peaks H n f }
        (tracked.map fun t => (authPath H n f t).getD []) tracked
        (ms.map fun m => { leaf_index := m.1, new_leaf := m.2, auth := (authPath H n f m.1).getD [] })
      = some ({ leaf_count := n, peaks := peaks H n (applyUpdates f ms) },
              tracked.map (fun t => (authPath H n (applyUpdates f ms) t).getD []),
              (List.range tracked.length).filter fun k =>
                (authPath H n f (tracked.getD k 0)).getD [] != (authPath H n (applyUpdates f ms) (tracked.getD k 0)).getD [])

/-- **batch mutation refines the from-scratch peaks** (`batch_mutate_refines_statement`, proved in full).  Invariant
    of the loop over the batch: `new_ap_digests` maps the node index of every non-peak ancestor block of an already
    mutated leaf (and of the leaf itself) to that block's root in the current leaf list and has no other key; a sibling
    block without a key contains no mutated leaf, so the digest of the stored path is still right; node indices are
    tied to blocks by the post-order numbering theory (`TF/Proofs/MmrNodeIndex.lean`).
    A mutation that does not change the value is processed like any other (its ancestors are stored with unchanged
    digests; no proof is reported for it). -/
theorem batch_mutate_refines : batch_mutate_refines_statement := by
  intro D _ _ H n f ms tracked hn hnd hms htr
  exact batch_mutate_refines_model H n f ms tracked hn hnd hms htr
example : (([(3, 10), (0, 11)] : List (Nat × Nat)).map Prod.fst).Nodup := by decide

/-- the excluded branch: **a repeated leaf index in the batch panics** (`assert!(former_value.is_none())`), whatever
    accumulator, proofs and tracked proofs are passed -/
theorem batch_mutate_duplicate_panics [BEq D] (a : Acc D) (proofs : List (List D)) (idxs : List Nat)
    (muts : List (LeafMutation D)) (h : ¬ (muts.map (·.leaf_index)).Nodup) :
    batch_mutate_leaf_and_update_mps H a proofs idxs muts = none := batch_dup_panics H a proofs idxs muts h
example : ¬ (([⟨2, 5, []⟩, ⟨1, 6, []⟩, ⟨2, 7, []⟩] : List (LeafMutation Nat)).map (·.leaf_index)).Nodup := by decide

/-- the other excluded branch: **an out-of-range index panics** — a mutated leaf index `≥ leaf_count`, a tracked
    leaf index `≥ leaf_count`, or proof / index lists of different lengths (the `assert!`s of the routine) -/
theorem batch_mutate_out_of_range_panics [BEq D] (a : Acc D) (proofs : List (List D)) (idxs : List Nat)
    (muts : List (LeafMutation D))
    (h : (∃ mu ∈ muts, a.leaf_count ≤ mu.leaf_index) ∨ (∃ t ∈ idxs, a.leaf_count ≤ t) ∨ proofs.length ≠ idxs.length) :
    batch_mutate_leaf_and_update_mps H a proofs idxs muts = none := batch_oob_panics H a proofs idxs muts h
example : ∃ t ∈ [0, 4], (3 : Nat) ≤ t := ⟨4, by simp, by decide⟩

/-- the empty batch leaves any accumulator unchanged — in particular it does not panic -/
theorem batch_mutate_empty [BEq D] (a : Acc D) :
    batch_mutate_leaf_and_update_mps H a [] [] [] = some (a, [], []) := batch_empty H a

/-- FULL STATEMENT: for distinct in-range indices and valid proofs, batch-update verification returns true exactly
    when the stated peaks are the from-scratch peaks after the stated mutations and appends -/
def verify_batch_update_iff_statement : Prop :=
  ∀ (D : Type) [BEq D] [LawfulBEq D] (H : D → D → D) (n : Nat) (f : Nat → D) (ms : List (Nat × D)) (apps np : List D),
    n + apps.length < 2^63 → (ms.map Prod.fst).Nodup → (∀ m ∈ ms, m.1 < n) →
    verify_batch_update H { leaf_count := n, peaks := peaks H n f } np apps
        (ms.map fun m => { leaf_index := m.1, new_leaf := m.2, auth := (authPath H n f m.1).getD [] })
      = some (peaks H (n + apps.length)
          (applyUpdates (applyUpdates f ms) (apps.zipIdx.map fun (x, k) => (n + k, x))) == np)

/-- **`verify_batch_update` accepts exactly the from-scratch peaks** (`verify_batch_update_iff_statement`, proved in
    full; the excluded inputs — repeated or out-of-range indices — are `verify_batch_update_rejects_dup_or_oob`).
    Invariant of the mutation loop: the running peaks are the from-scratch peaks of the current leaf list and the
    remaining mutations carry their from-scratch proofs in it; `batch_update_from_leaf_mutation` repairs them because
    a single mutation changes at most one digest of any other path, the one stored under a node index on the mutated
    leaf's direct path. -/
theorem verify_batch_update_iff : verify_batch_update_iff_statement := by
  intro D _ _ H n f ms apps np hn hnd hms
  exact TF.MmrAccVerify.verify_batch_update_iff_model H n f ms apps np hn hnd hms
example : (5 : Nat) + ([1, 2] : List Nat).length < 2^63 := by decide

/-- the same as an equivalence -/
theorem verify_batch_update_accepts_iff [BEq D] [LawfulBEq D] (n : Nat) (f : Nat → D) (ms : List (Nat × D))
    (apps np : List D) (hn : n + apps.length < 2^63) (hnd : (ms.map Prod.fst).Nodup) (hms : ∀ m ∈ ms, m.1 < n) :
    verify_batch_update H { leaf_count := n, peaks := peaks H n f } np apps
        (ms.map fun m => { leaf_index := m.1, new_leaf := m.2, auth := (authPath H n f m.1).getD [] }) = some true
      ↔ np = peaks H (n + apps.length)
          (applyUpdates (applyUpdates f ms) (apps.zipIdx.map fun (x, k) => (n + k, x))) := by
  rw [verify_batch_update_iff D H n f ms apps np hn hnd hms]
  constructor
  · intro h
    exact (eq_of_beq (Option.some.inj h)).symm
  · intro h
    subst h
    rw [beq_self_eq_true]
example : (([(1, 10), (0, 11)] : List (Nat × Nat)).map Prod.fst).Nodup := by decide

/-- no mutations, one appended leaf (the common "verify an append" use), for every count below `2^64 - 1` -/
theorem verify_one_append_iff [BEq D] (n : Nat) (hn : n + 1 < 2^64) (f : Nat → D) (np : List D) :
    verify_batch_update H { leaf_count := n, peaks := peaks H n f } np [f n] []
      = some (peaks H (n+1) f == np) := verify_one_append H n hn f np
example : (7 : Nat) + 1 < 2^64 := by decide

set_option maxRecDepth 100000 in
/-- TEST (free hash algebra, kernel-evaluated): batch mutation of every ordered pair of distinct leaves in every MMR
    with at most 10 leaves, tracking the proofs of all leaves: peaks, every updated proof and the list of modified
    proofs are the from-scratch ones -/
theorem batch_mutate_pairs_bounded_check : batchAll 10 2 = true := by decide +kernel

set_option maxRecDepth 100000 in
/-- TEST: the same for every ordered triple of distinct leaves, at most 6 leaves; and for single mutations up to 24 -/
theorem batch_mutate_triples_bounded_check : (batchAll 6 3 && batchAll 24 1 && batchAll 24 0) = true := by
  decide +kernel

set_option maxRecDepth 100000 in
/-- TEST (free hash algebra): `verify_batch_update` with valid proofs for every ordered pair/triple of distinct
    leaves and 0–2 appended leaves accepts exactly the from-scratch peaks, rejects the old peaks and rejects a
    repeated index -/
theorem verify_batch_update_bounded_check :
    (verifyAll 9 2 1 && verifyAll 6 3 2 && verifyAll 12 1 0 && verifyAll 12 0 2) = true := by decide +kernel

/-! ## Regenerated-from-source bridge (tools/rs2lean_bt4.py, `TF/Gen/MmrPeaksLoops.lean`)

`calculate_new_peaks_from_append`, `calculate_new_peaks_from_leaf_mutation` (`shared_basic.rs`) and `bag_peaks` (`shared.rs`) are
regenerated from the source text on every run with the digest type opaque (`D`), `Tip5::hash_pair` the parameter `H` and `d0` the value
read after a panic (the `_ok` twin is false there).  `outcome ok v = if ok then v else none` turns the pair
(`_ok` flag, value) into the hand model's convention (`none` = panic).  Proofs: `TF/Proofs/GenBridgeMmrPeaks.lean`. -/
section GenBridge
open TF.GenBridge.MmrPeaks
open TF.Gen.Loops (mmr_calculate_new_peaks_from_append mmr_calculate_new_peaks_from_append_ok
  mmr_calculate_new_peaks_from_leaf_mutation mmr_calculate_new_peaks_from_leaf_mutation_ok)

/-- regenerated `calculate_new_peaks_from_append` (`push`, the `while right_lineage_count != 0` loop with two
    `pop().unwrap()`, `hash_pair`, `push`) = hand model, every `H`, every peak list (short ones panic), every leaf count
    that can be incremented -/
theorem gen_calculate_new_peaks_from_append_eq_model (d0 : D) (n : Nat) (ps : List D) (x : D) (h : n + 1 < 2 ^ 64) :
    outcome (mmr_calculate_new_peaks_from_append_ok H d0 n ps x) (mmr_calculate_new_peaks_from_append H d0 n ps x)
      = calculate_new_peaks_from_append H n ps x := gen_append_eq H d0 n ps x h
/-- non-vacuity, with the carry chain of 3 = 0b11 (two merges) and on a peak list that is too short (panic) -/
example : let H := fun a b : Nat => a * 10 + b
    mmr_calculate_new_peaks_from_append H 0 3 [12, 3] 4 = some ([154], [3, 12]) ∧
    mmr_calculate_new_peaks_from_append_ok H 0 3 [12, 3] 4 = true ∧
    mmr_calculate_new_peaks_from_append_ok H 0 3 [3] 4 = false ∧
    calculate_new_peaks_from_append H 3 [3] 4 = none := by decide +kernel

/-- regenerated `calculate_new_peaks_from_leaf_mutation` (the `while acc_mt_index != 1` loop indexing the authentication
    path, the final `calculated_peaks[peak_index] = acc_hash`) = hand model, every `H`, every input with `u64` counts -/
theorem gen_calculate_new_peaks_from_leaf_mutation_eq_model (d0 : D) (ps : List D) (n : Nat) (x : D) (i : Nat)
    (ap : List D) (hn : n < 2 ^ 64) (hap : ap.length < 2 ^ 64) :
    outcome (mmr_calculate_new_peaks_from_leaf_mutation_ok H d0 ps n x i ap)
        (mmr_calculate_new_peaks_from_leaf_mutation H d0 ps n x i ap)
      = calculate_new_peaks_from_leaf_mutation H ps n x i ap := gen_leaf_mutation_eq H d0 ps n x i ap hn hap
example : let H := fun a b : Nat => a * 10 + b
    mmr_calculate_new_peaks_from_leaf_mutation H 0 [12, 3] 3 7 1 [1] = some [17, 3] ∧
    mmr_calculate_new_peaks_from_leaf_mutation_ok H 0 [12, 3] 3 7 1 [1] = true ∧
    mmr_calculate_new_peaks_from_leaf_mutation_ok H 0 [12, 3] 3 7 1 [] = false ∧
    mmr_calculate_new_peaks_from_leaf_mutation_ok H 0 [12, 3] 3 7 3 [1] = false := by decide +kernel

/-- **transfer**: `append_refines` and `mutate_leaf_refines` for the code as it is in the source now: on the from-scratch
    peaks of `n` leaves the regenerated append does not panic, terminates within its fuel and returns the from-scratch
    peaks of `n + 1` leaves; the regenerated mutation with a valid proof returns the from-scratch peaks of the updated
    leaf list -/
theorem gen_peaks_transfer (d0 : D) (f : Nat → D) (n : Nat) (hn : n + 1 < 2 ^ 64) :
    (∃ ap, mmr_calculate_new_peaks_from_append_ok H d0 n (peaks H n f) (f n) = true ∧
      mmr_calculate_new_peaks_from_append H d0 n (peaks H n f) (f n) = some (peaks H (n + 1) f, ap)) ∧
    (∀ (x : D) (i : Nat) (ap : List D), i < n → authPath H n f i = some ap → ap.length < 2 ^ 64 →
      mmr_calculate_new_peaks_from_leaf_mutation_ok H d0 (peaks H n f) n x i ap = true ∧
      mmr_calculate_new_peaks_from_leaf_mutation H d0 (peaks H n f) n x i ap = some (peaks H n (update f i x))) := by
  constructor
  · obtain ⟨ap, hap⟩ := append_refines H n hn f
    have hg := gen_calculate_new_peaks_from_append_eq_model H d0 n (peaks H n f) (f n) hn
    unfold append at hap
    simp only at hap
    cases hc : calculate_new_peaks_from_append H n (peaks H n f) (f n) with
    | none => rw [hc] at hap; cases hap
    | some r =>
      rw [hc] at hap hg
      simp only [Option.map_some, Option.some.injEq, Prod.mk.injEq, Acc.mk.injEq] at hap
      obtain ⟨h1, h2⟩ := outcome_eq_some hg
      refine ⟨ap, h1, ?_⟩
      rw [h2, ← hap.1.2, ← hap.2]
  · intro x i ap hin hap hlen
    have hm := mutate_leaf_refines H f x n i hin (by omega) ap hap
    have hg := gen_calculate_new_peaks_from_leaf_mutation_eq_model H d0 (peaks H n f) n x i ap (by omega) hlen
    unfold mutate_leaf at hm
    simp only at hm
    cases hc : calculate_new_peaks_from_leaf_mutation H (peaks H n f) n x i ap with
    | none => rw [hc] at hm; cases hm
    | some r =>
      rw [hc] at hm hg
      simp only [Option.map_some, Option.some.injEq, Acc.mk.injEq, true_and] at hm
      obtain ⟨h1, h2⟩ := outcome_eq_some hg
      exact ⟨h1, by rw [h2, hm]⟩
example : (9223372036854775807 : Nat) + 1 < 2 ^ 64 := by decide

/-- regenerated `shared::bag_peaks` (two `next_back()` with early `return`, then `peaks.rev().fold(accumulator, |acc, &peak|
    Tip5::hash_pair(peak, acc))`; `hash0` = `Tip5::hash(&0u128)`) = the hand model — every hash function, every list of
    peaks, opaque digests; no check of the `_ok` twin can fail -/
theorem gen_bag_peaks_eq_model (d0 z : D) (ps : List D) :
    TF.Gen.Loops.mmr_bag_peaks H d0 z ps = bag_peaks H z ps ∧ TF.Gen.Loops.mmr_bag_peaks_ok H d0 z ps = true :=
  gen_bag_peaks_eq H d0 z ps
example : TF.Gen.Loops.mmr_bag_peaks (fun a b : Nat => a * 10 + b) 7 0 [1, 2, 3, 4] = 1 * 10 + (2 * 10 + (3 * 10 + 4)) := by
  decide

/-- **transfer** of `bag_peaks_spec`: the code as it is in the source now computes the documented bag — `z` for no peak,
    the peak itself for one peak, `H p₀ (H p₁ (… (H pₖ₋₂ pₖ₋₁)))` otherwise (a dropped `.rev()` or swapped arguments of
    `hash_pair` break this for non-commutative `H`) -/
theorem gen_bag_peaks_transfer (d0 z : D) (ps : List D) :
    TF.Gen.Loops.mmr_bag_peaks H d0 z ps = bagSpec H z ps := by
  rw [(gen_bag_peaks_eq_model H d0 z ps).1, bag_peaks_spec]
example : TF.Gen.Loops.mmr_bag_peaks (fun a b : Nat => a * 10 + b) 7 0 [] = 0 ∧
    TF.Gen.Loops.mmr_bag_peaks (fun a b : Nat => a * 10 + b) 7 0 [5] = 5 ∧
    bagSpec (fun a b : Nat => a * 10 + b) 0 [1, 2, 3, 4] = 64 := by decide

end GenBridge


/-! ## regenerated-from-source bridge, part 2 (BT7): the accumulator's methods

`MmrAccumulator::{append, mutate_leaf, new_from_leafs, num_leafs, peaks, is_empty, bag_peaks}` (`mmr_accumulator.rs`) are
regenerated from the source text on every run into `TF/Gen/MmrProofLoops.lean` (`tools/rs2lean_mmr.py`): an accumulator is the
pair `(leaf_count, peaks)`, a `LeafMutation` the triple `(leaf_index, new_leaf, membership_proof)` (struct items checked by
the translator); a `&mut self` method returns `(value, new self)`; the callees are the regenerated peak calculations
bridged above.  Proofs: `TF/Proofs/GenBridgeMmrAccu.lean`. -/
section GenBridgeAcc
open TF.GenBridge.MmrPeaks TF.GenBridge.MmrAccu
open TF.Gen.Loops (mmra_append mmra_append_ok mmra_mutate_leaf mmra_mutate_leaf_ok mmra_new_from_leafs mmra_new_from_leafs_ok
  mmra_num_leafs mmra_peaks mmra_is_empty mmra_bag_peaks mmra_bag_peaks_ok)

/-- regenerated `append` (`calculate_new_peaks_from_append(self.leaf_count, self.peaks.clone(), new_leaf)`,
    `self.peaks = new_peaks; self.leaf_count += 1;`), `mutate_leaf` and `new_from_leafs` (the empty accumulator, then
    `for digest in digests { mmra.append(digest); }`) = hand model, a panic is `none`; every `H`, every input with `u64`
    counts that cannot overflow -/
theorem gen_accumulator_eq_model (d0 : D) :
    (∀ (n : Nat) (ps : List D) (x : D), n + 1 < 2 ^ 64 →
      outcome (mmra_append_ok H d0 (n, ps) x) (mmra_append H d0 (n, ps) x)
        = (append H { leaf_count := n, peaks := ps } x).map fun r => (r.2, ofAcc r.1)) ∧
    (∀ (n : Nat) (ps : List D) (i : Nat) (x : D) (ap : List D), n < 2 ^ 64 → ap.length < 2 ^ 64 →
      outcome (mmra_mutate_leaf_ok H d0 (n, ps) (i, x, ap)) (mmra_mutate_leaf H d0 (n, ps) (i, x, ap))
        = (mutate_leaf H { leaf_count := n, peaks := ps } { leaf_index := i, new_leaf := x, auth := ap }).map ofAcc) ∧
    (∀ ds : List D, ds.length < 2 ^ 64 →
      outcome (mmra_new_from_leafs_ok H d0 ds) (mmra_new_from_leafs H d0 ds) = (new_from_leafs H ds).map ofAcc) :=
  ⟨fun n ps x h => gen_acc_append_eq H d0 n ps x h, fun n ps i x ap h1 h2 => gen_acc_mutate_leaf_eq H d0 n ps i x ap h1 h2,
   fun ds h => gen_new_from_leafs_eq H d0 ds h⟩
/-- non-vacuity: the carry chain of 3 = 0b11 (two merges; a swapped `hash_pair` would give 541 instead of 154), a peak list
    that is too short (panic), a mutation, `new_from_leafs` of three leafs -/
example : let H := fun a b : Nat => a * 10 + b
    mmra_append H 0 (3, [12, 3]) 4 = some ([3, 12], (4, [154])) ∧ mmra_append_ok H 0 (3, [12, 3]) 4 = true ∧
    mmra_append_ok H 0 (3, [3]) 4 = false ∧
    mmra_mutate_leaf H 0 (3, [12, 3]) (1, 7, [1]) = some (3, [17, 3]) ∧
    mmra_new_from_leafs H 0 [1, 2, 3] = some (3, [12, 3]) ∧ mmra_new_from_leafs_ok H 0 [1, 2, 3] = true := by
  decide +kernel

/-- regenerated accessors = the hand model's -/
theorem gen_accessors_eq_model (d0 z : D) (n : Nat) (ps : List D) :
    mmra_num_leafs H d0 (n, ps) = Acc.num_leafs { leaf_count := n, peaks := ps } ∧
    mmra_peaks H d0 (n, ps) = ps ∧
    mmra_is_empty H d0 (n, ps) = Acc.is_empty { leaf_count := n, peaks := ps } ∧
    mmra_bag_peaks H d0 z (n, ps) = Acc.bag_peaks H z { leaf_count := n, peaks := ps } ∧
    mmra_bag_peaks_ok H d0 z (n, ps) = true := gen_accessors_eq H d0 z n ps
example : mmra_is_empty (fun a b : Nat => a + b) 0 (0, []) = true ∧ mmra_num_leafs (fun a b : Nat => a + b) 0 (5, [1, 2]) = 5 := by
  decide

/-- **transfer** of `append_refines`, `mutate_leaf_refines` and `new_from_leafs_spec` to the code as it is in the source
    now: on the from-scratch accumulator of `n` leaves the regenerated `append` does not panic, terminates and returns the
    from-scratch accumulator of `n + 1` leaves; the regenerated `mutate_leaf` with a valid proof returns the from-scratch
    accumulator of the updated leaf list; the regenerated `new_from_leafs` of `[f 0, …, f (n-1)]` returns leaf count `n`
    and the from-scratch peaks -/
theorem gen_accumulator_transfer (d0 : D) (f : Nat → D) (n : Nat) (hn : n + 1 < 2 ^ 64) :
    (∃ ap, mmra_append_ok H d0 (n, peaks H n f) (f n) = true ∧
      mmra_append H d0 (n, peaks H n f) (f n) = some (ap, (n + 1, peaks H (n + 1) f))) ∧
    (∀ (x : D) (i : Nat) (ap : List D), i < n → authPath H n f i = some ap → ap.length < 2 ^ 64 →
      mmra_mutate_leaf_ok H d0 (n, peaks H n f) (i, x, ap) = true ∧
      mmra_mutate_leaf H d0 (n, peaks H n f) (i, x, ap) = some (n, peaks H n (update f i x))) ∧
    (mmra_new_from_leafs_ok H d0 ((List.range n).map f) = true ∧
      mmra_new_from_leafs H d0 ((List.range n).map f) = some (n, peaks H n f)) := by
  refine ⟨?_, ?_, ?_⟩
  · obtain ⟨ap, hap⟩ := append_refines H n hn f
    have hg := (gen_accumulator_eq_model H d0).1 n (peaks H n f) (f n) hn
    rw [hap] at hg
    obtain ⟨h1, h2⟩ := outcome_eq_some hg
    exact ⟨ap, h1, h2⟩
  · intro x i ap hin hap hlen
    have hm := mutate_leaf_refines H f x n i hin (by omega) ap hap
    have hg := (gen_accumulator_eq_model H d0).2.1 n (peaks H n f) i x ap (by omega) hlen
    rw [hm] at hg
    exact outcome_eq_some hg
  · have hs := new_from_leafs_spec H n (by omega) f
    have hg := (gen_accumulator_eq_model H d0).2.2 ((List.range n).map f) (by
      rw [List.length_map, List.length_range]; omega)
    rw [hs] at hg
    exact outcome_eq_some hg
example : (9223372036854775807 : Nat) + 1 < 2 ^ 64 := by decide

end GenBridgeAcc

end TF.C11
