import TF.Proofs.Codec
import TF.Proofs.GenBridgeCodec
import TF.Proofs.GenBridgeCodecGeneric
import TF.Proofs.GenBridgeCodecTuple
import TF.Proofs.GenBridgeCodecEnc
/-!
# C03 — BFieldCodec: round trip, unique encoding, static length, documented layout

Property theorems only (helper lemmas: `TF/Proofs/Codec.lean`; model: `TF/Model/Codec.lean`, tied to the crate by
the correspondence family `codec`).

Notation
* `Ty` — the type grammar (`bfe u8 u16 u32 u64 u128 bool phantom box option vec array tuple poly u32s struct enum`),
  nested to any depth; library structs are definitions (`Ty.digest`, `Ty.xfe`, `Ty.mmrAccumulator`, …);
* `Val` — values; `HasTy t v` — `v` is a (canonical) value of type `t` (decidable, `hasTy t v = true`);
* `encode t v : List Nat`, `decode t s : Outcome Val` (`ok v | err k | panic`), `staticLength t : Option Nat`;
* `Canon s` — all elements of the sequence are canonical field values (`< P`);
* `NoZeroWidthItems t` — no `Vec`/array/polynomial in `t` has an item type of static width 0 (decidable). The
  unchanged crate violates round trip and totality on exactly that class (finding F10); the negation is proved
  below with concrete witnesses.
* the bound `(encode t v).length < 2^64` in the round-trip theorems is what `usize` can index at all.

All theorems hold for the whole universe `Ty` (no arity / well-formedness hypothesis is needed).
-/
namespace TF.C03
open TF.Codec

/-- **Round trip**: decoding the encoding of a value returns that value — every type of the grammar, any nesting. -/
theorem decode_encode (t : Ty) (v : Val) (hv : HasTy t v) (hz : NoZeroWidthItems t)
    (hb : (encode t v).length < 2^64) : decode t (encode t v) = .ok v :=
  TF.Codec.decode_encode t v hv hz hb
example : HasTy (.tuple [.vec (.option .u64), .u32]) (.list [.list [.opt (some (.num (2^64-1))), .opt none], .num 7]) ∧
    NoZeroWidthItems (.tuple [.vec (.option .u64), .u32]) := by decide

/-- **Uniqueness**: any sequence that decodes successfully is exactly the encoding of the decoded value
    (no hypothesis at all: holds for every type, every sequence). -/
theorem encode_decode (t : Ty) (s : List Nat) (v : Val) (h : decode t s = .ok v) : encode t v = s :=
  TF.Codec.encode_decode t s v h
example : decode (.vec (.vec .u32)) [2, 2, 1, 5, 3, 2, 6, 7] = .ok (.list [.list [.num 5], .list [.num 6, .num 7]]) := rfl

/-- an accepted sequence of canonical elements decodes to a well-typed value -/
theorem decode_welltyped (t : Ty) (s : List Nat) (v : Val) (hc : Canon s) (h : decode t s = .ok v) : HasTy t v :=
  TF.Codec.decode_hasTy t s v hc h
example : Canon [2, 2, 1, 5, 3, 2, 6, 18446744069414584320] := by decide

/-- … and conversely every encoding (of a type that can be written in Rust, `wf`; shorter than `P` elements) consists
    of canonical elements, so the two directions compose: `decode_welltyped`/C13 apply to every encoding. -/
theorem encode_canonical (t : Ty) (v : Val) (hv : HasTy t v) (hz : NoZeroWidthItems t) (hw : wf t = true)
    (hb : (encode t v).length < P) : Canon (encode t v) :=
  TF.Codec.encode_canon t v hv hz hw hb
example : wf (.tuple [.vec (.option .u64), .enum [[], [.poly .bfe]]]) = true := by decide

/-- **Encoding is injective** on the values of a type. -/
theorem encode_injective (t : Ty) (v₁ v₂ : Val) (h₁ : HasTy t v₁) (h₂ : HasTy t v₂) (hz : NoZeroWidthItems t)
    (hb : (encode t v₁).length < 2^64) (he : encode t v₁ = encode t v₂) : v₁ = v₂ := by
  have d₁ := TF.Codec.decode_encode t v₁ h₁ hz hb
  have d₂ := TF.Codec.decode_encode t v₂ h₂ hz (he ▸ hb)
  rw [he, d₂] at d₁
  exact (Outcome.ok.inj d₁).symm
example : HasTy (.option .bool) (.opt none) ∧ HasTy (.option .bool) (.opt (some (.num 0))) := by decide

/-- **Exactly one accepted encoding per value**: a sequence decodes to `v` iff it is `encode t v`. -/
theorem unique_encoding (t : Ty) (v : Val) (s : List Nat) (hv : HasTy t v) (hz : NoZeroWidthItems t)
    (hb : (encode t v).length < 2^64) : decode t s = .ok v ↔ s = encode t v :=
  ⟨fun h => (TF.Codec.encode_decode t s v h).symm, fun h => h ▸ TF.Codec.decode_encode t v hv hz hb⟩
example : HasTy (.poly .bfe) (.list [.num 0, .num 3]) ∧ NoZeroWidthItems (.poly .bfe) := by decide

/-- **Static length**: if a type reports a static length, every encoding has that length. -/
theorem static_length_spec (t : Ty) (v : Val) (n : Nat) (hv : HasTy t v) (hs : staticLength t = some n) :
    (encode t v).length = n :=
  TF.Codec.encode_length_static t v n hv hs
example : staticLength (.tuple [.u128, .array 3 .u64, .enum [[.u32], [.bool]]]) = some 12 := by decide

/-- … and the decoder accepts no canonical sequence of any other length. -/
theorem static_length_accepts_only (t : Ty) (s : List Nat) (v : Val) (n : Nat) (hc : Canon s)
    (h : decode t s = .ok v) (hs : staticLength t = some n) : s.length = n := by
  have := TF.Codec.encode_length_static t v n (TF.Codec.decode_hasTy t s v hc h) hs
  rwa [TF.Codec.encode_decode t s v h] at this
example : decode (.array 2 .u64) [1, 0, 2, 0] = .ok (.list [.num 1, .num 2]) := rfl

/-! ## documented layout -/

/-- tuple and struct components: **reverse declaration order**, each length-prefixed iff dynamically sized -/
theorem layout_fields_reverse (ts : List Ty) (vs : List Val) :
    encodeFields ts vs = ((ts.zip vs).reverse.flatMap fun tv => prefixed (isDyn tv.1) (encode tv.1 tv.2)) := by
  induction ts generalizing vs with
  | nil => simp [encodeFields]
  | cons t ts ih =>
    cases vs with
    | nil => simp [encodeFields]
    | cons v vs => simp [encodeFields, ih vs]
example : encodeFields [.u32, .vec .u8] [.num 9, .list [.num 1, .num 2]] = [3, 2, 1, 2, 9] := rfl

theorem layout_tuple (ts : List Ty) (vs : List Val) : encode (.tuple ts) (.list vs) = encodeFields ts vs := by
  simp [encode]
theorem layout_tuple_cons (t : Ty) (ts : List Ty) (v : Val) (vs : List Val) :
    encode (.tuple (t :: ts)) (.list (v :: vs)) = encode (.tuple ts) (.list vs) ++ prefixed (isDyn t) (encode t v) := by
  simp [encode, encodeFields]
theorem layout_struct (fs : List Ty) (vs : List Val) : encode (.struct fs) (.list vs) = encodeFields fs vs := by
  simp [encode]
/-- `Vec`: the number of items, then the items in order, each prefixed iff the item type is dynamically sized -/
theorem layout_vec (t : Ty) (vs : List Val) :
    encode (.vec t) (.list vs) = vs.length :: encodeItems (encode t) (isDyn t) vs := by
  simp [encode]
/-- arrays: the items in order, no count -/
theorem layout_array (n : Nat) (t : Ty) (vs : List Val) :
    encode (.array n t) (.list vs) = encodeItems (encode t) (isDyn t) vs := by
  simp [encode]
theorem layout_items_cons (t : Ty) (d : Bool) (v : Val) (vs : List Val) :
    encodeItems (encode t) d (v :: vs) = prefixed d (encode t v) ++ encodeItems (encode t) d vs := rfl
theorem layout_option_none (t : Ty) : encode (.option t) (.opt none) = [0] := by simp [encode]
theorem layout_option_some (t : Ty) (v : Val) : encode (.option t) (.opt (some v)) = 1 :: encode t v := by
  simp [encode]
theorem layout_box (t : Ty) (v : Val) : encode (.box t) v = encode t v := by simp [encode]
/-- polynomials: the length of the coefficient-vector encoding, then the coefficient vector (without stored
    leading zeros) encoded as a `Vec` -/
theorem layout_poly (t : Ty) (cs : List Val) :
    encode (.poly t) (.list cs) =
      (encode (.vec t) (.list (normalize cs))).length :: encode (.vec t) (.list (normalize cs)) := by
  simp [encode]
/-- the length prefix is present iff `static_length` is `None` -/
theorem layout_prefix_iff (t : Ty) (e : List Nat) :
    prefixed (isDyn t) e = if staticLength t = none then e.length :: e else e := by
  unfold isDyn prefixed
  cases staticLength t <;> simp
/-- `u64` / `u128`: little-endian 32-bit limbs -/
theorem layout_u64 (n : Nat) : encode .u64 (.num n) = [n % 2^32, n / 2^32 % 2^32] := by simp [encode]
theorem layout_u128 (n : Nat) :
    encode .u128 (.num n) = [n % 2^32, n / 2^32 % 2^32, n / 2^64 % 2^32, n / 2^96 % 2^32] := by simp [encode]

/-! ## the library's own structs -/
theorem static_length_library :
    staticLength Ty.digest = some 5 ∧ staticLength Ty.xfe = some 3 ∧ staticLength Ty.tip5 = some 16 ∧
    staticLength Ty.mmrAccumulator = none ∧ staticLength Ty.mmrMembershipProof = none ∧
    staticLength Ty.mmrSuccessorProof = none := by decide
/-- `MmrAccumulator { leaf_count, peaks }`: peaks first (length-prefixed `Vec<Digest>`), then the two limbs of the
    leaf count -/
theorem layout_mmr_accumulator (n : Nat) (peaks : List Val) :
    encode Ty.mmrAccumulator (.list [.num n, .list peaks]) =
      (encode (.vec Ty.digest) (.list peaks)).length :: encode (.vec Ty.digest) (.list peaks)
        ++ [n % 2^32, n / 2^32 % 2^32] := by
  simp [Ty.mmrAccumulator, encode, encodeFields, isDyn, staticLength]

/-! ## finding F10: item types of static width 0 (the excluded class is not empty, and the property fails on it) -/

/-- `Vec<PhantomData<_>>::decode([3])` panics (`chunks_exact(0)`) -/
theorem zero_width_vec_panics : decode (.vec .phantom) [3] = .panic := rfl
/-- `Vec<[u32; 0]>::decode([0])` panics although `[0]` is the encoding of the empty vector -/
theorem zero_width_vec_panics_on_own_encoding :
    decode (.vec (.array 0 .u32)) (encode (.vec (.array 0 .u32)) (.list [])) = .panic := rfl
/-- `[PhantomData<_>; 3]` and `[[u32; 0]; 2]` reject their own (empty) encoding -/
theorem zero_width_array_rejects_own_encoding :
    HasTy (.array 3 .phantom) (.list [.unit, .unit, .unit]) ∧
    decode (.array 3 .phantom) (encode (.array 3 .phantom) (.list [.unit, .unit, .unit])) = .err .empty ∧
    HasTy (.array 2 (.array 0 .u32)) (.list [.list [], .list []]) ∧
    decode (.array 2 (.array 0 .u32)) (encode (.array 2 (.array 0 .u32)) (.list [.list [], .list []])) = .err .empty :=
  ⟨rfl, rfl, rfl, rfl⟩
/-- these types are exactly what `NoZeroWidthItems` excludes -/
theorem zero_width_witnesses_excluded :
    ¬ NoZeroWidthItems (.vec .phantom) ∧ ¬ NoZeroWidthItems (.vec (.array 0 .u32)) ∧
    ¬ NoZeroWidthItems (.array 3 .phantom) ∧ ¬ NoZeroWidthItems (.array 2 (.array 0 .u32)) := by decide

end TF.C03

/-! ## regenerated-from-source bridge: the leaf codecs (P03)

The leaf impls of `BFieldCodec` — the two `macro_rules!` bodies `impl_bfield_codec_for_big_primitive_uint!(u64, 2)`,
`(u128, 4)` and `impl_bfield_codec_for_small_primitive_uint!(u8, u16, u32)`, the hand-written impls for `bool` and
`BFieldElement`, and the `From` impls of `b_field_element.rs` they go through — are **regenerated from the source on every
run** (`TF/Gen/CodecLeaves.lean`, `TF.Gen.Loops.codec_*`, written by `tools/rs2lean_conv.py`; every function `f` has a twin
`f_ok`, true iff no arithmetic overflow / index out of range / failing `unwrap`).  They work on *raw Montgomery words*;
`vals r = r.map bfe_value` reads the canonical values, `Raw r`: all words `< P`; a `Result<_, BFieldCodecError>` is
`Except String _` whose error is the variant's name, and `exceptNat` / `exceptBool` print a model outcome in that form
(`.err .empty ↦ "EmptySequence"`, `.tooShort ↦ "SequenceTooShort"`, `.tooLong ↦ "SequenceTooLong"`,
`.range ↦ "ElementOutOfRange"`).  Proofs: `TF/Proofs/GenBridgeCodec.lean`, `TF/Proofs/GenBridgeCodecArith.lean`.
The theorems hold for **all** sequences of words and **all** values: which sequences are accepted, the decoded value, the
error (wrong length, limb `≥ 2^32`, value out of range, `bool > 1`), the limb split of the encoding.  A one-token change
of one of these Rust functions changes `TF.Gen.Loops.codec_*`; the theorems below are then re-checked or break. -/
namespace TF.C03
open TF.Codec TF.Gen TF.GenBridge.Codec

/-- regenerated `u64` codec = leaf case of the hand model: decoder on every sequence of words (accepted sequences, value,
    error kind), encoder on every value (limb split; the produced words are canonical), static length; nothing overflows -/
theorem gen_u64_codec_eq_model (r : List Nat) (n : Nat) :
    Loops.codec_u64_decode r = exceptNat (decode .u64 (vals r)) ∧ Loops.codec_u64_decode_ok r = true ∧
    vals (Loops.codec_u64_encode n) = encode .u64 (.num n) ∧ Raw (Loops.codec_u64_encode n) ∧
    Loops.codec_u64_encode_ok n = true ∧ Loops.codec_u64_static_length = staticLength .u64 :=
  ⟨(gen_u64_decode r).1, (gen_u64_decode r).2, (gen_u64_encode n).1, (gen_u64_encode n).2.1, (gen_u64_encode n).2.2,
    gen_static_lengths.1⟩
example : Loops.codec_u64_decode [bfe_new 4294967295, bfe_new 4294967295] = .ok 18446744073709551615 ∧
    Loops.codec_u64_decode [bfe_new 4294967295, bfe_new 4294967296] = .error "ElementOutOfRange" ∧
    Loops.codec_u64_decode [bfe_new 1] = .error "SequenceTooShort" ∧
    Loops.codec_u64_decode [bfe_new 1, 0, 0] = .error "SequenceTooLong" ∧
    Loops.codec_u64_decode [] = .error "EmptySequence" ∧
    vals (Loops.codec_u64_encode 18446744069414584321) = [1, 4294967295] := by decide +kernel

/-- regenerated `u128` codec = leaf case of the hand model (four limbs; the encoder goes through `From<u128>`, i.e.
    `mod_reduce`) -/
theorem gen_u128_codec_eq_model (r : List Nat) (n : Nat) :
    Loops.codec_u128_decode r = exceptNat (decode .u128 (vals r)) ∧ Loops.codec_u128_decode_ok r = true ∧
    vals (Loops.codec_u128_encode n) = encode .u128 (.num n) ∧ Raw (Loops.codec_u128_encode n) ∧
    Loops.codec_u128_encode_ok n = true ∧ Loops.codec_u128_static_length = staticLength .u128 :=
  ⟨(gen_u128_decode r).1, (gen_u128_decode r).2, (gen_u128_encode n).1, (gen_u128_encode n).2.1, (gen_u128_encode n).2.2,
    gen_static_lengths.2.1⟩
example : Loops.codec_u128_decode [bfe_new 4294967295, bfe_new 4294967295, bfe_new 4294967295, bfe_new 4294967295]
      = .ok 340282366920938463463374607431768211455 ∧
    Loops.codec_u128_decode [0, 0, 0, bfe_new 4294967296] = .error "ElementOutOfRange" ∧
    Loops.codec_u128_decode [0, 0, 0] = .error "SequenceTooShort" ∧
    vals (Loops.codec_u128_encode (2 ^ 96 + 2 ^ 64 * 5 + 2 ^ 32 * 7 + 9)) = [9, 7, 5, 1] := by decide +kernel

/-- regenerated `u8` / `u16` / `u32` codecs = leaf cases of the hand model (`uN::try_from(first.value())`) -/
theorem gen_small_codec_eq_model (r : List Nat) (n : Nat) (hn : n < TF.Gen.P) :
    Loops.codec_u8_decode r = exceptNat (decode .u8 (vals r)) ∧ Loops.codec_u8_decode_ok r = true ∧
    Loops.codec_u16_decode r = exceptNat (decode .u16 (vals r)) ∧ Loops.codec_u16_decode_ok r = true ∧
    Loops.codec_u32_decode r = exceptNat (decode .u32 (vals r)) ∧ Loops.codec_u32_decode_ok r = true ∧
    vals (Loops.codec_u8_encode n) = encode .u8 (.num n) ∧ vals (Loops.codec_u16_encode n) = encode .u16 (.num n) ∧
    vals (Loops.codec_u32_encode n) = encode .u32 (.num n) ∧
    Raw (Loops.codec_u8_encode n) ∧ Raw (Loops.codec_u16_encode n) ∧ Raw (Loops.codec_u32_encode n) ∧
    Loops.codec_u8_encode_ok n = true ∧ Loops.codec_u16_encode_ok n = true ∧ Loops.codec_u32_encode_ok n = true ∧
    Loops.codec_u8_static_length = staticLength .u8 ∧ Loops.codec_u16_static_length = staticLength .u16 ∧
    Loops.codec_u32_static_length = staticLength .u32 := by
  obtain ⟨e8, e16, e32, r8, r16, r32, o8, o16, o32⟩ := gen_small_encode n hn
  exact ⟨(gen_u8_decode r).1, (gen_u8_decode r).2, (gen_u16_decode r).1, (gen_u16_decode r).2, (gen_u32_decode r).1,
    (gen_u32_decode r).2, e8, e16, e32, r8, r16, r32, o8, o16, o32, gen_static_lengths.2.2.1, gen_static_lengths.2.2.2.1,
    gen_static_lengths.2.2.2.2.1⟩
example : Loops.codec_u8_decode [bfe_new 255] = .ok 255 ∧ Loops.codec_u8_decode [bfe_new 256] = .error "ElementOutOfRange" ∧
    Loops.codec_u16_decode [bfe_new 65535] = .ok 65535 ∧ Loops.codec_u16_decode [bfe_new 65536] = .error "ElementOutOfRange" ∧
    Loops.codec_u32_decode [bfe_new 4294967296] = .error "ElementOutOfRange" ∧
    Loops.codec_u32_decode [0, 0] = .error "SequenceTooLong" ∧ vals (Loops.codec_u16_encode 513) = [513] := by
  decide +kernel

/-- regenerated `bool` and `BFieldElement` codecs = leaf cases of the hand model (`bool`: the model's value is `0`/`1`;
    `BFieldElement`: the source returns / takes the word itself, the model its value) -/
theorem gen_bool_bfe_codec_eq_model (r : List Nat) (b : Bool) (x : Nat) :
    Loops.codec_bool_decode r = exceptBool (decode .bool (vals r)) ∧ Loops.codec_bool_decode_ok r = true ∧
    vals (Loops.codec_bool_encode b) = encode .bool (.num (if b then 1 else 0)) ∧ Raw (Loops.codec_bool_encode b) ∧
    Loops.codec_bool_encode_ok b = true ∧ Loops.codec_bool_static_length = staticLength .bool ∧
    exceptVal (Loops.codec_bfe_decode r) = exceptNat (decode .bfe (vals r)) ∧ Loops.codec_bfe_decode_ok r = true ∧
    vals (Loops.codec_bfe_encode x) = encode .bfe (.num (bfe_value x)) ∧ Loops.codec_bfe_encode x = [x] ∧
    Loops.codec_bfe_encode_ok x = true ∧ Loops.codec_bfe_static_length = staticLength .bfe :=
  ⟨(gen_bool_decode r).1, (gen_bool_decode r).2, (gen_bool_encode b).1, (gen_bool_encode b).2.1, (gen_bool_encode b).2.2,
    gen_static_lengths.2.2.2.2.2.1, (gen_bfe_decode r).1, (gen_bfe_decode r).2, (gen_bfe_encode x).1, (gen_bfe_encode x).2.1,
    (gen_bfe_encode x).2.2, gen_static_lengths.2.2.2.2.2.2⟩
example : Loops.codec_bool_decode [bfe_new 1] = .ok true ∧ Loops.codec_bool_decode [bfe_new 2] = .error "ElementOutOfRange" ∧
    Loops.codec_bool_decode [] = .error "EmptySequence" ∧ Loops.codec_bfe_decode [7, 8] = .error "SequenceTooLong" ∧
    Loops.codec_bfe_decode [7] = .ok 7 ∧ vals (Loops.codec_bool_encode true) = [1] := by decide +kernel

/-- **transfer** of `layout_u64` / `layout_u128`, `decode_encode`, `encode_decode` and `static_length_spec` to the code as
    it is in the source now: the regenerated encoders emit the little-endian 32-bit limbs (as canonical words), the
    regenerated decoders invert them, an accepted sequence of words has exactly the values of the encoding of the decoded
    integer, and encodings have the static length -/
theorem gen_leaf_layout_roundtrip_transfer (n : Nat) (r : List Nat) :
    vals (Loops.codec_u64_encode n) = [n % 2^32, n / 2^32 % 2^32] ∧
    vals (Loops.codec_u128_encode n) = [n % 2^32, n / 2^32 % 2^32, n / 2^64 % 2^32, n / 2^96 % 2^32] ∧
    (n < 2^64 → Loops.codec_u64_decode (Loops.codec_u64_encode n) = .ok n) ∧
    (n < 2^128 → Loops.codec_u128_decode (Loops.codec_u128_encode n) = .ok n) ∧
    (Loops.codec_u64_decode r = .ok n → vals r = vals (Loops.codec_u64_encode n)) ∧
    (Loops.codec_u128_decode r = .ok n → vals r = vals (Loops.codec_u128_encode n)) ∧
    some (Loops.codec_u64_encode n).length = Loops.codec_u64_static_length ∧
    some (Loops.codec_u128_encode n).length = Loops.codec_u128_static_length := by
  have e64 := (gen_u64_encode n).1
  have e128 := (gen_u128_encode n).1
  have d64 : ∀ s, decode .u64 s = .ok (.num n) → exceptNat (decode .u64 s) = .ok n := fun s h => by rw [h]; rfl
  have d128 : ∀ s, decode .u128 s = .ok (.num n) → exceptNat (decode .u128 s) = .ok n := fun s h => by rw [h]; rfl
  refine ⟨?_, ?_, fun h => ?_, fun h => ?_, fun h => ?_, fun h => ?_, ?_, ?_⟩
  · rw [e64, layout_u64]
  · rw [e128, layout_u128]
  · rw [(gen_u64_decode _).1, e64]
    exact d64 _ (decode_encode .u64 (.num n) (by simpa [HasTy, hasTy, isNumBelow] using h) (by decide) (by simp [encode]))
  · rw [(gen_u128_decode _).1, e128]
    exact d128 _ (decode_encode .u128 (.num n) (by simpa [HasTy, hasTy, isNumBelow] using h) (by decide)
      (by simp [encode]))
  · rw [(gen_u64_decode r).1] at h
    rw [e64]; exact (encode_decode .u64 _ _ (exceptNat_u64_inv _ _ h)).symm
  · rw [(gen_u128_decode r).1] at h
    rw [e128]; exact (encode_decode .u128 _ _ (exceptNat_u128_inv _ _ h)).symm
  · rw [(u64_encode_limbs n).1]; rfl
  · rw [(u128_encode_limbs n).1]; rfl
example : Loops.codec_u64_decode (Loops.codec_u64_encode 18446744073709551615) = .ok 18446744073709551615 ∧
    (18446744073709551615 : Nat) < 2^64 := by decide +kernel

end TF.C03

/-! ## regenerated-from-source bridge: the generic list combinators (BT8)

`bfield_codec_decode_list_with_statically_sized_items`, `…_with_dynamically_sized_items`, `bfield_codec_decode_list` and
`bfield_codec_encode_list` are **regenerated from the source on every run** (`TF/Gen/CodecGeneric.lean`,
`tools/rs2lean_codec.py`): the trait methods of the type parameter are parameter functions (`T_static_length : Option Nat`,
`T_decode : List Nat → Res T_Error T`, `T_encode : T → List Nat`, `T_err_into`), a Rust function returning `Result` is a
function into `Res` (`ok | err | panic`, panic points explicit), the `for` loops with `?` are folds that stop at the first
`err` / `panic`.  The bridges hold for **every** item decoder / encoder (`Item T_decode toVal dec`: the item decoder on raw
words is observed as the model's item decoder on canonical values), every count and every sequence of `u64` words
(`Words r`); error kinds are not compared (`Obs`; the Rust code wraps the item's error).  Proofs:
`TF/Proofs/GenBridgeCodecGeneric.lean`. -/
namespace TF.C03
open TF.Codec TF.Gen TF.GenBridge.Codec TF.GenBridge.CodecG TF.RustStd

/-- regenerated static list decoder = `decodeList dec (some w)`: `checked_mul` overflow, both length comparisons,
    `chunks_exact(0)` panicking for zero-width items (F10), the chunk loop with its early exit -/
theorem gen_decode_list_static_eq_model {ε α : Type} (T_decode : List Nat → Res ε α) (into : ε → DynErr) (toVal : α → Val)
    (dec : List Nat → Outcome Val) (h : Item T_decode toVal dec) (w n : Nat) (r : List Nat) (hw : Words r) :
    obsR (List.map toVal) (Loops.codec_decode_list_static (some w) T_decode into n r)
      = obsM (decodeList dec (some w) n (vals r)) :=
  gen_decode_list_static T_decode into toVal dec h w n r hw

/-- the regenerated code shows the known finding F10: a zero-width item type makes the static list decoder panic
    (`chunks_exact(0)`) on the sequence it should accept, whatever the item decoder is -/
theorem gen_zero_width_list_panics {ε α : Type} (T_decode : List Nat → Res ε α) (into : ε → DynErr) (n : Nat) :
    Loops.codec_decode_list_static_ok (some 0) T_decode into n [] = false := by
  simp [Loops.codec_decode_list_static_ok, Loops.codec_decode_list_static, Res.unwrapO, TF.RustStd.checked_mul, Res.need,
    Res.noPanic]

/-- regenerated dynamic list decoder = `decodeList dec none`: per-item length prefix, `sequence_index + item_length`
    (overflow = panic), comparison with the remaining length, item slice, early exits, "nothing left" at the end -/
theorem gen_decode_list_dynamic_eq_model {ε α : Type} (T_decode : List Nat → Res ε α) (into : ε → DynErr) (toVal : α → Val)
    (dec : List Nat → Outcome Val) (h : Item T_decode toVal dec) (n : Nat) (r : List Nat) (hw : Words r) :
    obsR (List.map toVal) (Loops.codec_decode_list_dynamic T_decode into n r) = obsM (decodeList dec none n (vals r)) :=
  gen_decode_list_dynamic T_decode into toVal dec h n r hw

/-- regenerated `bfield_codec_decode_list` = `decodeList` (dispatch on the item's static length) -/
theorem gen_decode_list_eq_model {ε α : Type} (sl : Option Nat) (T_decode : List Nat → Res ε α) (into : ε → DynErr)
    (toVal : α → Val) (dec : List Nat → Outcome Val) (h : Item T_decode toVal dec) (n : Nat) (r : List Nat) (hw : Words r) :
    obsR (List.map toVal) (Loops.codec_decode_list sl T_decode into n r) = obsM (decodeList dec sl n (vals r)) :=
  gen_decode_list sl T_decode into toVal dec h n r hw

/-- regenerated `bfield_codec_encode_list` = `encodeItems`: items in order, prefixed iff dynamically sized -/
theorem gen_encode_list_eq_model {α : Type} (sl : Option Nat) (enc : α → List Nat) (toVal : α → Val) (encM : Val → List Nat)
    (he : ∀ x, vals (enc x) = encM (toVal x)) (xs : List α) (hl : ∀ x ∈ xs, (enc x).length < TF.BF.Pn) :
    vals (Loops.codec_encode_list sl enc xs) = encodeItems encM sl.isNone (xs.map toVal) :=
  gen_encode_list sl enc toVal encM he xs hl

/-- the hypotheses are satisfiable: the identity "decoder" of one-word items is observed as the model's `bfe` decoder -/
example : Item (fun r => match r with | [x] => (Res.ok x : Res String Nat) | [] => .err "e" | _ => .err "l")
    (fun x => Val.num (bfe_value x)) (decode .bfe) := by
  intro r _
  match r with
  | [] => rfl
  | [x] => rfl
  | _ :: _ :: _ => rfl

/-- **composites** (regenerated `Vec<T>`, `[T; N]`, `Option<T>`, `Box<T>`, `PhantomData<T>` decoders): if the component codec
    is the model's (`Item T_decode toVal (decode t)`, static length `staticLength t`), the composite is the model's
    constructor case of `decode` -- so by induction every type built from bridged leaves with these constructors is
    decoded by the current source exactly as the hand model says (value, rejection, panic) -/
theorem gen_composite_codecs_eq_model {ε α : Type} (t : Ty) (n : Nat) (T_decode : List Nat → Res ε α) (into : ε → DynErr)
    (toVal : α → Val) (h : Item T_decode toVal (decode t)) :
    Item (Loops.codec_vec_decode (staticLength t) T_decode into) (fun l => Val.list (l.map toVal)) (decode (.vec t)) ∧
    Item (Loops.codec_array_decode n (staticLength t) T_decode into) (fun l => Val.list (l.map toVal)) (decode (.array n t)) ∧
    Item (Loops.codec_option_decode T_decode into) (fun o => Val.opt (Option.map toVal o)) (decode (.option t)) ∧
    Item (Loops.codec_box_decode T_decode) toVal (decode (.box t)) ∧
    Item Loops.codec_phantom_decode (fun _ => Val.unit) (decode .phantom) ∧
    Loops.codec_vec_static_length = staticLength (.vec t) ∧ Loops.codec_option_static_length = staticLength (.option t) ∧
    Loops.codec_box_static_length (staticLength t) = staticLength (.box t) ∧
    Loops.codec_phantom_static_length = staticLength .phantom ∧
    Loops.codec_array_static_length n (staticLength t) = staticLength (.array n t) :=
  ⟨vec_item t T_decode into toVal h, array_item n t T_decode into toVal h, option_item t T_decode into toVal h,
    box_item t T_decode toVal h, phantom_item, rfl, rfl, rfl, rfl, by
      simp only [Loops.codec_array_static_length, staticLength]; cases staticLength t <;> rfl⟩
example : Item Loops.codec_phantom_decode (fun _ => Val.unit) (decode .phantom) := phantom_item

/-- **`Polynomial<T>`**: the regenerated decoder (length indicator against the sequence length, `Vec<T>::decode` of the rest,
    rejection of a trailing zero coefficient through `T::is_zero`) is the model's `poly` case whenever the coefficient
    codec and `is_zero` are the model's -/
theorem gen_poly_codec_eq_model {ε α : Type} (t : Ty) (T_decode : List Nat → Res ε α) (into : ε → DynErr) (isz : α → Bool)
    (toVal : α → Val) (h : Item T_decode toVal (decode t)) (hz : ∀ a, isz a = valIsZero (toVal a)) :
    Item (Loops.codec_poly_decode (staticLength t) T_decode into isz) (fun l => Val.list (l.map toVal)) (decode (.poly t)) ∧
    Loops.codec_poly_static_length = staticLength (.poly t) :=
  ⟨poly_item t T_decode into isz toVal h hz, rfl⟩
example : ∀ a : Nat, (fun x : Nat => x == 0) a = valIsZero (Val.num a) := fun _ => rfl

/-- **transfer** of `encode_decode` / `decode_welltyped`-style facts to the regenerated combinators: whatever a regenerated
    composite decoder (one that is observed as `decode ty`) accepts, re-encodes (model encoder) to the values of the
    accepted words; in particular two accepted sequences with the same decoded value have the same values -/
theorem gen_combinators_roundtrip_transfer {ε α : Type} (ty : Ty) (G : List Nat → Res ε α) (toVal : α → Val)
    (h : Item G toVal (decode ty)) (r : List Nat) (hw : Words r) (a : α) (hg : G r = .ok a) :
    encode ty (toVal a) = vals r :=
  encode_decode ty (vals r) (toVal a) (item_ok h r hw a hg)
example : Loops.codec_phantom_decode [] = .ok () := rfl

end TF.C03

/-! ## regenerated-from-source bridge: the encoders of `Vec` / `[T; N]` / `Option` / `Polynomial` and the tuples 2..12 (P07)

The remaining regenerated generic codec functions of `TF/Gen/CodecGeneric.lean` are bridged to the constructor cases of the hand
model, with the component codecs as hypotheses (decoders: `Item T_decode toVal (decode t)`; encoders:
`∀ x, vals (enc x) = encode t (toVal x)`), in the style of `gen_composite_codecs_eq_model`.  Lengths that the code converts with
`usize -> BFieldElement` carry the hypothesis `< P` (see the assumptions in tools/props/C03.json: the model emits them unreduced).

Tuples: every arity of `impl_bfield_codec_for_tuple!` expands to the same per-component code applied to the type parameters from
the last to the first.  The regenerated `codec_tupleN_decode` / `_encode` are *definitionally* (`rfl`) the iterated component step
`compStep` / `pushComp` (`TF/Proofs/GenBridgeCodecTuple.lean`: `tupleN_decode_eq`, `tupleN_encode_eq`), and **one** lemma about the
step (`compStep_chain`: the step is `decodeItem` of the model, error for error, panic for panic; `pushComp_vals`: the step is
`prefixed`) gives all arities; the statements for the arities 2..12 below are the instances of that schema (no arity is proved
by a separate argument).  Non-vacuity: each statement is instantiated with `PhantomData` components. -/
namespace TF.C03
open TF.Codec TF.Gen TF.GenBridge.Codec TF.GenBridge.CodecG TF.RustStd

/-- **encoders of `Vec<T>`, `[T; N]`, `Option<T>`**: the regenerated code is the `vec` / `array` / `option` case of the hand
    model's `encode` whenever the item encoder is the model's -/
theorem gen_composite_encoders_eq_model {α : Type} (t : Ty) (n : Nat) (enc : α → List Nat) (toVal : α → Val)
    (he : ∀ x, vals (enc x) = encode t (toVal x)) (xs : List α) (o : Option α) (hn : xs.length < TF.BF.Pn)
    (hl : ∀ x ∈ xs, (enc x).length < TF.BF.Pn) :
    vals (Loops.codec_vec_encode (staticLength t) enc xs) = encode (.vec t) (.list (xs.map toVal)) ∧
    vals (Loops.codec_array_encode n (staticLength t) enc xs) = encode (.array n t) (.list (xs.map toVal)) ∧
    vals (Loops.codec_option_encode enc o) = encode (.option t) (.opt (o.map toVal)) :=
  ⟨gen_vec_encode t enc toVal he xs hn hl, gen_array_encode n t enc toVal he xs hl, gen_option_encode t enc toVal he o⟩
example : vals (Loops.codec_vec_encode (staticLength .phantom) Loops.codec_phantom_encode [(), ()]) =
    encode (.vec .phantom) (.list [Val.unit, Val.unit]) :=
  (gen_composite_encoders_eq_model .phantom 2 Loops.codec_phantom_encode (fun _ => Val.unit) (fun _ => rfl) [(), ()] none
    (by decide) (fun _ _ => by show 0 < TF.BF.Pn; decide)).1

/-- **`Polynomial<T>::encode`** (and `Polynomial::coefficients()`: `rposition` of the last non-zero coefficient): the
    regenerated code is the `poly` case of the hand model's `encode` (the *normalised* coefficients as a `Vec`, preceded by the
    length of that encoding) whenever the coefficient encoder and `is_zero` are the model's -/
theorem gen_poly_encoder_eq_model {α : Type} (t : Ty) (enc : α → List Nat) (isz : α → Bool) (toVal : α → Val)
    (he : ∀ x, vals (enc x) = encode t (toVal x)) (hz : ∀ a, isz a = valIsZero (toVal a)) (cs : List α)
    (hn : (Loops.codec_poly_coefficients isz cs).length < TF.BF.Pn)
    (hl : ∀ x ∈ Loops.codec_poly_coefficients isz cs, (enc x).length < TF.BF.Pn)
    (hlen : (Loops.codec_vec_encode (staticLength t) enc (Loops.codec_poly_coefficients isz cs)).length < TF.BF.Pn) :
    (Loops.codec_poly_coefficients isz cs).map toVal = normalize (cs.map toVal) ∧
    vals (Loops.codec_poly_encode (staticLength t) enc isz cs) = encode (.poly t) (.list (cs.map toVal)) :=
  ⟨poly_coefficients_map toVal isz hz cs, gen_poly_encode t enc isz toVal he hz cs hn hl hlen⟩
example : (Loops.codec_poly_coefficients (fun x : Nat => x == 0) [1, 0, 2, 0, 0]).map Val.num =
    normalize ([1, 0, 2, 0, 0].map Val.num) :=
  poly_coefficients_map Val.num (fun x => x == 0) (fun _ => rfl) _

/-- **2-tuples**: the regenerated `decode` / `static_length` of `impl_bfield_codec_for_tuple!(A, B)` are the `tuple` case of the
    hand model (components read from the last to the first, `decodeItem` each, nothing may be left) whenever the component
    decoders are the model's -/
theorem gen_tuple2_decode_eq_model {A A_Error B B_Error : Type} (tA : Ty) (tB : Ty)
    (A_dec : List Nat → Res A_Error A) (A_into : A_Error → DynErr) (A_toVal : A → Val) (B_dec : List Nat → Res B_Error B) (B_into : B_Error → DynErr) (B_toVal : B → Val)
    (hA : Item A_dec A_toVal (decode tA)) (hB : Item B_dec B_toVal (decode tB)) :
    Item (Loops.codec_tuple2_decode (staticLength tA) A_dec A_into (staticLength tB) B_dec B_into)
      (fun p => Val.list [A_toVal p.1, B_toVal p.2]) (decode (.tuple [tA, tB])) ∧
    Loops.codec_tuple2_static_length (staticLength tA) (staticLength tB) = staticLength (.tuple [tA, tB]) :=
  ⟨tuple2_item tA tB A_dec A_into A_toVal B_dec B_into B_toVal hA hB, tuple2_static_length tA tB⟩
example : Loops.codec_tuple2_static_length (staticLength .phantom) (staticLength .phantom) = staticLength (.tuple [.phantom, .phantom]) :=
  (gen_tuple2_decode_eq_model .phantom .phantom Loops.codec_phantom_decode (fun e => ⟨e⟩) (fun _ => Val.unit) Loops.codec_phantom_decode (fun e => ⟨e⟩) (fun _ => Val.unit) phantom_item phantom_item).2

/-- regenerated `encode` of the 2-tuple = the `tuple` case of the hand model's `encode` (reverse declaration order, a component
    is prefixed by its length iff its `static_length()` is `None`) whenever the component encoders are the model's -/
theorem gen_tuple2_encode_eq_model {A B : Type} (tA : Ty) (tB : Ty) (A_enc : A → List Nat) (A_toVal : A → Val) (B_enc : B → List Nat) (B_toVal : B → Val)
    (heA : ∀ x, vals (A_enc x) = encode tA (A_toVal x)) (heB : ∀ x, vals (B_enc x) = encode tB (B_toVal x))
    (self : (A × B)) (hlA : (A_enc self.1).length < TF.BF.Pn) (hlB : (B_enc self.2).length < TF.BF.Pn) :
    vals (Loops.codec_tuple2_encode (staticLength tA) A_enc (staticLength tB) B_enc self) =
      encode (.tuple [tA, tB]) (.list [A_toVal self.1, B_toVal self.2]) :=
  tuple2_encode tA tB A_enc A_toVal B_enc B_toVal heA heB self hlA hlB
example : vals (Loops.codec_tuple2_encode (staticLength .phantom) Loops.codec_phantom_encode (staticLength .phantom) Loops.codec_phantom_encode ((), ())) =
    encode (.tuple [.phantom, .phantom]) (.list [Val.unit, Val.unit]) :=
  gen_tuple2_encode_eq_model .phantom .phantom Loops.codec_phantom_encode (fun _ => Val.unit) Loops.codec_phantom_encode (fun _ => Val.unit) (fun _ => rfl) (fun _ => rfl) ((), ()) (by decide) (by decide)

/-- **3-tuples**: the regenerated `decode` / `static_length` of `impl_bfield_codec_for_tuple!(A, B, C)` are the `tuple` case of the
    hand model (components read from the last to the first, `decodeItem` each, nothing may be left) whenever the component
    decoders are the model's -/
theorem gen_tuple3_decode_eq_model {A A_Error B B_Error C C_Error : Type} (tA : Ty) (tB : Ty) (tC : Ty)
    (A_dec : List Nat → Res A_Error A) (A_into : A_Error → DynErr) (A_toVal : A → Val) (B_dec : List Nat → Res B_Error B) (B_into : B_Error → DynErr) (B_toVal : B → Val) (C_dec : List Nat → Res C_Error C) (C_into : C_Error → DynErr) (C_toVal : C → Val)
    (hA : Item A_dec A_toVal (decode tA)) (hB : Item B_dec B_toVal (decode tB)) (hC : Item C_dec C_toVal (decode tC)) :
    Item (Loops.codec_tuple3_decode (staticLength tA) A_dec A_into (staticLength tB) B_dec B_into (staticLength tC) C_dec C_into)
      (fun p => Val.list [A_toVal p.1, B_toVal p.2.1, C_toVal p.2.2]) (decode (.tuple [tA, tB, tC])) ∧
    Loops.codec_tuple3_static_length (staticLength tA) (staticLength tB) (staticLength tC) = staticLength (.tuple [tA, tB, tC]) :=
  ⟨tuple3_item tA tB tC A_dec A_into A_toVal B_dec B_into B_toVal C_dec C_into C_toVal hA hB hC, tuple3_static_length tA tB tC⟩
example : Loops.codec_tuple3_static_length (staticLength .phantom) (staticLength .phantom) (staticLength .phantom) = staticLength (.tuple [.phantom, .phantom, .phantom]) :=
  (gen_tuple3_decode_eq_model .phantom .phantom .phantom Loops.codec_phantom_decode (fun e => ⟨e⟩) (fun _ => Val.unit) Loops.codec_phantom_decode (fun e => ⟨e⟩) (fun _ => Val.unit) Loops.codec_phantom_decode (fun e => ⟨e⟩) (fun _ => Val.unit) phantom_item phantom_item phantom_item).2

/-- regenerated `encode` of the 3-tuple = the `tuple` case of the hand model's `encode` (reverse declaration order, a component
    is prefixed by its length iff its `static_length()` is `None`) whenever the component encoders are the model's -/
theorem gen_tuple3_encode_eq_model {A B C : Type} (tA : Ty) (tB : Ty) (tC : Ty) (A_enc : A → List Nat) (A_toVal : A → Val) (B_enc : B → List Nat) (B_toVal : B → Val) (C_enc : C → List Nat) (C_toVal : C → Val)
    (heA : ∀ x, vals (A_enc x) = encode tA (A_toVal x)) (heB : ∀ x, vals (B_enc x) = encode tB (B_toVal x)) (heC : ∀ x, vals (C_enc x) = encode tC (C_toVal x))
    (self : (A × B × C)) (hlA : (A_enc self.1).length < TF.BF.Pn) (hlB : (B_enc self.2.1).length < TF.BF.Pn) (hlC : (C_enc self.2.2).length < TF.BF.Pn) :
    vals (Loops.codec_tuple3_encode (staticLength tA) A_enc (staticLength tB) B_enc (staticLength tC) C_enc self) =
      encode (.tuple [tA, tB, tC]) (.list [A_toVal self.1, B_toVal self.2.1, C_toVal self.2.2]) :=
  tuple3_encode tA tB tC A_enc A_toVal B_enc B_toVal C_enc C_toVal heA heB heC self hlA hlB hlC
example : vals (Loops.codec_tuple3_encode (staticLength .phantom) Loops.codec_phantom_encode (staticLength .phantom) Loops.codec_phantom_encode (staticLength .phantom) Loops.codec_phantom_encode ((), (), ())) =
    encode (.tuple [.phantom, .phantom, .phantom]) (.list [Val.unit, Val.unit, Val.unit]) :=
  gen_tuple3_encode_eq_model .phantom .phantom .phantom Loops.codec_phantom_encode (fun _ => Val.unit) Loops.codec_phantom_encode (fun _ => Val.unit) Loops.codec_phantom_encode (fun _ => Val.unit) (fun _ => rfl) (fun _ => rfl) (fun _ => rfl) ((), (), ()) (by decide) (by decide) (by decide)

/-- **4-tuples**: the regenerated `decode` / `static_length` of `impl_bfield_codec_for_tuple!(A, B, C, D)` are the `tuple` case of the
    hand model (components read from the last to the first, `decodeItem` each, nothing may be left) whenever the component
    decoders are the model's -/
theorem gen_tuple4_decode_eq_model {A A_Error B B_Error C C_Error D D_Error : Type} (tA : Ty) (tB : Ty) (tC : Ty) (tD : Ty)
    (A_dec : List Nat → Res A_Error A) (A_into : A_Error → DynErr) (A_toVal : A → Val) (B_dec : List Nat → Res B_Error B) (B_into : B_Error → DynErr) (B_toVal : B → Val) (C_dec : List Nat → Res C_Error C) (C_into : C_Error → DynErr) (C_toVal : C → Val) (D_dec : List Nat → Res D_Error D) (D_into : D_Error → DynErr) (D_toVal : D → Val)
    (hA : Item A_dec A_toVal (decode tA)) (hB : Item B_dec B_toVal (decode tB)) (hC : Item C_dec C_toVal (decode tC)) (hD : Item D_dec D_toVal (decode tD)) :
    Item (Loops.codec_tuple4_decode (staticLength tA) A_dec A_into (staticLength tB) B_dec B_into (staticLength tC) C_dec C_into (staticLength tD) D_dec D_into)
      (fun p => Val.list [A_toVal p.1, B_toVal p.2.1, C_toVal p.2.2.1, D_toVal p.2.2.2]) (decode (.tuple [tA, tB, tC, tD])) ∧
    Loops.codec_tuple4_static_length (staticLength tA) (staticLength tB) (staticLength tC) (staticLength tD) = staticLength (.tuple [tA, tB, tC, tD]) :=
  ⟨tuple4_item tA tB tC tD A_dec A_into A_toVal B_dec B_into B_toVal C_dec C_into C_toVal D_dec D_into D_toVal hA hB hC hD, tuple4_static_length tA tB tC tD⟩
example : Loops.codec_tuple4_static_length (staticLength .phantom) (staticLength .phantom) (staticLength .phantom) (staticLength .phantom) = staticLength (.tuple [.phantom, .phantom, .phantom, .phantom]) :=
  (gen_tuple4_decode_eq_model .phantom .phantom .phantom .phantom Loops.codec_phantom_decode (fun e => ⟨e⟩) (fun _ => Val.unit) Loops.codec_phantom_decode (fun e => ⟨e⟩) (fun _ => Val.unit) Loops.codec_phantom_decode (fun e => ⟨e⟩) (fun _ => Val.unit) Loops.codec_phantom_decode (fun e => ⟨e⟩) (fun _ => Val.unit) phantom_item phantom_item phantom_item phantom_item).2

/-- regenerated `encode` of the 4-tuple = the `tuple` case of the hand model's `encode` (reverse declaration order, a component
    is prefixed by its length iff its `static_length()` is `None`) whenever the component encoders are the model's -/
theorem gen_tuple4_encode_eq_model {A B C D : Type} (tA : Ty) (tB : Ty) (tC : Ty) (tD : Ty) (A_enc : A → List Nat) (A_toVal : A → Val) (B_enc : B → List Nat) (B_toVal : B → Val) (C_enc : C → List Nat) (C_toVal : C → Val) (D_enc : D → List Nat) (D_toVal : D → Val)
    (heA : ∀ x, vals (A_enc x) = encode tA (A_toVal x)) (heB : ∀ x, vals (B_enc x) = encode tB (B_toVal x)) (heC : ∀ x, vals (C_enc x) = encode tC (C_toVal x)) (heD : ∀ x, vals (D_enc x) = encode tD (D_toVal x))
    (self : (A × B × C × D)) (hlA : (A_enc self.1).length < TF.BF.Pn) (hlB : (B_enc self.2.1).length < TF.BF.Pn) (hlC : (C_enc self.2.2.1).length < TF.BF.Pn) (hlD : (D_enc self.2.2.2).length < TF.BF.Pn) :
    vals (Loops.codec_tuple4_encode (staticLength tA) A_enc (staticLength tB) B_enc (staticLength tC) C_enc (staticLength tD) D_enc self) =
      encode (.tuple [tA, tB, tC, tD]) (.list [A_toVal self.1, B_toVal self.2.1, C_toVal self.2.2.1, D_toVal self.2.2.2]) :=
  tuple4_encode tA tB tC tD A_enc A_toVal B_enc B_toVal C_enc C_toVal D_enc D_toVal heA heB heC heD self hlA hlB hlC hlD
example : vals (Loops.codec_tuple4_encode (staticLength .phantom) Loops.codec_phantom_encode (staticLength .phantom) Loops.codec_phantom_encode (staticLength .phantom) Loops.codec_phantom_encode (staticLength .phantom) Loops.codec_phantom_encode ((), (), (), ())) =
    encode (.tuple [.phantom, .phantom, .phantom, .phantom]) (.list [Val.unit, Val.unit, Val.unit, Val.unit]) :=
  gen_tuple4_encode_eq_model .phantom .phantom .phantom .phantom Loops.codec_phantom_encode (fun _ => Val.unit) Loops.codec_phantom_encode (fun _ => Val.unit) Loops.codec_phantom_encode (fun _ => Val.unit) Loops.codec_phantom_encode (fun _ => Val.unit) (fun _ => rfl) (fun _ => rfl) (fun _ => rfl) (fun _ => rfl) ((), (), (), ()) (by decide) (by decide) (by decide) (by decide)

/-- **5-tuples**: the regenerated `decode` / `static_length` of `impl_bfield_codec_for_tuple!(A, B, C, D, E)` are the `tuple` case of the
    hand model (components read from the last to the first, `decodeItem` each, nothing may be left) whenever the component
    decoders are the model's -/
theorem gen_tuple5_decode_eq_model {A A_Error B B_Error C C_Error D D_Error E E_Error : Type} (tA : Ty) (tB : Ty) (tC : Ty) (tD : Ty) (tE : Ty)
    (A_dec : List Nat → Res A_Error A) (A_into : A_Error → DynErr) (A_toVal : A → Val) (B_dec : List Nat → Res B_Error B) (B_into : B_Error → DynErr) (B_toVal : B → Val) (C_dec : List Nat → Res C_Error C) (C_into : C_Error → DynErr) (C_toVal : C → Val) (D_dec : List Nat → Res D_Error D) (D_into : D_Error → DynErr) (D_toVal : D → Val) (E_dec : List Nat → Res E_Error E) (E_into : E_Error → DynErr) (E_toVal : E → Val)
    (hA : Item A_dec A_toVal (decode tA)) (hB : Item B_dec B_toVal (decode tB)) (hC : Item C_dec C_toVal (decode tC)) (hD : Item D_dec D_toVal (decode tD)) (hE : Item E_dec E_toVal (decode tE)) :
    Item (Loops.codec_tuple5_decode (staticLength tA) A_dec A_into (staticLength tB) B_dec B_into (staticLength tC) C_dec C_into (staticLength tD) D_dec D_into (staticLength tE) E_dec E_into)
      (fun p => Val.list [A_toVal p.1, B_toVal p.2.1, C_toVal p.2.2.1, D_toVal p.2.2.2.1, E_toVal p.2.2.2.2]) (decode (.tuple [tA, tB, tC, tD, tE])) ∧
    Loops.codec_tuple5_static_length (staticLength tA) (staticLength tB) (staticLength tC) (staticLength tD) (staticLength tE) = staticLength (.tuple [tA, tB, tC, tD, tE]) :=
  ⟨tuple5_item tA tB tC tD tE A_dec A_into A_toVal B_dec B_into B_toVal C_dec C_into C_toVal D_dec D_into D_toVal E_dec E_into E_toVal hA hB hC hD hE, tuple5_static_length tA tB tC tD tE⟩
example : Loops.codec_tuple5_static_length (staticLength .phantom) (staticLength .phantom) (staticLength .phantom) (staticLength .phantom) (staticLength .phantom) = staticLength (.tuple [.phantom, .phantom, .phantom, .phantom, .phantom]) :=
  (gen_tuple5_decode_eq_model .phantom .phantom .phantom .phantom .phantom Loops.codec_phantom_decode (fun e => ⟨e⟩) (fun _ => Val.unit) Loops.codec_phantom_decode (fun e => ⟨e⟩) (fun _ => Val.unit) Loops.codec_phantom_decode (fun e => ⟨e⟩) (fun _ => Val.unit) Loops.codec_phantom_decode (fun e => ⟨e⟩) (fun _ => Val.unit) Loops.codec_phantom_decode (fun e => ⟨e⟩) (fun _ => Val.unit) phantom_item phantom_item phantom_item phantom_item phantom_item).2

/-- regenerated `encode` of the 5-tuple = the `tuple` case of the hand model's `encode` (reverse declaration order, a component
    is prefixed by its length iff its `static_length()` is `None`) whenever the component encoders are the model's -/
theorem gen_tuple5_encode_eq_model {A B C D E : Type} (tA : Ty) (tB : Ty) (tC : Ty) (tD : Ty) (tE : Ty) (A_enc : A → List Nat) (A_toVal : A → Val) (B_enc : B → List Nat) (B_toVal : B → Val) (C_enc : C → List Nat) (C_toVal : C → Val) (D_enc : D → List Nat) (D_toVal : D → Val) (E_enc : E → List Nat) (E_toVal : E → Val)
    (heA : ∀ x, vals (A_enc x) = encode tA (A_toVal x)) (heB : ∀ x, vals (B_enc x) = encode tB (B_toVal x)) (heC : ∀ x, vals (C_enc x) = encode tC (C_toVal x)) (heD : ∀ x, vals (D_enc x) = encode tD (D_toVal x)) (heE : ∀ x, vals (E_enc x) = encode tE (E_toVal x))
    (self : (A × B × C × D × E)) (hlA : (A_enc self.1).length < TF.BF.Pn) (hlB : (B_enc self.2.1).length < TF.BF.Pn) (hlC : (C_enc self.2.2.1).length < TF.BF.Pn) (hlD : (D_enc self.2.2.2.1).length < TF.BF.Pn) (hlE : (E_enc self.2.2.2.2).length < TF.BF.Pn) :
    vals (Loops.codec_tuple5_encode (staticLength tA) A_enc (staticLength tB) B_enc (staticLength tC) C_enc (staticLength tD) D_enc (staticLength tE) E_enc self) =
      encode (.tuple [tA, tB, tC, tD, tE]) (.list [A_toVal self.1, B_toVal self.2.1, C_toVal self.2.2.1, D_toVal self.2.2.2.1, E_toVal self.2.2.2.2]) :=
  tuple5_encode tA tB tC tD tE A_enc A_toVal B_enc B_toVal C_enc C_toVal D_enc D_toVal E_enc E_toVal heA heB heC heD heE self hlA hlB hlC hlD hlE
example : vals (Loops.codec_tuple5_encode (staticLength .phantom) Loops.codec_phantom_encode (staticLength .phantom) Loops.codec_phantom_encode (staticLength .phantom) Loops.codec_phantom_encode (staticLength .phantom) Loops.codec_phantom_encode (staticLength .phantom) Loops.codec_phantom_encode ((), (), (), (), ())) =
    encode (.tuple [.phantom, .phantom, .phantom, .phantom, .phantom]) (.list [Val.unit, Val.unit, Val.unit, Val.unit, Val.unit]) :=
  gen_tuple5_encode_eq_model .phantom .phantom .phantom .phantom .phantom Loops.codec_phantom_encode (fun _ => Val.unit) Loops.codec_phantom_encode (fun _ => Val.unit) Loops.codec_phantom_encode (fun _ => Val.unit) Loops.codec_phantom_encode (fun _ => Val.unit) Loops.codec_phantom_encode (fun _ => Val.unit) (fun _ => rfl) (fun _ => rfl) (fun _ => rfl) (fun _ => rfl) (fun _ => rfl) ((), (), (), (), ()) (by decide) (by decide) (by decide) (by decide) (by decide)

/-- **6-tuples**: the regenerated `decode` / `static_length` of `impl_bfield_codec_for_tuple!(A, B, C, D, E, F)` are the `tuple` case of the
    hand model (components read from the last to the first, `decodeItem` each, nothing may be left) whenever the component
    decoders are the model's -/
theorem gen_tuple6_decode_eq_model {A A_Error B B_Error C C_Error D D_Error E E_Error F F_Error : Type} (tA : Ty) (tB : Ty) (tC : Ty) (tD : Ty) (tE : Ty) (tF : Ty)
    (A_dec : List Nat → Res A_Error A) (A_into : A_Error → DynErr) (A_toVal : A → Val) (B_dec : List Nat → Res B_Error B) (B_into : B_Error → DynErr) (B_toVal : B → Val) (C_dec : List Nat → Res C_Error C) (C_into : C_Error → DynErr) (C_toVal : C → Val) (D_dec : List Nat → Res D_Error D) (D_into : D_Error → DynErr) (D_toVal : D → Val) (E_dec : List Nat → Res E_Error E) (E_into : E_Error → DynErr) (E_toVal : E → Val) (F_dec : List Nat → Res F_Error F) (F_into : F_Error → DynErr) (F_toVal : F → Val)
    (hA : Item A_dec A_toVal (decode tA)) (hB : Item B_dec B_toVal (decode tB)) (hC : Item C_dec C_toVal (decode tC)) (hD : Item D_dec D_toVal (decode tD)) (hE : Item E_dec E_toVal (decode tE)) (hF : Item F_dec F_toVal (decode tF)) :
    Item (Loops.codec_tuple6_decode (staticLength tA) A_dec A_into (staticLength tB) B_dec B_into (staticLength tC) C_dec C_into (staticLength tD) D_dec D_into (staticLength tE) E_dec E_into (staticLength tF) F_dec F_into)
      (fun p => Val.list [A_toVal p.1, B_toVal p.2.1, C_toVal p.2.2.1, D_toVal p.2.2.2.1, E_toVal p.2.2.2.2.1, F_toVal p.2.2.2.2.2]) (decode (.tuple [tA, tB, tC, tD, tE, tF])) ∧
    Loops.codec_tuple6_static_length (staticLength tA) (staticLength tB) (staticLength tC) (staticLength tD) (staticLength tE) (staticLength tF) = staticLength (.tuple [tA, tB, tC, tD, tE, tF]) :=
  ⟨tuple6_item tA tB tC tD tE tF A_dec A_into A_toVal B_dec B_into B_toVal C_dec C_into C_toVal D_dec D_into D_toVal E_dec E_into E_toVal F_dec F_into F_toVal hA hB hC hD hE hF, tuple6_static_length tA tB tC tD tE tF⟩
example : Loops.codec_tuple6_static_length (staticLength .phantom) (staticLength .phantom) (staticLength .phantom) (staticLength .phantom) (staticLength .phantom) (staticLength .phantom) = staticLength (.tuple [.phantom, .phantom, .phantom, .phantom, .phantom, .phantom]) :=
  (gen_tuple6_decode_eq_model .phantom .phantom .phantom .phantom .phantom .phantom Loops.codec_phantom_decode (fun e => ⟨e⟩) (fun _ => Val.unit) Loops.codec_phantom_decode (fun e => ⟨e⟩) (fun _ => Val.unit) Loops.codec_phantom_decode (fun e => ⟨e⟩) (fun _ => Val.unit) Loops.codec_phantom_decode (fun e => ⟨e⟩) (fun _ => Val.unit) Loops.codec_phantom_decode (fun e => ⟨e⟩) (fun _ => Val.unit) Loops.codec_phantom_decode (fun e => ⟨e⟩) (fun _ => Val.unit) phantom_item phantom_item phantom_item phantom_item phantom_item phantom_item).2

/-- regenerated `encode` of the 6-tuple = the `tuple` case of the hand model's `encode` (reverse declaration order, a component
    is prefixed by its length iff its `static_length()` is `None`) whenever the component encoders are the model's -/
theorem gen_tuple6_encode_eq_model {A B C D E F : Type} (tA : Ty) (tB : Ty) (tC : Ty) (tD : Ty) (tE : Ty) (tF : Ty) (A_enc : A → List Nat) (A_toVal : A → Val) (B_enc : B → List Nat) (B_toVal : B → Val) (C_enc : C → List Nat) (C_toVal : C → Val) (D_enc : D → List Nat) (D_toVal : D → Val) (E_enc : E → List Nat) (E_toVal : E → Val) (F_enc : F → List Nat) (F_toVal : F → Val)
    (heA : ∀ x, vals (A_enc x) = encode tA (A_toVal x)) (heB : ∀ x, vals (B_enc x) = encode tB (B_toVal x)) (heC : ∀ x, vals (C_enc x) = encode tC (C_toVal x)) (heD : ∀ x, vals (D_enc x) = encode tD (D_toVal x)) (heE : ∀ x, vals (E_enc x) = encode tE (E_toVal x)) (heF : ∀ x, vals (F_enc x) = encode tF (F_toVal x))
    (self : (A × B × C × D × E × F)) (hlA : (A_enc self.1).length < TF.BF.Pn) (hlB : (B_enc self.2.1).length < TF.BF.Pn) (hlC : (C_enc self.2.2.1).length < TF.BF.Pn) (hlD : (D_enc self.2.2.2.1).length < TF.BF.Pn) (hlE : (E_enc self.2.2.2.2.1).length < TF.BF.Pn) (hlF : (F_enc self.2.2.2.2.2).length < TF.BF.Pn) :
    vals (Loops.codec_tuple6_encode (staticLength tA) A_enc (staticLength tB) B_enc (staticLength tC) C_enc (staticLength tD) D_enc (staticLength tE) E_enc (staticLength tF) F_enc self) =
      encode (.tuple [tA, tB, tC, tD, tE, tF]) (.list [A_toVal self.1, B_toVal self.2.1, C_toVal self.2.2.1, D_toVal self.2.2.2.1, E_toVal self.2.2.2.2.1, F_toVal self.2.2.2.2.2]) :=
  tuple6_encode tA tB tC tD tE tF A_enc A_toVal B_enc B_toVal C_enc C_toVal D_enc D_toVal E_enc E_toVal F_enc F_toVal heA heB heC heD heE heF self hlA hlB hlC hlD hlE hlF
example : vals (Loops.codec_tuple6_encode (staticLength .phantom) Loops.codec_phantom_encode (staticLength .phantom) Loops.codec_phantom_encode (staticLength .phantom) Loops.codec_phantom_encode (staticLength .phantom) Loops.codec_phantom_encode (staticLength .phantom) Loops.codec_phantom_encode (staticLength .phantom) Loops.codec_phantom_encode ((), (), (), (), (), ())) =
    encode (.tuple [.phantom, .phantom, .phantom, .phantom, .phantom, .phantom]) (.list [Val.unit, Val.unit, Val.unit, Val.unit, Val.unit, Val.unit]) :=
  gen_tuple6_encode_eq_model .phantom .phantom .phantom .phantom .phantom .phantom Loops.codec_phantom_encode (fun _ => Val.unit) Loops.codec_phantom_encode (fun _ => Val.unit) Loops.codec_phantom_encode (fun _ => Val.unit) Loops.codec_phantom_encode (fun _ => Val.unit) Loops.codec_phantom_encode (fun _ => Val.unit) Loops.codec_phantom_encode (fun _ => Val.unit) (fun _ => rfl) (fun _ => rfl) (fun _ => rfl) (fun _ => rfl) (fun _ => rfl) (fun _ => rfl) ((), (), (), (), (), ()) (by decide) (by decide) (by decide) (by decide) (by decide) (by decide)

/-- **7-tuples**: the regenerated `decode` / `static_length` of `impl_bfield_codec_for_tuple!(A, B, C, D, E, F, G)` are the `tuple` case of the
    hand model (components read from the last to the first, `decodeItem` each, nothing may be left) whenever the component
    decoders are the model's -/
theorem gen_tuple7_decode_eq_model {A A_Error B B_Error C C_Error D D_Error E E_Error F F_Error G G_Error : Type} (tA : Ty) (tB : Ty) (tC : Ty) (tD : Ty) (tE : Ty) (tF : Ty) (tG : Ty)
    (A_dec : List Nat → Res A_Error A) (A_into : A_Error → DynErr) (A_toVal : A → Val) (B_dec : List Nat → Res B_Error B) (B_into : B_Error → DynErr) (B_toVal : B → Val) (C_dec : List Nat → Res C_Error C) (C_into : C_Error → DynErr) (C_toVal : C → Val) (D_dec : List Nat → Res D_Error D) (D_into : D_Error → DynErr) (D_toVal : D → Val) (E_dec : List Nat → Res E_Error E) (E_into : E_Error → DynErr) (E_toVal : E → Val) (F_dec : List Nat → Res F_Error F) (F_into : F_Error → DynErr) (F_toVal : F → Val) (G_dec : List Nat → Res G_Error G) (G_into : G_Error → DynErr) (G_toVal : G → Val)
    (hA : Item A_dec A_toVal (decode tA)) (hB : Item B_dec B_toVal (decode tB)) (hC : Item C_dec C_toVal (decode tC)) (hD : Item D_dec D_toVal (decode tD)) (hE : Item E_dec E_toVal (decode tE)) (hF : Item F_dec F_toVal (decode tF)) (hG : Item G_dec G_toVal (decode tG)) :
    Item (Loops.codec_tuple7_decode (staticLength tA) A_dec A_into (staticLength tB) B_dec B_into (staticLength tC) C_dec C_into (staticLength tD) D_dec D_into (staticLength tE) E_dec E_into (staticLength tF) F_dec F_into (staticLength tG) G_dec G_into)
      (fun p => Val.list [A_toVal p.1, B_toVal p.2.1, C_toVal p.2.2.1, D_toVal p.2.2.2.1, E_toVal p.2.2.2.2.1, F_toVal p.2.2.2.2.2.1, G_toVal p.2.2.2.2.2.2]) (decode (.tuple [tA, tB, tC, tD, tE, tF, tG])) ∧
    Loops.codec_tuple7_static_length (staticLength tA) (staticLength tB) (staticLength tC) (staticLength tD) (staticLength tE) (staticLength tF) (staticLength tG) = staticLength (.tuple [tA, tB, tC, tD, tE, tF, tG]) :=
  ⟨tuple7_item tA tB tC tD tE tF tG A_dec A_into A_toVal B_dec B_into B_toVal C_dec C_into C_toVal D_dec D_into D_toVal E_dec E_into E_toVal F_dec F_into F_toVal G_dec G_into G_toVal hA hB hC hD hE hF hG, tuple7_static_length tA tB tC tD tE tF tG⟩
example : Loops.codec_tuple7_static_length (staticLength .phantom) (staticLength .phantom) (staticLength .phantom) (staticLength .phantom) (staticLength .phantom) (staticLength .phantom) (staticLength .phantom) = staticLength (.tuple [.phantom, .phantom, .phantom, .phantom, .phantom, .phantom, .phantom]) :=
  (gen_tuple7_decode_eq_model .phantom .phantom .phantom .phantom .phantom .phantom .phantom Loops.codec_phantom_decode (fun e => ⟨e⟩) (fun _ => Val.unit) Loops.codec_phantom_decode (fun e => ⟨e⟩) (fun _ => Val.unit) Loops.codec_phantom_decode (fun e => ⟨e⟩) (fun _ => Val.unit) Loops.codec_phantom_decode (fun e => ⟨e⟩) (fun _ => Val.unit) Loops.codec_phantom_decode (fun e => ⟨e⟩) (fun _ => Val.unit) Loops.codec_phantom_decode (fun e => ⟨e⟩) (fun _ => Val.unit) Loops.codec_phantom_decode (fun e => ⟨e⟩) (fun _ => Val.unit) phantom_item phantom_item phantom_item phantom_item phantom_item phantom_item phantom_item).2

/-- regenerated `encode` of the 7-tuple = the `tuple` case of the hand model's `encode` (reverse declaration order, a component
    is prefixed by its length iff its `static_length()` is `None`) whenever the component encoders are the model's -/
theorem gen_tuple7_encode_eq_model {A B C D E F G : Type} (tA : Ty) (tB : Ty) (tC : Ty) (tD : Ty) (tE : Ty) (tF : Ty) (tG : Ty) (A_enc : A → List Nat) (A_toVal : A → Val) (B_enc : B → List Nat) (B_toVal : B → Val) (C_enc : C → List Nat) (C_toVal : C → Val) (D_enc : D → List Nat) (D_toVal : D → Val) (E_enc : E → List Nat) (E_toVal : E → Val) (F_enc : F → List Nat) (F_toVal : F → Val) (G_enc : G → List Nat) (G_toVal : G → Val)
    (heA : ∀ x, vals (A_enc x) = encode tA (A_toVal x)) (heB : ∀ x, vals (B_enc x) = encode tB (B_toVal x)) (heC : ∀ x, vals (C_enc x) = encode tC (C_toVal x)) (heD : ∀ x, vals (D_enc x) = encode tD (D_toVal x)) (heE : ∀ x, vals (E_enc x) = encode tE (E_toVal x)) (heF : ∀ x, vals (F_enc x) = encode tF (F_toVal x)) (heG : ∀ x, vals (G_enc x) = encode tG (G_toVal x))
    (self : (A × B × C × D × E × F × G)) (hlA : (A_enc self.1).length < TF.BF.Pn) (hlB : (B_enc self.2.1).length < TF.BF.Pn) (hlC : (C_enc self.2.2.1).length < TF.BF.Pn) (hlD : (D_enc self.2.2.2.1).length < TF.BF.Pn) (hlE : (E_enc self.2.2.2.2.1).length < TF.BF.Pn) (hlF : (F_enc self.2.2.2.2.2.1).length < TF.BF.Pn) (hlG : (G_enc self.2.2.2.2.2.2).length < TF.BF.Pn) :
    vals (Loops.codec_tuple7_encode (staticLength tA) A_enc (staticLength tB) B_enc (staticLength tC) C_enc (staticLength tD) D_enc (staticLength tE) E_enc (staticLength tF) F_enc (staticLength tG) G_enc self) =
      encode (.tuple [tA, tB, tC, tD, tE, tF, tG]) (.list [A_toVal self.1, B_toVal self.2.1, C_toVal self.2.2.1, D_toVal self.2.2.2.1, E_toVal self.2.2.2.2.1, F_toVal self.2.2.2.2.2.1, G_toVal self.2.2.2.2.2.2]) :=
  tuple7_encode tA tB tC tD tE tF tG A_enc A_toVal B_enc B_toVal C_enc C_toVal D_enc D_toVal E_enc E_toVal F_enc F_toVal G_enc G_toVal heA heB heC heD heE heF heG self hlA hlB hlC hlD hlE hlF hlG
example : vals (Loops.codec_tuple7_encode (staticLength .phantom) Loops.codec_phantom_encode (staticLength .phantom) Loops.codec_phantom_encode (staticLength .phantom) Loops.codec_phantom_encode (staticLength .phantom) Loops.codec_phantom_encode (staticLength .phantom) Loops.codec_phantom_encode (staticLength .phantom) Loops.codec_phantom_encode (staticLength .phantom) Loops.codec_phantom_encode ((), (), (), (), (), (), ())) =
    encode (.tuple [.phantom, .phantom, .phantom, .phantom, .phantom, .phantom, .phantom]) (.list [Val.unit, Val.unit, Val.unit, Val.unit, Val.unit, Val.unit, Val.unit]) :=
  gen_tuple7_encode_eq_model .phantom .phantom .phantom .phantom .phantom .phantom .phantom Loops.codec_phantom_encode (fun _ => Val.unit) Loops.codec_phantom_encode (fun _ => Val.unit) Loops.codec_phantom_encode (fun _ => Val.unit) Loops.codec_phantom_encode (fun _ => Val.unit) Loops.codec_phantom_encode (fun _ => Val.unit) Loops.codec_phantom_encode (fun _ => Val.unit) Loops.codec_phantom_encode (fun _ => Val.unit) (fun _ => rfl) (fun _ => rfl) (fun _ => rfl) (fun _ => rfl) (fun _ => rfl) (fun _ => rfl) (fun _ => rfl) ((), (), (), (), (), (), ()) (by decide) (by decide) (by decide) (by decide) (by decide) (by decide) (by decide)

/-- **8-tuples**: the regenerated `decode` / `static_length` of `impl_bfield_codec_for_tuple!(A, B, C, D, E, F, G, H)` are the `tuple` case of the
    hand model (components read from the last to the first, `decodeItem` each, nothing may be left) whenever the component
    decoders are the model's -/
theorem gen_tuple8_decode_eq_model {A A_Error B B_Error C C_Error D D_Error E E_Error F F_Error G G_Error H H_Error : Type} (tA : Ty) (tB : Ty) (tC : Ty) (tD : Ty) (tE : Ty) (tF : Ty) (tG : Ty) (tH : Ty)
    (A_dec : List Nat → Res A_Error A) (A_into : A_Error → DynErr) (A_toVal : A → Val) (B_dec : List Nat → Res B_Error B) (B_into : B_Error → DynErr) (B_toVal : B → Val) (C_dec : List Nat → Res C_Error C) (C_into : C_Error → DynErr) (C_toVal : C → Val) (D_dec : List Nat → Res D_Error D) (D_into : D_Error → DynErr) (D_toVal : D → Val) (E_dec : List Nat → Res E_Error E) (E_into : E_Error → DynErr) (E_toVal : E → Val) (F_dec : List Nat → Res F_Error F) (F_into : F_Error → DynErr) (F_toVal : F → Val) (G_dec : List Nat → Res G_Error G) (G_into : G_Error → DynErr) (G_toVal : G → Val) (H_dec : List Nat → Res H_Error H) (H_into : H_Error → DynErr) (H_toVal : H → Val)
    (hA : Item A_dec A_toVal (decode tA)) (hB : Item B_dec B_toVal (decode tB)) (hC : Item C_dec C_toVal (decode tC)) (hD : Item D_dec D_toVal (decode tD)) (hE : Item E_dec E_toVal (decode tE)) (hF : Item F_dec F_toVal (decode tF)) (hG : Item G_dec G_toVal (decode tG)) (hH : Item H_dec H_toVal (decode tH)) :
    Item (Loops.codec_tuple8_decode (staticLength tA) A_dec A_into (staticLength tB) B_dec B_into (staticLength tC) C_dec C_into (staticLength tD) D_dec D_into (staticLength tE) E_dec E_into (staticLength tF) F_dec F_into (staticLength tG) G_dec G_into (staticLength tH) H_dec H_into)
      (fun p => Val.list [A_toVal p.1, B_toVal p.2.1, C_toVal p.2.2.1, D_toVal p.2.2.2.1, E_toVal p.2.2.2.2.1, F_toVal p.2.2.2.2.2.1, G_toVal p.2.2.2.2.2.2.1, H_toVal p.2.2.2.2.2.2.2]) (decode (.tuple [tA, tB, tC, tD, tE, tF, tG, tH])) ∧
    Loops.codec_tuple8_static_length (staticLength tA) (staticLength tB) (staticLength tC) (staticLength tD) (staticLength tE) (staticLength tF) (staticLength tG) (staticLength tH) = staticLength (.tuple [tA, tB, tC, tD, tE, tF, tG, tH]) :=
  ⟨tuple8_item tA tB tC tD tE tF tG tH A_dec A_into A_toVal B_dec B_into B_toVal C_dec C_into C_toVal D_dec D_into D_toVal E_dec E_into E_toVal F_dec F_into F_toVal G_dec G_into G_toVal H_dec H_into H_toVal hA hB hC hD hE hF hG hH, tuple8_static_length tA tB tC tD tE tF tG tH⟩
example : Loops.codec_tuple8_static_length (staticLength .phantom) (staticLength .phantom) (staticLength .phantom) (staticLength .phantom) (staticLength .phantom) (staticLength .phantom) (staticLength .phantom) (staticLength .phantom) = staticLength (.tuple [.phantom, .phantom, .phantom, .phantom, .phantom, .phantom, .phantom, .phantom]) :=
  (gen_tuple8_decode_eq_model .phantom .phantom .phantom .phantom .phantom .phantom .phantom .phantom Loops.codec_phantom_decode (fun e => ⟨e⟩) (fun _ => Val.unit) Loops.codec_phantom_decode (fun e => ⟨e⟩) (fun _ => Val.unit) Loops.codec_phantom_decode (fun e => ⟨e⟩) (fun _ => Val.unit) Loops.codec_phantom_decode (fun e => ⟨e⟩) (fun _ => Val.unit) Loops.codec_phantom_decode (fun e => ⟨e⟩) (fun _ => Val.unit) Loops.codec_phantom_decode (fun e => ⟨e⟩) (fun _ => Val.unit) Loops.codec_phantom_decode (fun e => ⟨e⟩) (fun _ => Val.unit) Loops.codec_phantom_decode (fun e => ⟨e⟩) (fun _ => Val.unit) phantom_item phantom_item phantom_item phantom_item phantom_item phantom_item phantom_item phantom_item).2

/-- regenerated `encode` of the 8-tuple = the `tuple` case of the hand model's `encode` (reverse declaration order, a component
    is prefixed by its length iff its `static_length()` is `None`) whenever the component encoders are the model's -/
theorem gen_tuple8_encode_eq_model {A B C D E F G H : Type} (tA : Ty) (tB : Ty) (tC : Ty) (tD : Ty) (tE : Ty) (tF : Ty) (tG : Ty) (tH : Ty) (A_enc : A → List Nat) (A_toVal : A → Val) (B_enc : B → List Nat) (B_toVal : B → Val) (C_enc : C → List Nat) (C_toVal : C → Val) (D_enc : D → List Nat) (D_toVal : D → Val) (E_enc : E → List Nat) (E_toVal : E → Val) (F_enc : F → List Nat) (F_toVal : F → Val) (G_enc : G → List Nat) (G_toVal : G → Val) (H_enc : H → List Nat) (H_toVal : H → Val)
    (heA : ∀ x, vals (A_enc x) = encode tA (A_toVal x)) (heB : ∀ x, vals (B_enc x) = encode tB (B_toVal x)) (heC : ∀ x, vals (C_enc x) = encode tC (C_toVal x)) (heD : ∀ x, vals (D_enc x) = encode tD (D_toVal x)) (heE : ∀ x, vals (E_enc x) = encode tE (E_toVal x)) (heF : ∀ x, vals (F_enc x) = encode tF (F_toVal x)) (heG : ∀ x, vals (G_enc x) = encode tG (G_toVal x)) (heH : ∀ x, vals (H_enc x) = encode tH (H_toVal x))
    (self : (A × B × C × D × E × F × G × H)) (hlA : (A_enc self.1).length < TF.BF.Pn) (hlB : (B_enc self.2.1).length < TF.BF.Pn) (hlC : (C_enc self.2.2.1).length < TF.BF.Pn) (hlD : (D_enc self.2.2.2.1).length < TF.BF.Pn) (hlE : (E_enc self.2.2.2.2.1).length < TF.BF.Pn) (hlF : (F_enc self.2.2.2.2.2.1).length < TF.BF.Pn) (hlG : (G_enc self.2.2.2.2.2.2.1).length < TF.BF.Pn) (hlH : (H_enc self.2.2.2.2.2.2.2).length < TF.BF.Pn) :
    vals (Loops.codec_tuple8_encode (staticLength tA) A_enc (staticLength tB) B_enc (staticLength tC) C_enc (staticLength tD) D_enc (staticLength tE) E_enc (staticLength tF) F_enc (staticLength tG) G_enc (staticLength tH) H_enc self) =
      encode (.tuple [tA, tB, tC, tD, tE, tF, tG, tH]) (.list [A_toVal self.1, B_toVal self.2.1, C_toVal self.2.2.1, D_toVal self.2.2.2.1, E_toVal self.2.2.2.2.1, F_toVal self.2.2.2.2.2.1, G_toVal self.2.2.2.2.2.2.1, H_toVal self.2.2.2.2.2.2.2]) :=
  tuple8_encode tA tB tC tD tE tF tG tH A_enc A_toVal B_enc B_toVal C_enc C_toVal D_enc D_toVal E_enc E_toVal F_enc F_toVal G_enc G_toVal H_enc H_toVal heA heB heC heD heE heF heG heH self hlA hlB hlC hlD hlE hlF hlG hlH
example : vals (Loops.codec_tuple8_encode (staticLength .phantom) Loops.codec_phantom_encode (staticLength .phantom) Loops.codec_phantom_encode (staticLength .phantom) Loops.codec_phantom_encode (staticLength .phantom) Loops.codec_phantom_encode (staticLength .phantom) Loops.codec_phantom_encode (staticLength .phantom) Loops.codec_phantom_encode (staticLength .phantom) Loops.codec_phantom_encode (staticLength .phantom) Loops.codec_phantom_encode ((), (), (), (), (), (), (), ())) =
    encode (.tuple [.phantom, .phantom, .phantom, .phantom, .phantom, .phantom, .phantom, .phantom]) (.list [Val.unit, Val.unit, Val.unit, Val.unit, Val.unit, Val.unit, Val.unit, Val.unit]) :=
  gen_tuple8_encode_eq_model .phantom .phantom .phantom .phantom .phantom .phantom .phantom .phantom Loops.codec_phantom_encode (fun _ => Val.unit) Loops.codec_phantom_encode (fun _ => Val.unit) Loops.codec_phantom_encode (fun _ => Val.unit) Loops.codec_phantom_encode (fun _ => Val.unit) Loops.codec_phantom_encode (fun _ => Val.unit) Loops.codec_phantom_encode (fun _ => Val.unit) Loops.codec_phantom_encode (fun _ => Val.unit) Loops.codec_phantom_encode (fun _ => Val.unit) (fun _ => rfl) (fun _ => rfl) (fun _ => rfl) (fun _ => rfl) (fun _ => rfl) (fun _ => rfl) (fun _ => rfl) (fun _ => rfl) ((), (), (), (), (), (), (), ()) (by decide) (by decide) (by decide) (by decide) (by decide) (by decide) (by decide) (by decide)

/-- **9-tuples**: the regenerated `decode` / `static_length` of `impl_bfield_codec_for_tuple!(A, B, C, D, E, F, G, H, I)` are the `tuple` case of the
    hand model (components read from the last to the first, `decodeItem` each, nothing may be left) whenever the component
    decoders are the model's -/
theorem gen_tuple9_decode_eq_model {A A_Error B B_Error C C_Error D D_Error E E_Error F F_Error G G_Error H H_Error I I_Error : Type} (tA : Ty) (tB : Ty) (tC : Ty) (tD : Ty) (tE : Ty) (tF : Ty) (tG : Ty) (tH : Ty) (tI : Ty)
    (A_dec : List Nat → Res A_Error A) (A_into : A_Error → DynErr) (A_toVal : A → Val) (B_dec : List Nat → Res B_Error B) (B_into : B_Error → DynErr) (B_toVal : B → Val) (C_dec : List Nat → Res C_Error C) (C_into : C_Error → DynErr) (C_toVal : C → Val) (D_dec : List Nat → Res D_Error D) (D_into : D_Error → DynErr) (D_toVal : D → Val) (E_dec : List Nat → Res E_Error E) (E_into : E_Error → DynErr) (E_toVal : E → Val) (F_dec : List Nat → Res F_Error F) (F_into : F_Error → DynErr) (F_toVal : F → Val) (G_dec : List Nat → Res G_Error G) (G_into : G_Error → DynErr) (G_toVal : G → Val) (H_dec : List Nat → Res H_Error H) (H_into : H_Error → DynErr) (H_toVal : H → Val) (I_dec : List Nat → Res I_Error I) (I_into : I_Error → DynErr) (I_toVal : I → Val)
    (hA : Item A_dec A_toVal (decode tA)) (hB : Item B_dec B_toVal (decode tB)) (hC : Item C_dec C_toVal (decode tC)) (hD : Item D_dec D_toVal (decode tD)) (hE : Item E_dec E_toVal (decode tE)) (hF : Item F_dec F_toVal (decode tF)) (hG : Item G_dec G_toVal (decode tG)) (hH : Item H_dec H_toVal (decode tH)) (hI : Item I_dec I_toVal (decode tI)) :
    Item (Loops.codec_tuple9_decode (staticLength tA) A_dec A_into (staticLength tB) B_dec B_into (staticLength tC) C_dec C_into (staticLength tD) D_dec D_into (staticLength tE) E_dec E_into (staticLength tF) F_dec F_into (staticLength tG) G_dec G_into (staticLength tH) H_dec H_into (staticLength tI) I_dec I_into)
      (fun p => Val.list [A_toVal p.1, B_toVal p.2.1, C_toVal p.2.2.1, D_toVal p.2.2.2.1, E_toVal p.2.2.2.2.1, F_toVal p.2.2.2.2.2.1, G_toVal p.2.2.2.2.2.2.1, H_toVal p.2.2.2.2.2.2.2.1, I_toVal p.2.2.2.2.2.2.2.2]) (decode (.tuple [tA, tB, tC, tD, tE, tF, tG, tH, tI])) ∧
    Loops.codec_tuple9_static_length (staticLength tA) (staticLength tB) (staticLength tC) (staticLength tD) (staticLength tE) (staticLength tF) (staticLength tG) (staticLength tH) (staticLength tI) = staticLength (.tuple [tA, tB, tC, tD, tE, tF, tG, tH, tI]) :=
  ⟨tuple9_item tA tB tC tD tE tF tG tH tI A_dec A_into A_toVal B_dec B_into B_toVal C_dec C_into C_toVal D_dec D_into D_toVal E_dec E_into E_toVal F_dec F_into F_toVal G_dec G_into G_toVal H_dec H_into H_toVal I_dec I_into I_toVal hA hB hC hD hE hF hG hH hI, tuple9_static_length tA tB tC tD tE tF tG tH tI⟩
example : Loops.codec_tuple9_static_length (staticLength .phantom) (staticLength .phantom) (staticLength .phantom) (staticLength .phantom) (staticLength .phantom) (staticLength .phantom) (staticLength .phantom) (staticLength .phantom) (staticLength .phantom) = staticLength (.tuple [.phantom, .phantom, .phantom, .phantom, .phantom, .phantom, .phantom, .phantom, .phantom]) :=
  (gen_tuple9_decode_eq_model .phantom .phantom .phantom .phantom .phantom .phantom .phantom .phantom .phantom Loops.codec_phantom_decode (fun e => ⟨e⟩) (fun _ => Val.unit) Loops.codec_phantom_decode (fun e => ⟨e⟩) (fun _ => Val.unit) Loops.codec_phantom_decode (fun e => ⟨e⟩) (fun _ => Val.unit) Loops.codec_phantom_decode (fun e => ⟨e⟩) (fun _ => Val.unit) Loops.codec_phantom_decode (fun e => ⟨e⟩) (fun _ => Val.unit) Loops.codec_phantom_decode (fun e => ⟨e⟩) (fun _ => Val.unit) Loops.codec_phantom_decode (fun e => ⟨e⟩) (fun _ => Val.unit) Loops.codec_phantom_decode (fun e => ⟨e⟩) (fun _ => Val.unit) Loops.codec_phantom_decode (fun e => ⟨e⟩) (fun _ => Val.unit) phantom_item phantom_item phantom_item phantom_item phantom_item phantom_item phantom_item phantom_item phantom_item).2

/-- regenerated `encode` of the 9-tuple = the `tuple` case of the hand model's `encode` (reverse declaration order, a component
    is prefixed by its length iff its `static_length()` is `None`) whenever the component encoders are the model's -/
theorem gen_tuple9_encode_eq_model {A B C D E F G H I : Type} (tA : Ty) (tB : Ty) (tC : Ty) (tD : Ty) (tE : Ty) (tF : Ty) (tG : Ty) (tH : Ty) (tI : Ty) (A_enc : A → List Nat) (A_toVal : A → Val) (B_enc : B → List Nat) (B_toVal : B → Val) (C_enc : C → List Nat) (C_toVal : C → Val) (D_enc : D → List Nat) (D_toVal : D → Val) (E_enc : E → List Nat) (E_toVal : E → Val) (F_enc : F → List Nat) (F_toVal : F → Val) (G_enc : G → List Nat) (G_toVal : G → Val) (H_enc : H → List Nat) (H_toVal : H → Val) (I_enc : I → List Nat) (I_toVal : I → Val)
    (heA : ∀ x, vals (A_enc x) = encode tA (A_toVal x)) (heB : ∀ x, vals (B_enc x) = encode tB (B_toVal x)) (heC : ∀ x, vals (C_enc x) = encode tC (C_toVal x)) (heD : ∀ x, vals (D_enc x) = encode tD (D_toVal x)) (heE : ∀ x, vals (E_enc x) = encode tE (E_toVal x)) (heF : ∀ x, vals (F_enc x) = encode tF (F_toVal x)) (heG : ∀ x, vals (G_enc x) = encode tG (G_toVal x)) (heH : ∀ x, vals (H_enc x) = encode tH (H_toVal x)) (heI : ∀ x, vals (I_enc x) = encode tI (I_toVal x))
    (self : (A × B × C × D × E × F × G × H × I)) (hlA : (A_enc self.1).length < TF.BF.Pn) (hlB : (B_enc self.2.1).length < TF.BF.Pn) (hlC : (C_enc self.2.2.1).length < TF.BF.Pn) (hlD : (D_enc self.2.2.2.1).length < TF.BF.Pn) (hlE : (E_enc self.2.2.2.2.1).length < TF.BF.Pn) (hlF : (F_enc self.2.2.2.2.2.1).length < TF.BF.Pn) (hlG : (G_enc self.2.2.2.2.2.2.1).length < TF.BF.Pn) (hlH : (H_enc self.2.2.2.2.2.2.2.1).length < TF.BF.Pn) (hlI : (I_enc self.2.2.2.2.2.2.2.2).length < TF.BF.Pn) :
    vals (Loops.codec_tuple9_encode (staticLength tA) A_enc (staticLength tB) B_enc (staticLength tC) C_enc (staticLength tD) D_enc (staticLength tE) E_enc (staticLength tF) F_enc (staticLength tG) G_enc (staticLength tH) H_enc (staticLength tI) I_enc self) =
      encode (.tuple [tA, tB, tC, tD, tE, tF, tG, tH, tI]) (.list [A_toVal self.1, B_toVal self.2.1, C_toVal self.2.2.1, D_toVal self.2.2.2.1, E_toVal self.2.2.2.2.1, F_toVal self.2.2.2.2.2.1, G_toVal self.2.2.2.2.2.2.1, H_toVal self.2.2.2.2.2.2.2.1, I_toVal self.2.2.2.2.2.2.2.2]) :=
  tuple9_encode tA tB tC tD tE tF tG tH tI A_enc A_toVal B_enc B_toVal C_enc C_toVal D_enc D_toVal E_enc E_toVal F_enc F_toVal G_enc G_toVal H_enc H_toVal I_enc I_toVal heA heB heC heD heE heF heG heH heI self hlA hlB hlC hlD hlE hlF hlG hlH hlI
example : vals (Loops.codec_tuple9_encode (staticLength .phantom) Loops.codec_phantom_encode (staticLength .phantom) Loops.codec_phantom_encode (staticLength .phantom) Loops.codec_phantom_encode (staticLength .phantom) Loops.codec_phantom_encode (staticLength .phantom) Loops.codec_phantom_encode (staticLength .phantom) Loops.codec_phantom_encode (staticLength .phantom) Loops.codec_phantom_encode (staticLength .phantom) Loops.codec_phantom_encode (staticLength .phantom) Loops.codec_phantom_encode ((), (), (), (), (), (), (), (), ())) =
    encode (.tuple [.phantom, .phantom, .phantom, .phantom, .phantom, .phantom, .phantom, .phantom, .phantom]) (.list [Val.unit, Val.unit, Val.unit, Val.unit, Val.unit, Val.unit, Val.unit, Val.unit, Val.unit]) :=
  gen_tuple9_encode_eq_model .phantom .phantom .phantom .phantom .phantom .phantom .phantom .phantom .phantom Loops.codec_phantom_encode (fun _ => Val.unit) Loops.codec_phantom_encode (fun _ => Val.unit) Loops.codec_phantom_encode (fun _ => Val.unit) Loops.codec_phantom_encode (fun _ => Val.unit) Loops.codec_phantom_encode (fun _ => Val.unit) Loops.codec_phantom_encode (fun _ => Val.unit) Loops.codec_phantom_encode (fun _ => Val.unit) Loops.codec_phantom_encode (fun _ => Val.unit) Loops.codec_phantom_encode (fun _ => Val.unit) (fun _ => rfl) (fun _ => rfl) (fun _ => rfl) (fun _ => rfl) (fun _ => rfl) (fun _ => rfl) (fun _ => rfl) (fun _ => rfl) (fun _ => rfl) ((), (), (), (), (), (), (), (), ()) (by decide) (by decide) (by decide) (by decide) (by decide) (by decide) (by decide) (by decide) (by decide)

/-- **10-tuples**: the regenerated `decode` / `static_length` of `impl_bfield_codec_for_tuple!(A, B, C, D, E, F, G, H, I, J)` are the `tuple` case of the
    hand model (components read from the last to the first, `decodeItem` each, nothing may be left) whenever the component
    decoders are the model's -/
theorem gen_tuple10_decode_eq_model {A A_Error B B_Error C C_Error D D_Error E E_Error F F_Error G G_Error H H_Error I I_Error J J_Error : Type} (tA : Ty) (tB : Ty) (tC : Ty) (tD : Ty) (tE : Ty) (tF : Ty) (tG : Ty) (tH : Ty) (tI : Ty) (tJ : Ty)
    (A_dec : List Nat → Res A_Error A) (A_into : A_Error → DynErr) (A_toVal : A → Val) (B_dec : List Nat → Res B_Error B) (B_into : B_Error → DynErr) (B_toVal : B → Val) (C_dec : List Nat → Res C_Error C) (C_into : C_Error → DynErr) (C_toVal : C → Val) (D_dec : List Nat → Res D_Error D) (D_into : D_Error → DynErr) (D_toVal : D → Val) (E_dec : List Nat → Res E_Error E) (E_into : E_Error → DynErr) (E_toVal : E → Val) (F_dec : List Nat → Res F_Error F) (F_into : F_Error → DynErr) (F_toVal : F → Val) (G_dec : List Nat → Res G_Error G) (G_into : G_Error → DynErr) (G_toVal : G → Val) (H_dec : List Nat → Res H_Error H) (H_into : H_Error → DynErr) (H_toVal : H → Val) (I_dec : List Nat → Res I_Error I) (I_into : I_Error → DynErr) (I_toVal : I → Val) (J_dec : List Nat → Res J_Error J) (J_into : J_Error → DynErr) (J_toVal : J → Val)
    (hA : Item A_dec A_toVal (decode tA)) (hB : Item B_dec B_toVal (decode tB)) (hC : Item C_dec C_toVal (decode tC)) (hD : Item D_dec D_toVal (decode tD)) (hE : Item E_dec E_toVal (decode tE)) (hF : Item F_dec F_toVal (decode tF)) (hG : Item G_dec G_toVal (decode tG)) (hH : Item H_dec H_toVal (decode tH)) (hI : Item I_dec I_toVal (decode tI)) (hJ : Item J_dec J_toVal (decode tJ)) :
    Item (Loops.codec_tuple10_decode (staticLength tA) A_dec A_into (staticLength tB) B_dec B_into (staticLength tC) C_dec C_into (staticLength tD) D_dec D_into (staticLength tE) E_dec E_into (staticLength tF) F_dec F_into (staticLength tG) G_dec G_into (staticLength tH) H_dec H_into (staticLength tI) I_dec I_into (staticLength tJ) J_dec J_into)
      (fun p => Val.list [A_toVal p.1, B_toVal p.2.1, C_toVal p.2.2.1, D_toVal p.2.2.2.1, E_toVal p.2.2.2.2.1, F_toVal p.2.2.2.2.2.1, G_toVal p.2.2.2.2.2.2.1, H_toVal p.2.2.2.2.2.2.2.1, I_toVal p.2.2.2.2.2.2.2.2.1, J_toVal p.2.2.2.2.2.2.2.2.2]) (decode (.tuple [tA, tB, tC, tD, tE, tF, tG, tH, tI, tJ])) ∧
    Loops.codec_tuple10_static_length (staticLength tA) (staticLength tB) (staticLength tC) (staticLength tD) (staticLength tE) (staticLength tF) (staticLength tG) (staticLength tH) (staticLength tI) (staticLength tJ) = staticLength (.tuple [tA, tB, tC, tD, tE, tF, tG, tH, tI, tJ]) :=
  ⟨tuple10_item tA tB tC tD tE tF tG tH tI tJ A_dec A_into A_toVal B_dec B_into B_toVal C_dec C_into C_toVal D_dec D_into D_toVal E_dec E_into E_toVal F_dec F_into F_toVal G_dec G_into G_toVal H_dec H_into H_toVal I_dec I_into I_toVal J_dec J_into J_toVal hA hB hC hD hE hF hG hH hI hJ, tuple10_static_length tA tB tC tD tE tF tG tH tI tJ⟩
example : Loops.codec_tuple10_static_length (staticLength .phantom) (staticLength .phantom) (staticLength .phantom) (staticLength .phantom) (staticLength .phantom) (staticLength .phantom) (staticLength .phantom) (staticLength .phantom) (staticLength .phantom) (staticLength .phantom) = staticLength (.tuple [.phantom, .phantom, .phantom, .phantom, .phantom, .phantom, .phantom, .phantom, .phantom, .phantom]) :=
  (gen_tuple10_decode_eq_model .phantom .phantom .phantom .phantom .phantom .phantom .phantom .phantom .phantom .phantom Loops.codec_phantom_decode (fun e => ⟨e⟩) (fun _ => Val.unit) Loops.codec_phantom_decode (fun e => ⟨e⟩) (fun _ => Val.unit) Loops.codec_phantom_decode (fun e => ⟨e⟩) (fun _ => Val.unit) Loops.codec_phantom_decode (fun e => ⟨e⟩) (fun _ => Val.unit) Loops.codec_phantom_decode (fun e => ⟨e⟩) (fun _ => Val.unit) Loops.codec_phantom_decode (fun e => ⟨e⟩) (fun _ => Val.unit) Loops.codec_phantom_decode (fun e => ⟨e⟩) (fun _ => Val.unit) Loops.codec_phantom_decode (fun e => ⟨e⟩) (fun _ => Val.unit) Loops.codec_phantom_decode (fun e => ⟨e⟩) (fun _ => Val.unit) Loops.codec_phantom_decode (fun e => ⟨e⟩) (fun _ => Val.unit) phantom_item phantom_item phantom_item phantom_item phantom_item phantom_item phantom_item phantom_item phantom_item phantom_item).2

/-- regenerated `encode` of the 10-tuple = the `tuple` case of the hand model's `encode` (reverse declaration order, a component
    is prefixed by its length iff its `static_length()` is `None`) whenever the component encoders are the model's -/
theorem gen_tuple10_encode_eq_model {A B C D E F G H I J : Type} (tA : Ty) (tB : Ty) (tC : Ty) (tD : Ty) (tE : Ty) (tF : Ty) (tG : Ty) (tH : Ty) (tI : Ty) (tJ : Ty) (A_enc : A → List Nat) (A_toVal : A → Val) (B_enc : B → List Nat) (B_toVal : B → Val) (C_enc : C → List Nat) (C_toVal : C → Val) (D_enc : D → List Nat) (D_toVal : D → Val) (E_enc : E → List Nat) (E_toVal : E → Val) (F_enc : F → List Nat) (F_toVal : F → Val) (G_enc : G → List Nat) (G_toVal : G → Val) (H_enc : H → List Nat) (H_toVal : H → Val) (I_enc : I → List Nat) (I_toVal : I → Val) (J_enc : J → List Nat) (J_toVal : J → Val)
    (heA : ∀ x, vals (A_enc x) = encode tA (A_toVal x)) (heB : ∀ x, vals (B_enc x) = encode tB (B_toVal x)) (heC : ∀ x, vals (C_enc x) = encode tC (C_toVal x)) (heD : ∀ x, vals (D_enc x) = encode tD (D_toVal x)) (heE : ∀ x, vals (E_enc x) = encode tE (E_toVal x)) (heF : ∀ x, vals (F_enc x) = encode tF (F_toVal x)) (heG : ∀ x, vals (G_enc x) = encode tG (G_toVal x)) (heH : ∀ x, vals (H_enc x) = encode tH (H_toVal x)) (heI : ∀ x, vals (I_enc x) = encode tI (I_toVal x)) (heJ : ∀ x, vals (J_enc x) = encode tJ (J_toVal x))
    (self : (A × B × C × D × E × F × G × H × I × J)) (hlA : (A_enc self.1).length < TF.BF.Pn) (hlB : (B_enc self.2.1).length < TF.BF.Pn) (hlC : (C_enc self.2.2.1).length < TF.BF.Pn) (hlD : (D_enc self.2.2.2.1).length < TF.BF.Pn) (hlE : (E_enc self.2.2.2.2.1).length < TF.BF.Pn) (hlF : (F_enc self.2.2.2.2.2.1).length < TF.BF.Pn) (hlG : (G_enc self.2.2.2.2.2.2.1).length < TF.BF.Pn) (hlH : (H_enc self.2.2.2.2.2.2.2.1).length < TF.BF.Pn) (hlI : (I_enc self.2.2.2.2.2.2.2.2.1).length < TF.BF.Pn) (hlJ : (J_enc self.2.2.2.2.2.2.2.2.2).length < TF.BF.Pn) :
    vals (Loops.codec_tuple10_encode (staticLength tA) A_enc (staticLength tB) B_enc (staticLength tC) C_enc (staticLength tD) D_enc (staticLength tE) E_enc (staticLength tF) F_enc (staticLength tG) G_enc (staticLength tH) H_enc (staticLength tI) I_enc (staticLength tJ) J_enc self) =
      encode (.tuple [tA, tB, tC, tD, tE, tF, tG, tH, tI, tJ]) (.list [A_toVal self.1, B_toVal self.2.1, C_toVal self.2.2.1, D_toVal self.2.2.2.1, E_toVal self.2.2.2.2.1, F_toVal self.2.2.2.2.2.1, G_toVal self.2.2.2.2.2.2.1, H_toVal self.2.2.2.2.2.2.2.1, I_toVal self.2.2.2.2.2.2.2.2.1, J_toVal self.2.2.2.2.2.2.2.2.2]) :=
  tuple10_encode tA tB tC tD tE tF tG tH tI tJ A_enc A_toVal B_enc B_toVal C_enc C_toVal D_enc D_toVal E_enc E_toVal F_enc F_toVal G_enc G_toVal H_enc H_toVal I_enc I_toVal J_enc J_toVal heA heB heC heD heE heF heG heH heI heJ self hlA hlB hlC hlD hlE hlF hlG hlH hlI hlJ
example : vals (Loops.codec_tuple10_encode (staticLength .phantom) Loops.codec_phantom_encode (staticLength .phantom) Loops.codec_phantom_encode (staticLength .phantom) Loops.codec_phantom_encode (staticLength .phantom) Loops.codec_phantom_encode (staticLength .phantom) Loops.codec_phantom_encode (staticLength .phantom) Loops.codec_phantom_encode (staticLength .phantom) Loops.codec_phantom_encode (staticLength .phantom) Loops.codec_phantom_encode (staticLength .phantom) Loops.codec_phantom_encode (staticLength .phantom) Loops.codec_phantom_encode ((), (), (), (), (), (), (), (), (), ())) =
    encode (.tuple [.phantom, .phantom, .phantom, .phantom, .phantom, .phantom, .phantom, .phantom, .phantom, .phantom]) (.list [Val.unit, Val.unit, Val.unit, Val.unit, Val.unit, Val.unit, Val.unit, Val.unit, Val.unit, Val.unit]) :=
  gen_tuple10_encode_eq_model .phantom .phantom .phantom .phantom .phantom .phantom .phantom .phantom .phantom .phantom Loops.codec_phantom_encode (fun _ => Val.unit) Loops.codec_phantom_encode (fun _ => Val.unit) Loops.codec_phantom_encode (fun _ => Val.unit) Loops.codec_phantom_encode (fun _ => Val.unit) Loops.codec_phantom_encode (fun _ => Val.unit) Loops.codec_phantom_encode (fun _ => Val.unit) Loops.codec_phantom_encode (fun _ => Val.unit) Loops.codec_phantom_encode (fun _ => Val.unit) Loops.codec_phantom_encode (fun _ => Val.unit) Loops.codec_phantom_encode (fun _ => Val.unit) (fun _ => rfl) (fun _ => rfl) (fun _ => rfl) (fun _ => rfl) (fun _ => rfl) (fun _ => rfl) (fun _ => rfl) (fun _ => rfl) (fun _ => rfl) (fun _ => rfl) ((), (), (), (), (), (), (), (), (), ()) (by decide) (by decide) (by decide) (by decide) (by decide) (by decide) (by decide) (by decide) (by decide) (by decide)

/-- **11-tuples**: the regenerated `decode` / `static_length` of `impl_bfield_codec_for_tuple!(A, B, C, D, E, F, G, H, I, J, K)` are the `tuple` case of the
    hand model (components read from the last to the first, `decodeItem` each, nothing may be left) whenever the component
    decoders are the model's -/
theorem gen_tuple11_decode_eq_model {A A_Error B B_Error C C_Error D D_Error E E_Error F F_Error G G_Error H H_Error I I_Error J J_Error K K_Error : Type} (tA : Ty) (tB : Ty) (tC : Ty) (tD : Ty) (tE : Ty) (tF : Ty) (tG : Ty) (tH : Ty) (tI : Ty) (tJ : Ty) (tK : Ty)
    (A_dec : List Nat → Res A_Error A) (A_into : A_Error → DynErr) (A_toVal : A → Val) (B_dec : List Nat → Res B_Error B) (B_into : B_Error → DynErr) (B_toVal : B → Val) (C_dec : List Nat → Res C_Error C) (C_into : C_Error → DynErr) (C_toVal : C → Val) (D_dec : List Nat → Res D_Error D) (D_into : D_Error → DynErr) (D_toVal : D → Val) (E_dec : List Nat → Res E_Error E) (E_into : E_Error → DynErr) (E_toVal : E → Val) (F_dec : List Nat → Res F_Error F) (F_into : F_Error → DynErr) (F_toVal : F → Val) (G_dec : List Nat → Res G_Error G) (G_into : G_Error → DynErr) (G_toVal : G → Val) (H_dec : List Nat → Res H_Error H) (H_into : H_Error → DynErr) (H_toVal : H → Val) (I_dec : List Nat → Res I_Error I) (I_into : I_Error → DynErr) (I_toVal : I → Val) (J_dec : List Nat → Res J_Error J) (J_into : J_Error → DynErr) (J_toVal : J → Val) (K_dec : List Nat → Res K_Error K) (K_into : K_Error → DynErr) (K_toVal : K → Val)
    (hA : Item A_dec A_toVal (decode tA)) (hB : Item B_dec B_toVal (decode tB)) (hC : Item C_dec C_toVal (decode tC)) (hD : Item D_dec D_toVal (decode tD)) (hE : Item E_dec E_toVal (decode tE)) (hF : Item F_dec F_toVal (decode tF)) (hG : Item G_dec G_toVal (decode tG)) (hH : Item H_dec H_toVal (decode tH)) (hI : Item I_dec I_toVal (decode tI)) (hJ : Item J_dec J_toVal (decode tJ)) (hK : Item K_dec K_toVal (decode tK)) :
    Item (Loops.codec_tuple11_decode (staticLength tA) A_dec A_into (staticLength tB) B_dec B_into (staticLength tC) C_dec C_into (staticLength tD) D_dec D_into (staticLength tE) E_dec E_into (staticLength tF) F_dec F_into (staticLength tG) G_dec G_into (staticLength tH) H_dec H_into (staticLength tI) I_dec I_into (staticLength tJ) J_dec J_into (staticLength tK) K_dec K_into)
      (fun p => Val.list [A_toVal p.1, B_toVal p.2.1, C_toVal p.2.2.1, D_toVal p.2.2.2.1, E_toVal p.2.2.2.2.1, F_toVal p.2.2.2.2.2.1, G_toVal p.2.2.2.2.2.2.1, H_toVal p.2.2.2.2.2.2.2.1, I_toVal p.2.2.2.2.2.2.2.2.1, J_toVal p.2.2.2.2.2.2.2.2.2.1, K_toVal p.2.2.2.2.2.2.2.2.2.2]) (decode (.tuple [tA, tB, tC, tD, tE, tF, tG, tH, tI, tJ, tK])) ∧
    Loops.codec_tuple11_static_length (staticLength tA) (staticLength tB) (staticLength tC) (staticLength tD) (staticLength tE) (staticLength tF) (staticLength tG) (staticLength tH) (staticLength tI) (staticLength tJ) (staticLength tK) = staticLength (.tuple [tA, tB, tC, tD, tE, tF, tG, tH, tI, tJ, tK]) :=
  ⟨tuple11_item tA tB tC tD tE tF tG tH tI tJ tK A_dec A_into A_toVal B_dec B_into B_toVal C_dec C_into C_toVal D_dec D_into D_toVal E_dec E_into E_toVal F_dec F_into F_toVal G_dec G_into G_toVal H_dec H_into H_toVal I_dec I_into I_toVal J_dec J_into J_toVal K_dec K_into K_toVal hA hB hC hD hE hF hG hH hI hJ hK, tuple11_static_length tA tB tC tD tE tF tG tH tI tJ tK⟩
example : Loops.codec_tuple11_static_length (staticLength .phantom) (staticLength .phantom) (staticLength .phantom) (staticLength .phantom) (staticLength .phantom) (staticLength .phantom) (staticLength .phantom) (staticLength .phantom) (staticLength .phantom) (staticLength .phantom) (staticLength .phantom) = staticLength (.tuple [.phantom, .phantom, .phantom, .phantom, .phantom, .phantom, .phantom, .phantom, .phantom, .phantom, .phantom]) :=
  (gen_tuple11_decode_eq_model .phantom .phantom .phantom .phantom .phantom .phantom .phantom .phantom .phantom .phantom .phantom Loops.codec_phantom_decode (fun e => ⟨e⟩) (fun _ => Val.unit) Loops.codec_phantom_decode (fun e => ⟨e⟩) (fun _ => Val.unit) Loops.codec_phantom_decode (fun e => ⟨e⟩) (fun _ => Val.unit) Loops.codec_phantom_decode (fun e => ⟨e⟩) (fun _ => Val.unit) Loops.codec_phantom_decode (fun e => ⟨e⟩) (fun _ => Val.unit) Loops.codec_phantom_decode (fun e => ⟨e⟩) (fun _ => Val.unit) Loops.codec_phantom_decode (fun e => ⟨e⟩) (fun _ => Val.unit) Loops.codec_phantom_decode (fun e => ⟨e⟩) (fun _ => Val.unit) Loops.codec_phantom_decode (fun e => ⟨e⟩) (fun _ => Val.unit) Loops.codec_phantom_decode (fun e => ⟨e⟩) (fun _ => Val.unit) Loops.codec_phantom_decode (fun e => ⟨e⟩) (fun _ => Val.unit) phantom_item phantom_item phantom_item phantom_item phantom_item phantom_item phantom_item phantom_item phantom_item phantom_item phantom_item).2

/-- regenerated `encode` of the 11-tuple = the `tuple` case of the hand model's `encode` (reverse declaration order, a component
    is prefixed by its length iff its `static_length()` is `None`) whenever the component encoders are the model's -/
theorem gen_tuple11_encode_eq_model {A B C D E F G H I J K : Type} (tA : Ty) (tB : Ty) (tC : Ty) (tD : Ty) (tE : Ty) (tF : Ty) (tG : Ty) (tH : Ty) (tI : Ty) (tJ : Ty) (tK : Ty) (A_enc : A → List Nat) (A_toVal : A → Val) (B_enc : B → List Nat) (B_toVal : B → Val) (C_enc : C → List Nat) (C_toVal : C → Val) (D_enc : D → List Nat) (D_toVal : D → Val) (E_enc : E → List Nat) (E_toVal : E → Val) (F_enc : F → List Nat) (F_toVal : F → Val) (G_enc : G → List Nat) (G_toVal : G → Val) (H_enc : H → List Nat) (H_toVal : H → Val) (I_enc : I → List Nat) (I_toVal : I → Val) (J_enc : J → List Nat) (J_toVal : J → Val) (K_enc : K → List Nat) (K_toVal : K → Val)
    (heA : ∀ x, vals (A_enc x) = encode tA (A_toVal x)) (heB : ∀ x, vals (B_enc x) = encode tB (B_toVal x)) (heC : ∀ x, vals (C_enc x) = encode tC (C_toVal x)) (heD : ∀ x, vals (D_enc x) = encode tD (D_toVal x)) (heE : ∀ x, vals (E_enc x) = encode tE (E_toVal x)) (heF : ∀ x, vals (F_enc x) = encode tF (F_toVal x)) (heG : ∀ x, vals (G_enc x) = encode tG (G_toVal x)) (heH : ∀ x, vals (H_enc x) = encode tH (H_toVal x)) (heI : ∀ x, vals (I_enc x) = encode tI (I_toVal x)) (heJ : ∀ x, vals (J_enc x) = encode tJ (J_toVal x)) (heK : ∀ x, vals (K_enc x) = encode tK (K_toVal x))
    (self : (A × B × C × D × E × F × G × H × I × J × K)) (hlA : (A_enc self.1).length < TF.BF.Pn) (hlB : (B_enc self.2.1).length < TF.BF.Pn) (hlC : (C_enc self.2.2.1).length < TF.BF.Pn) (hlD : (D_enc self.2.2.2.1).length < TF.BF.Pn) (hlE : (E_enc self.2.2.2.2.1).length < TF.BF.Pn) (hlF : (F_enc self.2.2.2.2.2.1).length < TF.BF.Pn) (hlG : (G_enc self.2.2.2.2.2.2.1).length < TF.BF.Pn) (hlH : (H_enc self.2.2.2.2.2.2.2.1).length < TF.BF.Pn) (hlI : (I_enc self.2.2.2.2.2.2.2.2.1).length < TF.BF.Pn) (hlJ : (J_enc self.2.2.2.2.2.2.2.2.2.1).length < TF.BF.Pn) (hlK : (K_enc self.2.2.2.2.2.2.2.2.2.2).length < TF.BF.Pn) :
    vals (Loops.codec_tuple11_encode (staticLength tA) A_enc (staticLength tB) B_enc (staticLength tC) C_enc (staticLength tD) D_enc (staticLength tE) E_enc (staticLength tF) F_enc (staticLength tG) G_enc (staticLength tH) H_enc (staticLength tI) I_enc (staticLength tJ) J_enc (staticLength tK) K_enc self) =
      encode (.tuple [tA, tB, tC, tD, tE, tF, tG, tH, tI, tJ, tK]) (.list [A_toVal self.1, B_toVal self.2.1, C_toVal self.2.2.1, D_toVal self.2.2.2.1, E_toVal self.2.2.2.2.1, F_toVal self.2.2.2.2.2.1, G_toVal self.2.2.2.2.2.2.1, H_toVal self.2.2.2.2.2.2.2.1, I_toVal self.2.2.2.2.2.2.2.2.1, J_toVal self.2.2.2.2.2.2.2.2.2.1, K_toVal self.2.2.2.2.2.2.2.2.2.2]) :=
  tuple11_encode tA tB tC tD tE tF tG tH tI tJ tK A_enc A_toVal B_enc B_toVal C_enc C_toVal D_enc D_toVal E_enc E_toVal F_enc F_toVal G_enc G_toVal H_enc H_toVal I_enc I_toVal J_enc J_toVal K_enc K_toVal heA heB heC heD heE heF heG heH heI heJ heK self hlA hlB hlC hlD hlE hlF hlG hlH hlI hlJ hlK
example : vals (Loops.codec_tuple11_encode (staticLength .phantom) Loops.codec_phantom_encode (staticLength .phantom) Loops.codec_phantom_encode (staticLength .phantom) Loops.codec_phantom_encode (staticLength .phantom) Loops.codec_phantom_encode (staticLength .phantom) Loops.codec_phantom_encode (staticLength .phantom) Loops.codec_phantom_encode (staticLength .phantom) Loops.codec_phantom_encode (staticLength .phantom) Loops.codec_phantom_encode (staticLength .phantom) Loops.codec_phantom_encode (staticLength .phantom) Loops.codec_phantom_encode (staticLength .phantom) Loops.codec_phantom_encode ((), (), (), (), (), (), (), (), (), (), ())) =
    encode (.tuple [.phantom, .phantom, .phantom, .phantom, .phantom, .phantom, .phantom, .phantom, .phantom, .phantom, .phantom]) (.list [Val.unit, Val.unit, Val.unit, Val.unit, Val.unit, Val.unit, Val.unit, Val.unit, Val.unit, Val.unit, Val.unit]) :=
  gen_tuple11_encode_eq_model .phantom .phantom .phantom .phantom .phantom .phantom .phantom .phantom .phantom .phantom .phantom Loops.codec_phantom_encode (fun _ => Val.unit) Loops.codec_phantom_encode (fun _ => Val.unit) Loops.codec_phantom_encode (fun _ => Val.unit) Loops.codec_phantom_encode (fun _ => Val.unit) Loops.codec_phantom_encode (fun _ => Val.unit) Loops.codec_phantom_encode (fun _ => Val.unit) Loops.codec_phantom_encode (fun _ => Val.unit) Loops.codec_phantom_encode (fun _ => Val.unit) Loops.codec_phantom_encode (fun _ => Val.unit) Loops.codec_phantom_encode (fun _ => Val.unit) Loops.codec_phantom_encode (fun _ => Val.unit) (fun _ => rfl) (fun _ => rfl) (fun _ => rfl) (fun _ => rfl) (fun _ => rfl) (fun _ => rfl) (fun _ => rfl) (fun _ => rfl) (fun _ => rfl) (fun _ => rfl) (fun _ => rfl) ((), (), (), (), (), (), (), (), (), (), ()) (by decide) (by decide) (by decide) (by decide) (by decide) (by decide) (by decide) (by decide) (by decide) (by decide) (by decide)

/-- **12-tuples**: the regenerated `decode` / `static_length` of `impl_bfield_codec_for_tuple!(A, B, C, D, E, F, G, H, I, J, K, L)` are the `tuple` case of the
    hand model (components read from the last to the first, `decodeItem` each, nothing may be left) whenever the component
    decoders are the model's -/
theorem gen_tuple12_decode_eq_model {A A_Error B B_Error C C_Error D D_Error E E_Error F F_Error G G_Error H H_Error I I_Error J J_Error K K_Error L L_Error : Type} (tA : Ty) (tB : Ty) (tC : Ty) (tD : Ty) (tE : Ty) (tF : Ty) (tG : Ty) (tH : Ty) (tI : Ty) (tJ : Ty) (tK : Ty) (tL : Ty)
    (A_dec : List Nat → Res A_Error A) (A_into : A_Error → DynErr) (A_toVal : A → Val) (B_dec : List Nat → Res B_Error B) (B_into : B_Error → DynErr) (B_toVal : B → Val) (C_dec : List Nat → Res C_Error C) (C_into : C_Error → DynErr) (C_toVal : C → Val) (D_dec : List Nat → Res D_Error D) (D_into : D_Error → DynErr) (D_toVal : D → Val) (E_dec : List Nat → Res E_Error E) (E_into : E_Error → DynErr) (E_toVal : E → Val) (F_dec : List Nat → Res F_Error F) (F_into : F_Error → DynErr) (F_toVal : F → Val) (G_dec : List Nat → Res G_Error G) (G_into : G_Error → DynErr) (G_toVal : G → Val) (H_dec : List Nat → Res H_Error H) (H_into : H_Error → DynErr) (H_toVal : H → Val) (I_dec : List Nat → Res I_Error I) (I_into : I_Error → DynErr) (I_toVal : I → Val) (J_dec : List Nat → Res J_Error J) (J_into : J_Error → DynErr) (J_toVal : J → Val) (K_dec : List Nat → Res K_Error K) (K_into : K_Error → DynErr) (K_toVal : K → Val) (L_dec : List Nat → Res L_Error L) (L_into : L_Error → DynErr) (L_toVal : L → Val)
    (hA : Item A_dec A_toVal (decode tA)) (hB : Item B_dec B_toVal (decode tB)) (hC : Item C_dec C_toVal (decode tC)) (hD : Item D_dec D_toVal (decode tD)) (hE : Item E_dec E_toVal (decode tE)) (hF : Item F_dec F_toVal (decode tF)) (hG : Item G_dec G_toVal (decode tG)) (hH : Item H_dec H_toVal (decode tH)) (hI : Item I_dec I_toVal (decode tI)) (hJ : Item J_dec J_toVal (decode tJ)) (hK : Item K_dec K_toVal (decode tK)) (hL : Item L_dec L_toVal (decode tL)) :
    Item (Loops.codec_tuple12_decode (staticLength tA) A_dec A_into (staticLength tB) B_dec B_into (staticLength tC) C_dec C_into (staticLength tD) D_dec D_into (staticLength tE) E_dec E_into (staticLength tF) F_dec F_into (staticLength tG) G_dec G_into (staticLength tH) H_dec H_into (staticLength tI) I_dec I_into (staticLength tJ) J_dec J_into (staticLength tK) K_dec K_into (staticLength tL) L_dec L_into)
      (fun p => Val.list [A_toVal p.1, B_toVal p.2.1, C_toVal p.2.2.1, D_toVal p.2.2.2.1, E_toVal p.2.2.2.2.1, F_toVal p.2.2.2.2.2.1, G_toVal p.2.2.2.2.2.2.1, H_toVal p.2.2.2.2.2.2.2.1, I_toVal p.2.2.2.2.2.2.2.2.1, J_toVal p.2.2.2.2.2.2.2.2.2.1, K_toVal p.2.2.2.2.2.2.2.2.2.2.1, L_toVal p.2.2.2.2.2.2.2.2.2.2.2]) (decode (.tuple [tA, tB, tC, tD, tE, tF, tG, tH, tI, tJ, tK, tL])) ∧
    Loops.codec_tuple12_static_length (staticLength tA) (staticLength tB) (staticLength tC) (staticLength tD) (staticLength tE) (staticLength tF) (staticLength tG) (staticLength tH) (staticLength tI) (staticLength tJ) (staticLength tK) (staticLength tL) = staticLength (.tuple [tA, tB, tC, tD, tE, tF, tG, tH, tI, tJ, tK, tL]) :=
  ⟨tuple12_item tA tB tC tD tE tF tG tH tI tJ tK tL A_dec A_into A_toVal B_dec B_into B_toVal C_dec C_into C_toVal D_dec D_into D_toVal E_dec E_into E_toVal F_dec F_into F_toVal G_dec G_into G_toVal H_dec H_into H_toVal I_dec I_into I_toVal J_dec J_into J_toVal K_dec K_into K_toVal L_dec L_into L_toVal hA hB hC hD hE hF hG hH hI hJ hK hL, tuple12_static_length tA tB tC tD tE tF tG tH tI tJ tK tL⟩
example : Loops.codec_tuple12_static_length (staticLength .phantom) (staticLength .phantom) (staticLength .phantom) (staticLength .phantom) (staticLength .phantom) (staticLength .phantom) (staticLength .phantom) (staticLength .phantom) (staticLength .phantom) (staticLength .phantom) (staticLength .phantom) (staticLength .phantom) = staticLength (.tuple [.phantom, .phantom, .phantom, .phantom, .phantom, .phantom, .phantom, .phantom, .phantom, .phantom, .phantom, .phantom]) :=
  (gen_tuple12_decode_eq_model .phantom .phantom .phantom .phantom .phantom .phantom .phantom .phantom .phantom .phantom .phantom .phantom Loops.codec_phantom_decode (fun e => ⟨e⟩) (fun _ => Val.unit) Loops.codec_phantom_decode (fun e => ⟨e⟩) (fun _ => Val.unit) Loops.codec_phantom_decode (fun e => ⟨e⟩) (fun _ => Val.unit) Loops.codec_phantom_decode (fun e => ⟨e⟩) (fun _ => Val.unit) Loops.codec_phantom_decode (fun e => ⟨e⟩) (fun _ => Val.unit) Loops.codec_phantom_decode (fun e => ⟨e⟩) (fun _ => Val.unit) Loops.codec_phantom_decode (fun e => ⟨e⟩) (fun _ => Val.unit) Loops.codec_phantom_decode (fun e => ⟨e⟩) (fun _ => Val.unit) Loops.codec_phantom_decode (fun e => ⟨e⟩) (fun _ => Val.unit) Loops.codec_phantom_decode (fun e => ⟨e⟩) (fun _ => Val.unit) Loops.codec_phantom_decode (fun e => ⟨e⟩) (fun _ => Val.unit) Loops.codec_phantom_decode (fun e => ⟨e⟩) (fun _ => Val.unit) phantom_item phantom_item phantom_item phantom_item phantom_item phantom_item phantom_item phantom_item phantom_item phantom_item phantom_item phantom_item).2

/-- regenerated `encode` of the 12-tuple = the `tuple` case of the hand model's `encode` (reverse declaration order, a component
    is prefixed by its length iff its `static_length()` is `None`) whenever the component encoders are the model's -/
theorem gen_tuple12_encode_eq_model {A B C D E F G H I J K L : Type} (tA : Ty) (tB : Ty) (tC : Ty) (tD : Ty) (tE : Ty) (tF : Ty) (tG : Ty) (tH : Ty) (tI : Ty) (tJ : Ty) (tK : Ty) (tL : Ty) (A_enc : A → List Nat) (A_toVal : A → Val) (B_enc : B → List Nat) (B_toVal : B → Val) (C_enc : C → List Nat) (C_toVal : C → Val) (D_enc : D → List Nat) (D_toVal : D → Val) (E_enc : E → List Nat) (E_toVal : E → Val) (F_enc : F → List Nat) (F_toVal : F → Val) (G_enc : G → List Nat) (G_toVal : G → Val) (H_enc : H → List Nat) (H_toVal : H → Val) (I_enc : I → List Nat) (I_toVal : I → Val) (J_enc : J → List Nat) (J_toVal : J → Val) (K_enc : K → List Nat) (K_toVal : K → Val) (L_enc : L → List Nat) (L_toVal : L → Val)
    (heA : ∀ x, vals (A_enc x) = encode tA (A_toVal x)) (heB : ∀ x, vals (B_enc x) = encode tB (B_toVal x)) (heC : ∀ x, vals (C_enc x) = encode tC (C_toVal x)) (heD : ∀ x, vals (D_enc x) = encode tD (D_toVal x)) (heE : ∀ x, vals (E_enc x) = encode tE (E_toVal x)) (heF : ∀ x, vals (F_enc x) = encode tF (F_toVal x)) (heG : ∀ x, vals (G_enc x) = encode tG (G_toVal x)) (heH : ∀ x, vals (H_enc x) = encode tH (H_toVal x)) (heI : ∀ x, vals (I_enc x) = encode tI (I_toVal x)) (heJ : ∀ x, vals (J_enc x) = encode tJ (J_toVal x)) (heK : ∀ x, vals (K_enc x) = encode tK (K_toVal x)) (heL : ∀ x, vals (L_enc x) = encode tL (L_toVal x))
    (self : (A × B × C × D × E × F × G × H × I × J × K × L)) (hlA : (A_enc self.1).length < TF.BF.Pn) (hlB : (B_enc self.2.1).length < TF.BF.Pn) (hlC : (C_enc self.2.2.1).length < TF.BF.Pn) (hlD : (D_enc self.2.2.2.1).length < TF.BF.Pn) (hlE : (E_enc self.2.2.2.2.1).length < TF.BF.Pn) (hlF : (F_enc self.2.2.2.2.2.1).length < TF.BF.Pn) (hlG : (G_enc self.2.2.2.2.2.2.1).length < TF.BF.Pn) (hlH : (H_enc self.2.2.2.2.2.2.2.1).length < TF.BF.Pn) (hlI : (I_enc self.2.2.2.2.2.2.2.2.1).length < TF.BF.Pn) (hlJ : (J_enc self.2.2.2.2.2.2.2.2.2.1).length < TF.BF.Pn) (hlK : (K_enc self.2.2.2.2.2.2.2.2.2.2.1).length < TF.BF.Pn) (hlL : (L_enc self.2.2.2.2.2.2.2.2.2.2.2).length < TF.BF.Pn) :
    vals (Loops.codec_tuple12_encode (staticLength tA) A_enc (staticLength tB) B_enc (staticLength tC) C_enc (staticLength tD) D_enc (staticLength tE) E_enc (staticLength tF) F_enc (staticLength tG) G_enc (staticLength tH) H_enc (staticLength tI) I_enc (staticLength tJ) J_enc (staticLength tK) K_enc (staticLength tL) L_enc self) =
      encode (.tuple [tA, tB, tC, tD, tE, tF, tG, tH, tI, tJ, tK, tL]) (.list [A_toVal self.1, B_toVal self.2.1, C_toVal self.2.2.1, D_toVal self.2.2.2.1, E_toVal self.2.2.2.2.1, F_toVal self.2.2.2.2.2.1, G_toVal self.2.2.2.2.2.2.1, H_toVal self.2.2.2.2.2.2.2.1, I_toVal self.2.2.2.2.2.2.2.2.1, J_toVal self.2.2.2.2.2.2.2.2.2.1, K_toVal self.2.2.2.2.2.2.2.2.2.2.1, L_toVal self.2.2.2.2.2.2.2.2.2.2.2]) :=
  tuple12_encode tA tB tC tD tE tF tG tH tI tJ tK tL A_enc A_toVal B_enc B_toVal C_enc C_toVal D_enc D_toVal E_enc E_toVal F_enc F_toVal G_enc G_toVal H_enc H_toVal I_enc I_toVal J_enc J_toVal K_enc K_toVal L_enc L_toVal heA heB heC heD heE heF heG heH heI heJ heK heL self hlA hlB hlC hlD hlE hlF hlG hlH hlI hlJ hlK hlL
example : vals (Loops.codec_tuple12_encode (staticLength .phantom) Loops.codec_phantom_encode (staticLength .phantom) Loops.codec_phantom_encode (staticLength .phantom) Loops.codec_phantom_encode (staticLength .phantom) Loops.codec_phantom_encode (staticLength .phantom) Loops.codec_phantom_encode (staticLength .phantom) Loops.codec_phantom_encode (staticLength .phantom) Loops.codec_phantom_encode (staticLength .phantom) Loops.codec_phantom_encode (staticLength .phantom) Loops.codec_phantom_encode (staticLength .phantom) Loops.codec_phantom_encode (staticLength .phantom) Loops.codec_phantom_encode (staticLength .phantom) Loops.codec_phantom_encode ((), (), (), (), (), (), (), (), (), (), (), ())) =
    encode (.tuple [.phantom, .phantom, .phantom, .phantom, .phantom, .phantom, .phantom, .phantom, .phantom, .phantom, .phantom, .phantom]) (.list [Val.unit, Val.unit, Val.unit, Val.unit, Val.unit, Val.unit, Val.unit, Val.unit, Val.unit, Val.unit, Val.unit, Val.unit]) :=
  gen_tuple12_encode_eq_model .phantom .phantom .phantom .phantom .phantom .phantom .phantom .phantom .phantom .phantom .phantom .phantom Loops.codec_phantom_encode (fun _ => Val.unit) Loops.codec_phantom_encode (fun _ => Val.unit) Loops.codec_phantom_encode (fun _ => Val.unit) Loops.codec_phantom_encode (fun _ => Val.unit) Loops.codec_phantom_encode (fun _ => Val.unit) Loops.codec_phantom_encode (fun _ => Val.unit) Loops.codec_phantom_encode (fun _ => Val.unit) Loops.codec_phantom_encode (fun _ => Val.unit) Loops.codec_phantom_encode (fun _ => Val.unit) Loops.codec_phantom_encode (fun _ => Val.unit) Loops.codec_phantom_encode (fun _ => Val.unit) Loops.codec_phantom_encode (fun _ => Val.unit) (fun _ => rfl) (fun _ => rfl) (fun _ => rfl) (fun _ => rfl) (fun _ => rfl) (fun _ => rfl) (fun _ => rfl) (fun _ => rfl) (fun _ => rfl) (fun _ => rfl) (fun _ => rfl) (fun _ => rfl) ((), (), (), (), (), (), (), (), (), (), (), ()) (by decide) (by decide) (by decide) (by decide) (by decide) (by decide) (by decide) (by decide) (by decide) (by decide) (by decide) (by decide)

/-- **transfer to the regenerated tuple code**: what the regenerated pair decoder accepts re-encodes (model encoder) to the values
    of the accepted words -- `encode_decode` of the hand model carried over by the bridge; the same holds for every arity and
    every composite through `gen_combinators_roundtrip_transfer` -/
theorem gen_tuple_roundtrip_transfer {A A_Error B B_Error : Type} (tA tB : Ty)
    (A_dec : List Nat → Res A_Error A) (A_into : A_Error → DynErr) (A_toVal : A → Val)
    (B_dec : List Nat → Res B_Error B) (B_into : B_Error → DynErr) (B_toVal : B → Val)
    (hA : Item A_dec A_toVal (decode tA)) (hB : Item B_dec B_toVal (decode tB)) (r : List Nat) (hw : Words r) (a : A) (b : B)
    (hg : Loops.codec_tuple2_decode (staticLength tA) A_dec A_into (staticLength tB) B_dec B_into r = .ok (a, b)) :
    encode (.tuple [tA, tB]) (.list [A_toVal a, B_toVal b]) = vals r :=
  gen_combinators_roundtrip_transfer (.tuple [tA, tB]) _ _
    (gen_tuple2_decode_eq_model tA tB A_dec A_into A_toVal B_dec B_into B_toVal hA hB).1 r hw (a, b) hg
example : Loops.codec_tuple2_decode (staticLength .phantom) Loops.codec_phantom_decode (fun e => ⟨e⟩)
    (staticLength .phantom) Loops.codec_phantom_decode (fun e => ⟨e⟩) [] = .ok ((), ()) := rfl

end TF.C03
