import TF.Proofs.U32s
import TF.Gen.Consts
import TF.Proofs.GenBridgeU32s
import TF.Proofs.GenBridgeU32s2
/-!
# C19 — fixed-width `U32s<N>` integers compute exactly or panic, never wrap

Property theorems only (helper lemmas: `TF/Proofs/U32s.lean`; model: `TF/Model/U32s.lean`, hand-written after
`twenty-first/src/amount/u32s.rs` and tied to it by the correspondence family `u32s`).

Notation. A `U32s<N>` is its limb list `a : List Nat`, little endian; `WF N a` says: exactly `N` limbs, each `< W = 2^32`.
`val a` is the big-integer value, `ofNat N v` the `N` low limbs of `v` (the unique well-formed list of value `v` when
`v < W^N`). Operations that can panic return `Option`; `none` **is** the panic. Every theorem holds for every limb
count `N` and all well-formed operands.
-/
namespace TF.C19
open TF.U32s

/-- a well-formed limb list is determined by its value; `ofNat` inverts `val` (so `some (ofNat N v)` below means
    "the result is the `U32s<N>` of value exactly `v`") -/
theorem repr_unique {N : Nat} {a b : List Nat} (ha : WF N a) (hb : WF N b) : val a = val b ↔ a = b :=
  ⟨eq_of_val_eq ha hb, fun h => by rw [h]⟩
theorem ofNat_exact {N v : Nat} (h : v < W ^ N) : WF N (ofNat N v) ∧ val (ofNat N v) = v :=
  ⟨WF_ofNat N v, val_ofNat_of_lt h⟩
example : WF 2 [4294967295, 1] ∧ val [4294967295, 1] = 8589934591 := by decide

/-- `Add`: the exact sum if it is representable, panic otherwise (never wraps) -/
theorem add_spec {N : Nat} {a b : List Nat} (ha : WF N a) (hb : WF N b) :
    add a b = if val a + val b < W ^ N then some (ofNat N (val a + val b)) else none :=
  add_eq_norm ha hb
example : add [4294967295, 4294967295, 0] [1, 0, 0] = some [0, 0, 1] := by decide
example : add [4294967295, 4294967295] [1, 0] = none := by decide

/-- `Sub`: the exact difference if it is non-negative, panic otherwise -/
theorem sub_spec {N : Nat} {a b : List Nat} (ha : WF N a) (hb : WF N b) :
    sub a b = if val b ≤ val a then some (ofNat N (val a - val b)) else none :=
  sub_eq ha hb
example : sub [0, 0, 1] [1, 0, 0] = some [4294967295, 4294967295, 0] := by decide
example : sub [0, 0] [1, 0] = none := by decide

/-- `Mul` (schoolbook with per-partial-product carry loops and three overflow asserts): exact product or panic -/
theorem mul_spec {N : Nat} {a b : List Nat} (ha : WF N a) (hb : WF N b) :
    mul a b = if val a * val b < W ^ N then some (ofNat N (val a * val b)) else none :=
  mul_eq_norm ha hb
example : mul [4294967295, 4294967295, 0, 0] [4294967295, 4294967295, 0, 0] = some [1, 0, 4294967294, 4294967295] := by
  decide
example : mul [0, 1] [0, 1] = none := by decide

/-- `mul_two`: exact doubling or panic -/
theorem mul_two_spec {N : Nat} {a : List Nat} (ha : WF N a) :
    mulTwo a = if 2 * val a < W ^ N then some (ofNat N (2 * val a)) else none :=
  mulTwo_eq_norm ha
example : mulTwo [2147483648, 0] = some [0, 1] ∧ mulTwo [0, 2147483648] = none := by decide

/-- `div_two`: exact halving, never panics (the `+= 1 << 31` cannot overflow) -/
theorem div_two_spec {N : Nat} {a : List Nat} (ha : WF N a) : divTwo a = some (ofNat N (val a / 2)) :=
  divTwo_eq ha
example : divTwo [1, 1, 1] = some [2147483648, 2147483648, 0] := by decide

/-- `rem_div` with a non-zero divisor never panics (in particular the inner `mul_two` and `-` cannot overflow) and
    returns exactly quotient and remainder -/
theorem rem_div_spec {N : Nat} {a d : List Nat} (ha : WF N a) (hd : WF N d) (hnz : val d ≠ 0) :
    ∃ q r, remDiv a d = some (q, r) ∧ WF N q ∧ WF N r ∧ val q = val a / val d ∧ val r = val a % val d := by
  have hA := val_lt ha
  have hq : val a / val d < W ^ N := Nat.lt_of_le_of_lt (Nat.div_le_self _ _) hA
  have hr : val a % val d < W ^ N := Nat.lt_of_le_of_lt (Nat.mod_le _ _) hA
  exact ⟨_, _, by rw [remDiv_eq ha hd, if_neg hnz], WF_ofNat _ _, WF_ofNat _ _, val_ofNat_of_lt hq, val_ofNat_of_lt hr⟩
example : remDiv [4294967295, 4294967295] [4294967295, 2147483648] = some ([1, 0], [0, 2147483647]) := by decide

/-- `rem_div` panics exactly for the zero divisor (for `N = 0` every divisor is zero) -/
theorem rem_div_zero_divisor {N : Nat} {a d : List Nat} (ha : WF N a) (hd : WF N d) (hz : val d = 0) :
    remDiv a d = none := by rw [remDiv_eq ha hd, if_pos hz]
example : remDiv [5, 5] [0, 0] = none ∧ remDiv [] [] = none := by decide

/-- `Div` and `Rem` are the components of `rem_div` -/
theorem div_rem_spec {N : Nat} {a d : List Nat} (ha : WF N a) (hd : WF N d) :
    div a d = (if val d = 0 then none else some (ofNat N (val a / val d))) ∧
    rem a d = (if val d = 0 then none else some (ofNat N (val a % val d))) := by
  unfold div rem
  rw [remDiv_eq ha hd]
  by_cases h : val d = 0 <;> simp [h]
example : div [7, 0] [2, 0] = some [3, 0] ∧ rem [7, 0] [2, 0] = some [1, 0] := by decide

/-- `Ord` (reversed-limb lexicographic comparison) is the order of the values; `>=` likewise -/
theorem cmp_spec {N : Nat} {a b : List Nat} (ha : WF N a) (hb : WF N b) :
    U32s.cmp a b = compare (val a) (val b) ∧ (ge a b = true ↔ val b ≤ val a) :=
  ⟨cmp_eq_compare ha hb, ge_iff ha hb⟩
example : U32s.cmp [4294967295, 0] [0, 1] = .lt ∧ U32s.cmp [3, 7] [3, 7] = .eq ∧ U32s.cmp [0, 2] [4294967295, 1] = .gt := by
  decide

/-- `Sum`: the exact total if it is representable, panic otherwise (no intermediate wrap can be compensated later) -/
theorem sum_spec {N : Nat} {l : List (List Nat)} (h : ∀ b ∈ l, WF N b) :
    sum N l = if (l.map val).sum < W ^ N then some (ofNat N (l.map val).sum) else none :=
  sum_eq_norm h
example : sum 2 [[4294967295, 0], [1, 0], [0, 5]] = some [0, 6] := by decide
example : sum 1 [[4294967295], [1], [0]] = none := by decide

/-- `TryFrom<u64>`: succeeds exactly when the value fits `N` limbs, with the exact value (every `N`, incl. 0) -/
theorem try_from_u64_spec (N : Nat) {v : Nat} (hv : v < 2 ^ 64) :
    tryFromU64 N v = if v < W ^ N then some (ofNat N v) else none :=
  tryFromU64_eq_norm N (by norm_num at hv; exact hv)
example : tryFromU64 1 4294967295 = some [4294967295] ∧ tryFromU64 1 4294967296 = none
    ∧ tryFromU64 0 0 = some [] ∧ tryFromU64 0 1 = none := by decide

/-- `TryFrom<u128>`: succeeds exactly when the value fits `N` limbs (the `N = 3` boundary is `2^96`, defect F7;
    `N = 0` accepts exactly 0, defect F12) -/
theorem try_from_u128_spec (N : Nat) {v : Nat} (hv : v < 2 ^ 128) :
    tryFromU128 N v = if v < W ^ N then some (ofNat N v) else none :=
  tryFromU128_eq_norm N (by norm_num at hv; exact hv)
example : tryFromU128 3 79228162514264337593543950335 = some [4294967295, 4294967295, 4294967295]
    ∧ tryFromU128 3 79228162514264337593543950336 = none := by decide

/-- `From<u32>`: the exact value for `N ≥ 1`; for `N = 0` it panics (index out of bounds; pinned by the repository's
    test `crash`) -/
theorem from_u32_spec (N : Nat) {v : Nat} (hv : v < W) :
    fromU32 N v = if 0 < N then some (ofNat N v) else none := by
  cases N with
  | zero => rfl
  | succ n => rw [fromU32_succ n hv, if_pos (Nat.succ_pos n)]
example : fromU32 3 7 = some [7, 0, 0] ∧ fromU32 0 0 = none := by decide

/-- big-integer round trip: `Into<BigUint>` is the value, `From<BigUint>` keeps the value modulo `2^(32N)`, and
    `from ∘ into = id` -/
theorem biguint_roundtrip {N : Nat} {a : List Nat} (ha : WF N a) :
    toBig a = val a ∧ fromBig N (toBig a) = a ∧ ∀ v, WF N (fromBig N v) ∧ val (fromBig N v) = v % W ^ N :=
  ⟨toBig_eq_val a, by rw [toBig_eq_val]; exact ofNat_val ha, fun v => ⟨WF_ofNat N v, val_ofNat N v⟩⟩
example : toBig [1, 2] = 8589934593 ∧ fromBig 2 8589934593 = [1, 2] := by decide

/-- field-element array: the canonical values are the limbs (each below `P`), hence the conversion is injective -/
theorem bfe_array_lossless {N : Nat} {a : List Nat} (ha : WF N a) :
    toBfes a = a ∧ ∀ x ∈ toBfes a, x < TF.Gen.P := by
  refine ⟨rfl, fun x hx => Nat.lt_trans (ha.2 x hx) (by decide)⟩
example : toBfes [4294967295, 0] = [4294967295, 0] := rfl

/-- codec: `decode ∘ encode = id`, and `decode` accepts exactly the sequences of `N` elements `< 2^32` — each the
    encoding of exactly one value (strict and injective) -/
theorem codec_roundtrip {N : Nat} {a : List Nat} (ha : WF N a) :
    decode N (encode a) = some a ∧ (encode a).length = N := by
  refine ⟨?_, ha.1⟩
  rw [decode_eq]; exact if_pos ⟨ha.1, ha.2⟩
theorem decode_strict (N : Nat) (s : List Nat) :
    decode N s = if WF N s then some s else none := decode_eq N s
example : decode 2 [5, 4294967295] = some [5, 4294967295] ∧ decode 2 [5, 4294967296] = none
    ∧ decode 2 [5] = none ∧ decode 2 [1, 2, 3] = none ∧ decode 0 [] = some [] := by decide

end TF.C19

/-! ## regenerated-from-source bridge

The limb loops `Add`, `Sub`, `mul_two`, `div_two` (and `Mul`, `get_bit`, `set_bit`, evaluated by the driver) are **also
regenerated from `u32s.rs` on every run** (`TF/Gen/U32sLoops.lean`, `TF.Gen.Loops.u32s_*`, written by
`tools/rs2lean_loops.py`): `f N a b` is the result of a build that does not panic (wrapping arithmetic), `f_ok N a b` is
true iff every `assert!` holds and every array index is in range, i.e. iff the Rust code does not panic.  The theorems
below (proofs in `TF/Proofs/GenBridgeU32s.lean`) say that "value if ok, panic otherwise" is exactly the hand model, for
**every** `N` and all limb lists of length `N`; the `…_transfer` corollaries restate the C19 theorems for the
regenerated code: *exact or panic, never wraps*.  A change of the Rust text changes `TF.Gen.Loops.u32s_*`; these
theorems are then re-checked or break. -/
namespace TF.C19
open TF.U32s TF.Gen

/-- regenerated `Add for U32s<N>` = hand model -/
theorem gen_add_eq_model (N : Nat) (a b : List Nat) (ha : a.length = N) (hb : b.length = N) :
    (if Loops.u32s_add_ok N a b then some (Loops.u32s_add N a b) else none) = add a b :=
  TF.GenBridge.U32s.gen_add_eq N a b ha hb
example : Loops.u32s_add 3 [4294967295, 4294967295, 0] [1, 0, 0] = [0, 0, 1] ∧
    Loops.u32s_add_ok 3 [4294967295, 4294967295, 0] [1, 0, 0] = true ∧
    Loops.u32s_add_ok 2 [4294967295, 4294967295] [1, 0] = false := by decide

/-- regenerated `Sub for U32s<N>` = hand model -/
theorem gen_sub_eq_model (N : Nat) (a b : List Nat) (ha : a.length = N) (hb : b.length = N) :
    (if Loops.u32s_sub_ok N a b then some (Loops.u32s_sub N a b) else none) = sub a b :=
  TF.GenBridge.U32s.gen_sub_eq N a b ha hb
example : Loops.u32s_sub 3 [0, 0, 1] [1, 0, 0] = [4294967295, 4294967295, 0] ∧
    Loops.u32s_sub_ok 3 [0, 0, 1] [1, 0, 0] = true ∧ Loops.u32s_sub_ok 2 [0, 0] [1, 0] = false := by decide

/-- regenerated `mul_two` = hand model -/
theorem gen_mul_two_eq_model (N : Nat) (a : List Nat) (ha : a.length = N) :
    (if Loops.u32s_mul_two_ok N a then some (Loops.u32s_mul_two N a) else none) = mulTwo a :=
  TF.GenBridge.U32s.gen_mul_two_eq N a ha
example : Loops.u32s_mul_two 2 [2147483648, 0] = [0, 1] ∧ Loops.u32s_mul_two_ok 2 [2147483648, 0] = true ∧
    Loops.u32s_mul_two_ok 2 [0, 2147483648] = false := by decide

/-- regenerated `div_two` (a `for i in (0..N).rev()` loop) = hand model, all well-formed operands -/
theorem gen_div_two_eq_model {N : Nat} {a : List Nat} (ha : WF N a) :
    (if Loops.u32s_div_two_ok N a then some (Loops.u32s_div_two N a) else none) = divTwo a :=
  TF.GenBridge.U32s.gen_div_two_eq N a ha.1 ha.2
example : WF 3 [1, 1, 1] ∧ Loops.u32s_div_two 3 [1, 1, 1] = [2147483648, 2147483648, 0] ∧
    Loops.u32s_div_two_ok 3 [1, 1, 1] = true := by decide

/-- **transfer**: the regenerated `Add`/`Sub`/`mul_two`/`div_two` compute exactly or panic, never wrap — the C19
    statements for the code as it is in the source now -/
theorem gen_limb_loops_transfer {N : Nat} {a b : List Nat} (ha : WF N a) (hb : WF N b) :
    ((if Loops.u32s_add_ok N a b then some (Loops.u32s_add N a b) else none)
        = if val a + val b < W ^ N then some (ofNat N (val a + val b)) else none) ∧
    ((if Loops.u32s_sub_ok N a b then some (Loops.u32s_sub N a b) else none)
        = if val b ≤ val a then some (ofNat N (val a - val b)) else none) ∧
    ((if Loops.u32s_mul_two_ok N a then some (Loops.u32s_mul_two N a) else none)
        = if 2 * val a < W ^ N then some (ofNat N (2 * val a)) else none) ∧
    (Loops.u32s_div_two_ok N a = true ∧ Loops.u32s_div_two N a = ofNat N (val a / 2)) := by
  refine ⟨?_, ?_, ?_, ?_⟩
  · rw [gen_add_eq_model N a b ha.1 hb.1]; exact add_spec ha hb
  · rw [gen_sub_eq_model N a b ha.1 hb.1]; exact sub_spec ha hb
  · rw [gen_mul_two_eq_model N a ha.1]; exact mul_two_spec ha
  · have h := gen_div_two_eq_model ha
    rw [div_two_spec ha] at h
    by_cases hk : Loops.u32s_div_two_ok N a = true
    · rw [if_pos hk] at h; exact ⟨hk, Option.some.inj h⟩
    · rw [if_neg hk] at h; cases h
example : WF 2 [4294967295, 1] ∧ WF 2 [1, 0] := by decide

end TF.C19

/-! ## regenerated-from-source bridge, part 2 (tools/rs2lean_ext.py, `TF/Gen/U32sLoops2.lean`)

`rem_div` (with its calls of the regenerated `mul_two`, `get_bit`, `set_bit`, `>=` through `partial_cmp`/`Ord::cmp`, `-`),
`Ord::cmp` (`iter().rev().cmp(..)`), `is_zero` (`iter().all(|x| *x == 0)`), `zero`, `one`, `From<u32>`, `From<BigUint>`
(`BigUint` = unbounded `Nat`) and `TryFrom<u64/u128>` (`match N { 0 if .. => err, .. }`, `Result` = `Except String`) are
regenerated from `u32s.rs` on every run as well.  Proofs: `TF/Proofs/GenBridgeU32s2.lean`.  `N < 2^59` makes the `usize`
product `32 * N` exact (a `[u32; N]` cannot be larger). -/
namespace TF.C19
open TF.U32s TF.Gen

/-- bound on the limb count under which `32 * N` does not overflow a `usize` -/
def NMax : Nat := 576460752303423488
example : NMax = 2 ^ 59 := by decide

/-- regenerated `get_bit` / `set_bit` = hand model (`none` = the `assert!(bit_index < 32 * N)` panic) -/
theorem gen_get_bit_eq_model {N : Nat} {a : List Nat} (ha : WF N a) (hN : N < NMax) (i : Nat) :
    (if Loops.u32s_get_bit_ok N a i then some (Loops.u32s_get_bit N a i) else none) = getBit a i :=
  TF.GenBridge.U32s2.gen_get_bit_eq N a i ha.1 hN
theorem gen_set_bit_eq_model {N : Nat} {a : List Nat} (ha : WF N a) (hN : N < NMax) (i : Nat) (v : Bool) :
    (if Loops.u32s_set_bit_ok N a i v then some (Loops.u32s_set_bit N a i v) else none) = setBit a i v :=
  TF.GenBridge.U32s2.gen_set_bit_eq N a i v ha.1 ha.2 hN
example : Loops.u32s_get_bit 2 [0, 2147483648] 63 = true ∧ Loops.u32s_get_bit_ok 2 [0, 2147483648] 64 = false ∧
    Loops.u32s_set_bit 2 [5, 0] 33 true = [5, 2] ∧ Loops.u32s_set_bit 2 [5, 2] 0 false = [4, 2] := by decide

/-- regenerated `Ord::cmp` = hand model, hence (transfer of `cmp_spec`) the order of the values; `>=` as Rust evaluates it
    (`PartialOrd::ge` over the regenerated `partial_cmp`) is `val b ≤ val a` -/
theorem gen_cmp_transfer {N : Nat} {a b : List Nat} (ha : WF N a) (hb : WF N b) :
    Loops.u32s_cmp N a b = compare (val a) (val b) ∧
    (TF.RustStd.ord_ge (Loops.u32s_partial_cmp N a b) = true ↔ val b ≤ val a) := by
  rw [TF.GenBridge.U32s2.gen_cmp_eq, TF.GenBridge.U32s2.gen_ge_eq]
  exact cmp_spec ha hb
example : Loops.u32s_cmp 2 [4294967295, 0] [0, 1] = .lt ∧ Loops.u32s_cmp 2 [0, 2] [4294967295, 1] = .gt ∧
    TF.RustStd.ord_ge (Loops.u32s_partial_cmp 2 [3, 7] [3, 7]) = true := by decide

/-- regenerated `rem_div` = hand model -/
theorem gen_rem_div_eq_model {N : Nat} {a d : List Nat} (ha : WF N a) (hd : WF N d) (hN : N < NMax) :
    (if Loops.u32s_rem_div_ok N a d then some (Loops.u32s_rem_div N a d) else none) = remDiv a d :=
  TF.GenBridge.U32s2.gen_rem_div_eq N a d ha hd hN

/-- **transfer of `rem_div_spec`**: the `rem_div` that is in the source now, on a non-zero divisor, never panics (no
    `assert!` fails, none of the inner `mul_two`/`-` overflows, no index is out of range) and returns exactly quotient
    and remainder; on the zero divisor it panics -/
theorem gen_rem_div_transfer {N : Nat} {a d : List Nat} (ha : WF N a) (hd : WF N d) (hN : N < NMax) :
    (val d ≠ 0 → Loops.u32s_rem_div_ok N a d = true ∧
        Loops.u32s_rem_div N a d = (ofNat N (val a / val d), ofNat N (val a % val d))) ∧
    (val d = 0 → Loops.u32s_rem_div_ok N a d = false) := by
  have h := gen_rem_div_eq_model ha hd hN
  rw [remDiv_eq ha hd] at h
  constructor
  · intro hnz
    rw [if_neg hnz] at h
    by_cases hk : Loops.u32s_rem_div_ok N a d = true
    · rw [if_pos hk] at h; exact ⟨hk, Option.some.inj h⟩
    · rw [if_neg hk] at h; cases h
  · intro hz
    rw [if_pos hz] at h
    by_cases hk : Loops.u32s_rem_div_ok N a d = true
    · rw [if_pos hk] at h; cases h
    · simpa using hk
example : WF 2 [4294967295, 4294967295] ∧ WF 2 [4294967295, 2147483648] ∧ val [4294967295, 2147483648] ≠ 0 ∧
    Loops.u32s_rem_div 2 [4294967295, 4294967295] [4294967295, 2147483648] = ([1, 0], [0, 2147483647]) ∧
    Loops.u32s_rem_div_ok 2 [5, 5] [0, 0] = false := by decide +kernel

/-- regenerated `Mul for U32s<N>` = hand model (value and fuel: when the model returns a value the regenerated loops finish
    within their fuel with that value and no `assert!` fails; when the model panics an `assert!` of the regenerated code fails) -/
theorem gen_mul_eq_model {N : Nat} {a b : List Nat} (ha : WF N a) (hb : WF N b) (hN : N < NMax) :
    (∀ r, mul a b = some r → Loops.u32s_mul N a b = some r ∧ Loops.u32s_mul_ok N a b = true) ∧
    (mul a b = none → Loops.u32s_mul_ok N a b = false) :=
  TF.GenBridge.U32s2.gen_mul_eq N a b ha hb hN

/-- **transfer of `mul_spec`**: the `Mul` that is in the source now returns the exact product when it is representable
    (finishing within the fuel, no `assert!` failing) and panics (an `assert!` fails) otherwise — never wraps -/
theorem gen_mul_transfer {N : Nat} {a b : List Nat} (ha : WF N a) (hb : WF N b) (hN : N < NMax) :
    (val a * val b < W ^ N → Loops.u32s_mul N a b = some (ofNat N (val a * val b)) ∧ Loops.u32s_mul_ok N a b = true) ∧
    (¬ val a * val b < W ^ N → Loops.u32s_mul_ok N a b = false) := by
  obtain ⟨hs, hn⟩ := gen_mul_eq_model ha hb hN
  have h := mul_spec ha hb
  constructor
  · intro hlt; rw [if_pos hlt] at h; exact hs _ h
  · intro hge; rw [if_neg hge] at h; exact hn h
example : WF 4 [4294967295, 4294967295, 0, 0] ∧
    Loops.u32s_mul 4 [4294967295, 4294967295, 0, 0] [4294967295, 4294967295, 0, 0] = some [1, 0, 4294967294, 4294967295] ∧
    Loops.u32s_mul_ok 4 [4294967295, 4294967295, 0, 0] [4294967295, 4294967295, 0, 0] = true ∧
    Loops.u32s_mul_ok 2 [0, 1] [0, 1] = false := by decide +kernel

/-- regenerated `is_zero`, `zero`, `one`, `From<u32>` = hand model -/
theorem gen_small_eq_model (N : Nat) (a : List Nat) (v : Nat) :
    Loops.u32s_is_zero N a = isZero a ∧ Loops.u32s_zero N = zero N ∧
    (if Loops.u32s_one_ok N then some (Loops.u32s_one N) else none) = one N ∧
    (if Loops.u32s_from_u32_ok N v then some (Loops.u32s_from_u32 N v) else none) = fromU32 N v :=
  ⟨rfl, rfl, TF.GenBridge.U32s2.gen_one_eq N, TF.GenBridge.U32s2.gen_from_u32_eq N v⟩
example : Loops.u32s_from_u32 3 7 = [7, 0, 0] ∧ Loops.u32s_from_u32_ok 0 7 = false ∧ Loops.u32s_one 2 = [1, 0] := by decide

/-- **transfer of `try_from_u64_spec` / `try_from_u128_spec`**: the conversions that are in the source now (the `match N`
    arms and the `From<BigUint>` limb loop) never panic and succeed exactly when the value fits `N` limbs, with the exact
    value (`Except.error _` = `Err(InsufficientSize)`) -/
theorem gen_try_from_transfer (N : Nat) {v : Nat} :
    (v < 2 ^ 64 → Loops.u32s_try_from_u64_ok N v = true ∧
      TF.GenBridge.U32s2.toOpt (Loops.u32s_try_from_u64 N v) = if v < W ^ N then some (ofNat N v) else none) ∧
    (v < 2 ^ 128 → Loops.u32s_try_from_u128_ok N v = true ∧
      TF.GenBridge.U32s2.toOpt (Loops.u32s_try_from_u128 N v) = if v < W ^ N then some (ofNat N v) else none) := by
  constructor
  · intro hv
    obtain ⟨k, e⟩ := TF.GenBridge.U32s2.gen_try_from_u64_eq N v
    exact ⟨k, by rw [e]; exact try_from_u64_spec N hv⟩
  · intro hv
    obtain ⟨k, e⟩ := TF.GenBridge.U32s2.gen_try_from_u128_eq N v
    exact ⟨k, by rw [e]; exact try_from_u128_spec N hv⟩
example : Loops.u32s_try_from_u64 1 4294967295 = .ok [4294967295] ∧
    Loops.u32s_try_from_u64 1 4294967296 = .error "InsufficientSize" ∧
    Loops.u32s_try_from_u128 3 79228162514264337593543950335 = .ok [4294967295, 4294967295, 4294967295] ∧
    Loops.u32s_try_from_u128 3 79228162514264337593543950336 = .error "InsufficientSize" := by decide

/-- regenerated `From<BigUint>` never panics and equals the hand model (the `N` low limbs) -/
theorem gen_from_biguint_eq_model (N v : Nat) :
    Loops.u32s_from_biguint_ok N v = true ∧ Loops.u32s_from_biguint N v = fromBig N v :=
  TF.GenBridge.U32s2.gen_from_biguint_eq N v
example : Loops.u32s_from_biguint 2 8589934593 = [1, 2] := by decide

end TF.C19
