import TF.Model.MmrMember
import TF.Spec.MmrE
/-!
# C05 — MMR membership proofs stay exact through every history; verification exact  (theorems follow)
-/
namespace TF.C05
open TF.Model.MmrE

/-- a claim about a leaf index outside the range is rejected -/
theorem verify_rejects_out_of_range {D : Type} [DecidableEq D] (H : D → D → D) (path : List D) (i : Nat) (leaf : D)
    (peaks : List D) (n : Nat) (h : i ≥ n) : memberVerify H path i leaf peaks n = some false := by
  unfold memberVerify; rw [if_pos h]

end TF.C05
