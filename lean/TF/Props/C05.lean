import TF.Proofs.MmrMember
import TF.Proofs.MmrNodeIndex
import TF.Proofs.MmrUpdAppend
import TF.Proofs.MmrUpdAppendBatch
import TF.Proofs.MmrUpdMutate
import TF.Proofs.MmrBatchMutate
import TF.Proofs.GenBridgeMmrProof
/-!
# C05 — MMR membership proofs stay exact through every history; verification exact

Property theorems only (helper lemmas: `TF/Proofs/MmrE.lean`, `TF/Proofs/MmrMember.lean`, `TF/Proofs/MmrNodeIndex.lean`,
`TF/Proofs/MmrUpdAppend.lean`, `TF/Proofs/MmrUpdAppendBatch.lean`).

Model (`TF/Model/MmrMember.lean`, `TF/Model/MmrAccE.lean`; `none` = panic or non-termination of the Rust code):
`memberVerify` = `MmrMembershipProof::verify`, `updateFromAppend`, `batchUpdateFromAppend`, `updateFromLeafMutation`,
`batchUpdateFromLeafMutation`, `batchUpdateFromBatchLeafMutation`, `Acc.batchMutateLeafAndUpdateMps`, `Acc.append`,
`Acc.mutateLeaf`; `HState.run` replays a history with every leaf's proof tracked.  A membership proof is its list of
digests; `H` is an arbitrary hash.  The index function inside `verify` is regenerated from `shared_basic.rs`.

Specification (`TF/Spec/MmrE.lean`), for a leaf list `g : Nat → D` and `n` leaves: `peaks H n g` the from-scratch
peaks; `locate n i = (height, index in tree, peak index)` of the tree containing leaf `i`;
`authPathOf H g n i` the from-scratch authentication path of leaf `i` (siblings from the bottom up to, excluding, the
peak); `foldBlk H i leaf path` hashes the leaf up the path, left/right by the bits of `i`.
-/
namespace TF.C05
open TF.Model.MmrE TF.Spec.MmrE TF.MmrE

variable {D : Type} [DecidableEq D] (H : D → D → D)

/-! ## verification is exact and total -/

/-- **verify_iff**: a claim `(leaf index, leaf, peaks, leaf count, path)` is accepted if and only if the index is in
    range, the number of peaks matches the leaf count, the path length is the height of the leaf's tree, and hashing the
    leaf up the path (left/right by the bits of the index) reproduces the peak covering that index. -/
theorem verify_iff (path : List D) (i : Nat) (leaf : D) (pks : List D) (n : Nat) (hn : n < 2 ^ 64)
    (hlen : pks.length < 2 ^ 32) :
    memberVerify H path i leaf pks n = some true ↔
      i < n ∧ pks.length = TF.popCount n ∧ path.length = (locate n i).1 ∧
      pks[(locate n i).2.2]? = some (foldBlk H i leaf path) := by
  rw [memberVerify_eq_spec H path i leaf pks n hn hlen]
  simp only [Option.some.injEq, memberVerifyRef, Bool.and_eq_true, decide_eq_true_eq, beq_iff_eq]
  constructor
  · rintro ⟨⟨⟨a, b⟩, c⟩, d⟩; exact ⟨a, b, c, d⟩
  · rintro ⟨a, b, c, d⟩; exact ⟨⟨⟨a, b⟩, c⟩, d⟩

/-- **never panics**: on every tuple (any index, any peak list shorter than 2^32, any path length, any `u64` count)
    `verify` returns `true` or `false` -/
theorem verify_total (path : List D) (i : Nat) (leaf : D) (pks : List D) (n : Nat) (hn : n < 2 ^ 64)
    (hlen : pks.length < 2 ^ 32) : ∃ b, memberVerify H path i leaf pks n = some b :=
  ⟨_, memberVerify_eq_spec H path i leaf pks n hn hlen⟩
example : ∃ b, memberVerify (fun a b : Nat => a + 2 * b) [1, 2, 3] 7 0 [] 5 = some b :=
  verify_total _ _ _ _ _ _ (by decide) (by decide)

/-- the only panic: a peak vector that does not fit a `u32` length, for an in-range index -/
theorem verify_panics_iff (path : List D) (i : Nat) (leaf : D) (pks : List D) (n : Nat) (hn : n < 2 ^ 64) :
    memberVerify H path i leaf pks n = none ↔ i < n ∧ 2 ^ 32 ≤ pks.length := by
  by_cases h1 : i ≥ n
  · unfold memberVerify; rw [if_pos h1]
    constructor
    · intro h; cases h
    · intro h; omega
  · by_cases h2 : pks.length ≥ 2 ^ 32
    · unfold memberVerify; rw [if_neg h1]
      refine ⟨fun _ => ⟨by omega, h2⟩, fun _ => ?_⟩
      simp only [if_pos h2]
    · rw [memberVerify_eq_spec H path i leaf pks n hn (by omega)]
      constructor
      · intro h; cases h
      · intro h; omega

/-- malformed claims (index out of range, wrong number of peaks, path too long or too short) are rejected -/
theorem verify_rejects_malformed (path : List D) (i : Nat) (leaf : D) (pks : List D) (n : Nat) (hn : n < 2 ^ 64)
    (hlen : pks.length < 2 ^ 32)
    (h : n ≤ i ∨ pks.length ≠ TF.popCount n ∨ path.length ≠ (locate n i).1) :
    memberVerify H path i leaf pks n = some false := by
  obtain ⟨b, hb⟩ := verify_total H path i leaf pks n hn hlen
  cases b with
  | false => exact hb
  | true =>
    have := (verify_iff H path i leaf pks n hn hlen).mp hb
    rcases h with h | h | h
    · omega
    · exact absurd this.2.1 h
    · exact absurd this.2.2.1 h
example : memberVerify (fun a b : Nat => a + 2 * b) [] 0 7 [7, 8] 1 = some false :=
  verify_rejects_malformed _ _ _ _ _ _ (by decide) (by decide) (Or.inr (Or.inl (by simp [TF.popCount])))

/-- completeness against the from-scratch forest: the from-scratch authentication path of every leaf verifies against
    the from-scratch peaks -/
theorem verify_accepts_auth_path (g : Nat → D) (n i : Nat) (hlt : i < n) (hn : n < 2 ^ 64) :
    memberVerify H (authPathOf H g n i) i (g i) (peaks H n g) n = some true := by
  have hl : (peaks H n g).length < 2 ^ 32 := by
    rw [peaks_length]; have := popCount_lt_two_pow 64 n hn; omega
  rw [memberVerify_eq_spec H _ i (g i) _ n hn hl, member_complete H g n i hlt]

/-- soundness against the from-scratch forest: whatever verifies against the from-scratch peaks is the true leaf with
    its from-scratch path — or an explicit collision of the hash function -/
theorem verify_sound_leaves (g : Nat → D) (path : List D) (n i : Nat) (leaf : D) (hn : n < 2 ^ 64)
    (h : memberVerify H path i leaf (peaks H n g) n = some true) :
    (i < n ∧ leaf = g i ∧ path = authPathOf H g n i) ∨ Collision H := by
  have hl : (peaks H n g).length < 2 ^ 32 := by
    rw [peaks_length]; have := popCount_lt_two_pow 64 n hn; omega
  rw [memberVerify_eq_spec H path i leaf _ n hn hl] at h
  exact member_sound H g path n i leaf (Option.some.inj h)

/-! ## append and mutation -/

/-- **append_returns_auth_path**: appending leaf `g n` to the accumulator of `g 0 … g (n-1)` yields the accumulator of
    `g 0 … g n` and returns exactly the from-scratch authentication path of the new leaf -/
theorem append_returns_auth_path (g : Nat → D) (n : Nat) (hn : n + 1 < 2 ^ 64) :
    Acc.append H ⟨n, peaks H n g⟩ (g n) = some (⟨n + 1, peaks H (n + 1) g⟩, authPathOf H g (n + 1) n) :=
  append_spec H n g hn
example : Acc.append (fun a b : Nat => a + 2 * b) ⟨1, [3]⟩ 5 = some (⟨2, [13]⟩, [3]) := by decide +kernel

/-- **mutation_keeps_own_proof**: mutating leaf `i` with its from-scratch path yields the from-scratch accumulator of
    the changed leaf list; the leaf's own path is unchanged, is the from-scratch path in the new range, and verifies
    for the new leaf against the new peaks -/
theorem mutation_keeps_own_proof (g : Nat → D) (n i : Nat) (d : D) (hlt : i < n) (hn : n < 2 ^ 64) :
    Acc.mutateLeaf H ⟨n, peaks H n g⟩ i d (authPathOf H g n i) = some ⟨n, peaks H n (Function.update g i d)⟩ ∧
    authPathOf H (Function.update g i d) n i = authPathOf H g n i ∧
    memberVerify H (authPathOf H g n i) i d (peaks H n (Function.update g i d)) n = some true := by
  refine ⟨mutateLeaf_spec H g n i d hlt hn, authPathOf_update_self H g n i d, ?_⟩
  have := verify_accepts_auth_path H (Function.update g i d) n i hlt hn
  rwa [authPathOf_update_self, Function.update_self] at this

/-! ## the update routines and whole histories

**Append routines: proved.**  `update_from_append_spec` and `batch_update_from_append_spec` below are theorems (helper
lemmas in `TF/Proofs/MmrUpdAppend.lean`, `TF/Proofs/MmrUpdAppendBatch.lean`: the index functions
`node_indices_added_by_append`, `get_peak_heights_and_peak_node_indices`, `get_authentication_path_node_indices`,
`get_peak_index_and_height` in post-order `nodeIdx` form, and the `HashMap` bookkeeping of `known_digests`).

**Mutation routines: proved.**  `update_from_leaf_mutation_spec`, `batch_update_from_leaf_mutation_spec`,
`batch_update_from_batch_leaf_mutation_spec` (`TF/Proofs/MmrUpdMutate.lean`) and the accumulator routine
`batch_mutate_leaf_and_update_mps_spec` (`TF/Proofs/MmrBatchMutate.lean`) are theorems; the excluded branches (duplicated
mutated leafs panic) have their own theorems.  **Histories: proved.**  `history_preserves_proofs` at the end of the file is
the induction over the operation list on top of the per-routine theorems.  The bounded model check `mmrp free_check` (all
MMR shapes up to 64 leaves over a free hash algebra) and the correspondence histories remain as tests of the model. -/

/-- indices `k` of the handed proofs whose digests changed between the leaf lists `g` and `g'` -/
def changedSlots (g g' : Nat → D) (n n' : Nat) (lis : List Nat) : List Nat :=
  (List.range lis.length).filter fun k => decide (authPathOf H g' n' (lis.getD k 0) ≠ authPathOf H g n (lis.getD k 0))

/-- apply a batch of leaf assignments -/
def applyMuts (g : Nat → D) (ms : List (Nat × D)) : Nat → D := ms.foldl (fun g m => Function.update g m.1 m.2) g

/-- **update_from_append_spec** (`MmrMembershipProof::update_from_append`): given the from-scratch path of leaf `i` in
    the `n`-leaf range, the old peaks and the new leaf, the routine returns exactly the from-scratch path of leaf `i`
    in the `(n+1)`-leaf range, and `true` iff the path changed — for every hash, every leaf list, every `i < n`, every
    leaf count with `n + 1 < 2^63`; it never panics there.  (Helper lemmas: `TF/Proofs/MmrUpdAppend.lean`.) -/
theorem update_from_append_spec (g : Nat → D) (n i : Nat) (hlt : i < n) (hn : n + 1 < 2 ^ 63) :
    updateFromAppend H (authPathOf H g n i) i n (g n) (peaks H n g)
      = some (authPathOf H g (n + 1) i, decide (authPathOf H g (n + 1) i ≠ authPathOf H g n i)) :=
  UpdAppend.updateFromAppend_spec H g n i hlt hn
/-- non-vacuity: 3 leaves `1, 2, 3` under the toy hash `a + 2 b`, peaks `[5, 3]`; appending `4` merges everything, the
    proof `[2]` of leaf 0 becomes `[2, 11]` -/
example : updateFromAppend (fun a b : Nat => a + 2 * b) [2] 0 3 4 [5, 3] = some ([2, 11], true) := by decide +kernel
example : authPathOf (fun a b : Nat => a + 2 * b) (fun k => k + 1) 4 0 = [2, 11] ∧
    authPathOf (fun a b : Nat => a + 2 * b) (fun k => k + 1) 3 0 = [2] ∧
    peaks (fun a b : Nat => a + 2 * b) 3 (fun k => k + 1) = [5, 3] := by decide +kernel

/-- **batch_update_from_append_spec** (`MmrMembershipProof::batch_update_from_append`): for any list of old leaf
    indices (any subset, any order, repetitions allowed) handed over with their from-scratch paths, the routine returns
    exactly the from-scratch paths in the `(n+1)`-leaf range and reports exactly the slots whose path changed — for every
    hash, every leaf list, every leaf count with `n + 1 < 2^63`; it never panics there. -/
theorem batch_update_from_append_spec (g : Nat → D) (n : Nat) (lis : List Nat) (hall : ∀ i ∈ lis, i < n)
    (hn : n + 1 < 2 ^ 63) :
    batchUpdateFromAppend H (lis.map (authPathOf H g n)) lis n (g n) (peaks H n g)
      = some (lis.map (authPathOf H g (n + 1)), changedSlots H g g n (n + 1) lis) :=
  UpdAppend.batchUpdateFromAppend_spec H g n lis hall hn
/-- non-vacuity: 7 leaves `1 … 7` under the toy hash `a + 2 b` (peaks `[27, 17, 7]`), appending `8` merges all three
    trees; the proofs of the leaves `6, 0, 4` (in this order) are extended by 3, 1, 2 digests and all slots are reported -/
example : batchUpdateFromAppend (fun a b : Nat => a + 2 * b) [[], [2, 11], [6]] [6, 0, 4] 7 8 [27, 17, 7]
    = some ([[8, 17, 27], [2, 11, 63], [6, 23, 27]], [0, 1, 2]) := by decide +kernel
example : [6, 0, 4].map (authPathOf (fun a b : Nat => a + 2 * b) (fun k => k + 1) 7) = [[], [2, 11], [6]] ∧
    [6, 0, 4].map (authPathOf (fun a b : Nat => a + 2 * b) (fun k => k + 1) 8) = [[8, 17, 27], [2, 11, 63], [6, 23, 27]] ∧
    peaks (fun a b : Nat => a + 2 * b) 7 (fun k => k + 1) = [27, 17, 7] := by decide +kernel
/-- non-vacuity, mixed: 5 leaves, appending a 6th merges only the last tree; leaf 4 handed over twice: slots 0 and 2
    change, slot 1 (leaf 0) does not -/
example : batchUpdateFromAppend (fun a b : Nat => a + 2 * b) [[], [2, 11], []] [4, 0, 4] 5 6 [27, 5]
    = some ([[6], [2, 11], [6]], [0, 2]) := by decide +kernel
/-- non-vacuity of the early return: 6 leaves, appending a 7th merges nothing, nothing is reported -/
example : batchUpdateFromAppend (fun a b : Nat => a + 2 * b) [[2, 11], [6]] [0, 4] 6 7 [27, 17] = some ([[2, 11], [6]], [])
    := by decide +kernel

/-! ### leaf mutations: the three membership-proof routines, proved (helper lemmas: `TF/Proofs/MmrUpdMutate.lean`)

The digest at slot `t` of the path of leaf `i` is the root of the sibling block `sibBlk (i / 2^t)` of level `t`, stored
under its post-order node index; a mutation of leaf `j` recomputes the blocks `j / 2^t` bottom-up along `j`'s path.  The
routines' maps of recomputed digests satisfy: what is stored under a node below a peak is its digest in the new leaf
list, what is not stored did not change (`MapInv`); the replacement loops turn that into the new from-scratch path. -/

/-- **update_from_leaf_mutation_spec**: `update_from_leaf_mutation`, given the from-scratch path of leaf `i` and the
    mutation of leaf `j` (with its from-scratch path), never panics and leaves exactly the from-scratch path of `i` in
    the changed leaf list; it returns `false` only if nothing changed.  (It returns `true` whenever the mutated leaf
    lies under one of the path's sibling nodes, also when the recomputed digest equals the stored one.) -/
theorem update_from_leaf_mutation_spec :
  ∀ (D : Type) [DecidableEq D] (H : D → D → D) (g : Nat → D) (n i j : Nat) (d : D), i < n → j < n → n < 2 ^ 63 →
    ∃ b, updateFromLeafMutation H (authPathOf H g n i) i ⟨j, d, authPathOf H g n j⟩
        = some (authPathOf H (Function.update g j d) n i, b) ∧
      (b = false → authPathOf H (Function.update g j d) n i = authPathOf H g n i) := by
  intro D _ H g n i j d hi hj hn
  obtain ⟨b, h1, h2, _⟩ := updateFromLeafMutation_spec H g n i j d hi hj hn
  exact ⟨b, h1, h2⟩
example : (0 : Nat) < 7 ∧ (3 : Nat) < 7 ∧ (7 : Nat) < 2 ^ 63 := by decide
/-- 7 leafs `1 … 7`, leaf 3 becomes 100: the proof `[2, 11]` of leaf 0 becomes `[2, 203]`; a mutation in another tree
    leaves it alone -/
example : updateFromLeafMutation (fun a b : Nat => a + 2 * b) [2, 11] 0 ⟨3, 100, [3, 5]⟩ = some ([2, 203], true) ∧
    updateFromLeafMutation (fun a b : Nat => a + 2 * b) [2, 11] 0 ⟨5, 100, [5]⟩ = some ([2, 11], false) := by
  decide +kernel

/-- the flag of `update_from_leaf_mutation` exactly: `true` iff the mutated leaf `j` lies under one of the sibling
    nodes of `i`'s path (i.e. `j ≠ i` is in the tree of `i`) - whether or not the recomputed digest differs -/
theorem update_from_leaf_mutation_flag :
  ∀ (D : Type) [DecidableEq D] (H : D → D → D) (g : Nat → D) (n i j : Nat) (d : D), i < n → j < n → n < 2 ^ 63 →
    ∃ b, updateFromLeafMutation H (authPathOf H g n i) i ⟨j, d, authPathOf H g n j⟩
        = some (authPathOf H (Function.update g j d) n i, b) ∧
      (b = true ↔ ∃ t < (locate n i).1, sibBlk (i / 2 ^ t) = j / 2 ^ t) := by
  intro D _ H g n i j d hi hj hn
  obtain ⟨b, h1, _, h3⟩ := updateFromLeafMutation_spec H g n i j d hi hj hn
  exact ⟨b, h1, h3⟩
/-- leaf 3 "becomes" 4, the digest it holds: the proof of leaf 0 is unchanged, the routine still returns `true` -/
example : updateFromLeafMutation (fun a b : Nat => a + 2 * b) [2, 11] 0 ⟨3, 4, [3, 5]⟩ = some ([2, 11], true) := by
  decide +kernel

/-- **batch_update_from_leaf_mutation_spec**: `batch_update_from_leaf_mutation`, given the from-scratch paths of any
    list of leafs (any subset, any order, repetitions allowed) and the mutation of leaf `j` with its from-scratch path,
    never panics, leaves exactly the from-scratch paths in the changed leaf list, and reports exactly the positions of
    the proofs whose digests changed (none if the leaf is "mutated" to a digest that leaves them all unchanged) -/
theorem batch_update_from_leaf_mutation_spec :
  ∀ (D : Type) [DecidableEq D] (H : D → D → D) (g : Nat → D) (n j : Nat) (d : D) (lis : List Nat),
    (∀ i ∈ lis, i < n) → j < n → n < 2 ^ 63 →
    batchUpdateFromLeafMutation H (lis.map (authPathOf H g n)) lis ⟨j, d, authPathOf H g n j⟩
      = some (lis.map (authPathOf H (Function.update g j d) n), changedSlots H g (Function.update g j d) n n lis) := by
  intro D _ H g n j d lis hlis hj hn
  exact batchUpdateFromLeafMutation_spec H g n j d lis hlis hj hn
example : (∀ i ∈ [0, 2, 5, 3, 6], i < 7) ∧ (3 : Nat) < 7 ∧ (7 : Nat) < 2 ^ 63 := by decide
/-- 7 leafs `1 … 7`, proofs of the leafs 0, 2, 5, 3, 6; leaf 3 becomes 100: the proofs of leafs 0 and 2 (positions 0
    and 1) change; leaf 3 "becomes" 4, the digest it holds: nothing changes, nothing is reported -/
example : batchUpdateFromLeafMutation (fun a b : Nat => a + 2 * b) [[2, 11], [4, 5], [5], [3, 5], []] [0, 2, 5, 3, 6]
      ⟨3, 100, [3, 5]⟩ = some ([[2, 203], [100, 5], [5], [3, 5], []], [0, 1]) ∧
    batchUpdateFromLeafMutation (fun a b : Nat => a + 2 * b) [[2, 11], [4, 5], [5], [3, 5], []] [0, 2, 5, 3, 6]
      ⟨3, 4, [3, 5]⟩ = some ([[2, 11], [4, 5], [5], [3, 5], []], []) := by
  decide +kernel

/-- **batch_update_from_batch_leaf_mutation_spec**: `batch_update_from_batch_leaf_mutation`, given the from-scratch
    paths of any list of leafs and mutations of distinct leafs in any order, each with its from-scratch path *before*
    the batch, never panics, leaves exactly the from-scratch paths in the leaf list after the whole batch, and reports
    exactly the positions of the proofs whose digests changed -/
theorem batch_update_from_batch_leaf_mutation_spec :
  ∀ (D : Type) [DecidableEq D] (H : D → D → D) (g : Nat → D) (n : Nat) (ms : List (Nat × D)) (lis : List Nat),
    (∀ i ∈ lis, i < n) → (∀ m ∈ ms, m.1 < n) → (ms.map (·.1)).Nodup → n < 2 ^ 63 →
    batchUpdateFromBatchLeafMutation H (lis.map (authPathOf H g n)) lis
        (ms.map fun m => ⟨m.1, m.2, authPathOf H g n m.1⟩)
      = some (lis.map (authPathOf H (applyMuts g ms) n), changedSlots H g (applyMuts g ms) n n lis) := by
  intro D _ H g n ms lis hlis hms hnd hn
  exact batchUpdateFromBatchLeafMutation_spec H g n ms lis hlis hms hnd hn
example : (∀ m ∈ [((3 : Nat), (100 : Nat)), (0, 50), (5, 9)], m.1 < 7) ∧
    ([((3 : Nat), (100 : Nat)), (0, 50), (5, 9)].map (·.1)).Nodup := by decide
/-- 7 leafs `1 … 7`, proofs of the leafs 0, 2, 5, 3, 6; the leafs 3, 0, 5 become 100, 50, 9 -/
example : batchUpdateFromBatchLeafMutation (fun a b : Nat => a + 2 * b) [[2, 11], [4, 5], [5], [3, 5], []]
      [0, 2, 5, 3, 6] [⟨3, 100, [3, 5]⟩, ⟨0, 50, [2, 11]⟩, ⟨5, 9, [5]⟩]
    = some ([[2, 203], [100, 54], [5], [3, 54], []], [0, 1, 3]) := by
  decide +kernel

/-- the excluded branch of `batch_update_from_batch_leaf_mutation_spec`: a batch that mutates a leaf twice makes
    `batch_update_from_batch_leaf_mutation` panic (`assert!(former_value.is_none())`), whatever proofs are handed -/
theorem batch_update_from_batch_leaf_mutation_duplicate_panics :
  ∀ (D : Type) [DecidableEq D] (H : D → D → D) (paths : List (List D)) (lis : List Nat) (lms : List (LeafMutation D)),
    ¬ (lms.map (·.leaf_index)).Nodup → batchUpdateFromBatchLeafMutation H paths lis lms = none := by
  intro D _ H paths lis lms h
  exact batchUpdateFromBatchLeafMutation_dup_panics H paths lis lms h
example : batchUpdateFromBatchLeafMutation (fun a b : Nat => a + 2 * b) [[2, 11]] [0]
    [⟨1, 100, [1, 11]⟩, ⟨3, 7, [3, 5]⟩, ⟨1, 101, [1, 11]⟩] = none := by decide +kernel

/-- `MmrAccumulator::batch_mutate_leaf_and_update_mps`: additionally the accumulator becomes the from-scratch one -/
def batch_mutate_leaf_and_update_mps_spec_statement : Prop :=
  ∀ (D : Type) [DecidableEq D] (H : D → D → D) (g : Nat → D) (n : Nat) (ms : List (Nat × D)) (lis : List Nat),
    (∀ i ∈ lis, i < n) → (∀ m ∈ ms, m.1 < n) → (ms.map (·.1)).Nodup → n < 2 ^ 63 →
    Acc.batchMutateLeafAndUpdateMps H ⟨n, peaks H n g⟩ (lis.map (authPathOf H g n)) lis
        (ms.map fun m => ⟨m.1, m.2, authPathOf H g n m.1⟩)
      = some (⟨n, peaks H n (applyMuts g ms)⟩, lis.map (authPathOf H (applyMuts g ms) n),
          changedSlots H g (applyMuts g ms) n n lis)

/-- the leaf list after an operation -/
def leavesStep (s : Nat × (Nat → D)) : HOp D → Nat × (Nat → D)
  | .append d => (s.1 + 1, Function.update s.2 s.1 d)
  | .mutate i d => (s.1, Function.update s.2 i d)
  | .batch ms => (s.1, applyMuts s.2 ms)

/-- operations are applied to existing leafs, batches mutate distinct leafs, the range stays below `2^63` leafs -/
def validHistory : Nat × (Nat → D) → List (HOp D) → Prop
  | _, [] => True
  | s, op :: ops =>
    (match op with
      | .append _ => s.1 + 1 < 2 ^ 63
      | .mutate i _ => i < s.1
      | .batch ms => (∀ m ∈ ms, m.1 < s.1) ∧ (ms.map (·.1)).Nodup) ∧ validHistory (leavesStep s op) ops

/-- the state is the from-scratch accumulator together with the from-scratch path of every leaf -/
def Honest (st : HState D) (s : Nat × (Nat → D)) : Prop :=
  st.acc = ⟨s.1, peaks H s.1 s.2⟩ ∧ st.proofs = (List.range s.1).map (authPathOf H s.2 s.1)

/-- **history_preserves_proofs** (full statement): from the empty range, after any valid history in which every
    proof is passed through the matching update routine, the accumulator is the from-scratch accumulator of the
    current leaf list and every leaf's proof is exactly its from-scratch authentication path (hence verifies, by
    `verify_accepts_auth_path`) -/
def history_preserves_proofs_statement : Prop :=
  ∀ (D : Type) [DecidableEq D] (H : D → D → D) (g0 : Nat → D) (ops : List (HOp D)), validHistory (0, g0) ops →
    ∃ st, HState.run H ⟨⟨0, []⟩, []⟩ ops = some st ∧ Honest H st (ops.foldl leavesStep (0, g0))

/-- **what is proved about `update_from_append`** (specification level): after an append, the from-scratch path of an
    old leaf is its old path extended by the sibling digests between its old peak and its new peak, and nothing else
    changes; the tree above a leaf never gets lower.  (That the routine computes exactly this extension from the old
    peaks and the new leaf is `update_from_append_spec`, proved above.) -/
theorem auth_path_after_append (g : Nat → D) (n i : Nat) (hlt : i < n) :
    (locate n i).1 ≤ (locate (n + 1) i).1 ∧
    authPathOf H g (n + 1) i = authPathOf H g n i ++
      sibPath H g (locate n i).1 ((locate (n + 1) i).1 - (locate n i).1) (i / 2 ^ (locate n i).1) :=
  authPathOf_append H g n i hlt
example : (3 : Nat) < 5 := by decide

/-- **what is proved about `update_from_leaf_mutation`**: the mutated leaf's own path does not change (so the supplied
    `membership_proof` is valid before and after, as the Rust doc comment claims), and a proof is untouched by
    mutations of leafs it does not cover: paths of leafs of other trees... are determined by the leaves of their own tree. -/
theorem auth_path_locality (g g' : Nat → D) (n i j : Nat) (d : D) (hlt : i < n) :
    authPathOf H (Function.update g j d) n j = authPathOf H g n j ∧
    ((∀ k < n, g k = g' k) → authPathOf H g n i = authPathOf H g' n i) :=
  ⟨authPathOf_update_self H g n j d, authPathOf_congr H g g' n i hlt⟩

/-- **one append keeps every tracked proof exact** (no assumption): from the from-scratch state of `n` leaves, the step
    "pass every tracked proof through `update_from_append`, then `append`" yields the from-scratch state of `n+1` leaves -/
theorem append_step_honest (g : Nat → D) (n : Nat) (d : D) (hop : n + 1 < 2 ^ 63) :
    ∃ st1, HState.step H ⟨⟨n, peaks H n g⟩, (List.range n).map (authPathOf H g n)⟩ (.append d) = some st1 ∧
      Honest H st1 (leavesStep (n, g) (.append d)) := by
  have hg' : ∀ j < n, g j = Function.update g n d j := fun j hj => by
    rw [Function.update_of_ne (by omega)]
  have hpk : peaks H n g = peaks H n (Function.update g n d) := peaks_congr H n _ _ hg'
  have hd : d = Function.update g n d n := by simp
  have happ := append_spec H n (Function.update g n d) (by omega)
  have hup : ∀ k < n, updateFromAppend H (authPathOf H g n k) k n d (peaks H n g)
      = some (authPathOf H (Function.update g n d) (n + 1) k,
          decide (authPathOf H (Function.update g n d) (n + 1) k ≠ authPathOf H (Function.update g n d) n k)) := by
    intro k hk
    have := update_from_append_spec H (Function.update g n d) n k hk hop
    rw [← hpk, ← hd, ← authPathOf_congr H g _ n k hk hg'] at this
    rw [this, ← authPathOf_congr H g _ n k hk hg']
  rw [← hpk, ← hd] at happ
  have hmap : mapIdxM (fun i p => (updateFromAppend H p i n d (peaks H n g)).map (·.1))
        ((List.range n).map (authPathOf H g n)) 0
      = some ((List.range' 0 n).map (authPathOf H (Function.update g n d) (n + 1))) := by
    rw [List.range_eq_range']
    apply mapIdxM_spec
    intro k _ hk
    rw [hup k (by omega)]; rfl
  refine ⟨⟨⟨n + 1, peaks H (n + 1) (Function.update g n d)⟩,
    (List.range' 0 n).map (authPathOf H (Function.update g n d) (n + 1))
      ++ [authPathOf H (Function.update g n d) (n + 1) n]⟩, ?_, ⟨rfl, ?_⟩⟩
  · unfold HState.step; simp only [hmap, Option.bind_some, happ]
  · simp only [leavesStep]
    rw [List.range_succ, List.map_append, List.range_eq_range']
    rfl
example : (HState.step (fun a b : Nat => a + 2 * b) ⟨⟨3, [5, 3]⟩, [[2], [1], []]⟩ (.append 4)).map
      (fun st => (st.acc.count, st.acc.peaks, st.proofs))
    = some (4, [27], [[2, 11], [1, 11], [4, 5], [3, 5]]) := by decide +kernel

/-- **append-only histories keep every tracked proof exact** (no assumption): from the empty range, after appending any
    list of fewer than `2^63` leaves with every tracked proof passed through `update_from_append` at every step, the
    accumulator is the from-scratch accumulator and every leaf's proof is exactly its from-scratch authentication path -/
theorem append_history_preserves_proofs (g0 : Nat → D) (ds : List D) (hlen : ds.length < 2 ^ 63) :
    ∃ st, HState.run H ⟨⟨0, []⟩, []⟩ (ds.map .append) = some st ∧
      Honest H st ((ds.map HOp.append).foldl leavesStep (0, g0)) := by
  suffices hgen : ∀ (ds : List D) (s : Nat × (Nat → D)) (st : HState D), s.1 + ds.length < 2 ^ 63 → Honest H st s →
      ∃ st', HState.run H st (ds.map .append) = some st' ∧
        Honest H st' ((ds.map HOp.append).foldl leavesStep s) from
    hgen ds (0, g0) ⟨⟨0, []⟩, []⟩ (by simpa using hlen) ⟨by simp [peaks_zero], by simp⟩
  intro ds
  induction ds with
  | nil => intro s st _ hh; exact ⟨st, rfl, hh⟩
  | cons d ds ih =>
    intro s st hs hh
    obtain ⟨n, g⟩ := s
    obtain ⟨hacc, hpr⟩ := hh
    obtain ⟨acc, proofs⟩ := st
    simp only [List.length_cons] at hs hacc hpr
    subst hacc; subst hpr
    obtain ⟨st1, h1, hh1⟩ := append_step_honest H g n d (by omega)
    obtain ⟨st', h2, hh2⟩ := ih (leavesStep (n, g) (.append d)) st1 (by simp only [leavesStep]; omega) hh1
    exact ⟨st', by rw [List.map_cons, HState.run, h1, Option.bind_some, h2], hh2⟩
example : (HState.run (fun a b : Nat => a + 2 * b) ⟨⟨0, []⟩, []⟩ ([1, 2, 3, 4].map .append)).map
      (fun st => (st.acc.count, st.acc.peaks, st.proofs))
    = some (4, [27], [[2, 11], [1, 11], [4, 5], [3, 5]]) := by decide +kernel

/-- **history_preserves_proofs, reduced to the per-routine mutation statements**: the induction over the operation list.
    Given the specifications of `update_from_leaf_mutation` and `batch_mutate_leaf_and_update_mps` (the append step needs
    no assumption: `update_from_append_spec`, `append_returns_auth_path`), every valid history from the empty range keeps
    the accumulator and every tracked proof equal to the from-scratch ones.  In particular every history that consists
    of appends only is covered unconditionally (`append_history_preserves_proofs`). -/
theorem history_preserves_proofs_reduction
    (hB : batch_mutate_leaf_and_update_mps_spec_statement) : history_preserves_proofs_statement := by
  have hM := update_from_leaf_mutation_spec
  intro D _ H g0 ops
  -- generalise the start: any honest state below 2^63 leafs
  suffices hgen : ∀ (ops : List (HOp D)) (s : Nat × (Nat → D)) (st : HState D), s.1 < 2 ^ 63 → Honest H st s →
      validHistory s ops → ∃ st', HState.run H st ops = some st' ∧ Honest H st' (ops.foldl leavesStep s) by
    intro hv
    exact hgen ops (0, g0) ⟨⟨0, []⟩, []⟩ (by simp) ⟨by simp [peaks_zero], by simp⟩ hv
  intro ops
  induction ops with
  | nil => intro s st _ hh _; exact ⟨st, rfl, hh⟩
  | cons op ops ih =>
    intro s st hs hh hv
    obtain ⟨n, g⟩ := s
    obtain ⟨hacc, hpr⟩ := hh
    obtain ⟨hop, hrest⟩ := hv
    obtain ⟨acc, proofs⟩ := st
    simp only at hs hacc hpr
    subst hacc; subst hpr
    have hn64 : n < 2 ^ 64 := by omega
    -- one step
    have hstep : ∃ st1, HState.step H ⟨⟨n, peaks H n g⟩, (List.range n).map (authPathOf H g n)⟩ op = some st1 ∧ Honest H st1 (leavesStep (n, g) op) ∧ (leavesStep (n, g) op).1 < 2 ^ 63 := by
      cases op with
      | append d =>
        simp only at hop
        obtain ⟨st1, h1, h2⟩ := append_step_honest H g n d hop
        exact ⟨st1, h1, h2, hop⟩
      | mutate i d =>
        simp only at hop
        have hpi : ((List.range n).map (authPathOf H g n))[i]? = some (authPathOf H g n i) :=
          range_map_getElem? _ n i hop
        have hmap : mapIdxM (fun k p => (updateFromLeafMutation H p k
              { leaf_index := i, new_leaf := d, path := authPathOf H g n i }).map (·.1))
              ((List.range n).map (authPathOf H g n)) 0
            = some ((List.range' 0 n).map (authPathOf H (Function.update g i d) n)) := by
          rw [List.range_eq_range']
          apply mapIdxM_spec
          intro k _ hk
          obtain ⟨b, hb, _⟩ := hM D H g n k i d (by omega) hop hs
          rw [hb]; rfl
        refine ⟨⟨⟨n, peaks H n (Function.update g i d)⟩,
          (List.range' 0 n).map (authPathOf H (Function.update g i d) n)⟩, ?_, ⟨rfl, ?_⟩, hs⟩
        · unfold HState.step; simp only [hpi, Option.bind_some, hmap, mutateLeaf_spec H g n i d hop hn64]
        · simp only [leavesStep]; rw [List.range_eq_range']
      | batch ms =>
        simp only at hop
        obtain ⟨hin, hnd⟩ := hop
        have hlms : ms.mapM (fun m => (((List.range n).map (authPathOf H g n))[m.1]?).map
              (fun pi => ({ leaf_index := m.1, new_leaf := m.2, path := pi } : LeafMutation D)))
            = some (ms.map fun m => ⟨m.1, m.2, authPathOf H g n m.1⟩) := by
          clear hnd hrest
          induction ms with
          | nil => rfl
          | cons m ms ihm =>
            rw [List.mapM_cons, range_map_getElem? _ n m.1 (hin m (by simp)),
              ihm (fun x hx => hin x (by simp [hx]))]
            rfl
        have hlen : ((List.range n).map (authPathOf H g n)).length = n := by simp
        have hb := hB D H g n ms (List.range n) (fun i hi => List.mem_range.mp hi) hin hnd hs
        refine ⟨⟨⟨n, peaks H n (applyMuts g ms)⟩, (List.range n).map (authPathOf H (applyMuts g ms) n)⟩, ?_,
          ⟨rfl, rfl⟩, hs⟩
        unfold HState.step; simp only [hlms, Option.bind_some, hlen, hb]
    obtain ⟨st1, h1, hh1, hs1⟩ := hstep
    obtain ⟨st', h2, hh2⟩ := ih _ st1 hs1 hh1 hrest
    exact ⟨st', by rw [HState.run, h1, Option.bind_some, h2], hh2⟩

/-! ## node-index foundations of the update routines (first part of the missing theory, proved)

`nodeIdx l j = (j+1)·2^(l+1) − 1 − popCount j` is the post-order node index of the root of the aligned block `j` of
`2^l` leaves.  The update routines find the digests to replace through these indices. -/

/-- `right_lineage_length_and_own_height` (the binary search from the leftmost ancestor) returns, for the node `(l, j)`,
    the number of trailing one bits of `j` and the height `l` — for every node index below `2^64`; it never runs out
    of its 65 rounds. -/
theorem right_lineage_length_and_own_height_exact (l j : Nat) (h : nodeIdx l j < 2 ^ 64) :
    TF.Model.Mmr.right_lineage_length_and_own_height (nodeIdx l j) = some (TF.trailingOnes j, l) := rll_spec l j h
example : nodeIdx 2 1 < 2 ^ 64 := by decide +kernel

/-- distinct nodes have distinct indices: a digest stored under a node index belongs to exactly one node -/
theorem node_numbering_injective (l j l' j' : Nat) (h : nodeIdx l j < 2 ^ 64) (he : nodeIdx l j = nodeIdx l' j') :
    l = l' ∧ j = j' := nodeIdx_inj l j l' j' h he

/-- `parent`: the parent of the node `(l, j)` is `(l+1, j/2)` -/
theorem parent_exact (l j : Nat) (hl : l < 63) (h : nodeIdx (l + 1) (j / 2) < 2 ^ 64) :
    TF.Model.Mmr.parent (nodeIdx l j) = some (nodeIdx (l + 1) (j / 2)) := parent_spec l j hl h

/-- `MmrMembershipProof::get_node_indices`: the `t`-th digest of a proof of leaf `i` is looked up under the index of
    the sibling block of `i`'s ancestor at level `t` -/
theorem proof_node_indices_exact (i len : Nat) (hi : i < 2 ^ 63) (hlen : len ≤ 63)
    (h : nodeIdx len (i / 2 ^ len) < 2 ^ 64) :
    TF.Model.Mmr.get_node_indices i len = some ((List.range len).map (fun t => nodeIdx t (sibBlk (i / 2 ^ t)))) :=
  get_node_indices_spec i len hi hlen h

/-- `get_direct_path_indices`: the nodes whose digests a leaf mutation changes are the ancestors `(t, i / 2^t)` -/
theorem direct_path_indices_exact (i len : Nat) (hi : i < 2 ^ 63) (hlen : len ≤ 63)
    (h : nodeIdx len (i / 2 ^ len) < 2 ^ 64) :
    TF.Model.Mmr.get_direct_path_indices i len = some ((List.range (len + 1)).map (fun t => nodeIdx t (i / 2 ^ t))) :=
  get_direct_path_indices_spec i len hi hlen h

/-! ## the batch mutation routine of the accumulator (proved in full, `TF/Proofs/MmrBatchMutate.lean`) -/

/-- **`MmrAccumulator::batch_mutate_leaf_and_update_mps`** (`batch_mutate_leaf_and_update_mps_spec_statement`, proved):
    on the from-scratch accumulator of `n < 2^63` leaves, for any batch of mutations of distinct in-range leafs in any
    order, each carrying the from-scratch path it had *before* the batch, and any in-range tracked leafs with their
    from-scratch paths, the routine does not panic, the accumulator becomes the from-scratch accumulator of the mutated
    leaf list, every tracked path becomes the from-scratch path of its leaf in the mutated list (hence verifies, by
    `verify_accepts_auth_path`), and the reported indices are exactly the tracked proofs whose digests changed.
    (Invariant of the loop: the map `new_ap_digests` holds, for every non-peak ancestor block of an already mutated
    leaf, that block's root in the current leaf list, and nothing else.) -/
theorem batch_mutate_leaf_and_update_mps_spec : batch_mutate_leaf_and_update_mps_spec_statement := by
  intro D _ H g n ms lis hlis hms hnd hn
  exact TF.MmrBM.batchMutateLeafAndUpdateMps_spec H g n ms lis hlis hms hnd hn
example : ([(0, 7), (2, 9)] : List (Nat × Nat)).map (·.1) |>.Nodup := by decide

/-- **history_preserves_proofs** (the property's main statement, proved in full): from the empty range, after ANY valid
    history of appends, single-leaf mutations and batch mutations (below `2^63` leafs; batches mutate distinct existing
    leafs, in any order) in which every tracked proof is passed through the matching update routine, no routine panics,
    the accumulator is the from-scratch accumulator of the current leaf list and every leaf's proof is exactly its
    from-scratch authentication path — hence verifies against the new peaks (`verify_accepts_auth_path`).  Induction over
    the operation list (`history_preserves_proofs_reduction`) on top of `update_from_append_spec`,
    `update_from_leaf_mutation_spec` and `batch_mutate_leaf_and_update_mps_spec`. -/
theorem history_preserves_proofs : history_preserves_proofs_statement :=
  history_preserves_proofs_reduction batch_mutate_leaf_and_update_mps_spec
example : validHistory (D := Nat) (0, fun _ => 0)
    [.append 1, .append 2, .append 3, .mutate 1 7, .batch [(2, 9), (0, 4)], .append 5] := by
  simp [validHistory, leavesStep]


/-! ## regenerated-from-source bridge (BT7)

`MmrMembershipProof::{verify, get_node_indices, get_direct_path_indices, get_peak_index_and_height}`
(`mmr_membership_proof.rs`) are regenerated from the source text on every run into `TF/Gen/MmrProofLoops.lean`
(`tools/rs2lean_mmr.py`): digests opaque (`D`), `Tip5::hash_pair` the parameter `H`, `d0` the value read after a panic
(the `_ok` twin is false there), a membership proof = its field `authentication_path`; the index functions they call are
the regenerated ones of `TF/Gen/MmrIndex.lean` / `TF/Gen/MmrLoops.lean`.  `outcome ok v = if ok then v else none` turns the
pair (`_ok` flag, value) into the hand model's convention (`none` = panic).  Proofs: `TF/Proofs/GenBridgeMmrProof.lean`. -/
section GenBridge
open TF.GenBridge.MmrPeaks (outcome outcome_eq_some)
open TF.Gen.Loops (mmrmp_verify mmrmp_verify_ok mmrmp_get_node_indices mmrmp_get_direct_path_indices
  mmrmp_get_peak_index_and_height)

/-- regenerated `MmrMembershipProof::verify` (bounds check, `peaks.len().try_into::<u32>().unwrap()`, peak-count check,
    path-length check `mt_index.ilog2() != len`, the `while mt_index != 1` fold indexing the path, `peaks[peak_index]`,
    the final comparison) = hand model; every `H`, every path / index / leaf / peak list, every `u64` leaf count -/
theorem gen_member_verify_eq_model (d0 : D) (path : List D) (i : Nat) (leaf : D) (pks : List D) (n : Nat)
    (hn : n < 2 ^ 64) (hap : path.length < 2 ^ 64) :
    outcome (mmrmp_verify_ok H d0 path i leaf pks n) (mmrmp_verify H d0 path i leaf pks n)
      = memberVerify H path i leaf pks n :=
  TF.GenBridge.MmrProof.gen_member_verify_eq H d0 path i leaf pks n hn hap
/-- non-vacuity: an accepted claim (leaf 1 of 3, path `[1]`), a rejected one (path too long: the `!=` of the path-length
    check), one that would index past the path if the length check were weakened to `>` (path too short) -/
example : let H := fun a b : Nat => a * 10 + b
    mmrmp_verify H 0 [1] 1 7 [17, 3] 3 = some true ∧ mmrmp_verify_ok H 0 [1] 1 7 [17, 3] 3 = true ∧
    mmrmp_verify H 0 [1, 1] 1 7 [17, 3] 3 = some false ∧ mmrmp_verify H 0 [] 1 7 [17, 3] 3 = some false ∧
    mmrmp_verify_ok H 0 [] 1 7 [17, 3] 3 = true ∧
    memberVerify H [] 1 7 [17, 3] 3 = some false := by decide +kernel

/-- regenerated `get_node_indices`, `get_direct_path_indices`, `get_peak_index_and_height` = hand models, every input
    (the index functions they call are the regenerated `leaf_index_to_node_index`, `right_lineage_length_and_own_height`,
    `left_sibling`, `right_sibling`, `parent`; release arithmetic on both sides; `last().unwrap()` on an empty vector is
    a panic) -/
theorem gen_member_index_helpers_eq_model (d0 : D) (path : List D) (li : Nat) :
    mmrmp_get_node_indices H d0 path li = TF.Model.Mmr.get_node_indices li path.length ∧
    mmrmp_get_direct_path_indices H d0 path li = TF.Model.Mmr.get_direct_path_indices li path.length ∧
    outcome ((mmrmp_get_direct_path_indices H d0 path li).elim true fun l => !l.isEmpty)
        (mmrmp_get_peak_index_and_height H d0 path li) = getPeakIndexAndHeight path li :=
  ⟨TF.GenBridge.MmrProof.gen_get_node_indices_eq H d0 path li,
   TF.GenBridge.MmrProof.gen_get_direct_path_indices_eq H d0 path li,
   TF.GenBridge.MmrProof.gen_get_peak_index_and_height_eq H d0 path li⟩
example : mmrmp_get_node_indices (fun a b : Nat => a + b) 0 [0, 0] 2 = some [5, 3] ∧
    mmrmp_get_direct_path_indices (fun a b : Nat => a + b) 0 [0, 0] 2 = some [4, 6, 7] ∧
    mmrmp_get_peak_index_and_height (fun a b : Nat => a + b) 0 [0, 0] 2 = some (7, 2) := by decide +kernel

/-- **transfer** of `verify_iff` and `verify_total` to the code as it is in the source now: for every `u64` leaf count,
    every peak list shorter than 2^32 and every path, the regenerated `verify` does not panic (its `_ok` flag is true),
    terminates within its fuel, and answers `true` exactly when the index is in range, the number of peaks matches, the
    path length is the height of the leaf's tree and the fold of the leaf up the path is the covering peak -/
theorem gen_verify_transfer (d0 : D) (path : List D) (i : Nat) (leaf : D) (pks : List D) (n : Nat) (hn : n < 2 ^ 64)
    (hlen : pks.length < 2 ^ 32) (hap : path.length < 2 ^ 64) :
    mmrmp_verify_ok H d0 path i leaf pks n = true ∧
    (∃ b, mmrmp_verify H d0 path i leaf pks n = some b) ∧
    (mmrmp_verify H d0 path i leaf pks n = some true ↔
      i < n ∧ pks.length = TF.popCount n ∧ path.length = (locate n i).1 ∧
      pks[(locate n i).2.2]? = some (foldBlk H i leaf path)) := by
  have hg := gen_member_verify_eq_model H d0 path i leaf pks n hn hap
  obtain ⟨b, hb⟩ := verify_total H path i leaf pks n hn hlen
  rw [hb] at hg
  obtain ⟨h1, h2⟩ := outcome_eq_some hg
  refine ⟨h1, ⟨b, h2⟩, ?_⟩
  rw [← verify_iff H path i leaf pks n hn hlen, hb, h2]
example : (18446744073709551615 : Nat) < 2 ^ 64 ∧ ([] : List Nat).length < 2 ^ 32 := by decide

end GenBridge

end TF.C05
