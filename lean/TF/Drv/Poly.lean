-- FAMILIES: poly=TF.Drv.Poly.poly
import TF.Drv.Proto
import TF.Model.Poly
import TF.Model.PolyMul
import TF.Model.PolyNtt
import TF.Gen.Consts
import TF.Gen.PolyLoops
/-!
driver handler for the family `poly` (C07): multiplication strategies of `Polynomial<FF>`.

`poly <op> <field> <args…>`; field tag `b` (coefficients = canonical values), `x` (triples `(c0;c1;c2)`),
`bx` / `xb` for mixed operands (left operand over the first field).  A polynomial is its raw coefficient list,
stored leading zeros included.  Replies carry the *normalised* coefficients of the result (`coefficients()`).
The NTT-based strategies run on the model of the Rust NTT loops (`TB`/`TX` below); `TF/Props/C07.lean`
(`fast_multiply_bfield_spec`, …) proves exactly these terms correct.
-/
namespace TF.Drv.Poly
open TF.Proto TF.Gen TF.Model.Poly TF.Spec

def FB := TF.bfieldOps
def FX := TF.xfieldOps
/-- the transforms: the executable model of the Rust in-place NTT (`TF/Model/Ntt.lean`, property C06) wrapped as a
    `Transform` (`TF/Model/PolyNtt.lean`), for every size — not the spec-level `specTransform` -/
def TB : Transform Nat := bNtt
def TX : Transform X3 := xNtt

def thr : Int := (FAST_MULTIPLY_CUTOFF_THRESHOLD : Int)
def sqc : Nat := SQUARE_CUTOFF

def bPoly? (a : Arg) : Option (List Nat) := a.natList?.map (·.map (· % P))
def xPoly? (a : Arg) : Option (List X3) :=
  a.tripleList?.map (·.map fun t => (t.1 % P, t.2.1 % P, t.2.2 % P))
def bPolys? : Arg → Option (List (List Nat))
  | .list xs => xs.mapM bPoly?
  | _ => none
def xPolys? : Arg → Option (List (List X3))
  | .list xs => xs.mapM xPoly?
  | _ => none
def xElem? (a : Arg) : Option X3 := a.triple?.map fun t => (t.1 % P, t.2.1 % P, t.2.2 % P)

def okB (p : List Nat) : String := "ok:" ++ fmtList (normalize FB p)
def okX (p : List X3) : String := "ok:" ++ fmtTripleList (normalize FX p)
def okBO : Option (List Nat) → String
  | some p => okB p
  | none => "panic"
def okXO : Option (List X3) → String
  | some p => okX p
  | none => "panic"

/-- `BFieldElement * XFieldElement` and `XFieldElement * BFieldElement` -/
def mulBX (a : Nat) (b : X3) : X3 := xscale a b
def mulXB (a : X3) (b : Nat) : X3 := xscale b a

-- BEGIN BT6: the definitions regenerated from polynomial.rs (TF/Gen/PolyLoops.lean) evaluated next to the hand model
/-- reply of the REGENERATED function (rendered like the hand model's reply); `none`: no regenerated counterpart or operands
    too long for the list-indexed loops -/
def genPoly : Handler
  | "naive", [.sym "b", a, b] => do
      let a ← bPoly? a; let b ← bPoly? b; if a.length > 96 || b.length > 96 then none else
      pure (okBO (Gen.Poly.naive_multiply FB FB FB FB.mul a b))
  | "mul", [.sym "b", a, b] => do
      let a ← bPoly? a; let b ← bPoly? b; if a.length > 96 || b.length > 96 then none else
      pure (okBO (Gen.Poly.mul FB FB FB FB.mul a b))
  | "multiply", [.sym "b", a, b] => do
      let a ← bPoly? a; let b ← bPoly? b; if a.length > 96 || b.length > 96 then none else
      pure (okBO (Gen.Poly.multiply FB FB FB FB.mul (fastMultiply FB TB) a b))
  | "fast", [.sym "b", a, b] => do
      let a ← bPoly? a; let b ← bPoly? b; pure (okBO (Gen.Poly.fast_multiply FB FB FB FB.mul TB.ntt TB.ntt TB.intt a b))
  | "ssq", [.sym "b", a] => do let a ← bPoly? a; if a.length > 96 then none else pure (okBO (Gen.Poly.slow_square FB a))
  | "pow", [.sym "b", a, .nat e] => do
      let a ← bPoly? a; if a.length > 96 || e ≥ 2 ^ 32 || (a.length - 1) * e > 4096 then none else pure (okBO (Gen.Poly.pow FB a e))
  | "fpow", [.sym "b", a, .nat e] => do
      let a ← bPoly? a; if a.length > 96 || e ≥ 2 ^ 32 || (a.length - 1) * e > 4096 then none else
      pure (okBO (Gen.Poly.fast_pow FB (Gen.Poly.fast_square FB TB.ntt TB.intt)
        (Gen.Poly.fast_multiply FB FB FB FB.mul TB.ntt TB.ntt TB.intt) a e))
  | "sq", [.sym "b", a] => do
      let a ← bPoly? a; if a.length > 96 then none else pure (okBO (Gen.Poly.square FB (fastSquare FB TB) a))
  | "fsq", [.sym "b", a] => do let a ← bPoly? a; pure (okBO (Gen.Poly.fast_square FB TB.ntt TB.intt a))
  | "smul", [.sym "b", a, .nat s] => do let a ← bPoly? a; pure (okB (Gen.Poly.scalar_mul FB FB.mul a (s % P)))
  | "smulmut", [.sym "b", a, .nat s] => do let a ← bPoly? a; pure (okB (Gen.Poly.scalar_mul_mut FB FB.mul a (s % P)))
  | "scale", [.sym "b", a, .nat s] => do let a ← bPoly? a; pure (okB (Gen.Poly.scale FB FB.one FB.mul FB.mul a (s % P)))
  | "shift", [.sym "b", a, .nat n] => do
      let a ← bPoly? a; if n > 100000 then none else pure (okB (Gen.Poly.shift_coefficients FB a n))
  | "naive", [.sym "x", a, b] => do
      let a ← xPoly? a; let b ← xPoly? b; if a.length > 64 || b.length > 64 then none else
      pure (okXO (Gen.Poly.naive_multiply FX FX FX FX.mul a b))
  | "multiply", [.sym "x", a, b] => do
      let a ← xPoly? a; let b ← xPoly? b; if a.length > 64 || b.length > 64 then none else
      pure (okXO (Gen.Poly.multiply FX FX FX FX.mul (fastMultiply FX TX) a b))
  | "fast", [.sym "x", a, b] => do
      let a ← xPoly? a; let b ← xPoly? b; pure (okXO (Gen.Poly.fast_multiply FX FX FX FX.mul TX.ntt TX.ntt TX.intt a b))
  | "ssq", [.sym "x", a] => do let a ← xPoly? a; if a.length > 64 then none else pure (okXO (Gen.Poly.slow_square FX a))
  | "pow", [.sym "x", a, .nat e] => do
      let a ← xPoly? a; if a.length > 64 || e ≥ 2 ^ 32 || (a.length - 1) * e > 2048 then none else pure (okXO (Gen.Poly.pow FX a e))
  | "fpow", [.sym "x", a, .nat e] => do
      let a ← xPoly? a; if a.length > 64 || e ≥ 2 ^ 32 || (a.length - 1) * e > 2048 then none else
      pure (okXO (Gen.Poly.fast_pow FX (Gen.Poly.fast_square FX TX.ntt TX.intt)
        (Gen.Poly.fast_multiply FX FX FX FX.mul TX.ntt TX.ntt TX.intt) a e))
  | "smul", [.sym "x", a, s] => do let a ← xPoly? a; let s ← xElem? s; pure (okX (Gen.Poly.scalar_mul FX FX.mul a s))
  | "scale", [.sym "x", a, s] => do let a ← xPoly? a; let s ← xElem? s; pure (okX (Gen.Poly.scale FX FX.one FX.mul FX.mul a s))
  | "naive", [.sym "bx", a, b] => do
      let a ← bPoly? a; let b ← xPoly? b; if a.length > 64 || b.length > 64 then none else
      pure (okXO (Gen.Poly.naive_multiply FB FX FX mulBX a b))
  | "fast", [.sym "bx", a, b] => do
      let a ← bPoly? a; let b ← xPoly? b; pure (okXO (Gen.Poly.fast_multiply FB FX FX mulBX TB.ntt TX.ntt TX.intt a b))
  | "smul", [.sym "bx", a, s] => do let a ← bPoly? a; let s ← xElem? s; pure (okX (Gen.Poly.scalar_mul FB mulBX a s))
  | "scale", [.sym "bx", a, s] => do
      let a ← bPoly? a; let s ← xElem? s; pure (okX (Gen.Poly.scale FB xone xmul mulBX a s))
  | "scale", [.sym "xb", a, .nat s] => do
      let a ← xPoly? a; pure (okX (Gen.Poly.scale FX 1 fmul mulXB a (s % P)))
  | _, _ => none

def polyModel : Handler
  -- same field, base
  | "naive", [.sym "b", a, b] => do let a ← bPoly? a; let b ← bPoly? b; pure (okB (naiveMultiply FB a b))
  | "mul", [.sym "b", a, b] => do let a ← bPoly? a; let b ← bPoly? b; pure (okB (mul FB a b))
  | "multiply", [.sym "b", a, b] => do let a ← bPoly? a; let b ← bPoly? b; pure (okBO (multiply FB thr TB a b))
  | "fast", [.sym "b", a, b] => do let a ← bPoly? a; let b ← bPoly? b; pure (okBO (fastMultiply FB TB a b))
  | "ssq", [.sym "b", a] => do let a ← bPoly? a; pure (okB (slowSquare FB a))
  | "sq", [.sym "b", a] => do let a ← bPoly? a; pure (okBO (square FB sqc TB a))
  | "fsq", [.sym "b", a] => do let a ← bPoly? a; pure (okBO (fastSquare FB TB a))
  | "pow", [.sym "b", a, .nat e] => do let a ← bPoly? a; pure (okB (pow FB a e))
  | "fpow", [.sym "b", a, .nat e] => do let a ← bPoly? a; pure (okBO (fastPow FB sqc thr TB a e))
  | "batch", [.sym "b", fs] => do let fs ← bPolys? fs; pure (okBO (batchMultiply FB thr TB fs))
  | "parbatch", [.sym "b", .nat t, fs] => do let fs ← bPolys? fs; pure (okBO (parBatchMultiply FB thr TB t fs))
  | "smul", [.sym "b", a, .nat s] => do let a ← bPoly? a; pure (okB (scalarMul FB a (s % P)))
  | "smulmut", [.sym "b", a, .nat s] => do let a ← bPoly? a; pure (okB (scalarMul FB a (s % P)))
  | "smul_l", [.sym "b", a, .nat s] => do let a ← bPoly? a; pure (okB (scalarMul FB a (s % P)))
  | "smul_r", [.sym "b", a, .nat s] => do let a ← bPoly? a; pure (okB (scalarMul FB a (s % P)))
  | "scale", [.sym "b", a, .nat s] => do let a ← bPoly? a; pure (okB (scale FB a (s % P)))
  | "shift", [.sym "b", a, .nat n] => do let a ← bPoly? a; pure (okB (shiftCoefficients FB a n))
  -- same field, extension
  | "naive", [.sym "x", a, b] => do let a ← xPoly? a; let b ← xPoly? b; pure (okX (naiveMultiply FX a b))
  | "mul", [.sym "x", a, b] => do let a ← xPoly? a; let b ← xPoly? b; pure (okX (mul FX a b))
  | "multiply", [.sym "x", a, b] => do let a ← xPoly? a; let b ← xPoly? b; pure (okXO (multiply FX thr TX a b))
  | "fast", [.sym "x", a, b] => do let a ← xPoly? a; let b ← xPoly? b; pure (okXO (fastMultiply FX TX a b))
  | "ssq", [.sym "x", a] => do let a ← xPoly? a; pure (okX (slowSquare FX a))
  | "sq", [.sym "x", a] => do let a ← xPoly? a; pure (okXO (square FX sqc TX a))
  | "fsq", [.sym "x", a] => do let a ← xPoly? a; pure (okXO (fastSquare FX TX a))
  | "pow", [.sym "x", a, .nat e] => do let a ← xPoly? a; pure (okX (pow FX a e))
  | "fpow", [.sym "x", a, .nat e] => do let a ← xPoly? a; pure (okXO (fastPow FX sqc thr TX a e))
  | "batch", [.sym "x", fs] => do let fs ← xPolys? fs; pure (okXO (batchMultiply FX thr TX fs))
  | "parbatch", [.sym "x", .nat t, fs] => do let fs ← xPolys? fs; pure (okXO (parBatchMultiply FX thr TX t fs))
  | "smul", [.sym "x", a, s] => do let a ← xPoly? a; let s ← xElem? s; pure (okX (scalarMul FX a s))
  | "smulmut", [.sym "x", a, s] => do let a ← xPoly? a; let s ← xElem? s; pure (okX (scalarMul FX a s))
  | "smul_l", [.sym "x", a, s] => do let a ← xPoly? a; let s ← xElem? s; pure (okX (scalarMul FX a s))
  | "smul_r", [.sym "x", a, s] => do let a ← xPoly? a; let s ← xElem? s; pure (okX (scalarMul FX a s))
  | "scale", [.sym "x", a, s] => do let a ← xPoly? a; let s ← xElem? s; pure (okX (scale FX a s))
  | "shift", [.sym "x", a, .nat n] => do let a ← xPoly? a; pure (okX (shiftCoefficients FX a n))
  -- mixed: left over B, right over X
  | "naive", [.sym "bx", a, b] => do
      let a ← bPoly? a; let b ← xPoly? b; pure (okX (naiveMultiplyG FB FX FX mulBX a b))
  | "mul", [.sym "bx", a, b] => do
      let a ← bPoly? a; let b ← xPoly? b; pure (okX (naiveMultiplyG FB FX FX mulBX a b))
  | "multiply", [.sym "bx", a, b] => do
      let a ← bPoly? a; let b ← xPoly? b; pure (okXO (multiplyG FB FX FX mulBX thr TB TX TX a b))
  | "fast", [.sym "bx", a, b] => do
      let a ← bPoly? a; let b ← xPoly? b; pure (okXO (fastMultiplyG FB FX mulBX TB TX TX a b))
  | "smul", [.sym "bx", a, s] => do let a ← bPoly? a; let s ← xElem? s; pure (okX (scalarMulG mulBX a s))
  | "smul_l", [.sym "bx", a, s] => do let a ← bPoly? a; let s ← xElem? s; pure (okX (scalarMulG mulBX a s))
  | "smul_r", [.sym "bx", a, s] => do let a ← bPoly? a; let s ← xElem? s; pure (okX (scalarMulG mulBX a s))
  | "scale", [.sym "bx", a, s] => do
      let a ← bPoly? a; let s ← xElem? s; pure (okX (scaleG xone xmul mulBX a s))
  -- mixed: left over X, right over B
  | "naive", [.sym "xb", a, b] => do
      let a ← xPoly? a; let b ← bPoly? b; pure (okX (naiveMultiplyG FX FB FX mulXB a b))
  | "mul", [.sym "xb", a, b] => do
      let a ← xPoly? a; let b ← bPoly? b; pure (okX (naiveMultiplyG FX FB FX mulXB a b))
  | "multiply", [.sym "xb", a, b] => do
      let a ← xPoly? a; let b ← bPoly? b; pure (okXO (multiplyG FX FB FX mulXB thr TX TB TX a b))
  | "fast", [.sym "xb", a, b] => do
      let a ← xPoly? a; let b ← bPoly? b; pure (okXO (fastMultiplyG FX FB mulXB TX TB TX a b))
  | "smul", [.sym "xb", a, .nat s] => do let a ← xPoly? a; pure (okX (scalarMulG mulXB a (s % P)))
  | "smulmut", [.sym "xb", a, .nat s] => do let a ← xPoly? a; pure (okX (scalarMulG mulXB a (s % P)))
  | "smul_l", [.sym "xb", a, .nat s] => do let a ← xPoly? a; pure (okX (scalarMulG mulXB a (s % P)))
  | "smul_r", [.sym "xb", a, .nat s] => do let a ← xPoly? a; pure (okX (scalarMulG mulXB a (s % P)))
  | "scale", [.sym "xb", a, .nat s] => do
      let a ← xPoly? a; pure (okX (scaleG 1 fmul mulXB a (s % P)))
  | _, _ => none

/-- the hand model's reply, or `GEN-MISMATCH` when the regenerated definition answers differently -/
def poly : Handler := fun op args =>
  (polyModel op args).map fun model =>
    match genPoly op args with
    | some g => if g == model then model else s!"GEN-MISMATCH {op} gen={g} model={model}"
    | none => model
-- END BT6

end TF.Drv.Poly
