import TF.Drv.Proto
import TF.Model.BFieldMore
import TF.Gen.FieldLoops
/-! driver handlers for the C01 growth ops of the families `bfe` and `xfe` (called from `TF/Drv/BField.lean`) -/
namespace TF.Drv.BFieldMore
open TF.Proto TF.Gen TF.Model

def okN (n : Nat) : String := s!"ok:{n}"
def okB (b : Bool) : String := "ok:" ++ fmtBool b
def okX (x : XF.X3) : String := "ok:" ++ fmtTriple x

/-- `max: Option<usize>` travels as `none` or a number -/
def max? : Arg → Option (Option Nat)
  | .sym "none" => some none
  | .nat m => some (some m)
  | _ => none

/-- iterations the driver is willing to run the unbounded loop of `get_cyclic_group_elements` -/
def cycFuel : Nat := 1048576

def uintBits? : String → Option Nat
  | "u8" => some 8 | "u16" => some 16 | "u32" => some 32 | "u64" => some 64 | "usize" => some 64
  | _ => none

def bfeMore : Handler
  | "incr", [.nat a] => okN (bfe_increment a)
  | "decr", [.nat a] => okN (bfe_decrement a)
  | "addassign", [.nat a, .nat b] => okN (bfe_add_assign a b)
  | "subassign", [.nat a, .nat b] => okN (bfe_sub_assign a b)
  | "mulassign", [.nat a, .nat b] => okN (bfe_mul_assign a b)
  | "square", [.nat a] => okN (bfe_square a)
  | "negt", [.nat a] => okN (bfe_neg a)
  | "raw_u16s", [.nat a] => some ("ok:" ++ fmtList (bfe_raw_u16s a))
  | "from_raw_u16s", [cs] => do let l ← cs.natList?; (BF.fromRawU16s l).map okN
  | "raw_bytes", [.nat a] => some ("ok:" ++ fmtList (bfe_raw_bytes a))
  | "from_raw_bytes", [bs] => do let l ← bs.natList?; (BF.fromRawBytes l).map okN
  | "raw_u128", [.nat a] => okN (bfe_raw_u128 a)
  | "raw_u64", [.nat a] => okN (bfe_raw_u64 a)
  | "from_raw_u64", [.nat w] => okN (bfe_from_raw_u64 w)
  | "is_canonical", [.nat w] => okB (bfe_is_canonical w)
  | "is_zero", [.nat a] => okB (bfe_is_zero a)
  | "is_one", [.nat a] => okB (bfe_is_one a)
  | "const", [.sym "ZERO"] => okN bfe_ZERO
  | "const", [.sym "ONE"] => okN bfe_ONE
  | "const", [.sym "zero"] => okN bfe_zero
  | "const", [.sym "one"] => okN bfe_one
  | "const", [.sym "generator"] => okN bfe_generator
  | "const", [.sym "MINUS_TWO_INVERSE"] => okN (bfe_new MINUS_TWO_INVERSE)
  | "const", [.sym "P"] => okN P
  | "const", [.sym "MAX"] => okN (P - 1)
  | "const", [.sym "BYTES"] => okN BFE_BYTES
  | "const", [.sym "default"] => okN BF.default
  | "pow32", [.nat a, .nat e] => okN (BF.modPowU32 a e)
  | "pow64", [.nat a, .nat e] => okN (BF.modPowU64 a e)
  | "from_uint", [.sym ty, .nat v] => (uintBits? ty).bind fun b => if v < 2^b then some (okN (BF.fromU64 v)) else none
  | "to_uint", [.sym _, .nat a] => okN (BF.toU64 a)
  | "proot", [.nat n] => some ("ok:" ++ fmtOptNat (BF.primitiveRoot n))
  | "cyc", [.nat g, m] => do
      let mx ← max? m
      pure (match BF.cyclicGroup cycFuel g mx with
        | some l => "ok:" ++ fmtList l
        | none => "ok:running")
  | "cycrun", [.nat g, .nat n] =>
      some (match BF.cyclicGroup n g none with | some _ => "ok:stopped" | none => "ok:running")
  | _, _ => none

def fmtOptX : Option XF.X3 → String
  | some x => "ok:some:" ++ fmtTriple x
  | none => "ok:none"
def okOptX : Option XF.X3 → String
  | some x => okX x
  | none => "panic"

def xfeMore : Handler
  | "newconst", [.nat b] => okX (XF.newConst b)
  | "tryfrom", [cs] => do
      let l ← cs.natList?
      pure (match XF.tryFromSlice l with | some x => okX x | none => "err")
  | "is_zero", [x] => do let a ← x.triple?; pure (okB (XF.isZero a))
  | "is_one", [x] => do let a ← x.triple?; pure (okB (XF.isOne a))
  | "incr", [x, .nat i] => do let a ← x.triple?; pure (okOptX (XF.increment a i))
  | "decr", [x, .nat i] => do let a ← x.triple?; pure (okOptX (XF.decrement a i))
  | "badd", [.nat b, x] => do let a ← x.triple?; pure (okX (XF.bAdd b a))
  | "bmul", [.nat b, x] => do let a ← x.triple?; pure (okX (XF.bMul b a))
  | "subneg", [x, y] => do let a ← x.triple?; let b ← y.triple?; pure (okX (XF.sub' a b))
  | "subbneg", [x, .nat b] => do let a ← x.triple?; pure (okX (XF.subB' a b))
  | "bsubneg", [.nat b, x] => do let a ← x.triple?; pure (okX (XF.bSub' b a))
  | "addassign", [x, y] => do let a ← x.triple?; let b ← y.triple?; pure (okX (XF.addAssign a b))
  | "subassign", [x, y] => do let a ← x.triple?; let b ← y.triple?; pure (okX (XF.subAssign a b))
  | "mulassign", [x, y] => do let a ← x.triple?; let b ← y.triple?; pure (okX (XF.mulAssign a b))
  | "addassignb", [x, .nat b] => do let a ← x.triple?; pure (okX (XF.addB' a b))
  | "subassignb", [x, .nat b] => do let a ← x.triple?; pure (okX (XF.subAssignB a b))
  | "mulassignb", [x, .nat b] => do let a ← x.triple?; pure (okX (XF.mulAssignB a b))
  | "sum", [xs] => do let l ← xs.tripleList?; pure (okX (XF.sum l))
  | "pow32", [x, .nat e] => do let a ← x.triple?; pure (okX (XF.modPowU32 a e))
  | "proot", [.nat n] => some (fmtOptX (XF.primitiveRoot n))
  | "cyc", [x, m] => do
      let a ← x.triple?
      let mx ← max? m
      pure (match XF.cyclicGroup cycFuel a mx with
        | some l => "ok:" ++ fmtTripleList l
        | none => "ok:running")
  | "cycrun", [x, .nat n] => do
      let a ← x.triple?
      pure (match XF.cyclicGroup n a none with | some _ => "ok:stopped" | none => "ok:running")
  | "batchinv", [xs] => do
      let l ← xs.tripleList?
      -- `FiniteField::batch_inversion` as regenerated from source over an abstract field (P10), at the extension field's operations
      let gok := Loops.ff_batch_inversion_ok XF.zero XF.one XF.mul XF.isZero (fun x => (XF.inverse x).getD XF.zero)
        (fun x => (XF.inverse x).isSome) XF.zero l
      let g := Loops.ff_batch_inversion XF.zero XF.one XF.mul XF.isZero (fun x => (XF.inverse x).getD XF.zero)
        (fun x => (XF.inverse x).isSome) XF.zero l
      let model := match XF.batchInversion l with
        | some r => "ok:" ++ fmtTripleList r
        | none => "panic"
      let gen := if gok then "ok:" ++ fmtTripleList g else "panic"
      pure (if gen == model then model else "GEN-MISMATCH gen=" ++ gen ++ " model=" ++ model)
  | _, _ => none

end TF.Drv.BFieldMore
