/-!
Line protocol helpers for the model driver `tfm` (core Lean only).

One request per line: `<family> <op> <arg> ...` (space separated). Arguments are decimal naturals, possibly
negative integers, lists `[a,b,c]` (nested allowed, no spaces), extension-field elements `(c0;c1;c2)`.
Reply: exactly one line. `skip` means "the model has no opinion on this op" (implementation-only oracle op).
-/
namespace TF.Proto

/-- a parsed argument -/
inductive Arg where
  | nat (n : Nat)
  | neg (n : Nat)            -- the integer `-n`
  | list (xs : List Arg)
  | tup (xs : List Arg)      -- `(a;b;c)`
  | sym (s : String)
deriving Repr, Inhabited, BEq

partial def parseArgAux (cs : List Char) : Option (Arg × List Char) :=
  match cs with
  | [] => none
  | '[' :: rest =>
    let rec items (cs : List Char) (acc : Array Arg) : Option (Arg × List Char) :=
      match cs with
      | ']' :: r => some (.list acc.toList, r)
      | ',' :: r => items r acc
      | _ => match parseArgAux cs with
        | some (a, r) => items r (acc.push a)
        | none => none
    items rest #[]
  | '(' :: rest =>
    let rec titems (cs : List Char) (acc : Array Arg) : Option (Arg × List Char) :=
      match cs with
      | ')' :: r => some (.tup acc.toList, r)
      | ';' :: r => titems r acc
      | _ => match parseArgAux cs with
        | some (a, r) => titems r (acc.push a)
        | none => none
    titems rest #[]
  | '-' :: rest =>
    let ds := rest.takeWhile Char.isDigit
    if ds.isEmpty then none else
      some (.neg ((String.ofList ds).toNat!), rest.dropWhile Char.isDigit)
  | c :: _ =>
    if c.isDigit then
      let ds := cs.takeWhile Char.isDigit
      some (.nat ((String.ofList ds).toNat!), cs.dropWhile Char.isDigit)
    else
      let ok := fun (c : Char) => c.isAlphanum || c == '_' || c == ':' || c == '.' || c == '<' || c == '>'
      let ds := cs.takeWhile ok
      if ds.isEmpty then none else some (.sym (String.ofList ds), cs.dropWhile ok)

def parseArg (s : String) : Option Arg :=
  match parseArgAux s.toList with
  | some (a, []) => some a
  | _ => none

def Arg.nat? : Arg → Option Nat
  | .nat n => some n
  | _ => none

def Arg.int? : Arg → Option Int
  | .nat n => some n
  | .neg n => some (-(n : Int))
  | _ => none

def Arg.natList? : Arg → Option (List Nat)
  | .list xs => xs.mapM Arg.nat?
  | _ => none

def Arg.natListList? : Arg → Option (List (List Nat))
  | .list xs => xs.mapM Arg.natList?
  | _ => none

def Arg.triple? : Arg → Option (Nat × Nat × Nat)
  | .tup [.nat a, .nat b, .nat c] => some (a, b, c)
  | _ => none

def Arg.tripleList? : Arg → Option (List (Nat × Nat × Nat))
  | .list xs => xs.mapM Arg.triple?
  | _ => none

def fmtList (xs : List Nat) : String := "[" ++ ",".intercalate (xs.map toString) ++ "]"
def fmtListList (xs : List (List Nat)) : String := "[" ++ ",".intercalate (xs.map fmtList) ++ "]"
def fmtTriple (t : Nat × Nat × Nat) : String := s!"({t.1};{t.2.1};{t.2.2})"
def fmtTripleList (xs : List (Nat × Nat × Nat)) : String := "[" ++ ",".intercalate (xs.map fmtTriple) ++ "]"
def fmtBool (b : Bool) : String := if b then "true" else "false"
def fmtOptNat : Option Nat → String
  | some n => s!"some:{n}"
  | none => "none"

/-- a family handler: op name and parsed args to a reply (`none` = malformed request) -/
abbrev Handler := String → List Arg → Option String

end TF.Proto
