-- FAMILIES: codec=TF.Drv.Codec.codec codec13=TF.Drv.Codec.codec derive=TF.Drv.Codec.derive
import TF.Drv.Proto
import TF.Model.Codec
/-!
driver handlers for the codec families (C03 `codec`, C13 `codec13`, C14 `derive`)

type descriptors:  `bfe u8 u16 u32 u64 u128 bool phantom (box;T) (opt;T) (vec;T) (arr;N;T) (tup;T;..) (poly;T) (u32s;N)
                    (struct;T;..) (enum;[T,..];[T,..];..)`
values:            `n | () | none | (some;v) | [v,..] | (var;k;[v,..])`
-/
namespace TF.Drv.Codec
open TF.Proto TF.Codec

partial def parseTy : Arg → Option Ty
  | .sym "bfe" => some .bfe
  | .sym "u8" => some .u8
  | .sym "u16" => some .u16
  | .sym "u32" => some .u32
  | .sym "u64" => some .u64
  | .sym "u128" => some .u128
  | .sym "bool" => some .bool
  | .sym "phantom" => some .phantom
  | .tup [.sym "box", t] => (parseTy t).map .box
  | .tup [.sym "opt", t] => (parseTy t).map .option
  | .tup [.sym "vec", t] => (parseTy t).map .vec
  | .tup [.sym "poly", t] => (parseTy t).map .poly
  | .tup [.sym "arr", .nat n, t] => (parseTy t).map (.array n)
  | .tup [.sym "u32s", .nat n] => some (.u32s n)
  | .tup (.sym "tup" :: ts) => (ts.mapM parseTy).map .tuple
  | .tup (.sym "struct" :: ts) => (ts.mapM parseTy).map .struct
  | .tup (.sym "enum" :: vs) =>
    (vs.mapM fun (v : Arg) => match v with
      | Arg.list ts => ts.mapM parseTy
      | _ => none).map .enum
  | _ => none

partial def parseVal : Arg → Option Val
  | .nat n => some (.num n)
  | .sym "none" => some (.opt none)
  | .tup [] => some .unit
  | .tup [.sym "some", v] => (parseVal v).map fun x => .opt (some x)
  | .tup [.sym "var", .nat k, .list vs] => (vs.mapM parseVal).map (.variant k)
  | .list vs => (vs.mapM parseVal).map .list
  | _ => none

partial def fmtVal : Val → String
  | .num n => toString n
  | .unit => "()"
  | .opt none => "none"
  | .opt (some v) => s!"(some;{fmtVal v})"
  | .list vs => "[" ++ ",".intercalate (vs.map fmtVal) ++ "]"
  | .variant k vs => s!"(var;{k};[" ++ ",".intercalate (vs.map fmtVal) ++ "])"

/-- the canonical representative of a Rust value: polynomials without stored leading zeros (the harness sends
    unnormalised polynomials on purpose; `encode` must normalise them) -/
partial def canonVal : Ty → Val → Val
  | .box t, v => canonVal t v
  | .option t, .opt (some v) => .opt (some (canonVal t v))
  | .vec t, .list vs => .list (vs.map (canonVal t))
  | .array _ t, .list vs => .list (vs.map (canonVal t))
  | .tuple ts, .list vs => .list (List.zipWith canonVal ts vs)
  | .struct ts, .list vs => .list (List.zipWith canonVal ts vs)
  | .poly t, .list cs => .list (normalize (cs.map (canonVal t)))
  | .enum vars, .variant k vs => match vars[k]? with
    | some fs => .variant k (List.zipWith canonVal fs vs)
    | none => .variant k vs
  | _, v => v

def fmtOutcome : Outcome Val → String
  | .ok v => "ok:" ++ fmtVal v
  | .err _ => "err"
  | .panic => "panic"

def run (op : String) (args : List Arg) : Option String :=
  match op, args with
  | "slen", [t] => (parseTy t).map fun ty =>
      match staticLength ty with
      | some n => s!"ok:some:{n}"
      | none => "ok:none"
  | "enc", [t, v] => do
      let ty ← parseTy t
      let val ← parseVal v
      if hasTy ty (canonVal ty val) then pure ("ok:" ++ fmtList (encode ty val)) else pure "bad-request"
  | "dec", [t, s] => do
      let ty ← parseTy t
      let seq ← s.natList?
      pure (fmtOutcome (decode ty seq))
  | _, _ => none

def codec : Handler := run

/-- family `derive`: `derive <op> <TypeName> <tydesc> …` — the name selects the twin Rust types in the harness; the
    model only needs the shape -/
def derive : Handler
  | op, _name :: rest => run op rest
  | _, _ => none

end TF.Drv.Codec
