-- FAMILIES: codec=TF.Drv.Codec.codec codec13=TF.Drv.Codec.codec derive=TF.Drv.Codec.derive
import TF.Drv.Proto
import TF.Model.Codec
import TF.Gen.CodecLeaves
import TF.Gen.CodecGeneric
/-!
driver handlers for the codec families (C03 `codec`, C13 `codec13`, C14 `derive`)

type descriptors:  `bfe u8 u16 u32 u64 u128 bool phantom (box;T) (opt;T) (vec;T) (arr;N;T) (tup;T;..) (poly;T) (u32s;N)
                    (struct;T;..) (enum;[T,..];[T,..];..)`
values:            `n | () | none | (some;v) | [v,..] | (var;k;[v,..])`
-/
namespace TF.Drv.Codec
open TF.Proto TF.Codec

partial def parseTy : Arg → Option Ty
  | .sym "bfe" => some .bfe
  | .sym "u8" => some .u8
  | .sym "u16" => some .u16
  | .sym "u32" => some .u32
  | .sym "u64" => some .u64
  | .sym "u128" => some .u128
  | .sym "bool" => some .bool
  | .sym "phantom" => some .phantom
  | .tup [.sym "box", t] => (parseTy t).map .box
  | .tup [.sym "opt", t] => (parseTy t).map .option
  | .tup [.sym "vec", t] => (parseTy t).map .vec
  | .tup [.sym "poly", t] => (parseTy t).map .poly
  | .tup [.sym "arr", .nat n, t] => (parseTy t).map (.array n)
  | .tup [.sym "u32s", .nat n] => some (.u32s n)
  | .tup (.sym "tup" :: ts) => (ts.mapM parseTy).map .tuple
  | .tup (.sym "struct" :: ts) => (ts.mapM parseTy).map .struct
  | .tup (.sym "enum" :: vs) =>
    (vs.mapM fun (v : Arg) => match v with
      | Arg.list ts => ts.mapM parseTy
      | _ => none).map .enum
  | _ => none

partial def parseVal : Arg → Option Val
  | .nat n => some (.num n)
  | .sym "none" => some (.opt none)
  | .tup [] => some .unit
  | .tup [.sym "some", v] => (parseVal v).map fun x => .opt (some x)
  | .tup [.sym "var", .nat k, .list vs] => (vs.mapM parseVal).map (.variant k)
  | .list vs => (vs.mapM parseVal).map .list
  | _ => none

partial def fmtVal : Val → String
  | .num n => toString n
  | .unit => "()"
  | .opt none => "none"
  | .opt (some v) => s!"(some;{fmtVal v})"
  | .list vs => "[" ++ ",".intercalate (vs.map fmtVal) ++ "]"
  | .variant k vs => s!"(var;{k};[" ++ ",".intercalate (vs.map fmtVal) ++ "])"

/-- the canonical representative of a Rust value: polynomials without stored leading zeros (the harness sends
    unnormalised polynomials on purpose; `encode` must normalise them) -/
partial def canonVal : Ty → Val → Val
  | .box t, v => canonVal t v
  | .option t, .opt (some v) => .opt (some (canonVal t v))
  | .vec t, .list vs => .list (vs.map (canonVal t))
  | .array _ t, .list vs => .list (vs.map (canonVal t))
  | .tuple ts, .list vs => .list (List.zipWith canonVal ts vs)
  | .struct ts, .list vs => .list (List.zipWith canonVal ts vs)
  | .poly t, .list cs => .list (normalize (cs.map (canonVal t)))
  | .enum vars, .variant k vs => match vars[k]? with
    | some fs => .variant k (List.zipWith canonVal fs vs)
    | none => .variant k vs
  | _, v => v

def fmtOutcome : Outcome Val → String
  | .ok v => "ok:" ++ fmtVal v
  | .err _ => "err"
  | .panic => "panic"

def run (op : String) (args : List Arg) : Option String :=
  match op, args with
  | "slen", [t] => (parseTy t).map fun ty =>
      match staticLength ty with
      | some n => s!"ok:some:{n}"
      | none => "ok:none"
  | "enc", [t, v] => do
      let ty ← parseTy t
      let val ← parseVal v
      if hasTy ty (canonVal ty val) then pure ("ok:" ++ fmtList (encode ty val)) else pure "bad-request"
  | "dec", [t, s] => do
      let ty ← parseTy t
      let seq ← s.natList?
      pure (fmtOutcome (decode ty seq))
  | _, _ => none

/-! ### P03: the leaf codecs regenerated from source (`TF/Gen/CodecLeaves.lean`) evaluated next to the hand model.
The regenerated code works on raw Montgomery words: a sequence goes in through the translated `bfe_new`, encodings come
back through the translated `bfe_value`; a panic of the regenerated code (`_ok = false`) is printed as `panic`. -/
open TF.Gen TF.Gen.Loops in
def fmtGenNat (ok : Bool) (r : Except String Nat) : String :=
  if ok then (match r with | .ok n => s!"ok:{n}" | .error _ => "err") else "panic"

open TF.Gen TF.Gen.Loops in
def leafGen (op : String) (args : List Arg) : Option String :=
  match op, args with
  | "slen", [t] => do
      let ty ← parseTy t
      let sl ← (match ty with
        | .u64 => some codec_u64_static_length | .u128 => some codec_u128_static_length
        | .u8 => some codec_u8_static_length | .u16 => some codec_u16_static_length
        | .u32 => some codec_u32_static_length | .bool => some codec_bool_static_length
        | .bfe => some codec_bfe_static_length | _ => none)
      pure (match sl with | some n => s!"ok:some:{n}" | none => "ok:none")
  | "enc", [t, v] => do
      let ty ← parseTy t
      let val ← parseVal v
      if !(hasTy ty val) then none else
      let n := numOf val
      let out (ok : Bool) (e : List Nat) : String := if ok then "ok:" ++ fmtList (e.map bfe_value) else "panic"
      match ty with
      | .u64 => some (out (codec_u64_encode_ok n) (codec_u64_encode n))
      | .u128 => some (out (codec_u128_encode_ok n) (codec_u128_encode n))
      | .u8 => some (out (codec_u8_encode_ok n) (codec_u8_encode n))
      | .u16 => some (out (codec_u16_encode_ok n) (codec_u16_encode n))
      | .u32 => some (out (codec_u32_encode_ok n) (codec_u32_encode n))
      | .bool => some (out (codec_bool_encode_ok (n != 0)) (codec_bool_encode (n != 0)))
      | .bfe => some (out (codec_bfe_encode_ok (bfe_new n)) (codec_bfe_encode (bfe_new n)))
      | _ => none
  | "dec", [t, s] => do
      let ty ← parseTy t
      let seq ← s.natList?
      if !(seq.all (· < TF.Gen.P)) then none else
      let r := seq.map bfe_new
      match ty with
      | .u64 => some (fmtGenNat (codec_u64_decode_ok r) (codec_u64_decode r))
      | .u128 => some (fmtGenNat (codec_u128_decode_ok r) (codec_u128_decode r))
      | .u8 => some (fmtGenNat (codec_u8_decode_ok r) (codec_u8_decode r))
      | .u16 => some (fmtGenNat (codec_u16_decode_ok r) (codec_u16_decode r))
      | .u32 => some (fmtGenNat (codec_u32_decode_ok r) (codec_u32_decode r))
      | .bool => some (if codec_bool_decode_ok r then
          (match codec_bool_decode r with | .ok b => (if b then "ok:1" else "ok:0") | .error _ => "err") else "panic")
      | .bfe => some (if codec_bfe_decode_ok r then
          (match codec_bfe_decode r with | .ok w => s!"ok:{bfe_value w}" | .error _ => "err") else "panic")
      | _ => none
  | _, _ => none

/-! ### BT8: the generic combinators regenerated from source (`TF/Gen/CodecGeneric.lean`) instantiated at every type built
from the leaves with `Box`, `Option`, `Vec`, `[T; N]`, `Polynomial`, `PhantomData` (item type `T := Val`, the item functions
are the regenerated decoders of the component, recursively) and evaluated next to the hand model. -/
open TF.Gen TF.Gen.Loops TF.RustStd in
def liftLeaf (ok : Bool) (r : Except String Nat) : Res String Val :=
  if ok then (match r with | .ok n => .ok (.num n) | .error e => .err e) else .panic

def mapRes {ε α β : Type} (f : α → β) : TF.RustStd.Res ε α → TF.RustStd.Res ε β
  | .ok a => .ok (f a)
  | .err e => .err e
  | .panic => .panic

open TF.Gen TF.Gen.Loops TF.RustStd in
partial def genSL : Ty → Option (Option Nat)
  | .u64 => some codec_u64_static_length | .u128 => some codec_u128_static_length
  | .u8 => some codec_u8_static_length | .u16 => some codec_u16_static_length
  | .u32 => some codec_u32_static_length | .bool => some codec_bool_static_length
  | .bfe => some codec_bfe_static_length
  | .phantom => some codec_phantom_static_length
  | .box t => (genSL t).map codec_box_static_length
  | .option _ => some codec_option_static_length
  | .vec _ => some codec_vec_static_length
  | .array n t => (genSL t).map (codec_array_static_length n)
  | .poly _ => some codec_poly_static_length
  | _ => none

open TF.Gen TF.Gen.Loops TF.RustStd in
partial def genDec : Ty → Option (List Nat → Res String Val)
  | .u64 => some fun r => liftLeaf (codec_u64_decode_ok r) (codec_u64_decode r)
  | .u128 => some fun r => liftLeaf (codec_u128_decode_ok r) (codec_u128_decode r)
  | .u8 => some fun r => liftLeaf (codec_u8_decode_ok r) (codec_u8_decode r)
  | .u16 => some fun r => liftLeaf (codec_u16_decode_ok r) (codec_u16_decode r)
  | .u32 => some fun r => liftLeaf (codec_u32_decode_ok r) (codec_u32_decode r)
  | .bool => some fun r => if codec_bool_decode_ok r then
      (match codec_bool_decode r with | .ok b => .ok (.num (if b then 1 else 0)) | .error e => .err e) else .panic
  | .bfe => some fun r => if codec_bfe_decode_ok r then
      (match codec_bfe_decode r with | .ok w => .ok (.num (bfe_value w)) | .error e => .err e) else .panic
  | .phantom => some fun r => mapRes (fun _ => Val.unit) (codec_phantom_decode r)
  | .box t => do
      let d ← genDec t
      pure (codec_box_decode d)
  | .option t => do
      let d ← genDec t
      pure fun r => mapRes Val.opt (codec_option_decode d (fun e => ⟨e⟩) r)
  | .vec t => do
      let d ← genDec t
      let sl ← genSL t
      pure fun r => mapRes Val.list (codec_vec_decode sl d (fun e => ⟨e⟩) r)
  | .array n t => do
      let d ← genDec t
      let sl ← genSL t
      pure fun r => mapRes Val.list (codec_array_decode n sl d (fun e => ⟨e⟩) r)
  | .poly t => do
      let d ← genDec t
      let sl ← genSL t
      pure fun r => mapRes Val.list (codec_poly_decode sl d (fun e => ⟨e⟩) valIsZero r)
  | _ => none

def isLeafTy : Ty → Bool
  | .u64 | .u128 | .u8 | .u16 | .u32 | .bool | .bfe => true
  | _ => false

open TF.Gen TF.Gen.Loops TF.RustStd in
def compGen (op : String) (args : List Arg) : Option String :=
  match op, args with
  | "slen", [t] => do
      let ty ← parseTy t
      if isLeafTy ty then none else
      let sl ← genSL ty
      pure (match sl with | some n => s!"ok:some:{n}" | none => "ok:none")
  | "dec", [t, s] => do
      let ty ← parseTy t
      if isLeafTy ty then none else
      let seq ← s.natList?
      if !(seq.all (· < TF.Gen.P)) then none else
      let d ← genDec ty
      pure (match d (seq.map bfe_new) with
        | .ok v => "ok:" ++ fmtVal v
        | .err _ => "err"
        | .panic => "panic")
  | _, _ => none

/-- the family handler: the hand model's reply; where the regenerated code has an opinion (leaf types, and every type built
    from them with the regenerated generic combinators) it must be the same -/
def codec : Handler := fun op args =>
  match run op args, (leafGen op args <|> compGen op args) with
  | some m, some g => some (if g == m then m else "GEN-MISMATCH gen=" ++ g ++ " model=" ++ m)
  | m, _ => m

/-- family `derive`: `derive <op> <TypeName> <tydesc> …` — the name selects the twin Rust types in the harness; the
    model only needs the shape -/
def derive : Handler
  | op, _name :: rest => run op rest
  | _, _ => none

end TF.Drv.Codec
