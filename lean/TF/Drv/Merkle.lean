-- FAMILIES: mt=TF.Drv.Merkle.mt mtb=TF.Drv.Merkle.mtb
import TF.Drv.Proto
import TF.Model.Merkle
import TF.Spec.Merkle
import TF.Model.HashTip5
import TF.Gen.MerkleLoops
import TF.Gen.MerkleIndex
/-!
driver handlers for the families `mt` (C04: inclusion proofs, accessors) and `mtb` (C10: construction).
Digests are lists of five canonical values, the hash is the executable Tip5 instance `TF.Hash.hashPair`.
Next to the model every handler evaluates the Spec-level function on small heights and flags a difference
(`!spec…` suffix), so a model/spec divergence shows up as a disagreement with the implementation's line.
-/
namespace TF.Drv.Merkle
open TF.Proto TF.Gen TF.Merkle

abbrev Dg := List Nat
def Hh : Dg → Dg → Dg := TF.Hash.hashPair
def filler : Dg := List.replicate DIGEST_LEN 0

def Arg.digest? (a : Arg) : Option Dg := a.natList?
def Arg.digests? (a : Arg) : Option (List Dg) := a.natListList?
def Arg.leafs? : Arg → Option (List (Nat × Dg))
  | .list xs => xs.mapM fun
    | .tup [.nat i, d] => d.natList?.map fun dd => (i, dd)
    | _ => none
  | _ => none

def fmtDigests (ds : List Dg) : String := fmtListList ds
def fmtLeafs (ls : List (Nat × Dg)) : String :=
  "[" ++ ",".intercalate (ls.map fun x => s!"({x.1};{fmtList x.2})") ++ "]"
def fmtOptD : Option Dg → String
  | some d => "some:" ++ fmtList d
  | none => "none"
def fmtPaths (ps : List (List Dg)) : String := "[" ++ ",".intercalate (ps.map fmtDigests) ++ "]"

def fmtRes {α : Type} (f : α → String) : Res α → String
  | .ok a => "ok:" ++ f a
  | .err _ => "err"
  | .panic => "panic"

/-- in-process tree of the implementation: whatever the cut-off is, the result is the same; the model uses the default -/
def build (ds : List Dg) : Res (Tree Dg) := fromDigests Hh filler DEFAULT_PARALLELIZATION_CUTOFF ds

def withTree (ds : List Dg) (f : Tree Dg → String) : String :=
  match build ds with
  | .ok t => f t
  | .err _ => "err:build"
  | .panic => "panic"

def specLimit : Nat := 8

def verifyReply (p : Proof Dg) (root : Dg) : String :=
  match verify Hh p root with
  | .ok b =>
    if p.height ≤ specLimit ∧ Spec.refVerify Hh p root ≠ b then s!"ok:{fmtBool b}!spec" else s!"ok:{fmtBool b}"
  | .err _ => "err"
  | .panic => "panic"

def pathsReply (p : Proof Dg) : String := fmtRes fmtPaths (intoAuthPaths Hh p)

def treeReply (t : Tree Dg) (ds : List Dg) : String :=
  match t.height, t.root with
  | .ok h, .ok r =>
    let specOk := h > 6 || t.nodes == Spec.treeNodes Hh filler h ds
    s!"ok:{h}|{t.numLeafs}|{fmtList r}|{fmtDigests t.nodes}|{fmtDigests t.leafs}" ++ (if specOk then "" else "!spec")
  | _, _ => "panic"

def mtModel : Handler
  | "verify", [.nat h, ls, au, r] => do
    let ls ← Arg.leafs? ls; let au ← Arg.digests? au; let r ← Arg.digest? r
    pure (verifyReply ⟨h, ls, au⟩ r)
  | "paths", [.nat h, ls, au] => do
    let ls ← Arg.leafs? ls; let au ← Arg.digests? au
    pure (pathsReply ⟨h, ls, au⟩)
  | "leaf", [ds, is] => do
    let ds ← Arg.digests? ds; let is ← is.natList?
    pure (withTree ds fun t => "ok:[" ++ ",".intercalate (is.map fun i => fmtOptD (t.leaf i)) ++ "]")
  | "node", [ds, is] => do
    let ds ← Arg.digests? ds; let is ← is.natList?
    pure (withTree ds fun t => "ok:[" ++ ",".intercalate (is.map fun i => fmtOptD (t.node i)) ++ "]")
  | "indexed_leafs", [ds, is] => do
    let ds ← Arg.digests? ds; let is ← is.natList?
    pure (withTree ds fun t => fmtRes fmtLeafs (t.indexedLeafs is))
  | "auth_structure", [ds, is] => do
    let ds ← Arg.digests? ds; let is ← is.natList?
    pure (withTree ds fun t =>
      let r := fmtRes fmtDigests (t.authStructure is)
      -- Spec oracle: the node indices are the documented minimal set
      match t.height, authIdx t.numLeafs is with
      | .ok h, .ok ks => if h ≤ specLimit ∧ ks ≠ Spec.needed h is then r ++ "!spec" else r
      | _, _ => r)
  | "proof", [ds, is] => do
    let ds ← Arg.digests? ds; let is ← is.natList?
    pure (withTree ds fun t =>
      match t.inclusionProof is, t.root with
      | .ok p, .ok root =>
        s!"ok:{p.height}|{fmtLeafs p.leafs}|{fmtDigests p.auth}|{verifyReply p root}|{pathsReply p}"
      | .err _, _ => "err"
      | _, _ => "panic")
  | _, _ => none

/-! ### P03: the index arithmetic regenerated from source (`TF/Gen/MerkleIndex.lean`) evaluated next to the hand model:
`MerkleTree::{leaf, node, num_leafs, height}` on the built tree's node vector, `PartialMerkleTree::num_leafs` on the height of
every proof that is verified / expanded.  Digests are opaque for these functions. -/
open TF.Gen.Loops in
def mtGen : Handler
  | "leaf", [ds, is] => do
    let ds ← Arg.digests? ds; let is ← is.natList?
    pure (withTree ds fun t =>
      if (is.all fun i => mt_leaf_ok t.nodes i) && mt_num_leafs_ok t.nodes && mt_num_leafs t.nodes == t.numLeafs &&
          fmtRes toString t.height == (if mt_height_ok t.nodes then s!"ok:{mt_height t.nodes}" else "panic") then
        "ok:[" ++ ",".intercalate (is.map fun i => fmtOptD (mt_leaf t.nodes i)) ++ "]"
      else "panic-or-accessor-differs")
  | "node", [ds, is] => do
    let ds ← Arg.digests? ds; let is ← is.natList?
    pure (withTree ds fun t =>
      if is.all fun i => mt_node_ok t.nodes i then
        "ok:[" ++ ",".intercalate (is.map fun i => fmtOptD (mt_node t.nodes i)) ++ "]"
      else "panic")
  | _, _ => none

/-- `PartialMerkleTree::num_leafs` of a proof height: regenerated vs hand model (`none` = they agree) -/
def numLeafsMismatch (h : Nat) : Option String :=
  let g := if TF.Gen.Loops.pmt_num_leafs_ok h then
    (match TF.Gen.Loops.pmt_num_leafs h with | .ok n => s!"ok:{n}" | .error _ => "err") else "panic"
  let m := fmtRes toString (numLeafs h)
  if g == m then none else some ("GEN-MISMATCH pmt_num_leafs gen=" ++ g ++ " model=" ++ m)

/-- the family handler: the hand model's reply; where the regenerated code has an opinion it must be the same -/
def mt : Handler := fun op args =>
  let hm : Option String := match op, args with
    | "verify", (.nat h) :: _ => numLeafsMismatch h
    | "paths", (.nat h) :: _ => numLeafsMismatch h
    | _, _ => none
  match hm with
  | some e => some e
  | none =>
    match mtModel op args, mtGen op args with
    | some m, some g => some (if g == m then m else "GEN-MISMATCH gen=" ++ g ++ " model=" ++ m)
    | m, _ => m

def cutoffArg : Arg → Option Nat
  | .nat c => if c < USIZE then some c else none
  | _ => none

/-- level digests of the *virtual constant tree* (all leafs equal `d`): `[d_0, …, d_h]`, `d_0 = d`, `d_{k+1} = H d_k d_k` -/
def constLevels (d : Dg) : Nat → List Dg
  | 0 => [d]
  | h+1 => let ls := constLevels d h; ls ++ [Hh (ls.getLastD d) (ls.getLastD d)]

/-- the honest inclusion proof of the virtual constant tree of height `h`, computed by index arithmetic only
    (`authIdx` walks the paths of the claimed leafs; node `k` lies `h - log2 k` levels above the leafs) -/
def vproofReply (h : Nat) (d : Dg) (is : List Nat) : String :=
  if h > 62 then "err" else
  let levels := constLevels d h
  match authIdx (2^h) is with
  | .ok ks =>
    let auth := ks.map fun k => (levels[h - Nat.log2 k]?).getD []
    let p : Proof Dg := ⟨h, is.map (fun i => (i, d)), auth⟩
    s!"ok:{verifyReply p (levels.getLastD d)}|{pathsReply p}"
  | .err _ => "err"
  | .panic => "panic"

def mtb : Handler
  | "vproof", [.nat h, d, is] => do
    let d ← Arg.digest? d; let is ← is.natList?
    pure (vproofReply h d is)
  | "build", [ds] => do
    let ds ← Arg.digests? ds
    pure (match build ds with
      | .ok t => treeReply t ds
      | .err _ => "err"
      | .panic => "panic")
  | "build_env", [c, _threads, ds] => do   -- threads: `<n>` or `t<n>m<hex affinity mask>`
    let ds ← Arg.digests? ds
    let cutoff := cutoffOfEnv (cutoffArg c)
    let m := fromDigestsFuel Hh filler cutoff (ds.length + 1) ds
    -- `from_digests` **regenerated from source** (TF/Gen/MerkleLoops.lean, tools/rs2lean_bt4.py) evaluated next to the hand
    -- model with the same cut-off: node vector, error kind, panic (`_ok` flag) and non-termination must agree
    let g := TF.Gen.Loops.merkle_from_digests Hh [] filler cutoff ds
    let gok := TF.Gen.Loops.merkle_from_digests_ok Hh [] filler cutoff ds
    let agree := match m, g with
      | none, none => true
      | some .panic, _ => !gok
      | some (.ok t), some (.ok nodes) => gok && t.nodes == nodes
      | some (.err .tooFewLeafs), some (.error e) => gok && e == "TooFewLeafs"
      | some (.err .incorrectNumberOfLeafs), some (.error e) => gok && e == "IncorrectNumberOfLeafs"
      | _, _ => false
    if !agree then pure "GEN-MISMATCH from_digests" else
    pure (match m with
      | none => "timeout"
      | some (.ok t) => treeReply t ds
      | some (.err _) => "err"
      | some .panic => "panic")
  | _, _ => none

end TF.Drv.Merkle
