-- FAMILIES: conv=TF.Drv.Conv.conv
import TF.Drv.Proto
import TF.Model.Conv
import TF.Gen.ConvLoops
/-! driver handler for the family `conv` (C20). Strings travel as lists of their UTF-8 byte values. -/
namespace TF.Drv.Conv
open TF.Proto TF.Conv TF.Gen

def bytesToChars (bs : List Nat) : Option (List Char) :=
  if bs.all (· < 256) then
    (String.fromUTF8? (ByteArray.mk (bs.map UInt8.ofNat).toArray)).map String.toList
  else none

def charsToBytes (cs : List Char) : List Nat := (String.ofList cs).toUTF8.toList.map UInt8.toNat

def okStr (cs : List Char) : String := "ok:" ++ fmtList (charsToBytes cs)
def okLE : Option (List Nat) → String
  | some l => "ok:" ++ fmtList l
  | none => "err"
def okNE : Option Nat → String
  | some v => s!"ok:{v}"
  | none => "err"
def fmtOrd : Ordering → String
  | .lt => "lt" | .eq => "eq" | .gt => "gt"

/-- a digest operand: five canonical values -/
def dig (a : Arg) : Option (List Nat) := do
  let l ← a.natList?
  if l.length == 5 && l.all (· < P) then some l else none

def str (a : Arg) : Option (List Char) := do bytesToChars (← a.natList?)

def bytes (a : Arg) : Option (List Nat) := do
  let l ← a.natList?
  if l.all (· < 256) then some l else none

/-- value of base-2^32 digits, little endian -/
def bigVal : List Nat → Nat
  | [] => 0
  | x :: xs => x + 4294967296 * bigVal xs

def convModel : Handler
  | "d_to_bytes", [x] => do let d ← dig x; pure ("ok:" ++ fmtList (digestToBytes d))
  | "d_from_bytes", [x] => do let b ← bytes x; pure (okLE (digestFromBytes b))
  | "d_from_array", [x] => do
      let b ← bytes x
      if b.length == 40 then pure (okLE (digestFromByteArray b)) else none
  | "d_bytes_roundtrip", [x] => do let d ← dig x; pure (okLE (digestFromBytes (digestToBytes d)))
  | "d_from_vec", [x] => do
      let v ← x.natList?
      if v.all (· < P) then pure (okLE (digestFromVec v)) else none
  | "d_to_hex", [x] => do let d ← dig x; pure (okStr (digestToHex d))
  | "d_to_hex_upper", [x] => do let d ← dig x; pure (okStr (digestToHexUpper d))
  | "d_from_hex", [x] => do let s ← str x; pure (okLE (digestFromHex s))
  | "d_hex_roundtrip", [x] => do let d ← dig x; pure (okLE (digestFromHex (digestToHex d)))
  | "d_to_string", [x] => do let d ← dig x; pure (okStr (digestToString d))
  | "d_from_str", [x] => do let s ← str x; pure (okLE (digestFromStr s))
  | "d_str_roundtrip", [x] => do let d ← dig x; pure (okLE (digestFromStr (digestToString d)))
  | "d_to_big", [x] => do let d ← dig x; pure s!"ok:{digestToNat d}"
  | "d_from_big", [x] => do let ds ← x.natList?; pure (okLE (digestFromNat (bigVal ds)))
  | "d_big_roundtrip", [x] => do let d ← dig x; pure (okLE (digestFromNat (digestToNat d)))
  | "d_cmp", [x, y] => do let a ← dig x; let b ← dig y; pure ("ok:" ++ fmtOrd (digestCmp a b))
  | "bfe_to_bytes", [.nat v] => if v < P then some ("ok:" ++ fmtList (bfeToBytes v)) else none
  | "bfe_from_bytes", [x] => do let b ← bytes x; pure (okNE (bfeFromBytes b))
  | "bfe_from_array", [x] => do
      let b ← bytes x
      if b.length == 8 then pure (okNE (bfeTryNew (ofLeBytes b))) else none
  | "bfe_from_str", [x] => do let s ← str x; pure (okNE (bfeFromStr s))
  | "bfe_str_roundtrip", [.nat v] => if v < P then some (okNE (bfeFromStr (toDecimal v))) else none
  | "u64_to_string", [.nat v] => if v ≤ U64MAX then some (okStr (toDecimal v)) else none
  | "x_to_digest", [x] => do let t ← x.triple?; pure ("ok:" ++ fmtList (xfeToDigest t))
  | "x_from_digest", [x] => do
      let d ← dig x
      pure (match xfeFromDigest d with | some t => "ok:" ++ fmtTriple t | none => "err")
  | "json_d", [x] => do let d ← dig x; pure (okStr (jsonDigest d))
  | "json_d_de", [x] => do let s ← str x; pure (okLE (digestFromHex s))
  | "bincode_d", [x] => do let d ← dig x; pure ("ok:" ++ fmtList (bincodeDigest d))
  | "bincode_d_de", [x] => do let b ← bytes x; pure (okLE (bincodeDigestDe b))
  | "json_bfe", [.nat v] => if v < P then some (okStr (toDecimal v)) else none
  | "json_bfe_de", [x] => do let ds ← x.natList?; pure (okNE (jsonBfeDe (bigVal ds)))
  | "bincode_bfe", [.nat v] => if v < P then some ("ok:" ++ fmtList (leBytes 8 v)) else none
  | "bincode_bfe_de", [x] => do let b ← bytes x; pure (okNE (bincodeBfeDe b))
  | "d_reversed", [x] => do let d ← dig x; pure (okLE (digestReversed d))
  | "d_default", [] => some ("ok:" ++ fmtList digestDefault)
  | "d_to_vec", [x] => do let d ← dig x; pure ("ok:" ++ fmtList (digestToVec d))
  | "d_consts", [] => some ("ok:" ++ fmtList [DIGEST_LEN, digestBytesConst])
  | _, _ => none

/-! ### BT5: the conversions regenerated from source (`TF/Gen/ConvLoops.lean`) evaluated next to the hand model.
The regenerated code works on raw Montgomery words: operands go in through the translated `bfe_new`, results come back
through the translated `bfe_value`; a panic of the regenerated code (`_ok = false`) is printed as `panic`. -/
open TF.Gen.Loops in
def toOptE {α : Type} : Except String α → Option α
  | .ok v => some v
  | .error _ => none

open TF.Gen.Loops in
def convGen : Handler
  | "d_to_bytes", [x] => do
      let d ← dig x; let r := d.map bfe_new
      pure (if conv_digest_to_bytes_ok r then "ok:" ++ fmtList (conv_digest_to_bytes r) else "panic")
  | "d_from_bytes", [x] => do
      let b ← bytes x
      pure (if conv_digest_try_from_slice_ok b then okLE ((toOptE (conv_digest_try_from_slice b)).map (·.map bfe_value)) else "panic")
  | "d_from_array", [x] => do
      let b ← bytes x
      if b.length == 40 then
        pure (if conv_digest_try_from_array_ok b then okLE ((toOptE (conv_digest_try_from_array b)).map (·.map bfe_value)) else "panic")
      else none
  | "d_bytes_roundtrip", [x] => do
      let d ← dig x; let r := d.map bfe_new
      pure (okLE ((toOptE (conv_digest_try_from_slice (conv_digest_to_bytes r))).map (·.map bfe_value)))
  | "d_to_big", [x] => do
      let d ← dig x; let r := d.map bfe_new
      pure (if conv_digest_to_biguint_ok r then s!"ok:{conv_digest_to_biguint r}" else "panic")
  | "d_from_big", [x] => do
      let ds ← x.natList?; let v := bigVal ds
      pure (if conv_digest_try_from_biguint_ok v then okLE ((toOptE (conv_digest_try_from_biguint v)).map (·.map bfe_value)) else "panic")
  | "d_big_roundtrip", [x] => do
      let d ← dig x; let r := d.map bfe_new
      pure (okLE ((toOptE (conv_digest_try_from_biguint (conv_digest_to_biguint r))).map (·.map bfe_value)))
  | "d_cmp", [x, y] => do
      let a ← dig x; let b ← dig y
      pure (if conv_digest_cmp_ok (a.map bfe_new) (b.map bfe_new) then
        (match conv_digest_partial_cmp (a.map bfe_new) (b.map bfe_new) with
         | some o => if o == conv_digest_cmp (a.map bfe_new) (b.map bfe_new) then "ok:" ++ fmtOrd o else "partial_cmp-differs"
         | none => "partial_cmp-none") else "panic")
  | "bfe_to_bytes", [.nat v] =>
      if v < P then some (if conv_bfe_to_bytes_ok (bfe_new v) then "ok:" ++ fmtList (conv_bfe_to_bytes (bfe_new v)) else "panic") else none
  | "bfe_from_bytes", [x] => do
      let b ← bytes x
      pure (if conv_bfe_try_from_slice_ok b then okNE ((toOptE (conv_bfe_try_from_slice b)).map bfe_value) else "panic")
  | "bfe_from_array", [x] => do
      let b ← bytes x
      if b.length == 8 then
        pure (if conv_bfe_try_from_array_ok b then okNE ((toOptE (conv_bfe_try_from_array b)).map bfe_value) else "panic")
      else none
  | "x_to_digest", [x] => do
      let t ← x.triple?
      pure ("ok:" ++ fmtList ((conv_xfe_to_digest [bfe_new t.1, bfe_new t.2.1, bfe_new t.2.2]).map bfe_value))
  | "x_from_digest", [x] => do
      let d ← dig x
      pure (match toOptE (conv_xfe_try_from_digest (d.map bfe_new)) with
        | some l => "ok:" ++ fmtTriple (bfe_value (l.getD 0 0), bfe_value (l.getD 1 0), bfe_value (l.getD 2 0))
        | none => "err")
  | "d_reversed", [x] => do
      let d ← dig x
      pure ("ok:" ++ fmtList ((conv_digest_reversed (conv_digest_values (conv_digest_new (d.map bfe_new)))).map bfe_value))
  | _, _ => none

/-- the family handler: the hand model's reply; where the regenerated code has an opinion it must be the same -/
def conv : Handler := fun op args =>
  match convModel op args, convGen op args with
  | some m, some g => some (if g == m then m else "GEN-MISMATCH gen=" ++ g ++ " model=" ++ m)
  | m, _ => m

end TF.Drv.Conv
