-- FAMILIES: mmri=TF.Drv.MmrIndex.mmri
import TF.Drv.Proto
import TF.Model.MmrIndex
import TF.Gen.MmrLoops
import TF.Spec.MmrIndex
/-!
driver handler for the family `mmri` (C16): one op per public function of `shared_basic.rs` / `shared_advanced.rs`,
plus `forest n`, which prints the whole table of the explicit forest S0 (computed by `TF.Spec.Mmr`, *not* by the
model functions) — the harness prints the same table from the real index functions.

Outside the documented domain of a function (its `_ok` predicate is false: a debug build would panic on overflow)
the model has no opinion (`skip`), except where an `assert!` fails: `panic`.
-/
namespace TF.Drv.MmrIndex
open TF.Proto TF.Gen TF.Model.Mmr

def u64? (n : Nat) : Bool := n < 18446744073709551616
def okN (n : Nat) : String := s!"ok:{n}"
def okPair (p : Nat × Nat) : String := s!"ok:({p.1};{p.2})"
def skip : String := "skip"
def guard (ok : Bool) (r : String) : String := if ok then r else skip
def diverge : String := "diverge"

/-- the hand model's value next to the value of the definition **regenerated from source** (`TF.Gen.Loops`, written by
    tools/rs2lean_loops.py): when they differ the difference is printed instead of the value, so a translator bug (or a
    hand model that drifted from the code) shows up as a disagreement with the implementation on the unchanged tree -/
def both {α : Type} [BEq α] (gen model : α) (fmt : α → String) : String :=
  if gen == model then fmt model else "GEN-MISMATCH gen=" ++ fmt gen ++ " model=" ++ fmt model

def fmtOptList : Option (List Nat) → String
  | some l => "some:" ++ fmtList l
  | none => "none"

open TF.Spec.Mmr in
/-- the table of the forest S0 with `n` leaves -/
def forestTable (n : Nat) : String :=
  let F := forest n
  let peaks := F.peaks
  let rows := F.rows
  let F1 := F.append
  let added := (List.range (F1.nodes - F.nodes)).map (fun k => F.nodes + 1 + k)
  let leafRows := rows.filterMap fun (k, r) =>
    match r.leaf with
    | some li => some s!"({li};{r.idx};{r.mt};{k};{r.rll};{fmtList r.auth})"
    | none => none
  let nodeRows := rows.map fun (_, r) =>
    let lf := match r.leaf with | some li => li + 1 | none => 0
    s!"({r.idx};{r.height};{r.rll};{r.rll};{r.parent};{r.sibling};{r.left};{r.right};{lf})"
  s!"ok:{F.nodes} {fmtList (peaks.map Tree.height)} {fmtList (peaks.map Tree.idx)} {fmtList added} " ++
    "[" ++ ",".intercalate leafRows ++ "] [" ++ ",".intercalate nodeRows ++ "]"

def mmri : Handler
  | "left_child", [.nat n, .nat h] => guard (u64? n && left_child_ok n h) (okN (left_child n h))
  | "right_child", [.nat n] => guard (u64? n && right_child_ok n) (okN (right_child n))
  | "mt", [.nat i, .nat n] =>
      if !(u64? i && u64? n) then skip
      else if i < n then guard (leaf_index_to_mt_index_and_peak_index_ok i n) (okPair (leaf_index_to_mt_index_and_peak_index i n))
      else "panic"
  | "rll_leaf", [.nat i] => guard (u64? i && right_lineage_length_from_leaf_index_ok i) (okN (right_lineage_length_from_leaf_index i))
  | "leftmost_ancestor", [.nat n] => guard (u64? n && leftmost_ancestor_ok n) (okPair (leftmost_ancestor n))
  | "l2n", [.nat i] => guard (u64? i && leaf_index_to_node_index_ok i) (okN (leaf_index_to_node_index i))
  | "left_sibling", [.nat n, .nat h] => guard (u64? n && left_sibling_ok n h) (okN (left_sibling n h))
  | "right_sibling", [.nat n, .nat h] => guard (u64? n && right_sibling_ok n h) (okN (right_sibling n h))
  | "num_nodes", [.nat n] => guard (u64? n && num_leafs_to_num_nodes_ok n) (okN (num_leafs_to_num_nodes n))
  | "rll_own", [.nat n] =>
      guard (u64? n && 1 ≤ n) (both (Loops.right_lineage_length_and_own_height n) (right_lineage_length_and_own_height n)
        fun | some p => okPair p | none => diverge)
  | "rll_node", [.nat n] =>
      guard (u64? n && 1 ≤ n) (both (Loops.right_lineage_length_from_node_index n) (right_lineage_length_from_node_index n)
        fun | some r => okN r | none => diverge)
  | "parent", [.nat n] =>
      guard (1 ≤ n && n < 18446744073709551615) (both (Loops.parent n) (parent n) fun | some r => okN r | none => diverge)
  | "added", [.nat c] =>
      guard (c < 9223372036854775808) (both (Loops.node_indices_added_by_append c) (node_indices_added_by_append c)
        fun | some l => "ok:" ++ fmtList l | none => diverge)
  | "auth", [.nat s, .nat p, .nat c] =>
      guard (1 ≤ s && u64? s && u64? p && c < 18446744073709551615)
        (both (Loops.get_authentication_path_node_indices s p c) (get_authentication_path_node_indices s p c)
          fun | some r => "ok:" ++ fmtOptList r | none => diverge)
  | "peak_heights", [.nat c] => guard (u64? c) (both (Loops.get_peak_heights c) (get_peak_heights c) fun l => "ok:" ++ fmtList l)
  | "peaks", [.nat c] =>
      guard (c < 9223372036854775808)
        (both (Loops.get_peak_heights_and_peak_node_indices c) (get_peak_heights_and_peak_node_indices c)
          fun | some (hs, is) => s!"ok:{fmtList hs} {fmtList is}"
              | none => diverge)
  | "n2l", [.nat n] =>
      guard (u64? n && 1 ≤ n) (both (Loops.node_index_to_leaf_index n) (node_index_to_leaf_index n)
        fun | some r => "ok:" ++ fmtOptNat r | none => diverge)
  | "forest", [.nat n] => some (forestTable n)
  | _, _ => none

end TF.Drv.MmrIndex
