-- FAMILIES: mmra=TF.Drv.MmrAcc.mmra
import TF.Drv.Proto
import TF.Model.MmrAcc
import TF.Model.HashTip5
import TF.Gen.MmrPeaksLoops
import TF.Gen.MmrProofLoops
/-!
driver handler for the family `mmra` (C11): a whole accumulator history is one op line

  `mmra hist <start> <step> <step> …`

* `<start>`: `new` | `(from;[leaf,…])` (`new_from_leafs`) | `(init;count;[peak,…])` (`MmrAccumulator::init`)
* `<step>`:  `(a;leaf)` append · `(m;index;leaf;[path])` mutate_leaf ·
             `(b;[[path],…];[index,…];[(index;leaf;[path]),…])` batch_mutate_leaf_and_update_mps with tracked proofs ·
             `(v;[peak,…];[leaf,…];[(index;leaf;[path]),…])` verify_batch_update (state unchanged)
  digests are lists of five canonical values.

Reply: `ok:` followed by one record per state: after the start and after every step
`(count;[peaks];bag;is_empty)`, for `a` additionally the returned authentication path, for `b` the modified indices
and the updated proofs, for `v` just `v:true|false`; a panicking step prints `panic` and leaves the state unchanged.
The hash is the executable Tip5 instance `TF.Hash.hashPair` (validated by the family `hash`).
-/
namespace TF.Drv.MmrAcc
open TF.Proto TF.Model.MmrAcc

abbrev Dg := List Nat

def H : Dg → Dg → Dg := TF.Hash.hashPair
/-- `Tip5::hash(&0u128)`: `hash_varlen` of the encoding of a 128-bit zero (four `u32` limbs) -/
def hashZero : Dg := TF.Hash.hashVarlen [0, 0, 0, 0]

def fmtState (a : Acc Dg) : String :=
  s!"({a.leaf_count};{fmtListList a.peaks};{fmtList (a.bag_peaks H hashZero)};{fmtBool a.is_empty})"

def mutation? : Arg → Option (LeafMutation Dg)
  | .tup [.nat i, leaf, ap] => do
      let l ← leaf.natList?
      let p ← ap.natListList?
      pure { leaf_index := i, new_leaf := l, auth := p }
  | _ => none

def mutations? : Arg → Option (List (LeafMutation Dg))
  | .list xs => xs.mapM mutation?
  | _ => none

def proofs? : Arg → Option (List (List Dg))
  | .list xs => xs.mapM Arg.natListList?
  | _ => none

/-! the peak calculations **regenerated from source** (`TF/Gen/MmrPeaksLoops.lean`, tools/rs2lean_bt4.py) evaluated next to the
hand model on every append / mutation: a false `_ok` flag is a panic (`none`); a difference is printed as `GEN-MISMATCH`
(and therefore shows up as a disagreement with the implementation) -/
def genAppendAgrees (a : Acc Dg) (l : Dg) : Bool :=
  let g := if TF.Gen.Loops.mmr_calculate_new_peaks_from_append_ok H [] a.leaf_count a.peaks l
    then TF.Gen.Loops.mmr_calculate_new_peaks_from_append H [] a.leaf_count a.peaks l else none
  g == calculate_new_peaks_from_append H a.leaf_count a.peaks l

def genMutateAgrees (a : Acc Dg) (i : Nat) (l : Dg) (p : List Dg) : Bool :=
  let g := if TF.Gen.Loops.mmr_calculate_new_peaks_from_leaf_mutation_ok H [] a.peaks a.leaf_count l i p
    then TF.Gen.Loops.mmr_calculate_new_peaks_from_leaf_mutation H [] a.peaks a.leaf_count l i p else none
  g == calculate_new_peaks_from_leaf_mutation H a.peaks a.leaf_count l i p

/-! BT7: the accumulator methods **regenerated from source** (`TF/Gen/MmrProofLoops.lean`, tools/rs2lean_mmr.py; an accumulator
is the pair `(leaf_count, peaks)`) evaluated next to the hand model on every append / mutation / `new_from_leafs` and on every
printed state (`num_leafs`, `peaks`, `is_empty`, `bag_peaks`) -/
def asPair (a : Acc Dg) : Nat × List Dg := (a.leaf_count, a.peaks)

def genAccAppendAgrees (a : Acc Dg) (l : Dg) : Bool :=
  let g := if TF.Gen.Loops.mmra_append_ok H [] (asPair a) l then TF.Gen.Loops.mmra_append H [] (asPair a) l else none
  g == (append H a l).map fun r => (r.2, asPair r.1)

def genAccMutateAgrees (a : Acc Dg) (i : Nat) (l : Dg) (p : List Dg) : Bool :=
  let g := if TF.Gen.Loops.mmra_mutate_leaf_ok H [] (asPair a) (i, l, p)
    then TF.Gen.Loops.mmra_mutate_leaf H [] (asPair a) (i, l, p) else none
  g == (mutate_leaf H a { leaf_index := i, new_leaf := l, auth := p }).map asPair

def genNewFromLeafsAgrees (ls : List Dg) : Bool :=
  let g := if TF.Gen.Loops.mmra_new_from_leafs_ok H [] ls then TF.Gen.Loops.mmra_new_from_leafs H [] ls else none
  g == (new_from_leafs H ls).map asPair

def genAccessorsAgree (a : Acc Dg) : Bool :=
  TF.Gen.Loops.mmra_num_leafs H [] (asPair a) == a.num_leafs && TF.Gen.Loops.mmra_peaks H [] (asPair a) == a.peaks &&
  TF.Gen.Loops.mmra_is_empty H [] (asPair a) == a.is_empty &&
  TF.Gen.Loops.mmra_bag_peaks_ok H [] hashZero (asPair a) &&
  TF.Gen.Loops.mmra_bag_peaks H [] hashZero (asPair a) == a.bag_peaks H hashZero

/-- one step: new state and the text of the record -/
def step (a : Acc Dg) : Arg → Option (Acc Dg × String)
  | .tup [.sym "a", leaf] => do
      let l ← leaf.natList?
      if !genAppendAgrees a l then pure (a, "GEN-MISMATCH calculate_new_peaks_from_append") else
      if !genAccAppendAgrees a l then pure (a, "GEN-MISMATCH MmrAccumulator::append") else
      if !genAccessorsAgree a then pure (a, "GEN-MISMATCH MmrAccumulator accessors") else
      match append H a l with
      | some (a', ap) => pure (a', s!"{fmtState a'}{fmtListList ap}")
      | none => pure (a, "panic")
  | .tup [.sym "m", .nat i, leaf, ap] => do
      let l ← leaf.natList?
      let p ← ap.natListList?
      if !genMutateAgrees a i l p then pure (a, "GEN-MISMATCH calculate_new_peaks_from_leaf_mutation") else
      if !genAccMutateAgrees a i l p then pure (a, "GEN-MISMATCH MmrAccumulator::mutate_leaf") else
      match mutate_leaf H a { leaf_index := i, new_leaf := l, auth := p } with
      | some a' => pure (a', fmtState a')
      | none => pure (a, "panic")
  | .tup [.sym "b", mps, idxs, muts] => do
      let ps ← proofs? mps
      let is ← idxs.natList?
      let ms ← mutations? muts
      match batch_mutate_leaf_and_update_mps H a ps is ms with
      | some (a', ps', mods) =>
        pure (a', s!"{fmtState a'}{fmtList mods}[{",".intercalate (ps'.map fmtListList)}]")
      | none => pure (a, "panic")
  | .tup [.sym "v", np, app, muts] => do
      let n ← np.natListList?
      let ap ← app.natListList?
      let ms ← mutations? muts
      match verify_batch_update H a n ap ms with
      | some b => pure (a, s!"v:{fmtBool b}")
      | none => pure (a, "panic")
  | _ => none

def start? : Arg → Option (Option (Acc Dg))
  | .sym "new" => some (some { leaf_count := 0, peaks := [] })
  | .tup [.sym "from", leafs] => do
      let ls ← leafs.natListList?
      if !genNewFromLeafsAgrees ls then none else      -- BT7: reported as a protocol error of the model (a disagreement)
      pure (new_from_leafs H ls)
  | .tup [.sym "init", .nat c, peaks] => do
      let ps ← peaks.natListList?
      pure (some (init ps c))
  | _ => none

def runHist (a : Acc Dg) (steps : List Arg) : Option String := do
  let mut a := a
  let mut out := [fmtState a]
  for s in steps do
    let (a', txt) ← step a s
    a := a'
    out := txt :: out
  pure ("ok:" ++ " ".intercalate out.reverse)

def mmra : Handler
  | "hist", st :: steps =>
    match start? st with
    | none => none
    | some none => some "panic"
    | some (some a) => runHist a steps
  -- `bhist <start> (known;[(index;leaf;[path]),…]) <step> …`: a history on an accumulator with a LARGE leaf count; the
  -- second argument (the materialised leafs, for the harness's from-scratch oracle) is ignored by the model
  | "bhist", st :: _known :: steps =>
    match start? st with
    | none => none
    | some none => some "panic"
    | some (some a) => runHist a steps
  | "bag", [peaks] => do
      let ps ← peaks.natListList?
      -- `bag_peaks` as regenerated from source (P10) next to the hand model
      if !(TF.Gen.Loops.mmr_bag_peaks_ok H [] hashZero ps && TF.Gen.Loops.mmr_bag_peaks H [] hashZero ps == bag_peaks H hashZero ps)
      then pure "GEN-MISMATCH bag_peaks" else
      pure ("ok:" ++ fmtList (bag_peaks H hashZero ps))
  | _, _ => none

end TF.Drv.MmrAcc
