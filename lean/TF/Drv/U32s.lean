-- FAMILIES: u32s=TF.Drv.U32s.u32s
import TF.Drv.Proto
import TF.Model.U32s
/-! driver handler for the family `u32s` (C19). Operands: `N` then limb lists (little endian). -/
namespace TF.Drv.U32s
open TF.Proto TF.U32s

def okL : Option (List Nat) → String
  | some l => "ok:" ++ fmtList l
  | none => "panic"

def okE : Option (List Nat) → String
  | some l => "ok:" ++ fmtList l
  | none => "err"

def fmtOrd : Ordering → String
  | .lt => "lt" | .eq => "eq" | .gt => "gt"

/-- operand of width `n` -/
def limbs (n : Nat) (a : Arg) : Option (List Nat) := do
  let l ← a.natList?
  if wf n l then some l else none

def u32s : Handler
  | "add", [.nat n, x, y] => do let a ← limbs n x; let b ← limbs n y; pure (okL (add a b))
  | "sub", [.nat n, x, y] => do let a ← limbs n x; let b ← limbs n y; pure (okL (sub a b))
  | "mul", [.nat n, x, y] => do let a ← limbs n x; let b ← limbs n y; pure (okL (mul a b))
  | "div", [.nat n, x, y] => do let a ← limbs n x; let b ← limbs n y; pure (okL (div a b))
  | "rem", [.nat n, x, y] => do let a ← limbs n x; let b ← limbs n y; pure (okL (rem a b))
  | "rem_div", [.nat n, x, y] => do
      let a ← limbs n x; let b ← limbs n y
      pure (match remDiv a b with
        | some (q, r) => s!"ok:({fmtList q};{fmtList r})"
        | none => "panic")
  | "mul_two", [.nat n, x] => do let a ← limbs n x; pure (okL (mulTwo a))
  | "div_two", [.nat n, x] => do let a ← limbs n x; pure (okL (divTwo a))
  | "cmp", [.nat n, x, y] => do let a ← limbs n x; let b ← limbs n y; pure ("ok:" ++ fmtOrd (cmp a b))
  | "eq", [.nat n, x, y] => do let a ← limbs n x; let b ← limbs n y; pure ("ok:" ++ fmtBool (a == b))
  | "sum", [.nat n, xs] => do
      let ls ← xs.natListList?
      if ls.all (wf n) then pure (okL (sum n ls)) else none
  | "zero", [.nat n] => some (okL (some (zero n)))
  | "one", [.nat n] => some (okL (one n))
  | "is_zero", [.nat n, x] => do let a ← limbs n x; pure ("ok:" ++ fmtBool (isZero a))
  | "from_u32", [.nat n, .nat v] => some (okL (fromU32 n v))
  | "try_u64", [.nat n, .nat v] => some (okE (tryFromU64 n v))
  | "try_u128", [.nat n, .nat v] => some (okE (tryFromU128 n v))
  | "to_big", [.nat n, x] => do let a ← limbs n x; pure s!"ok:{toBig a}"
  | "display", [.nat n, x] => do let a ← limbs n x; pure s!"ok:{toBig a}"
  | "from_big", [.nat n, x] => do
      -- the big integer is given by its base-2^32 digits (any number of them)
      let ds ← x.natList?
      pure (okL (some (fromBig n (val ds))))
  | "big_roundtrip", [.nat n, x] => do let a ← limbs n x; pure (okL (some (fromBig n (toBig a))))
  | "to_bfes", [.nat n, x] => do let a ← limbs n x; pure (okL (some (toBfes a)))
  | "encode", [.nat n, x] => do let a ← limbs n x; pure (okL (some (encode a)))
  | "decode", [.nat n, x] => do let s ← x.natList?; pure (okE (decode n s))
  | _, _ => none

end TF.Drv.U32s
