-- FAMILIES: u32s=TF.Drv.U32s.u32s
import TF.Drv.Proto
import TF.Model.U32s
import TF.Gen.U32sLoops
import TF.Gen.U32sLoops2
/-! driver handler for the family `u32s` (C19). Operands: `N` then limb lists (little endian). -/
namespace TF.Drv.U32s
open TF.Proto TF.U32s

def okL : Option (List Nat) → String
  | some l => "ok:" ++ fmtList l
  | none => "panic"

def okE : Option (List Nat) → String
  | some l => "ok:" ++ fmtList l
  | none => "err"

def fmtOrd : Ordering → String
  | .lt => "lt" | .eq => "eq" | .gt => "gt"

/-! The limb loops are **also regenerated from `u32s.rs`** on every run (`TF/Gen/U32sLoops.lean`, `TF.Gen.Loops.u32s_*`,
    written by tools/rs2lean_loops.py): the generated function computes the wrapped (release-arithmetic) result and its
    `_ok` companion says whether every `assert!` held and every index was in range, i.e. whether the Rust code panics.
    The handler evaluates both the regenerated definition and the hand model; a difference is printed instead of the
    value, so a translator bug shows up as a disagreement with the implementation on the unchanged tree. -/

/-- regenerated value + `_ok` predicate -> "exact or panic" -/
def genPanic (ok : Bool) (v : List Nat) : Option (List Nat) := if ok then some v else none

def both (gen model : Option (List Nat)) : String :=
  if gen == model then okL model else "GEN-MISMATCH gen=" ++ okL gen ++ " model=" ++ okL model

/-- the regenerated (private) `get_bit` / `set_bit` against the hand model, for every bit position of the operand -/
def bitsAgree (n : Nat) (a : List Nat) : Bool :=
  (List.range (32 * n)).all fun i =>
    (genPanic (TF.Gen.Loops.u32s_get_bit_ok n a i) [if TF.Gen.Loops.u32s_get_bit n a i then 1 else 0]
      == (getBit a i).map fun b => [if b then 1 else 0]) &&
    (genPanic (TF.Gen.Loops.u32s_set_bit_ok n a i true) (TF.Gen.Loops.u32s_set_bit n a i true) == setBit a i true) &&
    (genPanic (TF.Gen.Loops.u32s_set_bit_ok n a i false) (TF.Gen.Loops.u32s_set_bit n a i false) == setBit a i false)

/-! `rem_div`, `Ord::cmp`, `is_zero`/`zero`/`one`, `From<u32>`, `From<BigUint>`, `TryFrom<u64/u128>` regenerated from source by
    tools/rs2lean_ext.py (`TF/Gen/U32sLoops2.lean`); same side-by-side evaluation. -/

def bothS (gen model : String) : String :=
  if gen == model then model else "GEN-MISMATCH gen=" ++ gen ++ " model=" ++ model

def fmtQR : Option (List Nat × List Nat) → String
  | some (q, r) => s!"ok:({fmtList q};{fmtList r})"
  | none => "panic"

def exceptToOption : Except String (List Nat) → Option (List Nat)
  | .ok v => some v
  | .error _ => none

/-- operand of width `n` -/
def limbs (n : Nat) (a : Arg) : Option (List Nat) := do
  let l ← a.natList?
  if wf n l then some l else none

def u32s : Handler
  | "add", [.nat n, x, y] => do let a ← limbs n x; let b ← limbs n y; pure (both (genPanic (TF.Gen.Loops.u32s_add_ok n a b) (TF.Gen.Loops.u32s_add n a b)) (add a b))
  | "sub", [.nat n, x, y] => do let a ← limbs n x; let b ← limbs n y; pure (both (genPanic (TF.Gen.Loops.u32s_sub_ok n a b) (TF.Gen.Loops.u32s_sub n a b)) (sub a b))
  | "mul", [.nat n, x, y] => do let a ← limbs n x; let b ← limbs n y; pure (match TF.Gen.Loops.u32s_mul n a b with
        | none => "GEN-OUT-OF-FUEL"
        | some r => both (genPanic (TF.Gen.Loops.u32s_mul_ok n a b) r) (mul a b))
  | "div", [.nat n, x, y] => do let a ← limbs n x; let b ← limbs n y; pure (okL (div a b))
  | "rem", [.nat n, x, y] => do let a ← limbs n x; let b ← limbs n y; pure (okL (rem a b))
  | "rem_div", [.nat n, x, y] => do
      let a ← limbs n x; let b ← limbs n y
      pure (if !(bitsAgree n a) then "GEN-MISMATCH get_bit/set_bit" else
        bothS (fmtQR (if TF.Gen.Loops.u32s_rem_div_ok n a b then some (TF.Gen.Loops.u32s_rem_div n a b) else none)) (fmtQR (remDiv a b)))
  | "mul_two", [.nat n, x] => do let a ← limbs n x; pure (both (genPanic (TF.Gen.Loops.u32s_mul_two_ok n a) (TF.Gen.Loops.u32s_mul_two n a)) (mulTwo a))
  | "div_two", [.nat n, x] => do let a ← limbs n x; pure (both (genPanic (TF.Gen.Loops.u32s_div_two_ok n a) (TF.Gen.Loops.u32s_div_two n a)) (divTwo a))
  | "cmp", [.nat n, x, y] => do let a ← limbs n x; let b ← limbs n y; pure (bothS ("ok:" ++ fmtOrd (TF.Gen.Loops.u32s_cmp n a b)) ("ok:" ++ fmtOrd (cmp a b)))
  | "eq", [.nat n, x, y] => do let a ← limbs n x; let b ← limbs n y; pure ("ok:" ++ fmtBool (a == b))
  | "sum", [.nat n, xs] => do
      let ls ← xs.natListList?
      if ls.all (wf n) then pure (okL (sum n ls)) else none
  | "zero", [.nat n] => some (both (genPanic (TF.Gen.Loops.u32s_zero_ok n) (TF.Gen.Loops.u32s_zero n)) (some (zero n)))
  | "one", [.nat n] => some (both (genPanic (TF.Gen.Loops.u32s_one_ok n) (TF.Gen.Loops.u32s_one n)) (one n))
  | "is_zero", [.nat n, x] => do let a ← limbs n x; pure (bothS ("ok:" ++ fmtBool (TF.Gen.Loops.u32s_is_zero n a)) ("ok:" ++ fmtBool (isZero a)))
  | "from_u32", [.nat n, .nat v] => some (both (genPanic (TF.Gen.Loops.u32s_from_u32_ok n v) (TF.Gen.Loops.u32s_from_u32 n v)) (fromU32 n v))
  | "try_u64", [.nat n, .nat v] => some (bothS (if TF.Gen.Loops.u32s_try_from_u64_ok n v then okE (exceptToOption (TF.Gen.Loops.u32s_try_from_u64 n v)) else "panic") (okE (tryFromU64 n v)))
  | "try_u128", [.nat n, .nat v] => some (bothS (if TF.Gen.Loops.u32s_try_from_u128_ok n v then okE (exceptToOption (TF.Gen.Loops.u32s_try_from_u128 n v)) else "panic") (okE (tryFromU128 n v)))
  | "to_big", [.nat n, x] => do let a ← limbs n x; pure s!"ok:{toBig a}"
  | "display", [.nat n, x] => do let a ← limbs n x; pure s!"ok:{toBig a}"
  | "from_big", [.nat n, x] => do
      -- the big integer is given by its base-2^32 digits (any number of them)
      let ds ← x.natList?
      pure (both (genPanic (TF.Gen.Loops.u32s_from_biguint_ok n (val ds)) (TF.Gen.Loops.u32s_from_biguint n (val ds))) (some (fromBig n (val ds))))
  | "big_roundtrip", [.nat n, x] => do let a ← limbs n x; pure (okL (some (fromBig n (toBig a))))
  | "to_bfes", [.nat n, x] => do let a ← limbs n x; pure (okL (some (toBfes a)))
  | "encode", [.nat n, x] => do let a ← limbs n x; pure (okL (some (encode a)))
  | "decode", [.nat n, x] => do let s ← x.natList?; pure (okE (decode n s))
  | _, _ => none

end TF.Drv.U32s
