-- FAMILIES: hash=TF.Drv.Hash.hash
import TF.Drv.Proto
import TF.Model.HashTip5
/-! driver handler for the family `hash`: validates the executable Tip5 instance used by the Merkle/MMR drivers -/
namespace TF.Drv.Hash
open TF.Proto TF.Hash

def hash : Handler
  | "pair", [l, r] => do let a ← l.natList?; let b ← r.natList?; pure ("ok:" ++ fmtList (hashPair a b))
  | "h10", [x] => do let a ← x.natList?; pure ("ok:" ++ fmtList (hash10 a))
  | "varlen", [x] => do let a ← x.natList?; pure ("ok:" ++ fmtList (hashVarlen a))
  | "perm", [x] => do let a ← x.natList?; pure ("ok:" ++ fmtList (permutation a.toArray).toList)
  | _, _ => none

end TF.Drv.Hash
