-- FAMILIES: polyv=TF.Drv.PolyV.polyv
import TF.Drv.Proto
import TF.Drv.Poly
import TF.Model.PolyVal
/-!
driver handler for the family `polyv` (C17): every public operation of `Polynomial<FF>` that the models cover, called
on the raw storage given in the op line (stored leading zeros included).

`polyv <fn> <field> <args…>`, field tag `b` / `x`.  Replies are canonical, storage-independent renderings
(`coefficients()` of a polynomial result, values, booleans).  Operations modelled elsewhere (division, reduction,
interpolation, … : C08/C09) or not at all (`Display`, the concrete `Hash` value) are answered with `skip`; for those
the harness's pairwise oracle on the implementation decides.
-/
namespace TF.Drv.PolyV
open TF TF.Proto TF.Gen TF.Model.Poly TF.Spec TF.Drv.Poly

structure Io (α : Type) where
  F : FieldOps α
  T : Transform α
  poly? : Arg → Option (List α)
  elem? : Arg → Option α
  fmtP : List α → String
  fmtE : α → String
  enc : α → List Nat

def ioB : Io Nat := ⟨FB, TB, bPoly?, fun a => a.nat?.map (· % P), fmtList, toString, fun c => [c]⟩
def ioX : Io X3 := ⟨FX, TX, xPoly?, xElem?, fmtTripleList, fmtTriple, fun c => [c.1, c.2.1, c.2.2]⟩

def polys? {α : Type} (io : Io α) : Arg → Option (List (List α))
  | .list xs => xs.mapM io.poly?
  | _ => none

def listBeq {α : Type} (F : FieldOps α) : List α → List α → Bool
  | [], [] => true
  | x :: xs, y :: ys => F.beq x y && listBeq F xs ys
  | _, _ => false

def run {α : Type} (io : Io α) (op : String) (args : List Arg) : Option String :=
  let F := io.F
  let okP (p : List α) : String := "ok:" ++ io.fmtP (normalize F p)
  let okPO : Option (List α) → String := fun r => match r with | some p => okP p | none => "panic"
  match op, args with
  | "degree", [a] => do let a ← io.poly? a; pure s!"ok:{degree F a}"
  | "is_zero", [a] => do let a ← io.poly? a; pure ("ok:" ++ fmtBool (isZero F a))
  | "is_one", [a] => do let a ← io.poly? a; pure ("ok:" ++ fmtBool (isOne F a))
  | "is_x", [a] => do let a ← io.poly? a; pure ("ok:" ++ fmtBool (isX F a))
  | "leading_coefficient", [a] => do
      let a ← io.poly? a
      pure (match leadingCoefficient F a with | some c => "ok:some:" ++ io.fmtE c | none => "ok:none")
  | "coefficients", [a] => do let a ← io.poly? a; pure ("ok:" ++ io.fmtP (coefficients F a))
  | "into_coefficients", [a] => do let a ← io.poly? a; pure ("ok:" ++ io.fmtP (intoCoefficients F a))
  | "into_owned", [a] => do let a ← io.poly? a; pure (okP (intoOwned a))
  | "clone", [a] => do let a ← io.poly? a; pure (okP (intoOwned a))
  | "from_slice", [a] => do let a ← io.poly? a; pure (okP (intoOwned a))
  | "formal_derivative", [a] => do let a ← io.poly? a; pure (okP (formalDerivative F a))
  | "slow_square", [a] => do let a ← io.poly? a; pure (okP (slowSquare F a))
  | "square", [a] => do let a ← io.poly? a; pure (okPO (square F sqc io.T a))
  | "fast_square", [a] => do let a ← io.poly? a; pure (okPO (fastSquare F io.T a))
  | "neg", [a] => do let a ← io.poly? a; pure (okP (neg F a))
  | "encode", [a] => do let a ← io.poly? a; pure ("ok:" ++ fmtList (encode F io.enc a))
  | "evaluate", [a, x] => do let a ← io.poly? a; let x ← io.elem? x; pure ("ok:" ++ io.fmtE (evaluate F a x))
  | "pow", [a, .nat e] => do let a ← io.poly? a; pure (okP (pow F a e))
  | "fast_pow", [a, .nat e] => do let a ← io.poly? a; pure (okPO (fastPow F sqc thr io.T a e))
  | "shift_coefficients", [a, .nat n] => do let a ← io.poly? a; pure (okP (shiftCoefficients F a n))
  | "scalar_mul", [a, s] => do let a ← io.poly? a; let s ← io.elem? s; pure (okP (scalarMul F a s))
  | "scalar_mul_mut", [a, s] => do let a ← io.poly? a; let s ← io.elem? s; pure (okP (scalarMul F a s))
  | "scale", [a, s] => do let a ← io.poly? a; let s ← io.elem? s; pure (okP (scale F a s))
  | "truncate", [a, .nat k] => do let a ← io.poly? a; pure (okP (truncate F a k))
  | "mod_x_to_the_n", [a, .nat n] => do let a ← io.poly? a; pure (okP (modXToTheN a n))
  | "eq", [a, b] => do let a ← io.poly? a; let b ← io.poly? b; pure ("ok:" ++ fmtBool (eq F a b))
  | "hash_eq", [a, b] => do
      -- model of `Hash`: the hasher sees `coefficients()`; equal hashes iff equal normalised storages
      -- (up to collisions of the concrete 64-bit hasher, which the generator cannot produce)
      let a ← io.poly? a; let b ← io.poly? b
      pure ("ok:" ++ fmtBool (hashWith F (fun c => listBeq F c (normalize F b)) a))
  | "add", [a, b] => do let a ← io.poly? a; let b ← io.poly? b; pure (okP (add F a b))
  | "add_assign", [a, b] => do let a ← io.poly? a; let b ← io.poly? b; pure (okP (addAssign F a b))
  | "sub", [a, b] => do let a ← io.poly? a; let b ← io.poly? b; pure (okP (sub F a b))
  | "mul", [a, b] => do let a ← io.poly? a; let b ← io.poly? b; pure (okP (mul F a b))
  | "naive_multiply", [a, b] => do let a ← io.poly? a; let b ← io.poly? b; pure (okP (naiveMultiply F a b))
  | "multiply", [a, b] => do let a ← io.poly? a; let b ← io.poly? b; pure (okPO (multiply F thr io.T a b))
  | "fast_multiply", [a, b] => do let a ← io.poly? a; let b ← io.poly? b; pure (okPO (fastMultiply F io.T a b))
  | "batch_multiply", [fs] => do let fs ← polys? io fs; pure (okPO (batchMultiply F thr io.T fs))
  | "par_batch_multiply", [fs] => do
      -- the thread count is whatever the machine has; the result does not depend on it (C07)
      let fs ← polys? io fs; pure (okPO (parBatchMultiply F thr io.T 1 fs))
  | _, _ => none

def polyv : Handler
  | op, .sym "b" :: args => run ioB op args
  | op, .sym "x" :: args => run ioX op args
  | _, _ => none

end TF.Drv.PolyV
