-- FAMILIES: polyv=TF.Drv.PolyV.polyv
import TF.Drv.Proto
import TF.Drv.Poly
import TF.Model.PolyVal
import TF.Model.PolyApi
import TF.Model.PolyInterp
import TF.Drv.PolyDiv
import TF.Gen.PolyLoops
/-!
driver handler for the family `polyv` (C17): every public operation of `Polynomial<FF>` that the models cover, called
on the raw storage given in the op line (stored leading zeros included).

`polyv <fn> <field> <args…>`, field tag `b` / `x`.  Replies are canonical, storage-independent renderings
(`coefficients()` of a polynomial result, values, booleans).  Operations modelled elsewhere (division, reduction,
interpolation, … : C08/C09) or not at all (`Display`, the concrete `Hash` value) are answered with `skip`; for those
the harness's pairwise oracle on the implementation decides.
-/
namespace TF.Drv.PolyV
open TF TF.Proto TF.Gen TF.Model.Poly TF.Spec TF.Drv.Poly

structure Io (α : Type) where
  F : FieldOps α
  T : Transform α
  poly? : Arg → Option (List α)
  elem? : Arg → Option α
  fmtP : List α → String
  fmtE : α → String
  enc : α → List Nat

def ioB : Io Nat := ⟨FB, TB, bPoly?, fun a => a.nat?.map (· % P), fmtList, toString, fun c => [c]⟩
def ioX : Io X3 := ⟨FX, TX, xPoly?, xElem?, fmtTripleList, fmtTriple, fun c => [c.1, c.2.1, c.2.2]⟩

def polys? {α : Type} (io : Io α) : Arg → Option (List (List α))
  | .list xs => xs.mapM io.poly?
  | _ => none

def listBeq {α : Type} (F : FieldOps α) : List α → List α → Bool
  | [], [] => true
  | x :: xs, y :: ys => F.beq x y && listBeq F xs ys
  | _, _ => false

def run {α : Type} (io : Io α) (op : String) (args : List Arg) : Option String :=
  let F := io.F
  let okP (p : List α) : String := "ok:" ++ io.fmtP (normalize F p)
  let okPO : Option (List α) → String := fun r => match r with | some p => okP p | none => "panic"
  match op, args with
  | "degree", [a] => do let a ← io.poly? a; pure s!"ok:{degree F a}"
  | "is_zero", [a] => do let a ← io.poly? a; pure ("ok:" ++ fmtBool (isZero F a))
  | "is_one", [a] => do let a ← io.poly? a; pure ("ok:" ++ fmtBool (isOne F a))
  | "is_x", [a] => do let a ← io.poly? a; pure ("ok:" ++ fmtBool (isX F a))
  | "leading_coefficient", [a] => do
      let a ← io.poly? a
      pure (match leadingCoefficient F a with | some c => "ok:some:" ++ io.fmtE c | none => "ok:none")
  | "coefficients", [a] => do let a ← io.poly? a; pure ("ok:" ++ io.fmtP (coefficients F a))
  | "into_coefficients", [a] => do let a ← io.poly? a; pure ("ok:" ++ io.fmtP (intoCoefficients F a))
  | "into_owned", [a] => do let a ← io.poly? a; pure (okP (intoOwned a))
  | "clone", [a] => do let a ← io.poly? a; pure (okP (intoOwned a))
  | "from_slice", [a] => do let a ← io.poly? a; pure (okP (intoOwned a))
  | "formal_derivative", [a] => do let a ← io.poly? a; pure (okP (formalDerivative F a))
  | "slow_square", [a] => do let a ← io.poly? a; pure (okP (slowSquare F a))
  | "square", [a] => do let a ← io.poly? a; pure (okPO (square F sqc io.T a))
  | "fast_square", [a] => do let a ← io.poly? a; pure (okPO (fastSquare F io.T a))
  | "neg", [a] => do let a ← io.poly? a; pure (okP (neg F a))
  | "encode", [a] => do let a ← io.poly? a; pure ("ok:" ++ fmtList (encode F io.enc a))
  | "evaluate", [a, x] => do let a ← io.poly? a; let x ← io.elem? x; pure ("ok:" ++ io.fmtE (evaluate F a x))
  | "pow", [a, .nat e] => do let a ← io.poly? a; pure (okP (pow F a e))
  | "fast_pow", [a, .nat e] => do let a ← io.poly? a; pure (okPO (fastPow F sqc thr io.T a e))
  | "shift_coefficients", [a, .nat n] => do let a ← io.poly? a; pure (okP (shiftCoefficients F a n))
  | "scalar_mul", [a, s] => do let a ← io.poly? a; let s ← io.elem? s; pure (okP (scalarMul F a s))
  | "scalar_mul_mut", [a, s] => do let a ← io.poly? a; let s ← io.elem? s; pure (okP (scalarMul F a s))
  | "scale", [a, s] => do let a ← io.poly? a; let s ← io.elem? s; pure (okP (scale F a s))
  | "truncate", [a, .nat k] => do let a ← io.poly? a; pure (okP (truncateUsize F a k))
  | "mod_x_to_the_n", [a, .nat n] => do let a ← io.poly? a; pure (okP (modXToTheN a n))
  | "eq", [a, b] => do let a ← io.poly? a; let b ← io.poly? b; pure ("ok:" ++ fmtBool (eq F a b))
  | "hash_eq", [a, b] => do
      -- model of `Hash`: the hasher sees `coefficients()`; equal hashes iff equal normalised storages
      -- (up to collisions of the concrete 64-bit hasher, which the generator cannot produce)
      let a ← io.poly? a; let b ← io.poly? b
      pure ("ok:" ++ fmtBool (hashWith F (fun c => listBeq F c (normalize F b)) a))
  | "add", [a, b] => do let a ← io.poly? a; let b ← io.poly? b; pure (okP (add F a b))
  | "add_assign", [a, b] => do let a ← io.poly? a; let b ← io.poly? b; pure (okP (addAssign F a b))
  | "sub", [a, b] => do let a ← io.poly? a; let b ← io.poly? b; pure (okP (sub F a b))
  | "mul", [a, b] => do let a ← io.poly? a; let b ← io.poly? b; pure (okP (mul F a b))
  | "naive_multiply", [a, b] => do let a ← io.poly? a; let b ← io.poly? b; pure (okP (naiveMultiply F a b))
  | "multiply", [a, b] => do let a ← io.poly? a; let b ← io.poly? b; pure (okPO (multiply F thr io.T a b))
  | "fast_multiply", [a, b] => do let a ← io.poly? a; let b ← io.poly? b; pure (okPO (fastMultiply F io.T a b))
  | "batch_multiply", [fs] => do let fs ← polys? io fs; pure (okPO (batchMultiply F thr io.T fs))
  | "par_batch_multiply", [fs] => do
      -- the thread count is whatever the machine has; the result does not depend on it (C07)
      let fs ← polys? io fs; pure (okPO (parBatchMultiply F thr io.T 1 fs))
  -- ---- G07: constructors, scalar operators (docs/POLY_API_COVERAGE.md)
  | "x_to_the", [.nat n] => pure (okP (xToThe F n))
  | "from_constant", [c] => do let c ← io.elem? c; pure (okP (fromConstant c))
  | "zero", [] => pure (okP (zero : List α))
  | "one", [] => pure (okP (one F))
  | "from_vec", [a] => do let a ← io.poly? a; pure (okP (fromList a))
  | "from_array", [a] => do let a ← io.poly? a; pure (okP (fromList a))
  | "mul_scalar", [a, s] => do let a ← io.poly? a; let s ← io.elem? s; pure (okP (scalarMul F a s))
  | "scalar_times", [a, s] => do let a ← io.poly? a; let s ← io.elem? s; pure (okP (scalarMul F a s))
  -- ---- G07: the operations modelled for C08/C09, on the storage given in the line (they were `skip` before)
  | "divide", [a, d] => do
      let a ← io.poly? a; let d ← io.poly? d
      pure (match Model.PolyD.naiveDivide F a d with
        | some (q, r) => "ok:" ++ io.fmtP (normalize F q) ++ "|" ++ io.fmtP (normalize F r) | none => "panic")
  | "naive_divide", [a, d] => do
      let a ← io.poly? a; let d ← io.poly? d
      pure (match Model.PolyD.naiveDivide F a d with
        | some (q, r) => "ok:" ++ io.fmtP (normalize F q) ++ "|" ++ io.fmtP (normalize F r) | none => "panic")
  | "div", [a, d] => do let a ← io.poly? a; let d ← io.poly? d; pure (okPO (Model.PolyD.div F a d))
  | "rem", [a, d] => do let a ← io.poly? a; let d ← io.poly? d; pure (okPO (Model.PolyD.rem F a d))
  | "xgcd", [a, b] => do
      let a ← io.poly? a; let b ← io.poly? b
      pure (match Model.PolyD.xgcd F a b with
        | some (g, x, y) => "ok:" ++ io.fmtP (normalize F g) ++ "|" ++ io.fmtP (normalize F x) ++ "|" ++ io.fmtP (normalize F y)
        | none => "panic")
  | "reduce", [a, m] => do
      let a ← io.poly? a; let m ← io.poly? m
      pure (okPO (Model.PolyD.reduce F (Model.PolyD.nttExec F) TF.Gen.FAST_REDUCE_MAKES_SENSE_MULTIPLE TF.Gen.FAST_REDUCE_CUTOFF_THRESHOLD
        TF.Drv.PolyDiv.STAGE2_MULTIPLE a m))
  | "fast_reduce", [a, m] => do
      let a ← io.poly? a; let m ← io.poly? m
      pure (okPO (Model.PolyD.fastReduce F (Model.PolyD.nttExec F) TF.Gen.FAST_REDUCE_CUTOFF_THRESHOLD TF.Drv.PolyDiv.STAGE2_MULTIPLE a m))
  | "reduce_by_ntt_friendly_modulus", [a, m] => do
      let a ← io.poly? a; let m ← io.poly? m
      pure (okPO (do
        let (v, t) ← Model.PolyD.shiftFactorNtt F (Model.PolyD.nttExec F) TF.Gen.FAST_REDUCE_CUTOFF_THRESHOLD m
        Model.PolyD.reduceByNttFriendlyModulus F (Model.PolyD.nttExec F) a v t))
  | "shift_factor_ntt_with_tail_length", [m] => do
      let m ← io.poly? m
      pure (match Model.PolyD.shiftFactorNtt F (Model.PolyD.nttExec F) TF.Gen.FAST_REDUCE_CUTOFF_THRESHOLD m with
        | some (v, t) => s!"ok:{io.fmtP v}|{t}" | none => "panic")
  | "structured_multiple_of_degree", [a, .nat n] => do
      let a ← io.poly? a; pure (okPO (Model.PolyD.structuredMultipleOfDegree F a n))
  | "formal_power_series_inverse_newton", [a, .nat n] => do
      let a ← io.poly? a
      pure (okPO (Model.PolyD.fpsInverseNewton F (Model.PolyD.nttExec F) TF.Gen.FORMAL_POWER_SERIES_INVERSE_CUTOFF a n))
  | "fast_coset_evaluate", [a, s, .nat order] => do
      let a ← io.poly? a; let s ← io.elem? s
      pure (match Model.PolyI.fastCosetEvaluate F (Model.PolyI.Ext.std F) a s order with
        | some v => "ok:" ++ io.fmtP v | none => "panic")
  | "batch_evaluate", [a, d] => do
      let a ← io.poly? a; let d ← io.poly? d
      pure (match Model.PolyI.batchEvaluate F (Model.PolyI.Ext.std F) a d with | some v => "ok:" ++ io.fmtP v | none => "panic")
  | "par_batch_evaluate", [a, d] => do
      -- the thread count is whatever the machine has; the result does not depend on it (C08)
      let a ← io.poly? a; let d ← io.poly? d
      pure (match Model.PolyI.parBatchEvaluate F (Model.PolyI.Ext.std F) 1 a d with | some v => "ok:" ++ io.fmtP v | none => "panic")
  | "iterative_batch_evaluate", [a, d] => do
      let a ← io.poly? a; let d ← io.poly? d
      pure ("ok:" ++ io.fmtP (Model.PolyI.iterativeBatchEvaluate F a d))
  | "divide_and_conquer_batch_evaluate", [a, d] => do
      let a ← io.poly? a; let d ← io.poly? d
      pure (match (do let t ← Model.PolyI.newFromDomain F (Model.PolyI.Ext.std F) d; Model.PolyI.dcEval F (Model.PolyI.Ext.std F) a t) with
        | some v => "ok:" ++ io.fmtP v | none => "panic")
  | "fmci_modulus", [.nat off, v, m] => do
      let v ← io.poly? v; let m ← io.poly? m
      pure (okPO (Model.PolyI.fmci F (Model.PolyI.Ext.std F) Model.PolyI.Thr.src v (F.ofNat off) m))
  | _, _ => none

def okXt (p : List X3) : String := "ok:" ++ fmtTripleList (normalize FX p)

-- BEGIN BT6: the definitions regenerated from polynomial.rs (TF/Gen/PolyLoops.lean) evaluated next to the hand model
/-- reply of the REGENERATED function for the op (rendered exactly like `run` renders the hand model's reply);
    `none`: the op has no regenerated counterpart, or the operands are too long for the list-indexed loops -/
def genRun {α : Type} (io : Io α) (op : String) (args : List Arg) : Option String :=
  let F := io.F
  let okP (p : List α) : String := "ok:" ++ io.fmtP (normalize F p)
  let okPO : Option (List α) → String := fun r => match r with | some p => okP p | none => "panic"
  let okB : Option Bool → String := fun r => match r with | some b => "ok:" ++ fmtBool b | none => "panic"
  let small (a : List α) : Option Unit := if a.length ≤ 96 then some () else none
  match op, args with
  | "degree", [a] => do let a ← io.poly? a; pure (match Gen.Poly.degree F a with | some d => s!"ok:{d}" | none => "panic")
  | "is_zero", [a] => do let a ← io.poly? a; pure (okB (Gen.Poly.is_zero F a))
  | "is_one", [a] => do let a ← io.poly? a; pure (okB (Gen.Poly.is_one F a))
  | "is_x", [a] => do let a ← io.poly? a; pure (okB (Gen.Poly.is_x F a))
  | "coefficients", [a] => do
      let a ← io.poly? a; pure (match Gen.Poly.coefficients F a with | some c => "ok:" ++ io.fmtP c | none => "panic")
  | "into_coefficients", [a] => do
      let a ← io.poly? a; pure (match Gen.Poly.into_coefficients F a with | some c => "ok:" ++ io.fmtP c | none => "panic")
  | "into_owned", [a] => do let a ← io.poly? a; pure (okP (Gen.Poly.into_owned a))
  | "leading_coefficient", [a] => do
      let a ← io.poly? a
      pure (match Gen.Poly.leading_coefficient F a with
        | some (some c) => "ok:some:" ++ io.fmtE c | some none => "ok:none" | none => "panic")
  | "eq", [a, b] => do let a ← io.poly? a; let b ← io.poly? b; pure (okB (Gen.Poly.eq F a b))
  | "from_constant", [c] => do let c ← io.elem? c; pure (okP (Gen.Poly.from_constant c))
  | "zero", [] => pure (okP (Gen.Poly.zero : List α))
  | "one", [] => pure (okP (Gen.Poly.one F))
  | "formal_derivative", [a] => do let a ← io.poly? a; pure (okP (Gen.Poly.formal_derivative F a))
  | "neg", [a] => do let a ← io.poly? a; pure (okP (Gen.Poly.neg F a))
  | "evaluate", [a, x] => do
      let a ← io.poly? a; let x ← io.elem? x; pure ("ok:" ++ io.fmtE (Gen.Poly.evaluate F F.zero F.mul F.add a x))
  | "shift_coefficients", [a, .nat n] => do
      let a ← io.poly? a; if n > 100000 then none else pure (okP (Gen.Poly.shift_coefficients F a n))
  | "scalar_mul", [a, s] => do let a ← io.poly? a; let s ← io.elem? s; pure (okP (Gen.Poly.scalar_mul F F.mul a s))
  | "scalar_mul_mut", [a, s] => do let a ← io.poly? a; let s ← io.elem? s; pure (okP (Gen.Poly.scalar_mul_mut F F.mul a s))
  | "scale", [a, s] => do let a ← io.poly? a; let s ← io.elem? s; pure (okP (Gen.Poly.scale F F.one F.mul F.mul a s))
  | "truncate", [a, .nat k] => do let a ← io.poly? a; pure (okPO (Gen.Poly.truncate F a k))
  | "mod_x_to_the_n", [a, .nat n] => do let a ← io.poly? a; pure (okPO (Gen.Poly.mod_x_to_the_n F a n))
  | "add", [a, b] => do let a ← io.poly? a; let b ← io.poly? b; pure (okP (Gen.Poly.add F a b))
  | "add_assign", [a, b] => do let a ← io.poly? a; let b ← io.poly? b; pure (okPO (Gen.Poly.add_assign F a b))
  | "sub", [a, b] => do let a ← io.poly? a; let b ← io.poly? b; pure (okP (Gen.Poly.sub F a b))
  | "mul", [a, b] => do
      let a ← io.poly? a; let b ← io.poly? b; small a; small b; pure (okPO (Gen.Poly.mul F F F F.mul a b))
  | "naive_multiply", [a, b] => do
      let a ← io.poly? a; let b ← io.poly? b; small a; small b; pure (okPO (Gen.Poly.naive_multiply F F F F.mul a b))
  | "slow_square", [a] => do let a ← io.poly? a; small a; pure (okPO (Gen.Poly.slow_square F a))
  | "pow", [a, .nat e] => do
      let a ← io.poly? a; small a; if e ≥ 2 ^ 32 || (a.length - 1) * e > 4096 then none else pure (okPO (Gen.Poly.pow F a e))
  | "fast_pow", [a, .nat e] => do
      let a ← io.poly? a; small a; if e ≥ 2 ^ 32 || (a.length - 1) * e > 4096 then none else
      pure (okPO (Gen.Poly.fast_pow F (Gen.Poly.fast_square F io.T.ntt io.T.intt)
        (Gen.Poly.fast_multiply F F F F.mul io.T.ntt io.T.ntt io.T.intt) a e))
  | "multiply", [a, b] => do
      let a ← io.poly? a; let b ← io.poly? b; small a; small b
      pure (okPO (Gen.Poly.multiply F F F F.mul (fastMultiply F io.T) a b))
  | "square", [a] => do let a ← io.poly? a; small a; pure (okPO (Gen.Poly.square F (fastSquare F io.T) a))
  | "fast_multiply", [a, b] => do
      let a ← io.poly? a; let b ← io.poly? b
      pure (okPO (Gen.Poly.fast_multiply F F F F.mul io.T.ntt io.T.ntt io.T.intt a b))
  | "fast_square", [a] => do let a ← io.poly? a; pure (okPO (Gen.Poly.fast_square F io.T.ntt io.T.intt a))
  | "divide", [a, d] => do
      let a ← io.poly? a; let d ← io.poly? d; small a; small d
      pure (match Gen.Poly.divide F a d with
        | some (q, r) => "ok:" ++ io.fmtP (normalize F q) ++ "|" ++ io.fmtP (normalize F r) | none => "panic")
  | "naive_divide", [a, d] => do
      let a ← io.poly? a; let d ← io.poly? d; small a; small d
      pure (match Gen.Poly.naive_divide F a d with
        | some (q, r) => "ok:" ++ io.fmtP (normalize F q) ++ "|" ++ io.fmtP (normalize F r) | none => "panic")
  | "div", [a, d] => do let a ← io.poly? a; let d ← io.poly? d; small a; small d; pure (okPO (Gen.Poly.div F a d))
  | "rem", [a, d] => do let a ← io.poly? a; let d ← io.poly? d; small a; small d; pure (okPO (Gen.Poly.rem F a d))
  | _, _ => none

/-- the hand model's reply, or `GEN-MISMATCH` when the regenerated definition answers differently -/
def genCheck {α : Type} (io : Io α) (op : String) (args : List Arg) (model : String) : String :=
  match genRun io op args with
  | some g => if g == model then model else s!"GEN-MISMATCH {op} gen={g} model={model}"
  | none => model
-- END BT6

def polyv : Handler
  -- base-field only / mixed-field operations
  | "clean_divide", [.sym "b", q, d] => do
      -- the dividend is given as quotient and divisor, so that the division is clean
      let q ← bPoly? q; let d ← bPoly? d
      match multiply FB thr TB q d with
      | none => pure "panic"
      | some a =>
        pure (match Model.PolyD.cleanDivide bfieldOps xfieldOps TF.Drv.PolyDiv.bxExt (Model.PolyD.nttExec xfieldOps)
            TF.Gen.CLEAN_DIVIDE_CUTOFF_THRESHOLD a d with
          | some r => "ok:" ++ fmtList (normalize FB r) | none => "panic")
  | "from_xfe", [.sym "b", c] => do let c ← xElem? c; pure ("ok:" ++ fmtList (normalize FB (fromXfe c)))
  | "mul_scalar", [.sym "bx", a, s] => do let a ← bPoly? a; let s ← xElem? s; pure (okXt (scalarMulG mulBX a s))
  | "scalar_times", [.sym "bx", a, s] => do let a ← bPoly? a; let s ← xElem? s; pure (okXt (scalarMulG mulBX a s))
  | "mul_scalar", [.sym "xb", a, .nat s] => do let a ← xPoly? a; pure (okXt (scalarMulG mulXB a (s % P)))
  | "scalar_times", [.sym "xb", a, .nat s] => do let a ← xPoly? a; pure (okXt (scalarMulG mulXB a (s % P)))
  | "evaluate_mixed", [.sym "bx", a, x] => do
      let a ← bPoly? a; let x ← xElem? x; pure ("ok:" ++ fmtTriple (evaluateLift FX xlift a x))
  | "evaluate_mixed", [.sym "xb", a, .nat x] => do
      let a ← xPoly? a; pure ("ok:" ++ fmtTriple (evaluateLift FX id a (xlift (x % P))))
  | op, .sym "b" :: args => (run ioB op args).map (genCheck ioB op args)   -- BT6: GEN-MISMATCH wrapper
  | op, .sym "x" :: args => (run ioX op args).map (genCheck ioX op args)   -- BT6
  | _, _ => none

end TF.Drv.PolyV
