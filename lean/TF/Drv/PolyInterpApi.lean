import TF.Drv.Proto
import TF.Model.PolyApi
/-!
additional ops of the family `polyi` (C08) added by the API audit (docs/POLY_API_COVERAGE.md): the colinearity
helpers, zerofier trees assembled by hand from `Leaf::new` / `Branch::new` / `Padding`, evaluation across fields,
coset evaluation/interpolation with an extension-field offset.  Called from `TF.Drv.PolyInterp.polyi`.
-/
namespace TF.Drv.PolyInterpApi
open TF TF.Proto

structure Cdc (α : Type) where
  F : FieldOps α
  elem? : Arg → Option α
  fmtL : List α → String

def P := TF.Gen.P

def bC : Cdc Nat := ⟨bfieldOps, fun a => a.nat?.map (· % P), fmtList⟩
def xC : Cdc Spec.X3 where
  F := xfieldOps
  elem? := fun a => match a with
    | .tup [.nat a, .nat b, .nat c] => some (a % P, b % P, c % P)
    | .nat a => some (a % P, 0, 0)
    | _ => none
  fmtL := fmtTripleList

variable {α : Type} (c : Cdc α)

def elems? : Arg → Option (List α)
  | .list xs => xs.mapM c.elem?
  | _ => none

def point? : Arg → Option (α × α)
  | .list [x, y] => do let x ← c.elem? x; let y ← c.elem? y; pure (x, y)
  | _ => none

/-- tree shape: a list is a leaf (its points), a pair `(l;r)` a branch, the symbol `P` padding -/
partial def spec? : Arg → Option (Model.PolyI.TreeSpec α)
  | .list xs => (xs.mapM c.elem?).map Model.PolyI.TreeSpec.leaf
  | .tup [l, r] => do let l ← spec? l; let r ← spec? r; pure (.branch l r)
  | .sym "P" => some .padding
  | _ => none

def handle (op : String) (args : List Arg) : Option String :=
  let F := c.F
  let E := Model.PolyI.Ext.std F
  match op, args with
  | "are_colinear", [xs, ys] => do
      let xs ← elems? c xs; let ys ← elems? c ys
      if xs.length != ys.length then none else
      pure ("ok:" ++ fmtBool (Model.Poly.areColinear F (xs.zip ys)))
  | "are_colinear_3", [p0, p1, p2] => do
      let p0 ← point? c p0; let p1 ← point? c p1; let p2 ← point? c p2
      pure ("ok:" ++ fmtBool (Model.Poly.areColinear3 F p0 p1 p2))
  | "get_colinear_y", [p0, p1, x] => do
      let p0 ← point? c p0; let p1 ← point? c p1; let x ← c.elem? x
      pure (match Model.Poly.getColinearY F p0 p1 x with
        | some y => "ok:" ++ c.fmtL [y] | none => "panic")
  | "tree_custom", [shape, p] => do
      let s ← spec? c shape; let p ← elems? c p
      pure (match Model.PolyI.buildTree F E TF.Gen.FAST_ZEROFIER_CUTOFF_THRESHOLD s with
        | none => "panic"
        | some t =>
          match Model.PolyI.dcEval F E p t with
          | none => "panic"
          | some v => "ok:" ++ c.fmtL v ++ ";" ++ c.fmtL (Model.Poly.normalize F (Model.PolyI.ZTree.zerofier F t)))
  | "fast_coset_evaluate_xoff", [p, off, .nat order] => do
      let p ← elems? c p; let off ← c.elem? off
      pure (match Model.PolyI.fastCosetEvaluate F E p off order with
        | some v => "ok:" ++ c.fmtL v | none => "panic")
  | "fast_coset_interpolate_xoff", [off, v] => do
      let off ← c.elem? off; let v ← elems? c v
      pure (match Model.PolyI.fastCosetInterpolate F E off v with
        | some f => "ok:" ++ c.fmtL (Model.Poly.normalize F f) | none => "panic")
  | _, _ => none

def handleApi : Handler
  | "evaluate", [.sym "bx", p, x] => do
      -- base-field polynomial at an extension-field point
      let p ← elems? bC p; let x ← xC.elem? x
      pure ("ok:" ++ fmtTripleList [Model.Poly.evaluateLift xfieldOps Spec.xlift p x])
  | op, .sym "b" :: args => handle bC op args
  | op, .sym "x" :: args => handle xC op args
  | _, _ => none

end TF.Drv.PolyInterpApi
