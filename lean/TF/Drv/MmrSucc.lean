-- FAMILIES: mmrs=TF.Drv.MmrSucc.mmrs
import TF.Drv.Proto
import TF.Model.HashTip5
import TF.Model.HashTip5Fast
import TF.Model.MmrSucc
import TF.Spec.MmrE
import TF.Gen.MmrProofLoops
/-!
driver handler for the family `mmrs` (C12, `MmrSuccessorProof`).

* `gen oc op leafs`                   old accumulator `init(op, oc)`, append `leafs`, `new_from_batch_append`, then `verify`:
                                      `ok:<paths>:<bool>`
* `tamper oc op leafs kind pos d`     same, then one tampering of (paths | old | new) before `verify`: `ok:<bool>`
* `verify tag oc op nc np paths`      `verify` on an arbitrary triple (`tag` = the generator's expectation, ignored here): `ok:<bool>`
* `hp l r`                           the fast `hash_pair` instance used by this driver (validated against the crate); `hp2`: against `TF.Hash.hashPair`
* `bgen oc op leafs` / `btamper …`    the same as `gen` / `tamper`, used for LARGE structured old counts (carries through
                                      high bits of the leaf count); the harness evaluates them in a watchdog child process
* `free_check N`                      bounded *test* in the model with a free hash algebra (every pair old+appended ≤ N):
                                      generated proof = `succPathsOf`, verifies, reference verifier agrees
-/
namespace TF.Drv.MmrSucc
open TF.Proto TF.Model.MmrE

abbrev Dg := List Nat
def dflt : Dg := [0, 0, 0, 0, 0]
def Hh : Dg → Dg → Dg := TF.HashFast.hashPair

def fmtDigests (ds : List Dg) : String := fmtListList ds

def okBool : Option Bool → String
  | some b => "ok:" ++ fmtBool b
  | none => "panic"

def removeAt (xs : List α) (i : Nat) : List α := xs.take i ++ xs.drop (i + 1)
def insertAt (xs : List α) (i : Nat) (x : α) : List α := xs.take i ++ [x] ++ xs.drop i

/-- the tampering kinds shared (textually) with `harness/src/c12.rs` -/
def tamper (kind : String) (pos : Nat) (d : Dg) (paths : List Dg) (old new : Acc Dg) :
    Option (List Dg × Acc Dg × Acc Dg) :=
  let altL (xs : List Dg) := if xs.isEmpty then xs else xs.set (pos % xs.length) d
  let dropL (xs : List Dg) := if xs.isEmpty then xs else removeAt xs (pos % xs.length)
  let addL (xs : List Dg) := insertAt xs (pos % (xs.length + 1)) d
  match kind with
  | "none" => some (paths, old, new)
  | "alter_path" => some (altL paths, old, new)
  | "drop_path" => some (dropL paths, old, new)
  | "drop_last" => some (paths.dropLast, old, new)
  | "add_path" => some (addL paths, old, new)
  | "swap_path" =>
    if paths.length < 2 then some (paths, old, new) else
      let i := pos % paths.length
      let j := (pos + 1) % paths.length
      let a := paths.getD i dflt
      let b := paths.getD j dflt
      some ((paths.set i b).set j a, old, new)
  | "alter_old" => some (paths, { old with peaks := altL old.peaks }, new)
  | "drop_old" => some (paths, { old with peaks := dropL old.peaks }, new)
  | "add_old" => some (paths, { old with peaks := addL old.peaks }, new)
  | "alter_new" => some (paths, old, { new with peaks := altL new.peaks })
  | "drop_new" => some (paths, old, { new with peaks := dropL new.peaks })
  | "add_new" => some (paths, old, { new with peaks := addL new.peaks })
  | "old_count" => some (paths, { old with count := pos }, new)
  | "new_count" => some (paths, old, { new with count := pos })
  | _ => none

/-! free hash algebra for the bounded test -/
inductive T where
  | leaf (n : Nat)
  | node (l r : T)
deriving DecidableEq, Repr

def freeCheckPair (oldN m : Nat) : Bool :=
  let f : Nat → T := fun i => T.leaf (i + 1)
  let oldLeafs := (List.range oldN).map f
  let newLeafs := (List.range m).map (fun i => f (oldN + i))
  match Acc.newFromLeafs T.node oldLeafs { count := 0, peaks := [] } with
  | none => false
  | some old =>
    match Acc.appendAll T.node newLeafs old, newFromBatchAppend T.node (T.leaf 0) old newLeafs with
    | some new, some paths =>
      old.peaks == TF.Spec.MmrE.peaks T.node oldN f &&
      new.peaks == TF.Spec.MmrE.peaks T.node (oldN + m) f &&
      paths == TF.Spec.MmrE.succPathsOf T.node f oldN (oldN + m) &&
      verify T.node (T.leaf 0) paths old new == some true &&
      TF.Spec.MmrE.succVerify T.node paths old.count old.peaks new.count new.peaks
    | _, _ => false

def freeCheck (N : Nat) : Bool :=
  (List.range (N + 1)).all fun oldN => (List.range (N + 1 - oldN)).all fun m => freeCheckPair oldN m

/-- reply of `gen` (also used for `bgen`) -/
def genReply (oc : Nat) (op leafs : List Dg) : String :=
  let old : Acc Dg := { count := oc, peaks := op }
  match Acc.appendAll Hh leafs old, newFromBatchAppend Hh dflt old leafs with
  | some new, some paths =>
    match verify Hh dflt paths old new with
    | some b => "ok:" ++ fmtDigests paths ++ ":" ++ fmtBool b
    | none => "panic"
  | _, _ => "panic"

/-- reply of `tamper` (also used for `btamper`) -/
def tamperReply (oc : Nat) (op leafs : List Dg) (kind : String) (pos : Nat) (d : Dg) : Option String :=
  let old : Acc Dg := { count := oc, peaks := op }
  match Acc.appendAll Hh leafs old, newFromBatchAppend Hh dflt old leafs with
  | some new, some paths => do
    let (p', o', n') ← tamper kind pos d paths old new
    pure (okBool (verify Hh dflt p' o' n'))
  | _, _ => some "panic"

/-! BT7: `MmrSuccessorProof::verify` **regenerated from source** (`TF/Gen/MmrProofLoops.lean`, tools/rs2lean_mmr.py) evaluated
next to the hand model on every verification of the `gen` / `tamper` / `verify` ops: a false `_ok` flag is a panic (`none`); a
difference is printed as `GEN-MISMATCH` (and therefore shows up as a disagreement with the implementation) -/
def genVerifyAgrees (paths : List Dg) (old new : Acc Dg) : Bool :=
  let g := if TF.Gen.Loops.mmrsp_verify_ok Hh [] dflt paths (old.count, old.peaks) (new.count, new.peaks)
    then TF.Gen.Loops.mmrsp_verify Hh [] dflt paths (old.count, old.peaks) (new.count, new.peaks) else none
  g == verify Hh dflt paths old new

def mmrs : Handler
  | "gen", [.nat oc, op, leafs] => do
    let op ← op.natListList?
    let leafs ← leafs.natListList?
    let old : Acc Dg := { count := oc, peaks := op }
    pure <| match Acc.appendAll Hh leafs old, newFromBatchAppend Hh dflt old leafs with
      | some new, some paths =>
        if !genVerifyAgrees paths old new then "GEN-MISMATCH MmrSuccessorProof::verify" else
        match verify Hh dflt paths old new with
        | some b => "ok:" ++ fmtDigests paths ++ ":" ++ fmtBool b
        | none => "panic"
      | _, _ => "panic"
  | "tamper", [.nat oc, op, leafs, .sym kind, .nat pos, d] => do
    let op ← op.natListList?
    let leafs ← leafs.natListList?
    let d ← d.natList?
    let old : Acc Dg := { count := oc, peaks := op }
    match Acc.appendAll Hh leafs old, newFromBatchAppend Hh dflt old leafs with
    | some new, some paths =>
      let (p', o', n') ← tamper kind pos d paths old new
      if !genVerifyAgrees p' o' n' then pure "GEN-MISMATCH MmrSuccessorProof::verify" else
      pure (okBool (verify Hh dflt p' o' n'))
    | _, _ => pure "panic"
  | "verify", [.sym _, .nat oc, op, .nat nc, np, paths] => do
    let op ← op.natListList?
    let np ← np.natListList?
    let paths ← paths.natListList?
    if !genVerifyAgrees paths { count := oc, peaks := op } { count := nc, peaks := np } then
      pure "GEN-MISMATCH MmrSuccessorProof::verify" else
    pure (okBool (verify Hh dflt paths { count := oc, peaks := op } { count := nc, peaks := np }))
  | "hp", [l, r] => do
    let a ← l.natList?
    let b ← r.natList?
    pure ("ok:" ++ fmtList (Hh a b))
  | "hp2", [l, r] => do   -- fast instance against the reference instance `TF.Hash.hashPair` (model-internal)
    let a ← l.natList?
    let b ← r.natList?
    pure ("ok:" ++ fmtBool (Hh a b == TF.Hash.hashPair a b))
  | "free_check", [.nat n] => some ("ok:" ++ fmtBool (freeCheck n))
  | "bgen", [.nat oc, op, leafs] => do
    pure (genReply oc (← op.natListList?) (← leafs.natListList?))
  | "btamper", [.nat oc, op, leafs, .sym kind, .nat pos, d] => do
    tamperReply oc (← op.natListList?) (← leafs.natListList?) kind pos (← d.natList?)
  | _, _ => none

end TF.Drv.MmrSucc
