-- FAMILIES: polyd=TF.Drv.PolyDiv.polyd
import TF.Drv.Proto
import TF.Model.PolyDiv
import TF.Model.PolyApiD
import TF.Gen.Consts
import TF.Gen.PolyLoops
/-!
driver handler for the family `polyd` (C09): division, reduction, gcd, power-series inversion, clean division.
Every threshold comes from `TF.Gen.Consts` (regenerated from the Rust source on every run).
Replies print polynomials normalised (`coefficients()`).  Above a work estimate the model answers `skip`
(the implementation-side oracles still run).
-/
namespace TF.Drv.PolyDiv
open TF TF.Proto TF.Model.Poly TF.Model.PolyD TF.Gen

/-- a field as seen by the protocol: arithmetic, parser and printer of coefficient lists -/
structure Fld (α : Type) where
  F : FieldOps α
  parse : Arg → Option (List α)
  fmt : List α → String
  /-- relative cost of one field multiplication in the executable model (work estimates) -/
  cost : Nat

def fb : Fld Nat := ⟨bfieldOps, fun a => a.natList?.map (fun l => l.map (· % P)), fmtList, 1⟩
def fx : Fld Spec.X3 :=
  ⟨xfieldOps, fun a => a.tripleList?.map (fun l => l.map (fun t => (t.1 % P, t.2.1 % P, t.2.2 % P))), fmtTripleList, 6⟩

/-- the literal `4` in `fast_reduce` (`intermediate_remainder.degree() > 4 * modulus.degree()`) -/
def STAGE2_MULTIPLE : Nat := 4

/-- model work limit (coefficient products); above it the model answers `skip` -/
def WORK_LIMIT : Nat := 6000000

/-- largest final NTT domain of `formal_power_series_inverse_newton` the model executes -/
def FPS_DOMAIN_LIMIT : Nat := 32768

variable {α : Type}

def okP (X : Fld α) (p : List α) : String := "ok:" ++ X.fmt (normalize X.F p)
def okPs (X : Fld α) (ps : List (List α)) : String :=
  "ok:[" ++ ",".intercalate (ps.map (fun p => X.fmt (normalize X.F p))) ++ "]"
def reply (r : Option String) : String := match r with | some s => s | none => "panic"

def generic (X : Fld α) (op : String) (args : List Arg) : Option String :=
  let F := X.F
  let N := nttExec F
  match op, args with
  | "divide", [a, d] | "naive_divide", [a, d] => do
      let a ← X.parse a; let d ← X.parse d
      if a.length * d.length * X.cost > WORK_LIMIT then pure "skip" else
      pure (reply ((naiveDivide F a d).map fun (q, r) => okPs X [q, r]))
  | "div", [a, d] => do
      let a ← X.parse a; let d ← X.parse d
      if a.length * d.length * X.cost > WORK_LIMIT then pure "skip" else
      pure (reply ((div F a d).map (okP X)))
  | "rem", [a, d] => do
      let a ← X.parse a; let d ← X.parse d
      if a.length * d.length * X.cost > WORK_LIMIT then pure "skip" else
      pure (reply ((rem F a d).map (okP X)))
  | "reduce", [a, m] => do
      let a ← X.parse a; let m ← X.parse m
      if a.length * m.length * X.cost > WORK_LIMIT then pure "skip" else
      pure (reply ((reduce F N FAST_REDUCE_MAKES_SENSE_MULTIPLE FAST_REDUCE_CUTOFF_THRESHOLD STAGE2_MULTIPLE a m).map (okP X)))
  | "fast_reduce", [a, m] => do
      let a ← X.parse a; let m ← X.parse m
      if a.length * m.length * X.cost > WORK_LIMIT then pure "skip" else
      pure (reply ((fastReduce F N FAST_REDUCE_CUTOFF_THRESHOLD STAGE2_MULTIPLE a m).map (okP X)))
  | "shift_factor", [m] => do
      let m ← X.parse m
      if m.length * m.length * X.cost > WORK_LIMIT then pure "skip" else
      pure (reply ((shiftFactorNtt F N FAST_REDUCE_CUTOFF_THRESHOLD m).map fun (v, t) => s!"ok:{X.fmt v};{t}"))
  | "reduce_ntt", [a, m] => do
      let a ← X.parse a; let m ← X.parse m
      if a.length * m.length * X.cost > WORK_LIMIT then pure "skip" else
      pure (reply (do
        let (v, t) ← shiftFactorNtt F N FAST_REDUCE_CUTOFF_THRESHOLD m
        let r ← reduceByNttFriendlyModulus F N a v t
        pure (okP X r)))
  | "struct_mult", [p, .nat n] => do
      let p ← X.parse p
      if n * n * X.cost > WORK_LIMIT then pure "skip" else
      pure (reply ((structuredMultipleOfDegree F p n).map (okP X)))
  | "xgcd", [x, y] => do
      let x ← X.parse x; let y ← X.parse y
      if (x.length + y.length) * (x.length + y.length) * X.cost > WORK_LIMIT then pure "skip" else
      pure (reply ((xgcd F x y).map fun (g, a, b) => okPs X [g, a, b]))
  | "fps_newton", [p, .nat n] => do
      let p ← X.parse p
      -- the final NTT domain of the Newton iteration; the model skips above `FPS_DOMAIN_LIMIT`
      let full := nextPowerOfTwo (2 ^ (Nat.log2 (nextPowerOfTwo n) + 1) * (degree F p).toNat)
      if full * X.cost > FPS_DOMAIN_LIMIT then pure "skip" else
      pure (reply ((fpsInverseNewton F N FORMAL_POWER_SERIES_INVERSE_CUTOFF p n).map fun g => okP X (modXToTheN g n)))
  | "mod_x_n", [p, .nat n] => do
      let p ← X.parse p
      pure (okP X (modXToTheN p n))
  | "truncate", [p, .nat k] => do
      let p ← X.parse p
      -- `k + 1` in `usize` as compiled in the release profile (finding F13 at `k = usize::MAX`)
      pure (okP X (truncateUsize F p k))
  | _, _ => none

-- BEGIN BT6: the definitions regenerated from polynomial.rs (TF/Gen/PolyLoops.lean) evaluated next to the hand model
/-- reply of the REGENERATED function (rendered like `generic` renders the hand model's); `none`: no regenerated counterpart
    or operands too long for the list-indexed loops -/
def genGeneric (X : Fld α) (op : String) (args : List Arg) : Option String :=
  let F := X.F
  let N := nttExec F
  let small (a d : List α) : Option Unit := if a.length ≤ 96 && d.length ≤ 96 then some () else none
  match op, args with
  | "divide", [a, d] => do
      let a ← X.parse a; let d ← X.parse d; small a d
      pure (reply ((Gen.Poly.divide F a d).map fun (q, r) => okPs X [q, r]))
  | "naive_divide", [a, d] => do
      let a ← X.parse a; let d ← X.parse d; small a d
      pure (reply ((Gen.Poly.naive_divide F a d).map fun (q, r) => okPs X [q, r]))
  | "div", [a, d] => do
      let a ← X.parse a; let d ← X.parse d; small a d
      pure (reply ((Gen.Poly.div F a d).map (okP X)))
  | "rem", [a, d] => do
      let a ← X.parse a; let d ← X.parse d; small a d
      pure (reply ((Gen.Poly.rem F a d).map (okP X)))
  | "reduce", [a, m] => do
      let a ← X.parse a; let m ← X.parse m; small a m
      pure (reply ((Gen.Poly.reduce F (fastReduce F N FAST_REDUCE_CUTOFF_THRESHOLD STAGE2_MULTIPLE) a m).map (okP X)))
  | "mod_x_n", [p, .nat n] => do
      let p ← X.parse p
      pure (reply ((Gen.Poly.mod_x_to_the_n F p n).map (okP X)))
  | "truncate", [p, .nat k] => do
      let p ← X.parse p
      pure (reply ((Gen.Poly.truncate F p k).map (okP X)))
  | _, _ => none

def genCheck (X : Fld α) (op : String) (args : List Arg) (model : String) : String :=
  if model == "skip" then model else
  match genGeneric X op args with
  | some g => if g == model then model else s!"GEN-MISMATCH {op} gen={g} model={model}"
  | none => model
-- END BT6

def bxExt : ExtOps Nat Spec.X3 where
  lift := Spec.xlift
  unlift := fun t => if t.2.1 == 0 && t.2.2 == 0 then some t.1 else none
  offset := (0, 1, 0)

def polyd : Handler
  | "clean_divide", [a, d] => do
      let a ← fb.parse a; let d ← fb.parse d
      if a.length * d.length > WORK_LIMIT then pure "skip" else
      pure (reply ((cleanDivide bfieldOps xfieldOps bxExt (nttExec xfieldOps) CLEAN_DIVIDE_CUTOFF_THRESHOLD a d).map (okP fb)))
  | op, .sym "b" :: args => (generic fb op args).map (genCheck fb op args)   -- BT6: GEN-MISMATCH wrapper
  | op, .sym "x" :: args => (generic fx op args).map (genCheck fx op args)   -- BT6
  | _, _ => none

end TF.Drv.PolyDiv
