-- FAMILIES: lat=TF.Drv.Lattice.lat
import TF.Drv.Proto
import TF.Model.Lattice
import TF.Model.Keccak
import TF.Gen.LatticeLoops
/-! driver handler for the family `lat` (C18).  Field elements travel as canonical values, bytes as naturals < 256.
The hash parameters of the KEM model are instantiated with the executable SHAKE256 / SHA3-256 of `TF/Model/Keccak.lean`. -/
namespace TF.Drv.Lattice
open TF.Proto TF.Gen TF.Model.Lattice

def keccakOracles : Oracles := { xof := TF.Keccak.shake256, hash := TF.Keccak.sha3_256 }

def ring? (a : Arg) : Option Ring := do
  let l ← a.natList?
  if l.length == 64 then some (l.map (· % P)).toArray else none

def module? (n : Nat) (a : Arg) : Option Module := do
  match a with
  | .list xs =>
    let rs ← xs.mapM ring?
    if rs.length == n then some rs.toArray else none
  | _ => none

def bytes? (n : Nat) (a : Arg) : Option (List Nat) := do
  let l ← a.natList?
  if l.length == n && l.all (· < 256) then some l else none

def okRing (r : Ring) : String := "ok:" ++ fmtList r.toList
def fmtModule (m : Module) : String := fmtListList (m.toList.map Array.toList)
def fmtOptBytes : Option (List Nat) → String
  | some l => "some:" ++ fmtList l
  | none => "none"

def ciphertext? (a : Arg) : Option Ciphertext := do
  let l ← a.natList?
  if l.length == 320 then some (ciphertextOfArray (l.map (· % P)).toArray) else none

/-- add `delta` to coefficient `idx` of the flat ciphertext -/
def tamper (c : Ciphertext) (idx delta : Nat) : Ciphertext :=
  let v := ciphertextToArray c
  ciphertextOfArray (v.setIfInBounds idx (Spec.fadd (v.getD idx 0) delta))

/-- add the transform of the small element `delta·X^k` to ring element `which` (0..3: `bg`, 4: `bga_m`) -/
def tamperNoise (c : Ciphertext) (which k delta : Nat) : Ciphertext :=
  let e : Ring := Array.ofFn (n := 64) fun i => if i.val == k then delta % P else 0
  let eh := ntt64 e
  if which < 4 then { c with bg := c.bg.setIfInBounds which (ringAdd (c.bg.getD which ringZero) eh) }
  else { c with bgaM := c.bgaM.setIfInBounds 0 (ringAdd (c.bgaM.getD 0 ringZero) eh) }

/-! The loops of `lattice.rs` are **also regenerated from source** on every run (`TF/Gen/LatticeLoops.lean`, written by
`tools/rs2lean_lattice.py`) and proved equal to the hand model (`TF/Proofs/GenBridgeLattice.lean`).  The driver evaluates
the regenerated definition next to the hand model; the reply differs visibly (`GEN-MISMATCH`) when the value differs, the
regenerated function does not finish within its fuel, or its `_ok` twin reports a panic (the hand model never panics on
the shapes the driver admits). -/
def genCheck (fn : String) (gen : Option (List Nat)) (ok : Bool) (model : List Nat) (reply : String) : String :=
  if ok && gen == some model then reply
  else
    let g := match gen with
      | some l => fmtList l
      | none => "out-of-fuel"
    s!"GEN-MISMATCH {fn} ok={ok} gen={g} model={reply}"

def lat : Handler
  | "cntt", [x] => do
      let a ← ring? x
      pure (genCheck "coset_ntt_noswap_64" (TF.Gen.Loops.lat_coset_ntt_noswap_64 TF.Model.Ntt.bOps a.toList)
        (TF.Gen.Loops.lat_coset_ntt_noswap_64_ok TF.Model.Ntt.bOps a.toList) (ntt64 a).toList (okRing (ntt64 a)))
  | "cintt", [x] => do
      let a ← ring? x
      pure (genCheck "coset_intt_noswap_64" (some (TF.Gen.Loops.lat_coset_intt_noswap_64 TF.Model.Ntt.bOps a.toList))
        (TF.Gen.Loops.lat_coset_intt_noswap_64_ok TF.Model.Ntt.bOps a.toList) (intt64 a).toList (okRing (intt64 a)))
  | "radd", [x, y] => do
      let a ← ring? x; let b ← ring? y
      pure (genCheck "add" (some (TF.Gen.Loops.lat_ring_add a.toList b.toList)) (TF.Gen.Loops.lat_ring_add_ok a.toList b.toList)
        (ringAdd a b).toList (okRing (ringAdd a b)))
  | "rsub", [x, y] => do
      let a ← ring? x; let b ← ring? y
      pure (genCheck "sub" (some (TF.Gen.Loops.lat_ring_sub a.toList b.toList)) (TF.Gen.Loops.lat_ring_sub_ok a.toList b.toList)
        (ringSub a b).toList (okRing (ringSub a b)))
  | "rhad", [x, y] => do
      let a ← ring? x; let b ← ring? y
      pure (genCheck "hadamard" (some (TF.Gen.Loops.lat_ring_hadamard a.toList b.toList)) (TF.Gen.Loops.lat_ring_hadamard_ok a.toList b.toList)
        (ringHadamard a b).toList (okRing (ringHadamard a b)))
  | "rmul", [x, y] => do
      let a ← ring? x; let b ← ring? y
      pure (genCheck "mul" (TF.Gen.Loops.lat_ring_mul a.toList b.toList) (TF.Gen.Loops.lat_ring_mul_ok a.toList b.toList)
        (ringMul a b).toList (okRing (ringMul a b)))
  | "mmul", [.sym strat, .nat h, .nat inner, .nat w, x, y] => do
      let a ← module? (h * inner) x
      let b ← module? (inner * w) y
      let r ← match strat with
        | "mul" => some (modMultiply h inner w a b)
        | "fast" => some (modFastMultiply h inner w a b)
        | "had" => some (modMultiplyHadamard h inner w a b)
        | _ => none
      pure ("ok:" ++ fmtModule r)
  | "madd", [.nat n, x, y] => do let a ← module? n x; let b ← module? n y; pure ("ok:" ++ fmtModule (modAdd a b))
  | "msub", [.nat n, x, y] => do let a ← module? n x; let b ← module? n y; pure ("ok:" ++ fmtModule (modSub a b))
  | "mntt", [.nat n, x] => do let a ← module? n x; pure ("ok:" ++ fmtModule (modNtt a))
  | "mintt", [.nat n, x] => do let a ← module? n x; pure ("ok:" ++ fmtModule (modIntt a))
  | "embed", [m] => do
      let b ← bytes? 32 m
      pure (genCheck "embed_msg" (some (TF.Gen.Loops.lat_embed_msg b)) (TF.Gen.Loops.lat_embed_msg_ok b) (embedMsg b).toList (okRing (embedMsg b)))
  | "extract", [x] => do
      let a ← ring? x
      pure (genCheck "extract_msg" (some (TF.Gen.Loops.lat_extract_msg a.toList)) (TF.Gen.Loops.lat_extract_msg_ok a.toList) (extractMsg a)
        ("ok:" ++ fmtList (extractMsg a)))
  | "sshort", [r] => do let b ← bytes? 8 r; pure s!"ok:{sampleShortElem b}"
  | "rshort", [r] => do let b ← bytes? 512 r; pure (okRing (sampleShortRing b))
  | "runiform", [r] => do let b ← bytes? 576 r; pure (okRing (sampleUniformRing b))
  | "mshort", [.nat n, r] => do let b ← bytes? (512 * n) r; pure ("ok:" ++ fmtModule (sampleShortModule n b))
  | "muniform", [.nat n, r] => do let b ← bytes? (576 * n) r; pure ("ok:" ++ fmtModule (sampleUniformModule n b))
  | "keygen", [r] => do
      let b ← bytes? 32 r
      let (sk, pk) := keygen keccakOracles b
      pure ("ok:" ++ fmtListList [sk.key, sk.seed, pk.seed] ++ ":" ++ fmtModule pk.ga)
  | "enc", [s, ga, r] => do
      let seed ← bytes? 32 s
      let g ← module? 4 ga
      let b ← bytes? 32 r
      let (k, c) := enc keccakOracles { seed := seed, ga := g } b
      pure ("ok:" ++ fmtList k ++ ":" ++ fmtList (ciphertextToArray c).toList)
  | "dec", [k, s, c] => do
      let key ← bytes? 32 k
      let seed ← bytes? 32 s
      let ct ← ciphertext? c
      pure ("ok:" ++ fmtOptBytes (dec keccakOracles { key := key, seed := seed } ct))
  | "kem", [r1, r2] => do
      let a ← bytes? 32 r1
      let b ← bytes? 32 r2
      let (sk, pk) := keygen keccakOracles a
      let (k, c) := enc keccakOracles pk b
      pure ("ok:" ++ fmtList k ++ ":" ++ fmtOptBytes (dec keccakOracles sk c))
  | "tamper", [r1, r2, .nat idx, .nat delta] => do
      let a ← bytes? 32 r1
      let b ← bytes? 32 r2
      if idx ≥ 320 then none else
      let (sk, pk) := keygen keccakOracles a
      let (_, c) := enc keccakOracles pk b
      pure ("ok:" ++ fmtOptBytes (dec keccakOracles sk (tamper c idx (delta % P))))
  | "tampernoise", [r1, r2, .nat which, .nat k, .nat delta] => do
      let a ← bytes? 32 r1
      let b ← bytes? 32 r2
      if which ≥ 5 || k ≥ 64 then none else
      let (sk, pk) := keygen keccakOracles a
      let (_, c) := enc keccakOracles pk b
      pure ("ok:" ++ fmtOptBytes (dec keccakOracles sk (tamperNoise c which k delta)))
  | "unrelated", [r1, r2, r3] => do
      let a ← bytes? 32 r1
      let a' ← bytes? 32 r2
      let b ← bytes? 32 r3
      let (_, pk) := keygen keccakOracles a
      let (sk', _) := keygen keccakOracles a'
      let (_, c) := enc keccakOracles pk b
      pure ("ok:" ++ fmtOptBytes (dec keccakOracles sk' c))
  | "ctrt", [c] => do
      let ct ← ciphertext? c
      pure ("ok:" ++ fmtList (ciphertextToArray ct).toList)
  | _, _ => none

end TF.Drv.Lattice
