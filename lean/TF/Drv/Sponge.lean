-- FAMILIES: sponge=TF.Drv.Sponge.sponge
import TF.Drv.Proto
import TF.Model.Sponge
import TF.Model.HashTip5
import TF.Gen.SpongeLoops
/-! driver handler for the family `sponge` (C15): the abstract permutation is instantiated with the executable Tip5. -/
namespace TF.Drv.Sponge
open TF.Proto TF.Sponge TF.Gen

/-- the Tip5 permutation on a state given as a list of 16 canonical values -/
def tip5Perm (s : List Nat) : List Nat := (TF.Hash.permutation s.toArray).toList

def okLL : Option (List (List Nat)) → String
  | some l => "ok:" ++ fmtListList l
  | none => "panic"
def okL : Option (List Nat) → String
  | some l => "ok:" ++ fmtList l
  | none => "panic"

def state? (a : Arg) : Option (List Nat) := do
  let l ← a.natList?
  if l.length == 16 && l.all (· < P) then some l else none

def vals? (a : Arg) : Option (List Nat) := do
  let l ← a.natList?
  if l.all (· < P) then some l else none

/-- one command of a history; returns (output, new state) -/
def step (st : List Nat) : List Nat → Option (List Nat × List Nat)
  | 0 :: block => if block.length = 10 then some ([], absorb tip5Perm st block) else none
  | [1] => some (squeeze tip5Perm st)
  | [2, bound, num] => sampleIndices tip5Perm (num + 4000) st bound num
  | [3, num] => (sampleScalars tip5Perm st num).map fun r => (r.1.flatMap fun t => [t.1, t.2.1, t.2.2], r.2)
  | 4 :: input => (padAndAbsorbAll (absorb tip5Perm) st input).map fun s => ([], s)
  | _ => none

def runHist : List (List Nat) → List Nat → List (List Nat) → Option (List (List Nat) × List Nat)
  | [], st, outs => some (outs.reverse, st)
  | c :: cs, st, outs => (step st c).bind fun r => runHist cs r.2 (r.1 :: outs)

/-! ### the definitions regenerated from source (`TF/Gen/SpongeLoops.lean`, tools/rs2lean_bt4.py) evaluated next to the hand
model: they work on raw Montgomery words (`bfe_new` in, `bfe_value` out) and call the regenerated permutation; a difference is
printed as `GEN-MISMATCH` (and therefore shows up as a disagreement with the implementation), a false `_ok` flag (a panic of
the Rust code) is the reply `panic` -/
def encL (l : List Nat) : List Nat := l.map bfe_new
def decL (l : List Nat) : List Nat := l.map bfe_value

def both (gen model : String) : String :=
  if gen == model then model else "GEN-MISMATCH gen=" ++ gen ++ " model=" ++ model

/-- the regenerated definitions are slow (lists of unbounded naturals) and the `_ok` flags repeat the whole computation: the
    values are evaluated on every small op and on a deterministic fraction of the large ones, the flags on an eighth
    (chosen by a hash of the numbers in the op) -/
def pick (l : List Nat) (m : Nat) : Bool := (l.foldl (fun a x => (a * 31 + x + 7) % 1000003) 17) % m == 0

/-- one command of a history on the regenerated definitions: (no panic so far, output values, new raw state); `chk`: evaluate
    the `_ok` flags -/
def stepGen (chk : Bool) (st : List Nat) : List Nat → Option (Bool × List Nat × List Nat)
  | 0 :: block =>
      if block.length = 10 then some (!chk || Loops.tip5_absorb_ok st (encL block), [], Loops.tip5_absorb st (encL block)) else none
  | [1] => let r := Loops.tip5_squeeze st; some (!chk || Loops.tip5_squeeze_ok st, decL r.1, r.2)
  | [2, bound, num] =>
      (Loops.tip5_sample_indices (num + 4001) st bound num).map fun r =>
        (!chk || Loops.tip5_sample_indices_ok (num + 4001) st bound num, r.1, r.2)
  -- `sample_scalars` as regenerated (P10): the scalars are lists of three raw words
  | [3, num] => let r := Loops.tip5_sample_scalars st num
      some (!chk || Loops.tip5_sample_scalars_ok st num, decL r.1.flatten, r.2)
  | 4 :: input =>
      some (!chk || Loops.tip5_pad_and_absorb_all_ok st (encL input), [], Loops.tip5_pad_and_absorb_all st (encL input))
  | _ => none

def runHistGen (chk : Bool) : List (List Nat) → List Nat → List (List Nat) → Option (List (List Nat) × List Nat)
  | [], st, outs => some (outs.reverse, st)
  | c :: cs, st, outs => (stepGen chk st c).bind fun r => if r.1 then runHistGen chk cs r.2.2 (r.2.1 :: outs) else none

def okGenL (ok : Bool) (r : Option (List Nat)) : String :=
  if !ok then "panic" else match r with
    | some l => "ok:" ++ fmtList (decL l)
    | none => "diverge"

def sponge : Handler
  | "rec_pad", [x] => do
      let inp ← vals? x
      pure (okLL (padAndAbsorbAll (fun (bs : List (List Nat)) b => bs ++ [b]) [] inp))
  | "new", [.nat d] => some (okL (some (newState (d == 1))))
  | "init", [] => some (both (okGenL Loops.tip5_init_ok Loops.tip5_init) (okL (some initState)))
  | "absorb", [s, b] => do
      let st ← state? s; let bl ← vals? b
      if bl.length == 10 then
        pure (both (okGenL (!pick (st ++ bl) 8 || Loops.tip5_absorb_ok (encL st) (encL bl)) (some (Loops.tip5_absorb (encL st) (encL bl))))
          (okL (some (absorb tip5Perm st bl))))
      else none
  | "squeeze", [s] => do
      let st ← state? s
      let r := squeeze tip5Perm st
      let g := Loops.tip5_squeeze (encL st)
      pure (both (if !pick st 8 || Loops.tip5_squeeze_ok (encL st) then s!"ok:{fmtList (decL g.1)}|{fmtList (decL g.2)}" else "panic")
        s!"ok:{fmtList r.1}|{fmtList r.2}")
  | "hash_varlen", [x] => do
      let inp ← vals? x
      let m := okL (hashVarlen tip5Perm inp)
      if (inp.length ≤ 9 && pick inp 3) || (inp.length ≤ 120 && pick inp 16) then
        pure (both (okGenL (!pick inp 8 || Loops.tip5_hash_varlen_ok (encL inp)) (Loops.tip5_hash_varlen (encL inp))) m)
      else pure m
  | "hash10", [x] => do
      let inp ← vals? x
      if inp.length == 10 then pure (okL (some (hash10 tip5Perm inp))) else none
  | "hash_pair", [l, r] => do
      let a ← vals? l; let b ← vals? r
      if a.length == 5 && b.length == 5 then
        pure (both (okGenL (!pick (a ++ b) 8 || Loops.tip5_hash_pair_ok (encL a) (encL b)) (Loops.tip5_hash_pair (encL a) (encL b)))
          (okL (some (hashPair tip5Perm a b))))
      else none
  | "hist", [s, cs] => do
      let st ← state? s
      let cmds ← cs.natListList?
      let m := match runHist cmds st [] with
        | some (outs, fin) => s!"ok:{fmtListList outs}|{fmtList fin}"
        | none => "panic"
      let key := st ++ cmds.flatten
      -- always on the directed rejection-path states (a lane holds p - 1)
      let small := cmds.all fun c => c.length ≤ 40 && (c.drop 1).all (· ≤ 4294967296) && (c.head? != some 3 || c.all (· ≤ 40))
      if small && ((st.contains (P - 1) && cmds.length ≤ 3 && pick key 3) || pick key 24) then
        let g := match runHistGen (pick key 8) cmds (encL st) [] with
          | some (outs, fin) => s!"ok:{fmtListList outs}|{fmtList (decL fin)}"
          | none => "panic"
        pure (both g m)
      else pure m
  | _, _ => none

end TF.Drv.Sponge
