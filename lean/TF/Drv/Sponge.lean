-- FAMILIES: sponge=TF.Drv.Sponge.sponge
import TF.Drv.Proto
import TF.Model.Sponge
import TF.Model.HashTip5
/-! driver handler for the family `sponge` (C15): the abstract permutation is instantiated with the executable Tip5. -/
namespace TF.Drv.Sponge
open TF.Proto TF.Sponge TF.Gen

/-- the Tip5 permutation on a state given as a list of 16 canonical values -/
def tip5Perm (s : List Nat) : List Nat := (TF.Hash.permutation s.toArray).toList

def okLL : Option (List (List Nat)) → String
  | some l => "ok:" ++ fmtListList l
  | none => "panic"
def okL : Option (List Nat) → String
  | some l => "ok:" ++ fmtList l
  | none => "panic"

def state? (a : Arg) : Option (List Nat) := do
  let l ← a.natList?
  if l.length == 16 && l.all (· < P) then some l else none

def vals? (a : Arg) : Option (List Nat) := do
  let l ← a.natList?
  if l.all (· < P) then some l else none

/-- one command of a history; returns (output, new state) -/
def step (st : List Nat) : List Nat → Option (List Nat × List Nat)
  | 0 :: block => if block.length = 10 then some ([], absorb tip5Perm st block) else none
  | [1] => some (squeeze tip5Perm st)
  | [2, bound, num] => sampleIndices tip5Perm (num + 4000) st bound num
  | [3, num] => (sampleScalars tip5Perm st num).map fun r => (r.1.flatMap fun t => [t.1, t.2.1, t.2.2], r.2)
  | 4 :: input => (padAndAbsorbAll (absorb tip5Perm) st input).map fun s => ([], s)
  | _ => none

def runHist : List (List Nat) → List Nat → List (List Nat) → Option (List (List Nat) × List Nat)
  | [], st, outs => some (outs.reverse, st)
  | c :: cs, st, outs => (step st c).bind fun r => runHist cs r.2 (r.1 :: outs)

def sponge : Handler
  | "rec_pad", [x] => do
      let inp ← vals? x
      pure (okLL (padAndAbsorbAll (fun (bs : List (List Nat)) b => bs ++ [b]) [] inp))
  | "new", [.nat d] => some (okL (some (newState (d == 1))))
  | "init", [] => some (okL (some initState))
  | "absorb", [s, b] => do
      let st ← state? s; let bl ← vals? b
      if bl.length == 10 then pure (okL (some (absorb tip5Perm st bl))) else none
  | "squeeze", [s] => do
      let st ← state? s
      let r := squeeze tip5Perm st
      pure s!"ok:{fmtList r.1}|{fmtList r.2}"
  | "hash_varlen", [x] => do let inp ← vals? x; pure (okL (hashVarlen tip5Perm inp))
  | "hash10", [x] => do
      let inp ← vals? x
      if inp.length == 10 then pure (okL (some (hash10 tip5Perm inp))) else none
  | "hash_pair", [l, r] => do
      let a ← vals? l; let b ← vals? r
      if a.length == 5 && b.length == 5 then pure (okL (some (hashPair tip5Perm a b))) else none
  | "hist", [s, cs] => do
      let st ← state? s
      let cmds ← cs.natListList?
      pure (match runHist cmds st [] with
        | some (outs, fin) => s!"ok:{fmtListList outs}|{fmtList fin}"
        | none => "panic")
  | _, _ => none

end TF.Drv.Sponge
