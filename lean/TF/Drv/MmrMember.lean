-- FAMILIES: mmrp=TF.Drv.MmrMember.mmrp
import TF.Drv.Proto
import TF.Model.HashTip5Fast
import TF.Model.MmrMember
import TF.Spec.MmrE
import TF.Gen.MmrProofLoops
/-!
driver handler for the family `mmrp` (C05, `MmrMembershipProof` and the accumulator's batch mutation).

* `verify tag i leaf peaks count path`   `MmrMembershipProof::verify` on an arbitrary tuple: `ok:<bool>`
* `hist ops`                              a whole history from the empty accumulator, `ops` a list of
    `(0;d;trk;how;order)`      append `d`; tracked proofs `order` (slots, in this order; the others are dropped) are updated
                               with `update_from_append` one by one (`how=0`) or `batch_update_from_append` (`how=1`);
                               `trk=1`: the proof returned by `append` is tracked from now on
    `(1;i;d;proof;how;order)`  mutate leaf `i` to `d` (`proof` = its membership proof): `mutate_leaf`, and
                               `update_from_leaf_mutation` one by one (`how=0`) / `batch_update_from_leaf_mutation` (`how=1`)
    `(2;muts;how;order)`       batch mutation, `muts = [(i;d;proof),…]`: `batch_mutate_leaf_and_update_mps` (`how=0`) or
                               `batch_update_from_batch_leaf_mutation` + the accumulator mutated separately (`how=1`)
    `(3;n;seed;how)`           append `n` derived leafs `[seed, index, 1, 2, 3]`, updating every tracked proof
    `(4;i;proof)`              start tracking leaf `i` with the given proof
  reply: per op `<returned bools / modified indices>;<[len,checksum] of every tracked proof>` joined by `|`, then
  `#count#peaks#tracked leaf indices#tracked proofs` (full digests) of the final state
* `free_check N K`                        bounded *test* in the model with a free hash algebra
-/
namespace TF.Drv.MmrMember
open TF.Proto TF.Model.MmrE

abbrev Dg := List Nat
def Hh : Dg → Dg → Dg := TF.HashFast.hashPair

def fmtDigests (ds : List Dg) : String := fmtListList ds
def fmtBools (bs : List Bool) : String := fmtList (bs.map fun b => if b then 1 else 0)

/-- order-sensitive checksum of a path: `[length, Σ (5k+j+1)·d[k][j] mod 2^64]` -/
def cks (path : List Dg) : List Nat :=
  let rec go (ds : List Dg) (k : Nat) (acc : Nat) : Nat :=
    match ds with
    | [] => acc
    | d :: rest =>
      let rec inner (xs : List Nat) (j : Nat) (a : Nat) : Nat :=
        match xs with
        | [] => a
        | x :: r => inner r (j + 1) ((a + (5 * k + j + 1) * x) % 18446744073709551616)
      go rest (k + 1) (inner d 0 acc)
  [path.length, go path 0 0]

structure St (α : Type) where
  acc : Acc α
  tracked : List (Nat × List α)

def selectSlots (tr : List (Nat × List α)) (order : List Nat) : Option (List (Nat × List α)) :=
  order.mapM fun s => tr[s]?

def Arg.digest? (a : Arg) : Option Dg := a.natList?
def Arg.digests? (a : Arg) : Option (List Dg) := a.natListList?

def parseMut (a : Arg) : Option (LeafMutation Dg) :=
  match a with
  | .tup [.nat i, d, p] => do pure { leaf_index := i, new_leaf := (← Arg.digest? d), path := (← Arg.digests? p) }
  | _ => none

/-- update all tracked proofs for one append, one by one -/
def appendSingles (H : α → α → α) [DecidableEq α] (a : Acc α) (x : α) :
    List (Nat × List α) → Option (List (Nat × List α) × List Bool)
  | [] => some ([], [])
  | (li, p) :: rest => do
    let (p', b) ← updateFromAppend H p li a.count x a.peaks
    let (r, bs) ← appendSingles H a x rest
    pure ((li, p') :: r, b :: bs)

def mutSingles (H : α → α → α) [DecidableEq α] (lm : LeafMutation α) :
    List (Nat × List α) → Option (List (Nat × List α) × List Bool)
  | [] => some ([], [])
  | (li, p) :: rest => do
    let (p', b) ← updateFromLeafMutation H p li lm
    let (r, bs) ← mutSingles H lm rest
    pure ((li, p') :: r, b :: bs)

/-- one append with update of the selected tracked proofs; returns new state and the textual return value -/
def doAppend (H : α → α → α) [DecidableEq α] (st : St α) (x : α) (trk : Bool) (how : Nat) (order : List Nat) :
    Option (St α × String) := do
  let sel ← selectSlots st.tracked order
  let (sel', ret) ← (if how = 0 then do
      let (r, bs) ← appendSingles H st.acc x sel
      pure (r, fmtBools bs)
    else do
      let (ps, ms) ← batchUpdateFromAppend H (sel.map (·.2)) (sel.map (·.1)) st.acc.count x st.acc.peaks
      pure ((sel.map (·.1)).zip ps, fmtList ms))
  let (acc', ap) ← st.acc.append H x
  let tr := if trk then sel' ++ [(st.acc.count, ap)] else sel'
  pure ({ acc := acc', tracked := tr }, ret)

def step (H : α → α → α) [DecidableEq α] (mkLeaf : Nat → Nat → α) (dg : Arg → Option α)
    (dgs : Arg → Option (List α)) (st : St α) : Arg → Option (St α × String)
  | .tup [.nat 0, d, .nat trk, .nat how, order] => do
    doAppend H st (← dg d) (trk = 1) how (← order.natList?)
  | .tup [.nat 1, .nat i, d, proof, .nat how, order] => do
    let lm : LeafMutation α := { leaf_index := i, new_leaf := (← dg d), path := (← dgs proof) }
    let sel ← selectSlots st.tracked (← order.natList?)
    let (sel', ret) ← (if how = 0 then do
        let (r, bs) ← mutSingles H lm sel
        pure (r, fmtBools bs)
      else do
        let (ps, ms) ← batchUpdateFromLeafMutation H (sel.map (·.2)) (sel.map (·.1)) lm
        pure ((sel.map (·.1)).zip ps, fmtList ms))
    let acc' ← st.acc.mutateLeaf H i lm.new_leaf lm.path
    pure ({ acc := acc', tracked := sel' }, ret)
  | .tup [.nat 2, .list muts, .nat how, order] => do
    let lms ← muts.mapM fun m => match m with
      | .tup [.nat i, d, p] => do
        pure ({ leaf_index := i, new_leaf := (← dg d), path := (← dgs p) } : LeafMutation α)
      | _ => none
    let sel ← selectSlots st.tracked (← order.natList?)
    if how = 0 then do
      let (acc', ps, ms) ← st.acc.batchMutateLeafAndUpdateMps H (sel.map (·.2)) (sel.map (·.1)) lms
      pure ({ acc := acc', tracked := (sel.map (·.1)).zip ps }, fmtList ms)
    else do
      let (ps, ms) ← batchUpdateFromBatchLeafMutation H (sel.map (·.2)) (sel.map (·.1)) lms
      let (acc', _, _) ← st.acc.batchMutateLeafAndUpdateMps H [] [] lms
      pure ({ acc := acc', tracked := (sel.map (·.1)).zip ps }, fmtList ms)
  | .tup [.nat 3, .nat n, .nat seed, .nat how] => do
    let rec bulk (k : Nat) (st : St α) : Option (St α) :=
      match k with
      | 0 => some st
      | k+1 => do
        let (st', _) ← doAppend H st (mkLeaf seed st.acc.count) false how (List.range st.tracked.length)
        bulk k st'
    let st' ← bulk n st
    pure (st', "[]")
  | .tup [.nat 4, .nat i, proof] => do
    pure ({ st with tracked := st.tracked ++ [(i, ← dgs proof)] }, "[]")
  | _ => none

def runHist (ops : List Arg) : Option String := do
  let rec go (ops : List Arg) (st : St Dg) (out : List String) : Option (St Dg × List String) :=
    match ops with
    | [] => some (st, out.reverse)
    | op :: rest => do
      let (st', ret) ← step Hh (fun seed idx => [seed, idx, 1, 2, 3]) Arg.digest? Arg.digests? st op
      go rest st' ((ret ++ ";" ++ fmtListList (st'.tracked.map fun t => cks t.2)) :: out)
  let (st, segs) ← go ops { acc := { count := 0, peaks := [] }, tracked := [] } []
  pure ("|".intercalate segs ++ "#" ++ toString st.acc.count ++ "#" ++ fmtDigests st.acc.peaks ++ "#" ++
    fmtList (st.tracked.map (·.1)) ++ "#" ++
    "[" ++ ",".intercalate (st.tracked.map fun t => fmtDigests t.2) ++ "]")

/-- a history that starts from `init(peaks, count)` with a LARGE leaf count (op `bhist`) -/
def runHistFrom (a : Acc Dg) (ops : List Arg) : Option String := do
  let (st, segs) ← runHist.go ops { acc := a, tracked := [] } []
  pure ("|".intercalate segs ++ "#" ++ toString st.acc.count ++ "#" ++ fmtDigests st.acc.peaks ++ "#" ++
    fmtList (st.tracked.map (·.1)) ++ "#" ++
    "[" ++ ",".intercalate (st.tracked.map fun t => fmtDigests t.2) ++ "]")

/-! free hash algebra and the bounded model check (a *test*): all MMR shapes up to `N` leaves with every leaf tracked
(the update routines treat the handed proofs independently, so this covers every tracked subset and, for the returned
index lists, the identity order): appends (single and batch routine), every single mutation (single and batch routine),
every ordered pair of mutated leafs for shapes up to `K` leaves and sibling/neighbour pairs above, every ordered triple
up to 8 leaves (both batch routines) — compared with the from-scratch `authPathOf`/`peaks` of the changed leaf list;
returned "modified" lists compared with the proofs that changed. -/
inductive T where
  | leaf (n : Nat)
  | node (l r : T)
deriving DecidableEq, Repr

open TF.Spec.MmrE in
def stateOk (st : HState T) (g : Nat → T) (n : Nat) : Bool :=
  st.acc.count == n && st.acc.peaks == peaks T.node n g &&
    st.proofs == (List.range n).map (authPathOf T.node g n)

def changed (before after : List (List T)) : List Nat :=
  (List.range before.length).filter fun i => before[i]? != after[i]?

open TF.Spec.MmrE in
def checkBatch (st : HState T) (g : Nat → T) (n : Nat) (ms : List (Nat × T)) : Bool :=
  let g' := setLeafs g ms
  let lis := List.range n
  match st.step T.node (.batch ms), ms.mapM (fun m => (st.proofs[m.1]?).map
      (fun pi => ({ leaf_index := m.1, new_leaf := m.2, path := pi } : LeafMutation T))) with
  | some st', some lms =>
    stateOk st' g' n &&
    (match st.acc.batchMutateLeafAndUpdateMps T.node st.proofs lis lms,
           batchUpdateFromBatchLeafMutation T.node st.proofs lis lms with
      | some (_, ps1, m1), some (ps2, m2) =>
        ps1 == st'.proofs && ps2 == st'.proofs && m1 == changed st.proofs ps1 && m2 == changed st.proofs ps2
      | _, _ => false)
  | _, _ => false

open TF.Spec.MmrE in
def freeCheck (N K : Nat) : Bool := Id.run do
  let g : Nat → T := fun i => T.leaf (i + 1)
  let nv : Nat → T := fun i => T.leaf (1000 + i)
  let mut st : HState T := { acc := { count := 0, peaks := [] }, proofs := [] }
  let mut ok := true
  for n in [0:N] do
    -- the state over the first `n` leaves: mutations
    for j in [0:n] do
      let g' := setLeaf g j (nv j)
      match st.step T.node (.mutate j (nv j)), st.proofs[j]? with
      | some st', some pj =>
        ok := ok && stateOk st' g' n
        match batchUpdateFromLeafMutation T.node st.proofs (List.range n) { leaf_index := j, new_leaf := nv j, path := pj } with
        | some (ps, ms) => ok := ok && ps == st'.proofs && ms == changed st.proofs ps
        | none => ok := false
      | _, _ => ok := false
      -- pairs
      for j2 in [0:n] do
        if j2 != j && (n ≤ K || j2 == j ^^^ 1 || j2 == (j + 1) % n) then
          ok := ok && checkBatch st g n [(j, nv j), (j2, nv j2)]
          if n ≤ 8 then
            for j3 in [0:n] do
              if j3 != j && j3 != j2 then
                ok := ok && checkBatch st g n [(j, nv j), (j2, nv j2), (j3, nv j3)]
    -- append leaf `n`
    match st.step T.node (.append (g n)) with
    | some st' =>
      ok := ok && stateOk st' g (n + 1)
      match batchUpdateFromAppend T.node st.proofs (List.range n) n (g n) st.acc.peaks with
      | some (ps, ms) => ok := ok && ps == st'.proofs.take n && ms == changed st.proofs ps
      | none => ok := false
      st := st'
    | none => ok := false
  return ok

/-! BT7: `MmrMembershipProof::{verify, get_node_indices, get_direct_path_indices, get_peak_index_and_height}` **regenerated
from source** (`TF/Gen/MmrProofLoops.lean`, tools/rs2lean_mmr.py) evaluated next to the hand model on every `verify` op: a false
`_ok` flag of `verify` is a panic (`none`); a difference is printed as `GEN-MISMATCH` (and therefore shows up as a disagreement
with the implementation).  The index helpers are compared by value for paths of at most 64 digests. -/
def genVerifyAgrees (path : List Dg) (i : Nat) (leaf : Dg) (peaks : List Dg) (n : Nat) : Bool :=
  let g := if TF.Gen.Loops.mmrmp_verify_ok Hh [] path i leaf peaks n
    then TF.Gen.Loops.mmrmp_verify Hh [] path i leaf peaks n else none
  g == memberVerify Hh path i leaf peaks n

def genIndexHelpersAgree (path : List Dg) (i : Nat) : Bool :=
  path.length > 64 ||
  (TF.Gen.Loops.mmrmp_get_node_indices Hh [] path i == TF.Model.Mmr.get_node_indices i path.length &&
   TF.Gen.Loops.mmrmp_get_direct_path_indices Hh [] path i == TF.Model.Mmr.get_direct_path_indices i path.length &&
   (if (TF.Gen.Loops.mmrmp_get_direct_path_indices Hh [] path i).elim true (fun l => !l.isEmpty)
      then TF.Gen.Loops.mmrmp_get_peak_index_and_height Hh [] path i else none) == getPeakIndexAndHeight path i)

def mmrp : Handler
  | "verify", [.sym _, .nat i, leaf, peaks, .nat n, path] => do
    let leaf ← leaf.natList?
    let peaks ← peaks.natListList?
    let path ← path.natListList?
    if !genVerifyAgrees path i leaf peaks n then pure "GEN-MISMATCH MmrMembershipProof::verify" else
    if !genIndexHelpersAgree path i then pure "GEN-MISMATCH MmrMembershipProof index helpers" else
    pure (match memberVerify Hh path i leaf peaks n with
      | some b => "ok:" ++ fmtBool b
      | none => "panic")
  | "hist", [.list ops] => some (match runHist ops with
      | some s => "ok:" ++ s
      | none => "panic")
  | "free_check", [.nat n, .nat k] => some ("ok:" ++ fmtBool (freeCheck n k))
  -- `bhist (count;peaks;known) ops`: as `hist`, from `init(peaks, count)`; `known` = materialised leafs (harness oracle only)
  | "bhist", [.tup [.nat c, peaks, _known], .list ops] => do
    let ps ← peaks.natListList?
    pure (match runHistFrom { count := c, peaks := ps } ops with
      | some s => "ok:" ++ s
      | none => "panic")
  | _, _ => none

end TF.Drv.MmrMember
