-- FAMILIES: polyi=TF.Drv.PolyInterp.polyi
import TF.Drv.Proto
import TF.Model.PolyInterp
import TF.Drv.PolyInterpApi
/-! driver handler for the family `polyi` (C08): `polyi <op> <b|x> args…`; field elements are canonical values
(`b`: naturals, `x`: triples `(c0;c1;c2)`); polynomials are printed normalised. Anything above the size limit,
or given in compact pseudo-random form `R:…`, is answered with `skip` (the implementation-side oracles decide). -/
namespace TF.Drv.PolyInterp
open TF TF.Proto TF.Model.PolyI TF.Model.Poly

structure Codec (α : Type) where
  F : FieldOps α
  elem? : Arg → Option α
  fmtL : List α → String
  rnd : Nat → Nat → Option (List α)

/-- SplitMix64 as in `harness/src/util.rs` (`Rng::new(seed)`, `next`, `below`) -/
def smNext (s : UInt64) : UInt64 × UInt64 :=
  let s := s + 0x9E3779B97F4A7C15
  let z := s
  let z := (z ^^^ (z >>> 30)) * 0xBF58476D1CE4E5B9
  let z := (z ^^^ (z >>> 27)) * 0x94D049BB133111EB
  (z ^^^ (z >>> 31), s)

def smStream (seed : Nat) (count : Nat) : List Nat :=
  let rec go : Nat → UInt64 → Array Nat → Array Nat
    | 0, _, acc => acc
    | k+1, s, acc =>
      let (v, s') := smNext s
      go k s' (acc.push (v.toNat % TF.Gen.P))
  (go count (UInt64.ofNat seed ^^^ 0x9E3779B97F4A7C15) #[]).toList

/-- compact pseudo-random list `R:<seed>:<len>`; `arity` uniform values per element -/
def compact? (s : String) : Option (Nat × Nat) :=
  match s.splitOn ":" with
  | ["R", a, b] => do let a ← a.toNat?; let b ← b.toNat?; pure (a, b)
  | _ => none

def group3 : List Nat → List (Nat × Nat × Nat)
  | a :: b :: c :: rest => (a, b, c) :: group3 rest
  | _ => []

def elems? {α : Type} (c : Codec α) : Arg → Option (List α)
  | .list xs => xs.mapM c.elem?
  | .sym s => do let (seed, len) ← compact? s; c.rnd seed len
  | _ => none
def matrix? {α : Type} (c : Codec α) : Arg → Option (List (List α))
  | .list xs => xs.mapM (elems? c)
  | _ => none

def bCodec : Codec Nat where
  F := bfieldOps
  elem? := fun a => a.nat?.map (· % TF.Gen.P)
  fmtL := fmtList
  rnd := fun seed len => some (smStream seed len)

def xCodec : Codec Spec.X3 where
  F := xfieldOps
  elem? := fun a => match a with
    | .tup [.nat a, .nat b, .nat c] => some (a % TF.Gen.P, b % TF.Gen.P, c % TF.Gen.P)
    | .nat a => some (a % TF.Gen.P, 0, 0)
    | _ => none
  fmtL := fmtTripleList
  rnd := fun seed len => some (group3 (smStream seed (3 * len)))

section
variable {α : Type} (c : Codec α)

def okPoly : Option (List α) → String
  | some p => "ok:" ++ c.fmtL (normalize c.F p)
  | none => "panic"
def okVals : Option (List α) → String
  | some v => "ok:" ++ c.fmtL v
  | none => "panic"
def okPolys : Option (List (List α)) → String
  | some ps => "ok:[" ++ ",".intercalate (ps.map (fun p => c.fmtL (normalize c.F p))) ++ "]"
  | none => "panic"

/-- size limit above which the model declines (keeps the quick tier fast) -/
def limit : Nat := 20000

def handle (op : String) (args : List Arg) : Option String :=
  let F := c.F
  let E : Ext α := Ext.std F
  let L := elems? c
  let big (n : Nat) : Option Unit := if n > limit then none else some ()
  -- the coset routines with few points are cheap in the model up to 2^18
  let bigC (n : Nat) : Option Unit := if n > 600000 then none else some ()
  -- above 2^18 only with a handful of points (the long division by the zerofier dominates)
  let bigP (n pts : Nat) : Option Unit := if n > 300000 && pts > 8 then none else some ()
  match op, args with
  | "evaluate", [p, x] => do
      let p ← L p; let x ← c.elem? x
      pure ("ok:" ++ c.fmtL [evaluate F p x])
  | "zerofier", [r] => do let r ← L r; big r.length; pure (okPoly c (zerofier F E r))
  | "smart_zerofier", [r] => do let r ← L r; big r.length; pure (okPoly c (some (smartZerofier F r)))
  | "fast_zerofier", [r] => do let r ← L r; big r.length; pure (okPoly c (fastZerofier F E r))
  | "naive_zerofier", [r] => do let r ← L r; big r.length; pure (okPoly c (some (naiveZerofier F E r)))
  | "par_zerofier", [.nat th, r] => do let r ← L r; big r.length; pure (okPoly c (parZerofier F E th r))
  | "tree", [d] => do
      let d ← L d; big d.length
      pure (match newFromDomain F E d with
        | some t => "ok:" ++ t.shape ++ ";" ++ c.fmtL (normalize F (t.zerofier F))
        | none => "panic")
  | "dc_eval", [p, d] => do
      let p ← L p; let d ← L d; big (p.length + d.length)
      pure (okVals c (do let t ← newFromDomain F E d; dcEval F E p t))
  | "batch_evaluate", [p, d] => do
      let p ← L p; let d ← L d; big (p.length + d.length)
      pure (okVals c (batchEvaluate F E p d))
  | "iterative_batch_evaluate", [p, d] => do
      let p ← L p; let d ← L d; big (p.length + d.length)
      pure (okVals c (some (iterativeBatchEvaluate F p d)))
  | "par_batch_evaluate", [.nat th, p, d] => do
      let p ← L p; let d ← L d; big (p.length + d.length)
      pure (okVals c (parBatchEvaluate F E th p d))
  | "interpolate", [d, v] => do
      let d ← L d; let v ← L v; big d.length
      pure (okPoly c (interpolate F E d v))
  | "par_interpolate", [.nat th, d, v] => do
      let d ← L d; let v ← L v; big d.length
      pure (okPoly c (parInterpolate F E th d v))
  | "lagrange_interpolate", [d, v] => do
      let d ← L d; let v ← L v; big d.length
      pure (okPoly c (lagrangeInterpolate F E d v))
  | "lagrange_interpolate_zipped", [d, v] => do
      let d ← L d; let v ← L v; big d.length
      if d.length != v.length then none else
      pure (okPoly c (lagrangeInterpolateZipped F E (d.zip v)))
  | "fast_interpolate", [d, v] => do
      let d ← L d; let v ← L v; big d.length
      pure (okPoly c (fastInterpolate F E d v))
  | "par_fast_interpolate", [.nat th, d, v] => do
      let d ← L d; let v ← L v; big d.length
      pure (okPoly c (parFastInterpolate F E th d v))
  | "batch_fast_interpolate", [d, m] => do
      let d ← L d; let m ← matrix? c m; big (d.length * (m.length + 1))
      pure (okPolys c (batchFastInterpolate F E d m))
  | "fast_coset_evaluate", [p, .nat off, .nat order] => do
      let p ← L p; big (p.length + order)
      pure (okVals c (fastCosetEvaluate F E p (F.ofNat off) order))
  | "fast_coset_interpolate", [.nat off, v] => do
      let v ← L v; bigC v.length
      pure (okPoly c (fastCosetInterpolate F E (F.ofNat off) v))
  | "barycentric_evaluate", [cw, x] => do
      let cw ← L cw; let x ← c.elem? x; big cw.length
      pure (match barycentricEvaluate F cw x with
        | some v => "ok:" ++ c.fmtL [v]
        | none => "panic")
  | "coset_extrapolate", [.nat off, cw, pts] => do
      let cw ← L cw; let pts ← L pts; bigC (cw.length + pts.length); big (pts.length * 20); bigP cw.length pts.length
      pure (okVals c (cosetExtrapolate F E (F.ofNat off) cw pts))
  | "batch_coset_extrapolate", [.nat off, .nat n, cws, pts] => do
      let cws ← L cws; let pts ← L pts; bigC (cws.length + pts.length); big (pts.length * 20); bigP n pts.length
      pure (okVals c (batchCosetExtrapolate F E (F.ofNat off) n cws pts))
  | "par_batch_coset_extrapolate", [.nat _, .nat off, .nat n, cws, pts] => do
      let cws ← L cws; let pts ← L pts; bigC (cws.length + pts.length); big (pts.length * 20); bigP n pts.length
      pure (okVals c (batchCosetExtrapolate F E (F.ofNat off) n cws pts))
  | "fmci", [.nat off, v, pts] => do
      -- modulus = prod (X - p_j) over the given points
      let v ← L v; let pts ← L pts; bigC (v.length + pts.length); big (pts.length * 20); bigP v.length pts.length
      pure (okPoly c (fmci F E Thr.src v (F.ofNat off) (smartZerofier F pts)))
  | _, _ => none

end

def polyiCore : Handler
  | op, .sym "b" :: args => handle bCodec op args
  | op, .sym "x" :: args => handle xCodec op args
  | "barycentric_evaluate", [.sym "bx", cw, x] => handle xCodec "barycentric_evaluate" [cw, x]
  | _, _ => none

/-- the ops above, then the ops added by the API audit (`TF/Drv/PolyInterpApi.lean`) -/
def polyi : Handler := fun op args =>
  match polyiCore op args with
  | some r => some r
  | none => TF.Drv.PolyInterpApi.handleApi op args

end TF.Drv.PolyInterp
