-- FAMILIES: bfe=TF.Drv.BField.bfe xfe=TF.Drv.BField.xfe
import TF.Drv.Proto
import TF.Model.BField
import TF.Gen.BFieldLoops
import TF.Gen.FieldLoops
import TF.Model.XField
import TF.Model.XFieldInv
import TF.Spec.Field
import TF.Drv.BFieldMore
/-! driver handlers for the families `bfe` and `xfe` (C01) -/
namespace TF.Drv.BField
open TF.Proto TF.Gen TF.Model

def okN (n : Nat) : String := s!"ok:{n}"
def okI (n : Int) : String := s!"ok:{n}"
def okOpt : Option Nat → String
  | some n => s!"ok:{n}"
  | none => "panic"

/-- the hand model's reply next to the reply of the definition **regenerated from source** (`TF.Gen.Loops.bfe_*`, written by
    tools/rs2lean_bfe.py): a difference is printed instead of the value, so a translator bug (or a hand model that
    drifted from the code) shows up as a disagreement with the implementation on the unchanged tree -/
def both (gen model : String) : String :=
  if gen == model then model else "GEN-MISMATCH gen=" ++ gen ++ " model=" ++ model

/-- reply of a regenerated function: `panic` when its `_ok` flag is false (an `assert!` fails / a plain operation
    overflows), `diverge` when it runs out of fuel -/
def genReply (ok : Bool) (r : Option Nat) : String :=
  if !ok then "panic" else match r with
    | some v => s!"ok:{v}"
    | none => "diverge"

def bits? : String → Option (Bool × Nat)
  | "u8" => some (false, 8) | "u16" => some (false, 16) | "u32" => some (false, 32) | "usize" => some (false, 64)
  | "u64" => some (false, 64)
  | "i8" => some (true, 8) | "i16" => some (true, 16) | "i32" => some (true, 32) | "isize" => some (true, 64)
  | "i64" => some (true, 64)
  | _ => none

def bfe : Handler
  | "new", [.nat v] => okN (bfe_new v)
  | "value", [.nat r] => okN (bfe_value r)
  | "montyred", [.nat x] => okN (montyred x)
  | "add", [.nat a, .nat b] => okN (bfe_add a b)
  | "sub", [.nat a, .nat b] => okN (bfe_sub a b)
  | "mul", [.nat a, .nat b] => okN (bfe_mul a b)
  | "neg", [.nat a] => okN (BF.neg a)
  | "inv", [.nat a] => both (genReply (Loops.bfe_inverse_ok a) (Loops.bfe_inverse a)) (okOpt (BF.inverse a))
  | "inv0", [.nat a] => okN (BF.inverseOrZero a)
  | "div", [.nat a, .nat b] => okOpt (BF.div a b)
  | "pow", [.nat a, .nat e] => both (genReply (Loops.bfe_mod_pow_ok a e) (Loops.bfe_mod_pow a e)) (okN (BF.modPow a e))
  | "from_u128", [.nat x] => okN (BF.fromU128 x)
  | "from_i64", [x] => x.int?.map fun v => okN (BF.fromI64 v)
  | "to_i64", [.nat a] => okI (BF.toI64 a)
  | "try", [.sym ty, .nat a] =>
    (bits? ty).map fun (signed, b) =>
      match (if signed then BF.tryIntoI b a else BF.tryIntoU b a) with
      | some v => s!"ok:{v}"
      | none => "err"
  | "batchinv", [xs] => xs.natList?.map fun l =>
      -- `FiniteField::batch_inversion` as regenerated from source over an abstract field (P10), at the base field's operations
      let gok := Loops.ff_batch_inversion_ok BF.zero BF.one bfe_mul (fun x => x == BF.zero) (fun x => (BF.inverse x).getD 0)
        (fun x => (BF.inverse x).isSome) 0 l
      let g := Loops.ff_batch_inversion BF.zero BF.one bfe_mul (fun x => x == BF.zero) (fun x => (BF.inverse x).getD 0)
        (fun x => (BF.inverse x).isSome) 0 l
      both (if gok then "ok:" ++ fmtList g else "panic")
      (match BF.batchInversion l with
      | some r => "ok:" ++ fmtList r
      | none => "panic")
  | "sum", [xs] => xs.natList?.map fun l => okN (BF.sum l)
  | "pacc", [.nat m, .nat base, .nat tail] =>
      both (genReply (Loops.bfe_power_accumulator_ok 1 m [base] [tail])
          ((Loops.bfe_power_accumulator 1 m [base] [tail]).bind fun l => l.head?))
        (okN (BF.powerAccumulator m base tail))
  | "eq", [.nat a, .nat b] => some ("ok:" ++ fmtBool (bfe_value a == bfe_value b))
  | op, args => TF.Drv.BFieldMore.bfeMore op args     -- C01 growth ops (TF/Drv/BFieldMore.lean)

def toVal (x : XF.X3) : Spec.X3 := XF.toVal x
def ofVal (x : Spec.X3) : XF.X3 := XF.ofVal x
def okX (x : XF.X3) : String := "ok:" ++ fmtTriple x
def okOptX : Option XF.X3 → String
  | some x => okX x
  | none => "panic"

def xfe : Handler
  | "add", [x, y] => do let a ← x.triple?; let b ← y.triple?; pure (okX (XF.add a b))
  | "sub", [x, y] => do let a ← x.triple?; let b ← y.triple?; pure (okX (XF.sub a b))
  | "mul", [x, y] => do let a ← x.triple?; let b ← y.triple?; pure (okX (XF.mul a b))
  | "neg", [x] => do let a ← x.triple?; pure (okX (XF.neg a))
  | "addb", [x, .nat b] => do let a ← x.triple?; pure (okX (XF.addB a b))
  | "subb", [x, .nat b] => do let a ← x.triple?; pure (okX (XF.subB a b))
  | "bsub", [.nat b, x] => do let a ← x.triple?; pure (okX (XF.bSub b a))
  | "mulb", [x, .nat b] => do let a ← x.triple?; pure (okX (XF.mulB a b))
  | "lift", [.nat b] => some (okX (XF.lift b))
  | "unlift", [x] => do
      let a ← x.triple?
      pure (match XF.unlift a with | some v => s!"ok:some:{v}" | none => "ok:none")
  | "pow", [x, .nat e] => do let a ← x.triple?; pure (okX (XF.modPow a e))
  -- `inverse` / `inverse_or_zero` / `Div`: the extended-gcd route of the Rust code (TF/Model/XFieldInv.lean); the
  -- protocol carries raw Montgomery words, the model runs on canonical values (`bfe_value` in, `bfe_new` out)
  | "inv", [x] => do let a ← x.triple?; pure (okOptX (XF.inverse a))
  | "inv0", [x] => do let a ← x.triple?; pure (okOptX (XF.inverseOrZero a))
  | "div", [x, y] => do let a ← x.triple?; let b ← y.triple?; pure (okOptX (XF.div a b))
  | "frompoly", [cs] => do
      -- coefficients given as canonical values, lowest degree first; `From<Polynomial> for XFieldElement`:
      -- remainder of the long division by X^3 - X + 1, zero padded
      let l ← cs.natList?
      pure (okOptX ((XFInv.ofPolyG bfieldOps (l.map (· % P))).map ofVal))
  | op, args => TF.Drv.BFieldMore.xfeMore op args     -- C01 growth ops (TF/Drv/BFieldMore.lean)

end TF.Drv.BField
