-- FAMILIES: tip5=TF.Drv.Tip5.tip5
import TF.Drv.Proto
import TF.Model.Tip5
import TF.Gen.Tip5Loops
import TF.Spec.Tip5
/-!
driver handler for the family `tip5` (C02).  Field elements travel as canonical values; the model works on raw
Montgomery words (`bfe_new` in, `bfe_value` out).  Every reply of the model is cross-checked against the
paper-level `TF.Spec.Tip5` evaluated on the values; a difference is printed as `…!spec=…` (and therefore shows up
as a disagreement with the implementation).
-/
namespace TF.Drv.Tip5
open TF.Proto TF.Gen TF.Model

def toVec (n : Nat) (l : List Nat) : Option (Vector Nat n) :=
  if h : l.toArray.size = n then some ⟨l.toArray, h⟩ else none

def rawV {n : Nat} (v : Vector Nat n) : Vector Nat n := v.map bfe_new
def valV {n : Nat} (v : Vector Nat n) : Vector Nat n := v.map bfe_value

/-- canonical values of a raw state; a non-canonical raw word is made visible as `nc<raw>` -/
def fmtRaw {n : Nat} (v : Vector Nat n) : String :=
  "[" ++ ",".intercalate (v.toList.map fun w => if w < P then toString (bfe_value w) else s!"nc{w}") ++ "]"

def fmtVals {n : Nat} (v : Vector Nat n) : String := fmtList v.toList

def withSpec (model spec : String) : String :=
  if model == spec then "ok:" ++ model else "ok:" ++ model ++ "!spec=" ++ spec

def allCanon (l : List Nat) : Bool := l.all (· < P)

def fmtRawL (l : List Nat) : String :=
  "[" ++ ",".intercalate (l.map fun w => if w < P then toString (bfe_value w) else s!"nc{w}") ++ "]"

/-- the `_ok` flags repeat the whole computation; they are evaluated on a deterministic eighth of the inputs (chosen by
    the sum of the raw words), the regenerated values on every input -/
def sampled (l : List Nat) (ok : List Nat → Bool) : Bool :=
  if (l.foldl (· + ·) 0) % 8 == 0 then ok l else true

/-- the hand model's reply next to the reply computed by the definitions **regenerated from source**
    (`TF.Gen.Loops.tip5_*`, written by tools/rs2lean_bfe.py): when they differ, or when the regenerated `_ok` flag says that
    a plain arithmetic operation overflowed / an index was out of range, that is printed instead of the value, so a
    translator bug (or a hand model that drifted from the code) shows up as a disagreement with the implementation -/
def both (genOk : Bool) (gen model : String) : String :=
  if !genOk then "GEN-NOT-OK gen=" ++ gen ++ " model=" ++ model
  else if gen == model then model else "GEN-MISMATCH gen=" ++ gen ++ " model=" ++ model

def tip5 : Handler
  | "perm", [xs] => do
      let l ← xs.natList?
      if !allCanon l then none
      let v ← toVec 16 l
      let raw := rawV v
      let m := both (sampled raw.toList Loops.tip5_permutation_ok) (fmtRawL (Loops.tip5_permutation raw.toList))
        (fmtRaw (Tip5.permutation raw))
      pure (withSpec m (fmtVals (Spec.Tip5.permutation v)))
  | "trace", [xs] => do
      let l ← xs.natList?
      if !allCanon l then none
      let v ← toVec 16 l
      let raw := rawV v
      let g := Loops.tip5_trace raw.toList
      let m := both (sampled raw.toList Loops.tip5_trace_ok)
        ("[" ++ ",".intercalate (g.1.map fmtRawL) ++ "]" ++ (if g.2 == (g.1.getLast?.getD []) then "" else "!self=" ++ fmtRawL g.2))
        ("[" ++ ",".intercalate ((Tip5.trace raw).map fmtRaw) ++ "]")
      let s := "[" ++ ",".intercalate ((Spec.Tip5.trace v).map fmtVals) ++ "]"
      pure (withSpec m s)
  | "hash10", [xs] => do
      let l ← xs.natList?
      if !allCanon l then none
      let v ← toVec 10 l
      let inp := (rawV v).toList
      let g := match Loops.tip5_hash_10 inp with
        | some d => fmtRawL d
        | none => "diverge"
      let m := both (sampled inp Loops.tip5_hash_10_ok) g (fmtRaw (Tip5.hash_10 (rawV v)))
      pure (withSpec m (fmtVals (Spec.Tip5.hash10 v)))
  | "hashpair", [a, b] => do
      let la ← a.natList?; let lb ← b.natList?
      if !allCanon la || !allCanon lb then none
      let va ← toVec 5 la; let vb ← toVec 5 lb
      let st := (Tip5.fixedLengthState (rawV (va ++ vb))).toList
      let m := both (sampled st Loops.tip5_permutation_ok) (fmtRawL ((Loops.tip5_permutation st).take 5))
        (fmtRaw (Tip5.hash_pair (rawV va) (rawV vb)))
      pure (withSpec m (fmtVals (Spec.Tip5.hashPair va vb)))
  | "digesthash", [a] => do
      let la ← a.natList?
      if !allCanon la then none
      let va ← toVec 5 la
      pure (withSpec (fmtRaw (Tip5.digest_hash (rawV va)))
        (fmtVals (Spec.Tip5.hashPair va (Vector.replicate 5 0))))
  | "varlen", [xs] => do
      let l ← xs.natList?
      if !allCanon l then none
      pure (match Tip5.hash_varlen (l.map bfe_new) with
        | some d => "ok:" ++ fmtRaw d
        | none => "panic")
  -- pinned vectors of the repository's test-suite
  | "hash10is", [xs, want] => do
      let l ← xs.natList?; let w ← want.natList?
      if !allCanon l then none
      let v ← toVec 10 l
      pure ("ok:" ++ fmtBool ((valV (Tip5.hash_10 (rawV v))).toList == w))
  | "varlensumis", [.nat n, want] => do
      let w ← want.natList?
      let ds := (List.range n).map fun i => Tip5.hash_varlen ((List.range i).map bfe_new)
      let sum := ds.foldl (fun acc d => match d with
        | some d => List.zipWith (fun a b => (a + b) % P) acc (valV d).toList
        | none => []) [0, 0, 0, 0, 0]
      pure ("ok:" ++ fmtBool (sum == w))
  -- translated pieces, evaluated directly (validates the translator against the real functions)
  | "genfn", [xs] => do
      let l ← xs.natList?
      let v ← toVec 16 l
      pure ("ok:" ++ fmtList ((Tip5.genFn (v.map UInt64.ofNat)).toList.map UInt64.toNat))
  | "fermat", [.nat b] => some s!"ok:{offset_fermat_cube_map b}"
  | "lut", [.nat b] => if h : b < 256 then some s!"ok:{Tip5.lookup ⟨b, h⟩}" else none
  | "newstate", [.sym "fixed"] =>
      some ("ok:" ++ both (Loops.tip5_new_ok 1) (match Loops.tip5_new 1 with | some l => fmtRawL l | none => "diverge")
        (fmtRaw (Tip5.fixedLengthState (Vector.replicate 10 Tip5.zero))))
  | "newstate", [.sym "varlen"] =>
      some ("ok:" ++ both (Loops.tip5_new_ok 0) (match Loops.tip5_new 0 with | some l => fmtRawL l | none => "diverge")
        (fmtRaw Tip5.varlenState))
  | "const", [.sym "lookup_table"] => some ("ok:" ++ fmtList LOOKUP_TABLE)
  | "const", [.sym "round_constants"] => some ("ok:" ++ fmtList ROUND_CONSTANTS)
  | "const", [.sym "mds_first_column"] => some ("ok:" ++ fmtList MDS_MATRIX_FIRST_COLUMN)
  | "const", [.sym "sizes"] =>
      some ("ok:" ++ fmtList [STATE_SIZE, NUM_SPLIT_AND_LOOKUP, NUM_ROUNDS, RATE, CAPACITY, DIGEST_LEN])
  | _, _ => none

end TF.Drv.Tip5
