-- FAMILIES: ntt=TF.Drv.Ntt.ntt
import TF.Drv.Proto
import TF.Model.Ntt
import TF.Gen.NttLoops
import TF.Spec.Field
/-! driver handler for the family `ntt` (C06): field elements travel as canonical values -/
namespace TF.Drv.Ntt
open TF.Proto TF.Gen TF.Model.Ntt

def okB : Option (Array Nat) → String
  | some a => "ok:" ++ fmtList a.toList
  | none => "panic"
def okX : Option (Array Spec.X3) → String
  | some a => "ok:" ++ fmtTripleList a.toList
  | none => "panic"

def bRoot (n : Nat) : Option Nat := primitiveRoot n

/-- the public functions by name, on base-field vectors -/
def runB (fn : String) (x : Array Nat) : Option (Option (Array Nat)) :=
  match fn with
  | "ntt" => some (ntt bOps bRoot x)
  | "intt" => some (intt bOps bRoot x)
  | "ntt_noswap" => some (nttNoswap bOps bRoot x)
  | "intt_noswap" => some (inttNoswap bOps bRoot x)
  | "bitrev" => some (bitreverseOrder x)
  | "unscale" => some (unscale bOps x)
  | _ => none

def runX (fn : String) (x : Array Spec.X3) : Option (Option (Array Spec.X3)) :=
  match fn with
  | "ntt" => some (ntt xOps bRoot x)
  | "intt" => some (intt xOps bRoot x)
  | "ntt_noswap" => some (nttNoswap xOps bRoot x)
  | "intt_noswap" => some (inttNoswap xOps bRoot x)
  | "bitrev" => some (bitreverseOrder x)
  | _ => none

/-! seed-derived vectors for the large sizes (the same generator is implemented in `harness/src/c06.rs`) -/
def mix (z : UInt64) : UInt64 :=
  let z := (z ^^^ (z >>> 30)) * 0xBF58476D1CE4E5B9
  let z := (z ^^^ (z >>> 27)) * 0x94D049BB133111EB
  z ^^^ (z >>> 31)

def hashAt (seed i : Nat) : Nat :=
  (mix (UInt64.ofNat seed + UInt64.ofNat (i + 1) * 0x9E3779B97F4A7C15)).toNat

def boundary : Array Nat :=
  #[0, 1, 2, 4294967295, 4294967296, 4294967297, 9223372036854775808, P - 4294967296, P - 4294967295, P - 2, P - 1]

/-- element `i` of the generated base-field vector of length `n` -/
def genB (kind seed n i : Nat) : Nat :=
  match kind with
  | 0 => hashAt seed i % P
  | 1 => boundary.getD (hashAt seed i % boundary.size) 0
  | 2 => if i == seed % n then hashAt seed i % P else 0
  | _ => P - 1

def genX (kind seed n i : Nat) : Spec.X3 :=
  match kind with
  | 2 => if i == seed % n then (genB 0 seed n (3*i), genB 0 seed n (3*i+1), genB 0 seed n (3*i+2)) else Spec.xzero
  | k => (genB k seed n (3*i), genB k seed n (3*i+1), genB k seed n (3*i+2))

/-- checksum of an output vector: Horner value at a seed-derived point and the plain sum -/
def checksumB (seed : Nat) (a : Array Nat) : List Nat :=
  let r := hashAt (seed + 77) 0 % P
  let h := a.foldr (fun v acc => Spec.fadd (Spec.fmul acc r) v) 0
  let s := a.foldl (fun acc v => Spec.fadd acc v) 0
  [h, s]

def checksumX (seed : Nat) (a : Array Spec.X3) : List Nat :=
  checksumB seed (a.map (·.1)) ++ checksumB seed (a.map (·.2.1)) ++ checksumB seed (a.map (·.2.2))

def okSum : Option (List Nat) → String
  | some l => "ok:" ++ fmtList l
  | none => "panic"

/-! The loops of `ntt.rs` are **also regenerated from source** on every run (`TF/Gen/NttLoops.lean`, written by
    tools/rs2lean_ext.py; the field operations are a parameter).  For the explicit-vector ops the handler evaluates the
    regenerated definition next to the hand model; a difference is printed instead of the value. -/

/-- value of the regenerated definition + its `_ok` twin -> "value or panic" (`none` of the value = out of fuel) -/
def genRes {β : Type} (v : Option (List β)) (ok : Bool) : Option (Option (Array β)) :=
  v.map fun l => if ok then some l.toArray else none

/-- `none`: no regenerated counterpart for this function -/
def genRun {β : Type} (ops : Ops Nat β) (fn : String) (x : Array β) : Option (Option (Option (Array β))) :=
  let l := x.toList
  match fn with
  -- the wrappers are regenerated, too (length check, `assert!`, `checked_ilog2`, root look-up, call of `ntt_unchecked`, scaling)
  | "ntt" => some (genRes (TF.Gen.Loops.ntt_ntt ops bRoot l) (TF.Gen.Loops.ntt_ntt_ok ops bRoot l))
  | "intt" => some (genRes (TF.Gen.Loops.ntt_intt ops bRoot l) (TF.Gen.Loops.ntt_intt_ok ops bRoot l))
  | "ntt_noswap" => some (genRes (TF.Gen.Loops.ntt_noswap ops bRoot l) (TF.Gen.Loops.ntt_noswap_ok ops bRoot l))
  | "intt_noswap" => some (genRes (TF.Gen.Loops.intt_noswap ops bRoot l) (TF.Gen.Loops.intt_noswap_ok ops bRoot l))
  | "bitrev" => some (genRes (TF.Gen.Loops.ntt_bitreverse_order ops l) (TF.Gen.Loops.ntt_bitreverse_order_ok ops l))
  | _ => none

def genAgrees {β : Type} [BEq β] (ops : Ops Nat β) (fn : String) (x : Array β) (model : Option (Array β)) : Bool :=
  -- the regenerated definitions work on `List`s (`getD`/`set` are linear): side by side up to 512 elements
  if x.size > 512 then true else
  -- rejected lengths: the model panics before it looks at the vector; evaluate the regenerated wrapper all the same
  match genRun ops fn x with
  | none => true
  | some none => false          -- out of fuel
  | some (some g) => g == model

def ntt : Handler
  | "root", [.sym "b", .nat n] => some ("ok:" ++ fmtOptNat (primitiveRoot n))
  | "root", [.sym "x", .nat n] =>
      some (match primitiveRoot n with | some r => "ok:some:" ++ fmtTriple (r, 0, 0) | none => "ok:none")
  | "bitreverse", [.nat n, .nat l] =>
      -- the op is `bitreverse_usize`; the private `u32` twin `bitreverse` is compared on its own domain as well
      some (if TF.Gen.Loops.ntt_bitreverse_usize_ok n l && TF.Gen.Loops.ntt_bitreverse_usize n l != bitreverse n l
        then s!"GEN-MISMATCH gen={TF.Gen.Loops.ntt_bitreverse_usize n l} model={bitreverse n l}"
        else if n < 4294967296 && l ≤ 32 && TF.Gen.Loops.ntt_bitreverse n l != bitreverse n l
        then s!"GEN-MISMATCH (u32) gen={TF.Gen.Loops.ntt_bitreverse n l} model={bitreverse n l}" else s!"ok:{bitreverse n l}")
  | "gen", [.sym fn, .sym "b", .nat kind, .nat seed, .nat n] => do
      let r ← runB fn (Array.ofFn (n := n) fun i => genB kind seed n i.val)
      pure (okSum (r.map (checksumB seed)))
  | "gen", [.sym fn, .sym "x", .nat kind, .nat seed, .nat n] => do
      let r ← runX fn (Array.ofFn (n := n) fun i => genX kind seed n i.val)
      pure (okSum (r.map (checksumX seed)))
  | fn, [.sym "b", xs] => do
      let l ← xs.natList?
      let r ← runB fn (l.map (· % P)).toArray
      -- `unscale` exists for `BFieldElement` slices only (the regenerated definition is over the scalar type)
      let un := fn != "unscale" || l.length > 512 ||
        (if TF.Gen.Loops.ntt_unscale_ok bOps (l.map (· % P)) then some (TF.Gen.Loops.ntt_unscale bOps (l.map (· % P))).toArray else none) == r
      pure (if genAgrees bOps fn (l.map (· % P)).toArray r && un then okB r else "GEN-MISMATCH " ++ fn ++ " model=" ++ okB r)
  | fn, [.sym "x", xs] => do
      let l ← xs.tripleList?
      let r ← runX fn l.toArray
      pure (if genAgrees xOps fn l.toArray r then okX r else "GEN-MISMATCH " ++ fn ++ " model=" ++ okX r)
  | _, _ => none

end TF.Drv.Ntt
