import TF.Gen.Consts
/-!
Specification level for C20: well-formed digests, the base-`p` positional value, the value of a decimal numeral.
Core Lean only.
-/
namespace TF.Conv
open TF.Gen (P)

/-- a digest: five canonical values -/
def WFd (d : List Nat) : Prop := d.length = 5 ∧ ∀ x ∈ d, x < P

instance (d : List Nat) : Decidable (WFd d) := inferInstanceAs (Decidable (_ ∧ _))

/-- a byte string -/
def IsBytes (bs : List Nat) : Prop := ∀ b ∈ bs, b < 256

/-- base-`p` positional value, element 0 least significant -/
def valP : List Nat → Nat
  | [] => 0
  | x :: xs => x + P * valP xs

/-- the `n` low base-`p` digits of `v` -/
def ofNatP : Nat → Nat → List Nat
  | 0, _ => []
  | n+1, v => (v % P) :: ofNatP n (v / P)

/-- a character is an ASCII decimal digit -/
def IsDigit (c : Char) : Prop := '0' ≤ c ∧ c ≤ '9'

instance (c : Char) : Decidable (IsDigit c) := inferInstanceAs (Decidable (_ ∧ _))

/-- value of a string of decimal digits (most significant first), starting from `acc` -/
def decValFrom (acc : Nat) (cs : List Char) : Nat := cs.foldl (fun a c => a * 10 + (c.toNat - 48)) acc

/-- value of a decimal numeral -/
def decVal (cs : List Char) : Nat := decValFrom 0 cs

end TF.Conv
