import TF.Gen.Consts
/-!
Specification of the Tip5 permutation at the level of the Tip5 paper, on **canonical field values** `0 ≤ v < P`
(P = 2^64 − 2^32 + 1) with plain integer arithmetic modulo `P`.  Nothing here knows about Montgomery reduction
tricks, 32-bit limbs, Karatsuba or carries.  Core Lean only; executable (oracle of the driver).

* S-box on lanes 0–3: write the element in Montgomery form `v · 2^64 mod P`, apply the byte map
  `L(b) = (b+1)^3 − 1 mod 257` to each of its eight bytes, read the result back as a Montgomery form.
* S-box on lanes 4–15: `v ↦ v^7`.
* linear layer: multiplication by the circulant matrix `M[i][j] = col[(i − j) mod 16]`, `col = MDS_MATRIX_FIRST_COLUMN`.
* constants: lane `i` of round `r` adds `ROUND_CONSTANTS[16 r + i]`.
* five rounds.
-/
namespace TF.Spec.Tip5
open TF.Gen

/-- the offset Fermat cube map on a byte: `(b+1)^3 − 1` in `F_257` -/
def fermatCube (b : Nat) : Nat := ((b + 1) ^ 3 + 256) % 257

/-- Montgomery form of a value -/
def toMont (v : Nat) : Nat := (v * 2 ^ 64) % P
/-- value of a Montgomery form (`2^128 = 2^-64` because `2^192 ≡ 1 (mod P)`) -/
def fromMont (w : Nat) : Nat := (w * 2 ^ 128) % P

/-- apply `f` to the `n` low bytes of `w` -/
def mapBytes (f : Nat → Nat) : Nat → Nat → Nat
  | 0, _ => 0
  | n+1, w => f (w % 256) + 256 * mapBytes f n (w / 256)

/-- split-and-lookup S-box -/
def sboxL (v : Nat) : Nat := fromMont (mapBytes fermatCube 8 (toMont v))

/-- power-map S-box -/
def sboxP (v : Nat) : Nat := v ^ 7 % P

abbrev State := Vector Nat 16

def sbox (v : State) : State := Vector.ofFn fun i : Fin 16 => if i.val < 4 then sboxL v[i] else sboxP v[i]

theorem mds_col_len : MDS_MATRIX_FIRST_COLUMN.length = 16 := by decide
theorem round_constants_len : ROUND_CONSTANTS.length = 80 := by decide +kernel

/-- the circulant MDS matrix -/
def mdsEntry (i j : Fin 16) : Nat :=
  MDS_MATRIX_FIRST_COLUMN[(i.val + 16 - j.val) % 16]'(by rw [mds_col_len]; exact Nat.mod_lt _ (by decide))

/-- row `i` of the matrix -/
def mdsRow (i : Fin 16) : List Nat := List.ofFn fun j : Fin 16 => mdsEntry i j

/-- `Σ cₖ · xₖ` -/
def dot : List Nat → List Nat → Nat
  | c :: cs, x :: xs => c * x + dot cs xs
  | _, _ => 0

def roundConstant (r : Fin 5) (i : Fin 16) : Nat :=
  ROUND_CONSTANTS[r.val * 16 + i.val]'(by rw [round_constants_len]; have := r.isLt; have := i.isLt; omega)

/-- one round: S-boxes, matrix, constants -/
def round (r : Fin 5) (v : State) : State :=
  let u := sbox v
  Vector.ofFn fun i : Fin 16 => (dot (mdsRow i) u.toList + roundConstant r i) % P

def permutation (v : State) : State := (List.finRange 5).foldl (fun v r => round r v) v

def traceFrom : List (Fin 5) → State → List State
  | [], _ => []
  | r :: rs, v => let v' := round r v; v' :: traceFrom rs v'

def trace (v : State) : List State := v :: traceFrom (List.finRange 5) v

/-- fixed-length hashing: rate = the ten inputs, capacity = all ones, permute, first five elements -/
def hash10 (input : Vector Nat 10) : Vector Nat 5 :=
  let out := permutation (Vector.ofFn fun i : Fin 16 => if h : i.val < 10 then input[i.val] else 1)
  Vector.ofFn fun i : Fin 5 => out[i.val]

def hashPair (l r : Vector Nat 5) : Vector Nat 5 :=
  hash10 (Vector.ofFn fun i : Fin 10 => if h : i.val < 5 then l[i.val] else r[i.val - 5])

end TF.Spec.Tip5
