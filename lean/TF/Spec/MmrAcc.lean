/-!
# Specification of the MMR accumulator (C11): the peaks of a leaf list, from scratch

Leaves are a function `f : Nat → D` (leaf `i` is `f i`, only `i < n` matters), the hash is any `H : D → D → D`.

* `peaksDirect H n f` — the obviously-right definition: for each set bit of `n` from the highest down, the root of
  the perfect Merkle tree (`root`) over the next `2^k` leaves.
* `peaks H n f` — the proof-friendly definition by recursion on the low bit (DESIGN App. A.5):
  `peaks n f = peaks (n/2) (pair f) ++ [f (n-1) if n odd]`, where `pair f i = H (f 2i) (f (2i+1))`.
  Lemma `peaks_eq_peaksDirect` (TF/Proofs/MmrAcc.lean).
* `authPath` — the from-scratch authentication path of a leaf; `bagSpec` — the documented bagging.
Core Lean only.
-/
namespace TF.Spec.MmrAcc

variable {D : Type} (H : D → D → D)

/-- pair up adjacent leaves -/
def pair (f : Nat → D) : Nat → D := fun i => H (f (2*i)) (f (2*i+1))

/-- peaks (highest first) of the MMR over leaves `f 0 … f (n-1)` -/
def peaks : (n : Nat) → (f : Nat → D) → List D
  | 0, _ => []
  | n+1, f => peaks ((n+1)/2) (pair H f) ++ (if (n+1) % 2 = 1 then [f n] else [])
decreasing_by omega

/-- root of the perfect Merkle tree of height `h` over the leaves `f s … f (s + 2^h - 1)` -/
def root (f : Nat → D) : (h : Nat) → (s : Nat) → D
  | 0, s => f s
  | h+1, s => H (root f h s) (root f h (s + 2 ^ h))

/-- the roots of the trees for the set bits of `n` below `h` (highest first), the first tree starting at leaf `s` -/
def peaksDirectAux (f : Nat → D) : (h : Nat) → (n s : Nat) → List D
  | 0, _, _ => []
  | h+1, n, s =>
    if n / 2 ^ h % 2 = 1 then root H f h s :: peaksDirectAux f h n (s + 2 ^ h)
    else peaksDirectAux f h n s

/-- from-scratch peaks: one perfect tree per set bit of `n`, highest first, over consecutive blocks of leaves -/
def peaksDirect (n : Nat) (f : Nat → D) : List D := peaksDirectAux H f (Nat.log2 n + 1) n 0

/-- authentication path of the leaf at position `j` of the perfect tree of height `h` over `f s …`:
    the roots of the sibling subtrees, lowest first -/
def treePath (f : Nat → D) : (h : Nat) → (s j : Nat) → List D
  | 0, _, _ => []
  | h+1, s, j =>
    if j < 2 ^ h then treePath f h s j ++ [root H f h (s + 2 ^ h)]
    else treePath f h (s + 2 ^ h) (j - 2 ^ h) ++ [root H f h s]

/-- from-scratch authentication path of leaf `i` in the MMR with `n` leaves: walk over the trees (bits of `n` below
    `h`, first tree starting at leaf `s`) to the one containing `i`; `none` if `i` is not covered -/
def authPathAux (f : Nat → D) : (h : Nat) → (n s i : Nat) → Option (List D)
  | 0, _, _, _ => none
  | h+1, n, s, i =>
    if n / 2 ^ h % 2 = 1 then
      if i < s + 2 ^ h then some (treePath H f h s (i - s))
      else authPathAux f h n (s + 2 ^ h) i
    else authPathAux f h n s i

def authPath (n : Nat) (f : Nat → D) (i : Nat) : Option (List D) := authPathAux H f (Nat.log2 n + 1) n 0 i

/-- replace leaf `i` -/
def update (f : Nat → D) (i : Nat) (x : D) : Nat → D := fun k => if k = i then x else f k

/-- the documented bagging of a peak list: `z` (= hash of the encoded 128-bit zero) for no peak, the peak itself for
    one peak, otherwise the right-to-left fold `H p₀ (H p₁ (… (H pₖ₋₂ pₖ₋₁)))` -/
def bagSpec (z : D) : List D → D
  | [] => z
  | [p] => p
  | p :: q :: rest => H p (bagSpec z (q :: rest))

end TF.Spec.MmrAcc
