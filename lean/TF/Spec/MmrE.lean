import TF.Model.Word
/-!
Specification-level view of a Merkle mountain range over the leaf list `f 0, f 1, …, f (n-1)` and an abstract hash
`H : D → D → D`.  Everything is defined by recursion on the *low bit* of the leaf count (the recursion of DESIGN
Appendix A.5): the MMR over `n` leaves is the MMR over `n/2` paired leaves, plus the last leaf as a height-0 peak if
`n` is odd.

* `sub f l j`      root of the `j`-th aligned block of `2^l` leaves (the perfect tree over leaves `j·2^l … (j+1)·2^l − 1`)
* `peaks n f`      the peaks, highest first
* `peakPos n`      for every peak its `(height, index of its first leaf)`
* `locate n i`     for leaf `i < n`: `(height of its tree, index inside the tree, index of the tree in the peak list)`
* `authPathOf f n i`  the authentication path of leaf `i`: its siblings from the bottom up to (excluding) its peak
* `foldBlk j v path`  hash `v`, the root of aligned block `j`, up along sibling digests (left/right by parity of `j`)
* `succVerify`     reference verifier for successor proofs, `succPathsOf` the honest successor proof
* `memberVerifyRef` reference verifier for membership proofs

Core Lean only (used by the driver as oracle and by the theorems as right-hand side).
-/
namespace TF.Spec.MmrE

variable {D : Type} (H : D → D → D)

/-- pair up adjacent leaves -/
def pair (f : Nat → D) : Nat → D := fun i => H (f (2*i)) (f (2*i+1))

/-- root of the `j`-th aligned block of `2^l` leaves -/
def sub (f : Nat → D) : Nat → Nat → D
  | 0, j => f j
  | l+1, j => H (sub f l (2*j)) (sub f l (2*j+1))

/-- peaks (highest first) of the MMR over leaves `f 0 … f (n-1)` -/
def peaks : (n : Nat) → (f : Nat → D) → List D
  | 0, _ => []
  | n+1, f => peaks ((n+1)/2) (pair H f) ++ (if (n+1) % 2 = 1 then [f n] else [])
decreasing_by omega

/-- `(height, first leaf)` of every peak, highest first -/
def peakPos : (n : Nat) → List (Nat × Nat)
  | 0 => []
  | n+1 => (peakPos ((n+1)/2)).map (fun p => (p.1 + 1, 2 * p.2)) ++ (if (n+1) % 2 = 1 then [(0, n)] else [])
decreasing_by omega

/-- for leaf `i` of an MMR with `n` leaves: `(height of its tree, index inside its tree, peak index)`;
    meaningful for `i < n` -/
def locate : (n i : Nat) → Nat × Nat × Nat
  | 0, _ => (0, 0, 0)
  | n+1, i =>
    if (n+1) % 2 = 1 ∧ i = n then (0, 0, TF.popCount (n+1) - 1)
    else
      let r := locate ((n+1)/2) (i/2)
      (r.1 + 1, 2 * r.2.1 + i % 2, r.2.2)
decreasing_by omega

/-- index of the sibling block -/
def sibBlk (j : Nat) : Nat := if j % 2 = 0 then j + 1 else j - 1

/-- siblings of block `j` of level `l`, going `up` levels up -/
def sibPath (f : Nat → D) : (l up j : Nat) → List D
  | _, 0, _ => []
  | l, u+1, j => sub H f l (sibBlk j) :: sibPath f (l+1) u (j/2)

/-- authentication path of leaf `i` in the MMR over `f 0 … f (n-1)` -/
def authPathOf (f : Nat → D) (n i : Nat) : List D := sibPath H f 0 (locate n i).1 i

/-- hash the root `v` of aligned block `j` up along the sibling digests `path` -/
def foldBlk : (j : Nat) → D → List D → D
  | _, v, [] => v
  | j, v, s :: ss => foldBlk (j/2) (if j % 2 = 0 then H v s else H s v) ss

/-- reference verifier for a membership claim `(leaf index, leaf, peaks, leaf count, path)` -/
def memberVerifyRef [DecidableEq D] (path : List D) (i : Nat) (leaf : D) (pks : List D) (n : Nat) : Bool :=
  decide (i < n) && decide (pks.length = TF.popCount n) && decide (path.length = (locate n i).1) &&
    (pks[(locate n i).2.2]? == some (foldBlk H i leaf path))

/-- the honest successor proof from the first `m` leaves to the first `n` leaves of `f`: for every old peak, the
    siblings from its own level up to (excluding) the new peak above it; concatenated, highest old peak first -/
def succPathsOf (f : Nat → D) (m n : Nat) : List D :=
  ((peakPos m).map (fun p => sibPath H f p.1 ((locate n p.2).1 - p.1) (p.2 / 2 ^ p.1))).flatten

/-- the per-old-peak part of the reference successor verifier: consume exactly `height(new tree) − height(old peak)`
    digests per old peak, fold, compare with the new peak covering the old peak's first leaf; nothing may remain -/
def succGo [DecidableEq D] (n : Nat) (newPeaks : List D) : List D → List (Nat × Nat) → List D → Bool
  | [], _, rest => rest.isEmpty
  | _ :: _, [], _ => false
  | p :: ps, (h, s) :: qs, rest =>
    let loc := locate n s
    let k := loc.1 - h
    decide (h ≤ loc.1) && decide (k ≤ rest.length) &&
      (newPeaks[loc.2.2]? == some (foldBlk H (s / 2 ^ h) p (rest.take k))) &&
      succGo n newPeaks ps qs (rest.drop k)

/-- reference verifier for successor proofs -/
def succVerify [DecidableEq D] (paths : List D) (oldCount : Nat) (oldPeaks : List D) (newCount : Nat)
    (newPeaks : List D) : Bool :=
  decide (oldCount ≤ newCount) && decide (TF.popCount newCount = newPeaks.length) &&
    decide (TF.popCount oldCount = oldPeaks.length) &&
    succGo H newCount newPeaks oldPeaks (peakPos oldCount) paths

/-! ### leaf lists through a history -/

/-- point update of a leaf function (core Lean has no `Function.update`) -/
def setLeaf (g : Nat → D) (i : Nat) (d : D) : Nat → D := fun j => if j = i then d else g j

/-- apply a batch of `(index, new leaf)` assignments -/
def setLeafs (g : Nat → D) : List (Nat × D) → Nat → D
  | [] => g
  | m :: ms => setLeafs (setLeaf g m.1 m.2) ms

end TF.Spec.MmrE
