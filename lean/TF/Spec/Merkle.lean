import TF.Model.Merkle
/-!
Specification-level (obviously right, naive, exponential in the height) functions for Merkle trees and inclusion
proofs over an abstract hash.  They are the right-hand sides of the C04/C10 theorems and are run by the driver as an
oracle next to the model on small heights.  Core Lean only.

Node `k` of a tree of height `h` is addressed by its heap index (root 1, children `2k`, `2k+1`, leaf `i` at `2^h + i`).
-/
namespace TF.Merkle.Spec
open TF.Gen TF.Merkle

/-- node `k` lies on the path from leaf `i` to the root (inclusive) in a tree of height `h` -/
def onPath (h i k : Nat) : Bool := (List.range (h + 1)).any (fun j => (i + 2^h) / 2^j == k)

/-- some claimed leaf lies below (or at) node `k`: `k` can be computed by the verifier -/
def covered (h : Nat) (idxs : List Nat) (k : Nat) : Bool := idxs.any (fun i => onPath h i k)

/-- the documented minimal authentication structure: all non-root nodes that are not computable but whose sibling
    is, in descending order of node index, without repetition -/
def needed (h : Nat) (idxs : List Nat) : List Nat :=
  ((List.range (2^(h+1))).reverse).filter (fun k => decide (2 ≤ k) && !covered h idxs k && covered h idxs (sib k))

section
variable {D : Type} [DecidableEq D] (H : D → D → D)

/-- the reference recomputation: value of node `k` (with `lvl` levels below it) from the claimed leafs `leafD`
    (by node index) and the supplied authentication nodes `authD` (by node index); `none` when no claimed leaf lies
    below `k` (or a required authentication node is absent) -/
def refVal (leafD authD : Nat → Option D) : (lvl : Nat) → (k : Nat) → Option D
  | 0, k => leafD k
  | l+1, k =>
    match refVal leafD authD l (2*k), refVal leafD authD l (2*k+1) with
    | some a, some b => some (H a b)
    | some a, none => (authD (2*k+1)).map (fun b => H a b)
    | none, some b => (authD (2*k)).map (fun a => H a b)
    | none, none => none

/-- the digest claimed for the leaf with node index `k` (first claim; all claims agree when `consistent`) -/
def leafAt (h : Nat) (leafs : List (Nat × D)) (k : Nat) : Option D :=
  (leafs.find? (fun x => x.1 + 2^h == k)).map (·.2)

/-- the supplied authentication nodes placed at the positions `needed` -/
def authAt (h : Nat) (idxs : List Nat) (auth : List D) (k : Nat) : Option D :=
  ((needed h idxs).zip auth).lookup k

/-- repeated indices carry equal digests -/
def consistent (leafs : List (Nat × D)) : Bool :=
  leafs.all (fun x => leafs.all (fun y => x.1 != y.1 || decide (x.2 = y.2)))

/-- value of the sibling `s` (a node with `lvl` levels below it) of a path node: recomputed when computable, else the
    supplied authentication node -/
def sibVal (leafD authD : Nat → Option D) (lvl s : Nat) : Option D :=
  match refVal H leafD authD lvl s with
  | some v => some v
  | none => authD s

/-- the structural conditions of a proof: the height is at most `MAX_TREE_HEIGHT`, all indices are in range, repeated
    indices are consistent, and the authentication structure has exactly the minimal length -/
def wellFormed (p : Proof D) : Bool :=
  decide (p.height ≤ MAX_TREE_HEIGHT) && p.leafs.all (fun x => decide (x.1 < 2^p.height)) && consistent p.leafs
    && decide (p.auth.length = (needed p.height (p.leafs.map (·.1))).length)

/-- the root recomputed from the claimed leafs and the supplied nodes placed at the positions `needed` -/
def refRoot (p : Proof D) : Option D :=
  refVal H (leafAt p.height p.leafs) (authAt p.height (p.leafs.map (·.1)) p.auth) p.height 1

/-- the reference verifier: trivial proofs are accepted; otherwise the proof must be well-formed (in particular use
    exactly the minimal node set) and the recomputation must yield the expected root -/
def refVerify (p : Proof D) (root : D) : Bool :=
  p.isTrivial || (wellFormed p && decide (refRoot H p = some root))

/-- `nodes` is the heap-ordered Merkle tree over `leaves`: twice as many nodes as leafs, index 0 holds the filler, the
    leafs are copied to `[n, 2n)`, and every inner node `1 ≤ i < n` is the hash of its two children -/
def IsMerkleTree (filler : D) (leaves nodes : List D) : Prop :=
  nodes.length = 2 * leaves.length ∧ nodes[0]? = some filler ∧
  (∀ i, i < leaves.length → nodes[leaves.length + i]? = leaves[i]?) ∧
  (∀ i, 1 ≤ i → i < leaves.length →
    ∃ a b, nodes[2*i]? = some a ∧ nodes[2*i+1]? = some b ∧ nodes[i]? = some (H a b))

/-- the honest tree over `leaves` (length `2^h`): all `2^(h+1)` heap nodes, index 0 is the filler -/
def treeNodes (filler : D) (h : Nat) (leaves : List D) : List D :=
  (List.range (2^(h+1))).map (fun k =>
    if k = 0 then filler else
      let lvl := h - Nat.log2 k
      nodeVal H (fun j => (leaves[j - 2^h]?).getD filler) lvl k)
end

end TF.Merkle.Spec
