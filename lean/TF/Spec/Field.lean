import TF.Gen.Consts
/-!
Specification-level prime field `F_p`, p = 2^64 - 2^32 + 1: canonical values `0 ≤ v < P` with the obvious
integer arithmetic modulo `P`.  Core Lean only; executable (used as oracle by the driver).
-/
namespace TF.Spec
open TF.Gen

def fadd (a b : Nat) : Nat := (a + b) % P
def fsub (a b : Nat) : Nat := (a + P - b % P) % P
def fneg (a : Nat) : Nat := (P - a % P) % P
def fmul (a b : Nat) : Nat := (a * b) % P

/-- square-and-multiply, structurally on the exponent's binary digits -/
def fpow (a : Nat) : Nat → Nat
  | 0 => 1 % P
  | e+1 =>
    let h := fpow a ((e+1) / 2)
    let s := fmul h h
    if (e+1) % 2 = 1 then fmul s a else s
decreasing_by omega

/-- the inverse by Fermat (0 for 0) -/
def finv (a : Nat) : Nat := fpow a (P - 2)

/-! extension field `F_p[X]/(X^3 - X + 1)`, elements are triples `(c0, c1, c2)` of canonical values -/
abbrev X3 := Nat × Nat × Nat

def xadd (a b : X3) : X3 := (fadd a.1 b.1, fadd a.2.1 b.2.1, fadd a.2.2 b.2.2)
def xsub (a b : X3) : X3 := (fsub a.1 b.1, fsub a.2.1 b.2.1, fsub a.2.2 b.2.2)
def xneg (a : X3) : X3 := (fneg a.1, fneg a.2.1, fneg a.2.2)
def xscale (k : Nat) (a : X3) : X3 := (fmul k a.1, fmul k a.2.1, fmul k a.2.2)
def xlift (a : Nat) : X3 := (a, 0, 0)
def xzero : X3 := (0, 0, 0)
def xone : X3 := (1, 0, 0)

/-- schoolbook product reduced with `X^3 = X - 1`, `X^4 = X^2 - X` -/
def xmul (s o : X3) : X3 :=
  let (c, b, a) := s
  let (f, e, d) := o
  -- a d X^4 + (a e + b d) X^3 + (a f + b e + c d) X^2 + (b f + c e) X + c f
  let t4 := fmul a d
  let t3 := fadd (fmul a e) (fmul b d)
  let t2 := fadd (fadd (fmul a f) (fmul b e)) (fmul c d)
  let t1 := fadd (fmul b f) (fmul c e)
  let t0 := fmul c f
  -- X^3 = X - 1 ; X^4 = X^2 - X
  (fsub t0 t3, fsub (fadd t1 t3) t4, fadd t2 t4)

def xpow (a : X3) : Nat → X3
  | 0 => xone
  | e+1 =>
    let h := xpow a ((e+1) / 2)
    let s := xmul h h
    if (e+1) % 2 = 1 then xmul s a else s
decreasing_by omega

/-- inverse in the cubic extension through the norm: for `α` with conjugates `α, α^p, α^(p^2)`,
    `α⁻¹ = α^p · α^(p^2) / N(α)` where `N(α) = α^(1+p+p^2) ∈ F_p` -/
def xinv (a : X3) : X3 :=
  let ap := xpow a P
  let app := xpow ap P
  let t := xmul ap app
  let n := xmul a t          -- the norm, lies in F_p
  xscale (finv n.1) t

end TF.Spec
