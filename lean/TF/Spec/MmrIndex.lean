/-!
# Specification of the MMR index arithmetic (C16): the explicit forest of perfect binary trees

Two layers (DESIGN §8 C16), both executable, core Lean only.

* **S0** `forest n`: the forest obtained by *appending `n` leaves one by one and merging the two last trees while they
  have equal height*; every node receives the next free number at the moment it is created (that *is* post-order
  numbering of the forest, starting at 1).  Nothing in S0 uses index arithmetic: trees are an inductive type, the
  numbers are a running counter.  This is the statement's wording and the oracle of the driver.
* **S1** `tree o l h`: the perfect tree of height `h` whose nodes are numbered in post-order starting after `o`
  and whose leaves are numbered starting at `l`; `s1Forest n` places one such tree per set bit of `n`.
  Lemma `forest_eq_s1Forest` (TF/Proofs/MmrIndex.lean) connects the layers; all MMRs are prefixes of `tree 0 0 63`.

`Tree.rows` is the *table* of a tree: one `Row` per node (in post-order) with everything the index functions talk
about — height, right-lineage length, parent, sibling, children, leaf index, Merkle-tree index, authentication path —
computed by walking the tree.  The theorems of C16 say that the index functions reproduce this table.
-/
namespace TF.Spec.Mmr

/-- a binary tree whose nodes carry their MMR node index and whose leaves carry their leaf index -/
inductive Tree where
  | leaf (idx leafIdx : Nat)
  | node (idx : Nat) (l r : Tree)
deriving Repr, BEq, Inhabited

namespace Tree

def idx : Tree → Nat
  | leaf i _ => i
  | node i _ _ => i

def height : Tree → Nat
  | leaf _ _ => 0
  | node _ l _ => l.height + 1

/-- number of nodes -/
def size : Tree → Nat
  | leaf _ _ => 1
  | node _ l r => l.size + r.size + 1

def numLeafs : Tree → Nat
  | leaf _ _ => 1
  | node _ l r => l.numLeafs + r.numLeafs

/-- a tree is perfect when both subtrees of every inner node are perfect and have equal height -/
def perfect : Tree → Bool
  | leaf _ _ => true
  | node _ l r => l.perfect && r.perfect && l.height == r.height

end Tree

/-- one line of the table of a tree -/
structure Row where
  /-- node index -/
  idx : Nat
  /-- height of the node (0 for a leaf) -/
  height : Nat
  /-- right-lineage length: how many of the nodes `self, parent, grandparent, …` are right children, counted from
      `self` upward until the first left child or root -/
  rll : Nat
  /-- node index of the parent, `0` for a root -/
  parent : Nat
  /-- node index of the sibling, `0` for a root -/
  sibling : Nat
  /-- node indices of the children, `0` for a leaf -/
  left : Nat
  right : Nat
  /-- leaf index, for nodes of height 0 -/
  leaf : Option Nat
  /-- Merkle-tree index within its tree (root `1`, children `2k`, `2k+1`) -/
  mt : Nat
  /-- node indices of the siblings on the way from this node to the root of its tree, lowest first -/
  auth : List Nat
deriving Repr, BEq, Inhabited

/-- the table of a tree, in post-order.  Inherited attributes: index of the parent and of the sibling (`0` at a
    root), whether this node is a right child, the right-lineage length of the parent, the Merkle-tree index and the
    authentication path of this node. -/
def Tree.rows : Tree → (parent sibling : Nat) → (isRight : Bool) → (rllParent mt : Nat) → (auth : List Nat) → List Row
  | .leaf i li, p, s, isR, rp, mt, auth =>
    [{ idx := i, height := 0, rll := if isR then rp + 1 else 0, parent := p, sibling := s, left := 0, right := 0,
       leaf := some li, mt := mt, auth := auth }]
  | .node i l r, p, s, isR, rp, mt, auth =>
    let rll := if isR then rp + 1 else 0
    l.rows i r.idx false rll (2 * mt) (r.idx :: auth) ++ r.rows i l.idx true rll (2 * mt + 1) (l.idx :: auth) ++
      [{ idx := i, height := l.height + 1, rll := rll, parent := p, sibling := s, left := l.idx, right := r.idx,
         leaf := none, mt := mt, auth := auth }]

/-- the table of a root -/
def Tree.rootRows (t : Tree) : List Row := t.rows 0 0 false 0 1 []

/-! ## S0 -/

/-- state of the construction: the trees (**most recent first**), the number of nodes and of leaves created so far -/
structure Forest where
  trees : List Tree
  nodes : Nat
  leafs : Nat
deriving Repr, Inhabited

/-- put the tree `t` (the most recent one) in front of the older trees `ts`, merging while the most recent older
    tree has the same height; every merge creates the next node. `nodes` = number of nodes created so far -/
def mergeInto (t : Tree) (nodes : Nat) : List Tree → List Tree × Nat
  | [] => ([t], nodes)
  | t1 :: rest =>
    if t1.height = t.height then mergeInto (Tree.node (nodes + 1) t1 t) (nodes + 1) rest
    else (t :: t1 :: rest, nodes)

/-- append one leaf -/
def Forest.append (F : Forest) : Forest :=
  let r := mergeInto (Tree.leaf (F.nodes + 1) F.leafs) (F.nodes + 1) F.trees
  { trees := r.1, nodes := r.2, leafs := F.leafs + 1 }

/-- **S0**: the forest after appending `n` leaves to the empty forest -/
def forest : Nat → Forest
  | 0 => { trees := [], nodes := 0, leafs := 0 }
  | n+1 => (forest n).append

/-- the trees of the forest, highest (oldest) first — the order of the peak list -/
def Forest.peaks (F : Forest) : List Tree := F.trees.reverse

/-- the table of a forest: `(peak index, row)` for every node, in node-index order -/
def Forest.rows (F : Forest) : List (Nat × Row) :=
  let rec go : List Tree → Nat → List (Nat × Row)
    | [], _ => []
    | t :: ts, k => t.rootRows.map (fun r => (k, r)) ++ go ts (k + 1)
  go F.peaks 0

/-! ## S1 -/

/-- **S1**: the perfect tree of height `h`, node numbers `o+1 … o+2^(h+1)-1` in post-order, leaf numbers `l … l+2^h-1` -/
def tree (o l : Nat) : (h : Nat) → Tree
  | 0 => .leaf (o + 1) l
  | h+1 => .node (o + 2 ^ (h + 2) - 1) (tree o l h) (tree (o + 2 ^ (h + 1) - 1) (l + 2 ^ h) h)

/-- the trees for the bits of `n` below `h`, highest first, placed after `o` nodes and `l` leaves -/
def s1Trees : (h : Nat) → (n o l : Nat) → List Tree
  | 0, _, _, _ => []
  | h+1, n, o, l =>
    if n / 2 ^ h % 2 = 1 then tree o l h :: s1Trees h n (o + 2 ^ (h + 1) - 1) (l + 2 ^ h)
    else s1Trees h n o l

/-- the forest of an MMR with `n < 2^64` leaves according to S1 (highest tree first) -/
def s1Forest (n : Nat) : List Tree := s1Trees 64 n 0 0

/-! ## closed forms used in statements -/

/-- positions of the set bits of `n` below `h`, highest first -/
def bitsBelow : (h : Nat) → (n : Nat) → List Nat
  | 0, _ => []
  | h+1, n => if n / 2 ^ h % 2 = 1 then h :: bitsBelow h n else bitsBelow h n

/-- position of leaf `i` in an MMR whose leaf count is `n`, by walking over the trees (= set bits of `n` below `h`,
    highest first): `before` leaves and `k` trees have been passed.  Result: `(height of the tree, index of the leaf
    within that tree, index of the tree in the peak list)`; `none` when the leaf is not below `n`. -/
def leafPos : (h : Nat) → (n i before k : Nat) → Option (Nat × Nat × Nat)
  | 0, _, _, _, _ => none
  | h+1, n, i, before, k =>
    if n / 2 ^ h % 2 = 1 then
      if i < before + 2 ^ h then some (h, i - before, k)
      else leafPos h n i (before + 2 ^ h) (k + 1)
    else leafPos h n i before k

/-- number of nodes of the trees for the bits of `n` below `h` -/
def nodesBelow : (h : Nat) → (n : Nat) → Nat
  | 0, _ => 0
  | h+1, n => (if n / 2 ^ h % 2 = 1 then 2 ^ (h + 1) - 1 else 0) + nodesBelow h n

end TF.Spec.Mmr
