import TF.Gen.Consts
/-!
Specification level for C15: the padding rule, and the selection rule of index sampling on a squeezed stream.
Core Lean only.
-/
namespace TF.Sponge
open TF.Gen (RATE P)

/-- the fewest zeros that complete `n` input elements plus the single one to a multiple of the rate -/
def padK (n : Nat) : Nat := (RATE - (n + 1) % RATE) % RATE

/-- the padded input: input, a single one, `padK` zeros -/
def padSpec (input : List Nat) : List Nat := input ++ [1] ++ List.replicate (padK input.length) 0

/-- an element of the squeezed stream is used for an index unless it equals `p - 1` -/
def usable (e : Nat) : Bool := e != P - 1

/-- indices selected from a prefix of the stream: drop `p - 1`, low 32 bits, reduce modulo the bound -/
def sel (bound : Nat) (xs : List Nat) : List Nat := (xs.filter usable).map fun e => (e % 2 ^ 32) % bound

/-- length of the shortest prefix of `xs` that contains `n` usable elements (`none`: there is no such prefix) -/
def usedCount : List Nat → Nat → Option Nat
  | _, 0 => some 0
  | [], _+1 => none
  | x :: xs, n+1 => if usable x then (usedCount xs n).map (· + 1) else (usedCount xs (n+1)).map (· + 1)

end TF.Sponge
