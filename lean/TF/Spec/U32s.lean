/-!
Specification level for `U32s<N>` (C19): the big-integer value of a little-endian limb list, the canonical
`N`-limb representation of a natural number, and "exact or panic". Core Lean only.
-/
namespace TF.U32s

/-- limb base `2^32` -/
def W : Nat := 4294967296

/-- value of a little-endian limb list -/
def val : List Nat → Nat
  | [] => 0
  | x :: xs => x + W * val xs

/-- the `n` low limbs of `v`, little endian (this is also the loop of `From<BigUint>`, which truncates) -/
def ofNat : Nat → Nat → List Nat
  | 0, _ => []
  | n+1, v => (v % W) :: ofNat n (v / W)

/-- well-formed `U32s<n>`: `n` limbs, each a `u32` -/
def WF (n : Nat) (a : List Nat) : Prop := a.length = n ∧ ∀ x ∈ a, x < W

instance (n : Nat) (a : List Nat) : Decidable (WF n a) := inferInstanceAs (Decidable (_ ∧ _))

/-- executable version of `WF` -/
def wf (n : Nat) (a : List Nat) : Bool := a.length == n && a.all (· < W)

/-- exact-or-panic: the `n`-limb representation of `v` if it is representable, `none` (= panic) otherwise -/
def norm (n : Nat) (v : Nat) : Option (List Nat) := if v < W ^ n then some (ofNat n v) else none

end TF.U32s
