import TF.Model.Word
import TF.Gen.Consts
import TF.Gen.BField
import TF.Gen.Tip5
import TF.Gen.MmrIndex
