#!/bin/sh
# keepseed.sh <Cxx> <n> <name> "<detected-by text>"  -- archive a confirmed seeded change from ${SEEDROOT:-/tmp/seed}/Cxx/out into /verif/seeded/<name>/
set -e
P=$1; N=$2; NAME=$3; DET=$4
SRC=${SEEDROOT:-/tmp/seed}/$P/out
DST=/verif/seeded/$NAME
mkdir -p $DST
cp $SRC/patch_$N.diff $DST/patch.diff
for f in $SRC/demo_$N* $SRC/run_$N.sh; do [ -e "$f" ] && cp -r "$f" $DST/ ; done
find $DST -name target -type d -prune -exec rm -rf {} +
python3 - "$SRC/meta.json" "$N" "$DST/meta.json" "$DET" <<'PY'
import json,sys
src,n,dst,det=sys.argv[1:5]
m=json.load(open(src))
e=m[int(n)-1]
e["confirmed_by_coordinator"]="patch applies to /repo HEAD; checks run against a scratch worktree with the patch applied (tools/seedtest.py)"
e["detected_by"]=det
json.dump(e,open(dst,'w'),indent=1)
PY
echo kept $DST
