#!/usr/bin/env python3
"""seedtest.py <patch.diff> <Cxx> [<Cyy> ...] [--tier quick|thorough] [--keep]

Runs the registered checks against a *mutated copy* of /repo without touching /repo itself (other work may be using
/repo's working tree): a scratch worktree of /repo HEAD with the patch applied and a scratch clone of /verif whose
harness and translator point at that worktree.  Prints the check outputs; exit code 0 if every listed check raised a
VIOLATION, 1 otherwise.  (The registered checks themselves always run on /repo.)
"""
import os
import shutil
import subprocess
import sys
import tempfile


def sh(cmd, **kw):
    return subprocess.run(cmd, shell=True, text=True, stdout=subprocess.PIPE, stderr=subprocess.STDOUT, **kw)


def main():
    args = sys.argv[1:]
    tier = "quick"
    if "--tier" in args:
        i = args.index("--tier")
        tier = args[i + 1]
        del args[i:i + 2]
    keep = "--keep" in args
    args = [a for a in args if a != "--keep"]
    patch, props = os.path.abspath(args[0]), args[1:]
    base = tempfile.mkdtemp(prefix="mut-", dir="/tmp")
    repo = os.path.join(base, "repo")
    verif = os.path.join(base, "verif")
    try:
        r = sh(f"git -C /repo worktree add -q --detach {repo} HEAD && git -C {repo} apply {patch}")
        if r.returncode != 0:
            print("cannot apply patch:", r.stdout)
            return 2
        src = os.environ.get("VERIF_SRC", "/verif")   # a builder's clone may be tested instead of /verif
        sh(f"git clone -q {src} {verif}")
        # reuse build products
        for d in ("lean/.lake", "harness/target"):
            src = os.path.join(os.environ.get("VERIF_SRC", "/verif"), d)
            if os.path.isdir(src):
                sh(f"cp -a {src} {os.path.join(verif, d)}")
        # what setup.sh leaves behind on the unchanged tree: the fallback op files of the quick tier
        sh(f"mkdir -p {verif}/work && cp {os.environ.get('VERIF_SRC', '/verif')}/work/*.ops.good {verif}/work/ 2>/dev/null")
        sh(f"sed -i 's|/repo/|{repo}/|g' {verif}/harness/Cargo.toml")
        sh(f"sed -i 's|\"/repo/Cargo.lock\"|\"{repo}/Cargo.lock\"|' {verif}/tools/checklib.py")
        env = dict(os.environ, VERIF_REPO=repo)
        caught = 0
        for p in props:
            r = sh(f"./check {p} --tier {tier}", cwd=verif, env=env)
            lines = [l for l in r.stdout.split("\n") if l.startswith(("VIOLATION", "OK", "KNOWN"))]
            print(f"[{p}] exit={r.returncode} " + " | ".join(lines))
            for l in lines:
                if l.startswith("VIOLATION"):
                    rp = l.split("replay=")[1].split()[0]
                    try:
                        import json
                        d = json.load(open(rp))
                        print("    kind:", d.get("kind"), " op:", (d.get("op_lines") or [""])[0][:200], " oracle:", d.get("oracle"),
                              " broken:", sorted({str(b.get("decl")) for b in d.get("broken_obligations", [])})[:6])
                    except Exception as ex:
                        print("    (replay unreadable)", ex)
            if r.returncode == 1:
                caught += 1
            elif r.returncode != 0:
                print(r.stdout[-2000:])
        return 0 if caught == len(props) else 1
    finally:
        if not keep:
            sh(f"git -C /repo worktree remove --force {repo}")
            shutil.rmtree(base, ignore_errors=True)
            sh("git -C /repo worktree prune")


if __name__ == "__main__":
    sys.exit(main())
