#!/usr/bin/env python3
# BEGIN BT4
"""self-test of tools/rs2lean_bt4.py: the idioms it understands are translated (a marker string must occur in the output),
everything else must be REFUSED (Unsupported), never guessed.   Run: python3 tools/test_rs2lean_bt4.py   (exit 0 = ok)"""
import os
import sys
sys.path.insert(0, os.path.dirname(os.path.abspath(__file__)))
import rs2lean_loops as L
import rs2lean_bfe as B
import rs2lean_bt4 as T
from rs2lean import Unsupported

ST = ("array", "bfe")
HD = [("H", "hfun"), ("d0", "digest")]
SPONGE = [
    # (expected, source, marker)
    ("ok", "fn f(&mut self, input: [BFieldElement; 10]) { self.state[..10].iter_mut().zip_eq(&input).for_each(|(a, &b)| *a = b); }", "input ++ self.drop 10"),
    ("ok", "fn f(&mut self) -> [BFieldElement; 10] { let p: [BFieldElement; 10] = (&self.state[..10]).try_into().unwrap(); p }", "self.take 10"),
    ("ok", "fn f(&mut self, input: &[BFieldElement]) { let it = input.iter().chain(iter::once(&BFieldElement::ONE).chain(iter::repeat(&BFieldElement::ZERO))).take(20); for c in it.chunks(10).into_iter() { let a = c.cloned().collect_vec().try_into().unwrap(); self.ab(a); } }", "TF.RustIter.chunks 10"),
    ("ok", "fn f(&mut self, n: usize) -> Vec<u32> { let mut v = vec![]; let mut b = vec![]; while v.len() != n { if b.is_empty() { b = self.sq().into_iter().rev().collect_vec(); } let e = b.pop().unwrap(); if e != BFieldElement::ZERO { v.push(e.0 as u32); } } v }", "TF.RustIter.popVal"),
    ("refuse", "fn f(&mut self, input: [BFieldElement; 10]) { self.state[..10].iter_mut().zip(&input).for_each(|(a, &b)| *a = b); }", None),          # zip (no length check) is not zip_eq
    ("refuse", "fn f(&mut self, input: [BFieldElement; 10]) { self.state[..10].iter_mut().zip_eq(&input).for_each(|(a, &b)| *a = b + b); }", None),  # another closure
    ("refuse", "fn f(&mut self) -> u64 { let p = self.state[..10].try_into().unwrap(); 1 }", None),              # target length unknown
    ("refuse", "fn f(&mut self, input: &[BFieldElement]) -> u64 { let x = input.iter().filter(|x| true).take(3); 1 }", None),   # unknown adaptor
    ("refuse", "fn f(&mut self, input: &[BFieldElement]) -> u64 { let x = iter::repeat(&BFieldElement::ZERO).collect_vec(); 1 }", None),   # infinite iterator collected
    ("refuse", "fn f(&mut self, n: usize) -> u64 { let x = if n == 0 { self.sq() } else { self.sq() }; 1 }", None),   # &mut-self call with a value under `if`
    # BEGIN P10: `(lit..var).flat_map(|_| self.m()).collect_vec()` at the head of a statement's method chain is the loop it is;
    # slice chunks / take / map(pure closure).collect(); every neighbouring shape is refused
    ("ok", "fn f(&mut self, n: usize) -> Vec<BFieldElement> { (0..n).flat_map(|_| self.sq()).collect_vec() }", "fm_acc_1 ++ [fm_x_1]"),
    ("ok", "fn f(&mut self, n: usize) -> Vec<XFieldElement> { (0..n).flat_map(|_| self.sq()).collect_vec().chunks(3).take(n).map(|e| XFieldElement::new([e[0], e[1], e[2]])).collect() }", "(TF.RustIter.chunks 3 fm_acc_1).take n"),
    ("ok", "fn f(&mut self, v: Vec<BFieldElement>, n: usize) -> Vec<XFieldElement> { v.chunks(3).take(n).map(|e| XFieldElement::new([e[0], e[1], e[2]])).collect() }", "decide (2 < e.length)"),
    ("refuse", "fn f(&mut self, n: usize) -> Vec<BFieldElement> { (0..n).flat_map(|i| self.sq()).collect_vec() }", None),          # closure binds its parameter
    ("refuse", "fn f(&mut self, n: usize) -> Vec<BFieldElement> { (0..n).flat_map(|_| self.sq()).take(3).collect_vec() }", None),  # lazily consumed: not the full loop
    ("refuse", "fn f(&mut self, n: usize) -> Vec<BFieldElement> { (0..n).flat_map(|_| { self.sq() }).collect_vec() }", None),      # block closure
    ("refuse", "fn f(&mut self, n: usize) -> Vec<BFieldElement> { (0..n + 1).flat_map(|_| self.sq()).collect_vec() }", None),      # range bound is not a variable
    ("refuse", "fn f(&mut self, n: usize) -> Vec<BFieldElement> { (0..n).flat_map(|_| self.sq()).collect() }", None),              # collect() is not collect_vec()
    ("refuse", "fn f(&mut self, n: usize) -> usize { let k = n + (0..n).flat_map(|_| self.sq()).collect_vec().len(); k }", None),   # not the head of the chain
    ("refuse", "fn f(&mut self, v: Vec<BFieldElement>, n: usize) -> Vec<XFieldElement> { v.chunks(3).map(|e| { let a = e[0]; XFieldElement::new([a, a, a]) }).collect() }", None),   # block closure
    ("refuse", "fn f(&mut self, v: Vec<BFieldElement>, n: usize) -> Vec<BFieldElement> { v.chunks(3).map(|e| self.sq()).collect() }", None),   # closure that mutates self
    ("refuse", "fn f(&mut self, v: Vec<BFieldElement>, n: usize) -> u64 { let it = v.chunks(3).map(|e| e[0]); 1 }", None),        # map that is never collected
    ("refuse", "fn f(&mut self, v: Vec<BFieldElement>, n: usize) -> Vec<BFieldElement> { v.iter().filter_map(|e| e).collect() }", None),   # another adaptor
    # END P10
]
OPAQUE = [
    ("ok", "fn f(c: u64, old: Vec<Digest>, x: Digest) -> (Vec<Digest>, MmrMembershipProof) { let mut p = old; p.push(x); let mut mp = MmrMembershipProof::new(vec![]); let mut k = c; while k != 0 { let a = p.pop().unwrap(); let b = p.pop().unwrap(); mp.authentication_path.push(b); p.push(Tip5::hash_pair(b, a)); k -= 1; } (p, mp) }", "(H b a)"),
    ("ok", "fn f(ds: &[Digest]) -> Vec<Digest> { let n = ds.len(); let mut nodes = vec![Digest::default(); 2 * n]; nodes[n..(n + n)].clone_from_slice(&ds[..n]); let mut l: Vec<Digest> = Vec::with_capacity(n); (0..n).into_par_iter().map(|i| { let j = n + i; Tip5::hash_pair(nodes[j * 2], nodes[j * 2 + 1]) }).collect_into_vec(&mut l); l }", "List.range' 0"),
    # BEGIN P10: `fold(init, |acc, &x| <pure expression>)` over a finite iterator
    ("ok", "fn f(ds: &[Digest]) -> Digest { let mut it = ds.iter(); let acc = ds[0]; it.rev().fold(acc, |a, &p| Tip5::hash_pair(p, a)) }", "(List.foldl (fun a p => (H p a)) acc it.reverse)"),
    ("ok", "fn f(ds: &[Digest]) -> Digest { let mut it = ds.iter(); let acc = ds[0]; it.fold(acc, |a, &p| Tip5::hash_pair(p, a)) }", "(List.foldl (fun a p => (H p a)) acc it)"),
    ("refuse", "fn f(ds: &[Digest]) -> Digest { let mut it = ds.iter(); let acc = ds[0]; it.rev().fold(acc, |a, p| Tip5::hash_pair(p, a)) }", None),     # `p` is a reference here
    ("refuse", "fn f(ds: &[Digest]) -> Digest { let mut it = ds.iter(); let acc = ds[0]; it.rev().fold(acc, |a, &p| { Tip5::hash_pair(p, a) }) }", None),   # block closure
    ("refuse", "fn f(ds: &[Digest]) -> Digest { let mut v = vec![]; let mut it = ds.iter(); let acc = ds[0]; it.fold(acc, |a, &p| { v.push(p); a }) }", None),   # closure writes a captured variable
    ("refuse", "fn f(ds: &[Digest]) -> Digest { let mut it = ds.iter(); let acc = ds[0]; it.rev().fold(acc, |a, &p| ds[1]) }", None),   # closure body with a run-time check
    ("refuse", "fn f(ds: &[Digest]) -> Digest { let mut it = ds.iter(); let acc = ds[0]; it.rev().try_fold(acc, |a, &p| Tip5::hash_pair(p, a)) }", None),   # another adaptor
    # END P10
    ("refuse", "fn f(ds: &[Digest], H: u64) -> Digest { ds[0] }", None),                                           # clashes with an added parameter
    ("refuse", "fn f(a: Digest, b: Digest) -> bool { a == b }", None),                                             # no equality on opaque digests
    ("refuse", "fn f(a: Digest) -> Digest { Digest::new(a.values()) }", None),                                     # digests are opaque here
    ("refuse", "fn f(ds: &[Digest]) -> Vec<Digest> { let mut l: Vec<Digest> = Vec::new(); (0..3).into_par_iter().map(|i| { l.push(ds[i]); ds[i] }).collect_into_vec(&mut l); l }", None),   # closure writes a captured variable
]


# BEGIN P10: the abstract finite field (`Self` opaque, operations as parameters)
FP = [("f_zero", "digest"), ("f_one", "digest"), ("f_mul", "hfun"), ("f_is_zero", "pfun"), ("f_inverse", "ufun"),
      ("f_inverse_ok", "pfun"), ("d0", "digest")]
FIELD = [
    ("ok", "fn f(input: Vec<Self>) -> Vec<Self> { let n = input.len(); if n == 0 { return Vec::<Self>::new(); } let mut s: Vec<Self> = vec![Self::zero(); n]; let mut acc = Self::one(); for i in 0..n { assert!(!input[i].is_zero(), \"zero\"); s[i] = acc; acc *= input[i]; } acc = acc.inverse(); s[0] = acc * s[0]; s }", "(f_inverse_ok acc)"),
    ("refuse", "fn f(input: Vec<Self>) -> Self { input[0] + input[1] }", None),                       # `+` is not in the record
    ("refuse", "fn f(input: Vec<Self>) -> bool { input[0] == input[1] }", None),                      # no equality on the abstract field
    ("refuse", "fn f(input: Vec<Self>) -> Vec<Self> { Vec::<Self>::with_capacity(3) }", None),        # another turbofish path
    ("refuse", "fn f(input: Vec<Self>) -> Self { input[0].square() }", None),                         # a method that is not in the record
    ("refuse", "fn f(input: Vec<Self>, f_mul: u64) -> Self { input[0] }", None),                      # clashes with an added parameter
    ("refuse", "fn f(input: Vec<Self>) -> Self { let k = 3; input[0] * k }", None),                   # field element times integer
]
# END P10


def setup(opaque):
    B.reset_ctx()
    B.CTX["ops"] = {"+": "bfe_add", "*": "bfe_mul"}
    B.CTX["assign_ops"] = {"+=", "*="}
    B.CTX["bfe_consts"] = {"ZERO": 0, "ONE": 1}
    B.CTX["named_consts"] = {"Digest::LEN": (5, "usize")}
    B.CTX["owner"] = "Tip5"
    T.X["opaque"] = opaque
    T.X["mp_struct_ok"] = True
    T.X["cutoff_static_ok"] = True
    T.X["plens"] = {}
    tfns, pfns = {}, {}
    if not opaque:
        tfns["ab"] = ("t_ab", [ST, ST], ST)
        B.CTX["sigs"]["ab"] = {"outs": [0], "has_ret": False, "method": True, "owner": "Tip5", "free": False, "generics": 0}
        T.X["plens"]["ab"] = [None, 10]
        tfns["sq"] = ("t_sq", [ST], ("tuple", [ST, ST]))
        B.CTX["sigs"]["sq"] = {"outs": [0], "has_ret": True, "method": True, "owner": "Tip5", "free": False, "generics": 0}
        T.X["plens"]["sq"] = [None]
    return tfns, pfns


def main():
    bad = 0
    saved = L.lean_ty
    L.lean_ty = T.make_lean_ty(saved)
    T.install_patches()
    try:
        for opaque, cases in ((False, SPONGE), (True, OPAQUE), ("field", FIELD)):      # P10: FIELD
            for exp, src, marker in cases:
                tfns, pfns = setup(bool(opaque))
                T.X["field"] = opaque == "field"
                try:
                    if opaque == "field":
                        text = T.translate_fn4(src, "f", "f", "test", {}, tfns, pfns, L.DEFAULT_FUEL, self_ty="digest", pre_params=FP)[0]
                    else:
                        text = T.translate_fn4(src, "f", "f", "test", {}, tfns, pfns, L.DEFAULT_FUEL,
                                           self_ty=None if opaque else ST, pre_params=HD + [("digest_default", "digest")] if opaque else ())[0]
                    got = "ok"
                except Unsupported as ex:
                    got, text = "refuse", str(ex)
                except Exception as ex:
                    got, text = "refuse", f"internal: {type(ex).__name__}: {ex}"
                good = got == exp and (marker is None or marker in text)
                if not good:
                    bad += 1
                    print(f"FAIL expected {exp} got {got}: {src[:90]}\n      {text[:300]}")
    finally:
        L.lean_ty = saved
        T.X["field"] = False
        T.remove_patches()
    print("rs2lean_bt4 self-test:", "ok" if not bad else f"{bad} failures")
    return 1 if bad else 0


if __name__ == "__main__":
    sys.exit(main())
# END BT4
