#!/bin/bash
# confirmseeds.sh Cxx  -- coordinator's own confirmation of the two seeded changes of ${SEEDROOT:-/tmp/seed}/Cxx:
# with the patch: workspace compiles, the 564 tests pass, the demonstration fails; without: the demonstration passes.
P=$1
cd ${SEEDROOT:-/tmp/seed}/$P || exit 2
export CARGO_NET_OFFLINE=true
# the worktree's own target directory (a directory shared between parallel worktrees made test binaries overwrite each other)
export CARGO_TARGET_DIR=${SEEDROOT:-/tmp/seed}/$P/target
git checkout -q -- . 2>/dev/null
for N in 1 2; do
  R=out/confirm_$N.txt
  : > $R
  git apply out/patch_$N.diff || { echo "apply failed" >> $R; continue; }
  timeout 3000 cargo nextest run --workspace --no-fail-fast --test-threads 4 --offline > out/confirm_tests_$N.log 2>&1
  grep -E "Summary|tests run" out/confirm_tests_$N.log | tail -1 >> $R
  (bash out/run_$N.sh > out/confirm_demo_with_$N.log 2>&1; echo "demo_with_patch_exit=$?" >> $R)
  git checkout -q -- .
  # some demos copy files into the tree; clean untracked test copies
  (bash out/run_$N.sh > out/confirm_demo_without_$N.log 2>&1; echo "demo_without_patch_exit=$?" >> $R)
  git checkout -q -- .
done
echo "$P: $(cat out/confirm_1.txt | tr '\n' ' ') || $(cat out/confirm_2.txt | tr '\n' ' ')"
