"""rs2smt.py -- SMT-LIB (bit-vector) back end for the same Rust subset as rs2lean.py.

Used ONLY to search for a concrete failing input when a proof obligation over a translated function breaks
(DESIGN §5.3): z3 is asked for an input on which the *current* translation differs from the pinned reference
translation (tools/ref_smt/, taken from the tree on which the theorems were proved). A hit is then replayed on the
real implementation through the harness oracles. An SMT answer never stands in for a theorem.
"""
from rs2lean import INT_TYPES, Unsupported


def bv(val, w):
    return f"(_ bv{val} {w})"


class SmtEmitter:
    def __init__(self, consts, fns, self_ty="u64"):
        self.consts = consts
        self.fns = fns          # rust name -> (smt name, [param types], ret type)
        self.self_ty = self_ty

    def tyname(self, ty):
        if ty[0] == "named":
            n = ty[1]
            return self.self_ty if n in ("Self", "BFieldElement") else n
        if ty[0] == "tuple":
            return ("tuple", [self.tyname(t) for t in ty[1]])
        raise Unsupported(f"type {ty}")

    def w(self, ty):
        if ty in INT_TYPES:
            return INT_TYPES[ty]
        raise Unsupported(f"width {ty}")

    def emit(self, e, env, exp=None):
        """returns (term | [terms], type)"""
        k = e[0]
        if k == "lit":
            ty = e[2] or (exp if exp in INT_TYPES else "u64")
            return bv(e[1], self.w(ty)), ty
        if k == "path":
            p = e[1]
            if len(p) == 1:
                n = p[0]
                if n in env:
                    return env[n]
                if n in self.consts:
                    return bv(self.consts[n][0], self.w(self.consts[n][1])), self.consts[n][1]
                if n in ("true", "false"):
                    return n, "bool"
                if n == "self":
                    return "self", self.self_ty
            if len(p) == 2:
                a, b = p
                if a in ("Self", "BFieldElement") and b in self.consts:
                    return bv(self.consts[b][0], self.w(self.consts[b][1])), self.consts[b][1]
                if a in INT_TYPES and b == "MAX":
                    return bv(2 ** INT_TYPES[a] - 1, INT_TYPES[a]), a
                if a in INT_TYPES and b == "BITS":
                    return bv(INT_TYPES[a], 32), "u32"
            raise Unsupported(f"path {p}")
        if k == "field":
            t, ty = self.emit(e[1], env, exp)
            if e[2] == 0 and ty == self.self_ty:
                return t, ty
            raise Unsupported("field")
        if k == "cast":
            target = self.tyname(e[2])
            t, ty = self.emit(e[1], env, target if e[1][0] == "lit" else None)
            if ty == "bool":
                return f"(ite {t} {bv(1, self.w(target))} {bv(0, self.w(target))})", target
            wt, ws = self.w(target), self.w(ty)
            if wt == ws:
                return t, target
            if wt > ws:
                return f"((_ zero_extend {wt - ws}) {t})", target
            return f"((_ extract {wt - 1} 0) {t})", target
        if k == "not":
            t, ty = self.emit(e[1], env, exp)
            return (f"(not {t})" if ty == "bool" else f"(bvnot {t})"), ty
        if k == "bin":
            return self.emit_bin(e, env, exp)
        if k == "if":
            c, _ = self.emit(e[1], env, "bool")
            t, tty = self.emit(e[2], env, exp)
            f, fty = self.emit(e[3], env, exp or tty)
            if isinstance(t, list):
                return [f"(ite {c} {a} {b})" for a, b in zip(t, f)], tty
            return f"(ite {c} {t} {f})", tty
        if k == "let":
            _, pat, ty, val, body = e
            v, vty = self.emit(val, env, self.tyname(ty) if ty else None)
            env2 = dict(env)
            if pat[0] == "pid":
                if isinstance(v, list):
                    raise Unsupported("tuple bound to a name")
                name = f"{pat[1]}!{len(env)}"
                env2[pat[1]] = (name, vty)
                b, bty = self.emit(body, env2, exp)
                wrap = lambda x: f"(let (({name} {v})) {x})"
            else:
                names = [f"{n}!{len(env)}" for n in pat[1]]
                for n, ln, t in zip(pat[1], names, vty[1]):
                    env2[n] = (ln, t)
                b, bty = self.emit(body, env2, exp)
                binds = " ".join(f"({ln} {vv})" for ln, vv in zip(names, v))
                wrap = lambda x: f"(let ({binds}) {x})"
            if isinstance(b, list):
                return [wrap(x) for x in b], bty
            return wrap(b), bty
        if k == "assert":
            return self.emit(e[2], env, exp)
        if k == "tuple":
            exps = exp[1] if isinstance(exp, tuple) and exp[0] == "tuple" else [None] * len(e[1])
            parts = [self.emit(x, env, t) for x, t in zip(e[1], exps)]
            return [p[0] for p in parts], ("tuple", [p[1] for p in parts])
        if k == "mcall":
            return self.emit_mcall(e, env, exp)
        if k == "call":
            _, path, args = e
            name = path[-1]
            if path[0] in ("Self", "BFieldElement") and len(path) == 1:
                return self.emit(args[0], env, self.self_ty)
            if len(path) == 2 and path[0] in INT_TYPES and path[1] == "from":
                t, ty = self.emit(args[0], env, None)
                d = INT_TYPES[path[0]] - INT_TYPES[ty]
                return (t if d == 0 else f"((_ zero_extend {d}) {t})"), path[0]
            if name == "from_raw_u64":
                return self.emit(args[0], env, self.self_ty)
            if name in self.fns:
                sname, ptys, rty = self.fns[name]
                parts = [self.emit(x, env, t)[0] for x, t in zip(args, ptys)]
                if isinstance(rty, tuple):
                    return [f"({sname}__{i} {' '.join(parts)})" for i in range(len(rty[1]))], rty
                return f"({sname} {' '.join(parts)})", rty
            raise Unsupported(f"call {path}")
        raise Unsupported(f"smt: {k}")

    def emit_bin(self, e, env, exp):
        _, op, l, r = e
        if op in ("&&", "||"):
            a, _ = self.emit(l, env, "bool")
            b, _ = self.emit(r, env, "bool")
            return f"({'and' if op == '&&' else 'or'} {a} {b})", "bool"
        cmp_ops = {"<": "bvult", ">": "bvugt", "<=": "bvule", ">=": "bvuge"}
        if op in cmp_ops or op in ("==", "!="):
            if l[0] == "lit" and not l[2]:
                b, bty = self.emit(r, env, None)
                a, aty = self.emit(l, env, bty)
            else:
                a, aty = self.emit(l, env, None)
                b, bty = self.emit(r, env, aty)
            if op == "==":
                return f"(= {a} {b})", "bool"
            if op == "!=":
                return f"(not (= {a} {b}))", "bool"
            return f"({cmp_ops[op]} {a} {b})", "bool"
        if op in ("<<", ">>"):
            a, aty = self.emit(l, env, exp)
            b, bty = self.emit(r, env, "u32" if r[0] == "lit" else None)
            wa, wb = self.w(aty), self.w(bty)
            if wb < wa:
                b = f"((_ zero_extend {wa - wb}) {b})"
            elif wb > wa:
                b = f"((_ extract {wa - 1} 0) {b})"
            b = f"(bvurem {b} {bv(wa, wa)})"      # release semantics: masked shift amount
            return f"({'bvshl' if op == '<<' else 'bvlshr'} {a} {b})", aty
        if l[0] == "lit" and not l[2] and r[0] != "lit":
            b, bty = self.emit(r, env, exp)
            a, aty = self.emit(l, env, bty)
        else:
            a, aty = self.emit(l, env, exp)
            b, bty = self.emit(r, env, aty)
        if aty == "bool":
            m = {"&": "and", "|": "or", "^": "xor"}
            return f"({m[op]} {a} {b})", "bool"
        m = {"+": "bvadd", "-": "bvsub", "*": "bvmul", "/": "bvudiv", "%": "bvurem", "&": "bvand", "|": "bvor", "^": "bvxor"}
        return f"({m[op]} {a} {b})", aty

    def emit_mcall(self, e, env, exp):
        _, recv, name, args = e
        a, aty = self.emit(recv, env, exp if recv[0] == "lit" else None)
        w = self.w(aty) if aty in INT_TYPES else None
        if name in ("wrapping_add", "wrapping_sub", "wrapping_mul"):
            b, _ = self.emit(args[0], env, aty)
            m = {"wrapping_add": "bvadd", "wrapping_sub": "bvsub", "wrapping_mul": "bvmul"}
            return f"({m[name]} {a} {b})", aty
        if name == "overflowing_add":
            b, _ = self.emit(args[0], env, aty)
            return [f"(bvadd {a} {b})", f"(bvult (bvadd {a} {b}) {a})"], ("tuple", [aty, "bool"])
        if name == "overflowing_sub":
            b, _ = self.emit(args[0], env, aty)
            return [f"(bvsub {a} {b})", f"(bvult {a} {b})"], ("tuple", [aty, "bool"])
        if name == "leading_zeros" and not args:
            # 32-bit result; count by a chain of ite over the bit positions
            t = bv(w, 32)
            for i in range(w):
                t = f"(ite (= ((_ extract {i} {i}) {a}) #b1) {bv(w - 1 - i, 32)} {t})"
            return t, "u32"
        if name == "count_ones" and not args:
            parts = [f"((_ zero_extend 31) ((_ extract {i} {i}) {a}))" for i in range(w)]
            t = parts[0]
            for p in parts[1:]:
                t = f"(bvadd {t} {p})"
            return t, "u32"
        if name == "ilog2" and not args:
            t = bv(0, 32)
            for i in range(w):
                t = f"(ite (= ((_ extract {i} {i}) {a}) #b1) {bv(i, 32)} {t})"
            return t, "u32"
        if name == "pow" and len(args) == 1 and recv[0] == "lit" and recv[1] == 2:
            b, bty = self.emit(args[0], env, "u32")
            wb = self.w(bty)
            bb = b if wb == w else f"((_ zero_extend {w - wb}) {b})"
            return f"(ite (bvult {bb} {bv(w, w)}) (bvshl {bv(1, w)} {bb}) {bv(0, w)})", aty
        if name in ("into", "to_owned", "clone", "raw_u64") and not args:
            return a, aty
        raise Unsupported(f"smt method {name}")


def smt_sort(ty):
    if ty == "bool":
        return "Bool"
    return f"(_ BitVec {INT_TYPES[ty]})"


def translate_smt(ast, params, name, consts, fns):
    em = SmtEmitter(consts, fns)
    env = {n: (n if n != "self" else "self", t) for n, t in params}
    term, rty = em.emit(ast, env, None)
    ps = " ".join(f"({n} {smt_sort(t)})" for n, t in params)
    if isinstance(term, list):
        text = ""
        for i, (t, ty) in enumerate(zip(term, rty[1])):
            text += f"(define-fun {name}__{i} ({ps}) {smt_sort(ty)}\n  {t})\n"
    else:
        text = f"(define-fun {name} ({ps}) {smt_sort(rty)}\n  {term})\n"
    return text, [t for _, t in params], rty
