#!/usr/bin/env python3
"""mkmanifest.py -- regenerate MANIFEST.json from tools/props/*.json (claimed properties) and properties.jsonl."""
import json
import os

VERIF = os.path.normpath(os.path.join(os.path.dirname(os.path.abspath(__file__)), ".."))


def main():
    props = [json.loads(l) for l in open(os.path.join(VERIF, "properties.jsonl"))]
    claimed = {}
    for p in props:
        cfg = os.path.join(VERIF, "tools", "props", p["id"] + ".json")
        lean = os.path.join(VERIF, "lean", "TF", "Props", p["id"] + ".lean")
        if os.path.exists(cfg) and os.path.exists(lean):
            claimed[p["id"]] = json.load(open(cfg))
    m = {
        "version": 1,
        "setup_cmd": "./setup.sh",
        "hooks": {"guard": "twenty_first_verif",
                  "enable": "RUSTFLAGS='--cfg twenty_first_verif' (no hook is currently needed by any check; no guarded code exists in /repo)",
                  "baseline_off_cmd": "cd /repo && (cargo nextest run --workspace --no-fail-fast --test-threads 8 --offline || cargo test --workspace --no-fail-fast --offline)",
                  "source_commits": [], "add_only": True},
        "engines": [{"name": "lean-proof+correspondence", "path": "tools/checklib.py", "serves_properties": sorted(claimed),
                     "kind_free_text": "Lean 4 theorems over a model regenerated from source (tools/rs2lean.py) or hand-written and tied "
                                       "by differential execution (harness/ = real crate in-process, lean/Driver = compiled Lean model)"}],
        "checks": [],
        "not_applicable": [],
        "notes": "See DESIGN.md. Every claimed property is decided by Lean 4 theorems about a model that is tied to /repo on every run "
                 "(translator and/or correspondence check). Genuine defects found and repaired are listed in known_findings.json.",
    }
    for p in props:
        pid = p["id"]
        if pid in claimed:
            c = claimed[pid]
            partial = [x if isinstance(x, str) else ("; ".join(f"{k}: {v}" for k, v in x.items()) if isinstance(x, dict) else str(x))
                       for x in c.get("partial", [])]
            text = c.get("level_text") or (
                "Machine-checked Lean 4 theorems (lean/TF/Props/%s.lean) state the property over a formal model for all inputs/"
                "histories; the model is tied to the current source on every run by the translator (regenerated definitions) and/or "
                "the correspondence check (real crate vs compiled model on boundary-directed streams, plus property oracles on the "
                "implementation)." % pid)
            if partial:
                text += " Parts proved only partially / tied by correspondence only: " + "; ".join(partial)[:1500]
            m["checks"].append({
                "property_id": pid,
                "quick_cmd": f"./check {pid} --tier quick",
                "thorough_cmd": f"./check {pid} --tier thorough",
                "evidence_file": f"/verif/evidence/{pid}.json",
                "replay_cmd_template": "./check replay {path}",
                "engine": "lean-proof+correspondence",
                "level_claimed": {"category": "proof", "text": text, "design_ref": "DESIGN.md §8 " + pid},
                "level_note": "Trusted: Lean 4.33 kernel + Mathlib as compiled; axioms propext/Classical.choice/Quot.sound only (audited by "
                              "#print axioms on every run); tools/rs2lean.py; the correspondence harness and driver; rustc/std. "
                              + " | ".join(str(x) for x in c.get("trusted_base", []))[:1500],
                "technique": c.get("technique", "machine-checked proof in Lean 4 (model regenerated from source / correspondence check)"),
            })
        else:
            m["not_applicable"].append({"property_id": pid,
                                        "reason": "not claimed yet: its check is still under construction in this session; the "
                                                  "technique applies (see DESIGN.md §8 " + pid + ")"})
    with open(os.path.join(VERIF, "MANIFEST.json"), "w") as f:
        json.dump(m, f, indent=1)
    print("claimed:", " ".join(sorted(claimed)))


if __name__ == "__main__":
    main()
