#!/usr/bin/env python3
"""checklib.py -- orchestration of one property check (DESIGN §2, §5).

  regenerate model from source  ->  lake build of the property's theorem module(s) + driver  ->  axiom audit
  ->  cargo build of the harness against /repo's working tree  ->  generate ops (corpus first)
  ->  run implementation and Lean model  ->  diff, oracles  ->  classify  ->  evidence  ->  exit code
"""
import fcntl
import hashlib
import json
import os
import re
import subprocess
import sys
import time

VERIF = os.path.normpath(os.path.join(os.path.dirname(os.path.abspath(__file__)), ".."))
LEAN = os.path.join(VERIF, "lean")
HARNESS = os.path.join(VERIF, "harness")
WORK = os.path.join(VERIF, "work")
TFM = os.path.join(LEAN, ".lake", "build", "bin", "tfm")
TFH = os.path.join(HARNESS, "target", "release", "tfh")
ALLOWED_AXIOMS = {"propext", "Classical.choice", "Quot.sound"}
ALT_ENV = {"RAYON_NUM_THREADS": "3"}
ALT_TAG = "RAYON_NUM_THREADS=3"
DERIVE_CORPUS_PROPS = {"C14"}
FORBIDDEN = re.compile(r"\b(sorry|admit|native_decide|bv_decide|implemented_by|unsafe)\b|^axiom\s|maxHeartbeats 0")

sys.path.insert(0, os.path.join(VERIF, "tools"))
import genreg  # noqa: E402
import smtsearch  # noqa: E402


def changed_anchor_files(prop):
    """anchored source files of the property (properties.jsonl) whose working-tree content differs from the pinned
    content hash (tools/srcpins.json, taken from /repo HEAD by tools/mkpins.py).  Used only to DEEPEN the search: a
    changed file never raises an alarm by itself."""
    repo = os.environ.get("VERIF_REPO", "/repo")
    try:
        with open(os.path.join(VERIF, "tools", "srcpins.json")) as f:
            pins = json.load(f)
        files = []
        with open(os.path.join(VERIF, "properties.jsonl")) as f:
            for l in f:
                d = json.loads(l)
                if d["id"] == prop:
                    files = d.get("anchors", {}).get("files", [])
        out = []
        for fn in files:
            try:
                with open(os.path.join(repo, fn), "rb") as g:
                    h = hashlib.sha256(g.read()).hexdigest()
            except OSError:
                h = None
            if fn in pins and pins[fn] != h:
                out.append(fn)
        return out
    except Exception:
        return []


def load_props(prop):
    with open(os.path.join(VERIF, "tools", "props", prop + ".json")) as f:
        return json.load(f)


def sh(cmd, cwd=None, env=None, timeout=None, stdin=None):
    e = dict(os.environ)
    e["CARGO_NET_OFFLINE"] = "true"
    if env:
        e.update(env)
    p = subprocess.run(cmd, cwd=cwd, env=e, stdout=subprocess.PIPE, stderr=subprocess.PIPE, text=True,
                       timeout=timeout, stdin=stdin)
    return p.returncode, p.stdout, p.stderr


def run_stream(cmd, ops_path, out_path, env=None, timeout=1800):
    """run a line-protocol process over the ops file; stdout goes to a FILE so that what was answered before a hang or
    a crash is preserved.  Returns (rc, text, stderr_tail, timed_out)."""
    e = dict(os.environ)
    e["CARGO_NET_OFFLINE"] = "true"
    if env:
        e.update(env)
    timed_out = False
    with open(ops_path) as fin, open(out_path, "w") as fout, open(out_path + ".err", "w") as ferr:
        p = subprocess.Popen(cmd, stdin=fin, stdout=fout, stderr=ferr, env=e, start_new_session=True)
        try:
            rc = p.wait(timeout=timeout)
        except subprocess.TimeoutExpired:
            timed_out = True
            try:
                os.killpg(p.pid, 9)
            except Exception:
                p.kill()
            p.wait()
            rc = -9
    with open(out_path) as f:
        text = f.read()
    with open(out_path + ".err") as f:
        err = f.read()[-600:]
    return rc, text, err, timed_out


class Lock:
    def __init__(self, name):
        os.makedirs(WORK, exist_ok=True)
        self.path = os.path.join(WORK, name + ".lock")

    def __enter__(self):
        self.f = open(self.path, "w")
        fcntl.flock(self.f, fcntl.LOCK_EX)
        return self

    def __exit__(self, *a):
        fcntl.flock(self.f, fcntl.LOCK_UN)
        self.f.close()


def strip_lean_comments(text):
    # remove /- ... -/ (nested) and -- comments
    out = []
    i = 0
    depth = 0
    while i < len(text):
        if text.startswith("/-", i):
            depth += 1
            i += 2
            continue
        if text.startswith("-/", i) and depth > 0:
            depth -= 1
            i += 2
            continue
        if depth == 0:
            if text.startswith("--", i):
                j = text.find("\n", i)
                i = len(text) if j < 0 else j
                continue
            out.append(text[i])
        elif text[i] == "\n":
            out.append("\n")
        i += 1
    return "".join(out)


def theorems_of(path):
    """[(name, line)] of theorems declared in a Props file (namespace-qualified)"""
    res = []
    ns = []
    with open(path) as f:
        text = strip_lean_comments(f.read())
    for ln, line in enumerate(text.split("\n"), 1):
        m = re.match(r"\s*namespace\s+(\S+)", line)
        if m:
            ns.append(m.group(1))
            continue
        m = re.match(r"\s*end\s+(\S+)", line)
        if m and ns and ns[-1] == m.group(1):
            ns.pop()
            continue
        m = re.match(r"\s*(?:@\[[^\]]*\]\s*)?(?:private\s+|protected\s+)?theorem\s+(\S+)", line)
        if m:
            res.append((".".join(ns + [m.group(1)]), ln))
    return res


def regenerate():
    rc, out, err = sh([sys.executable, os.path.join(VERIF, "tools", "rs2lean.py")])
    with open(os.path.join(LEAN, "TF", "Gen", "status.json")) as f:
        status = json.load(f)
    return status, err


def lake_build(targets):
    with Lock("lake"):
        rc, out, err = sh(["lake", "build"] + targets, cwd=LEAN, timeout=3600)
    return rc, out + err


GEN_PINNED = os.path.join(VERIF, "tools", "gen_pinned")


def build_fallback_driver():
    """The driver links the regenerated definitions (TF/Gen) next to the hand models.  When a source change makes the
    regenerated definitions incompatible with the driver (a function the translator now refuses, a changed signature),
    the driver cannot be built - which must not stop the correspondence check, and must not alarm properties that do
    not depend on the changed function.  Fallback: build the driver once against the PINNED generated files
    (tools/gen_pinned, written by tools/mkpins.py from /repo HEAD), keep the binary, restore the regenerated files."""
    out = os.path.join(WORK, "tfm.pinned")
    gen_dir = os.path.join(LEAN, "TF", "Gen")
    if not os.path.isdir(GEN_PINNED):
        return None, "no pinned generated files"
    with Lock("lake"):
        saved = {}
        try:
            for fn in os.listdir(GEN_PINNED):
                if not fn.endswith(".lean"):
                    continue
                cur = os.path.join(gen_dir, fn)
                if os.path.exists(cur):
                    with open(cur) as f:
                        saved[cur] = f.read()
                else:
                    saved[cur] = None
                with open(os.path.join(GEN_PINNED, fn)) as f:
                    pinned = f.read()
                if saved[cur] != pinned:
                    with open(cur, "w") as f:
                        f.write(pinned)
            rc, o, e = sh(["lake", "build", "tfm"], cwd=LEAN, timeout=3600)
            if rc == 0:
                import shutil
                shutil.copy2(TFM, out)
        finally:
            for cur, text in saved.items():
                if text is None:
                    if os.path.exists(cur):
                        os.remove(cur)
                else:
                    with open(cur) as f:
                        now = f.read()
                    if now != text:
                        with open(cur, "w") as f:
                            f.write(text)
    return (out if rc == 0 else None), (o + e)[-1500:]


def minimal_history(ops_path, v, tfm_bin):
    """[preceding op lines needed to reproduce the failure of v['op']], note.  Empty list when the op fails on its own."""
    def fails(lines_):
        text = "\n".join(lines_) + "\n"
        try:
            p1 = subprocess.run([TFH, "run"], input=text, stdout=subprocess.PIPE, stderr=subprocess.DEVNULL, text=True,
                                env=dict(os.environ, **v.get("env", {})), timeout=600)
            p2 = subprocess.run([tfm_bin], input=text, stdout=subprocess.PIPE, stderr=subprocess.DEVNULL, text=True, timeout=600)
        except Exception:
            return False
        a = p1.stdout.split("\n")
        b = p2.stdout.split("\n")
        k = len(lines_) - 1
        if k >= len(a) or not a[k]:
            return True     # the implementation did not answer (crash / abort)
        if "ORACLE-FAIL" in a[k]:
            return True
        return k < len(b) and b[k] not in ("skip", "") and a[k] != "skip" and a[k].split("\t")[0] != b[k]
    try:
        if str(v.get("impl", "")).startswith(("<crash", "<does not terminate")):
            return [], "the implementation run crashed; the op line is the first one without an answer"
        if fails([v["op"]]):
            return [], "the op line fails on its own"
        with open(ops_path) as f:
            allops = [l.rstrip("\n") for l in f if l.strip()]
        idx = allops.index(v["op"])
        w = 1
        while True:
            lo = max(0, idx - w)
            if fails(allops[lo:idx + 1]):
                return allops[lo:idx], f"the op line fails only after the {idx - lo} preceding op line(s) ran in the same process (state left behind by an earlier call)"
            if lo == 0:
                break
            w *= 4
        return [], "NOT reproduced in a fresh process, even after the whole preceding stream (timing or environment dependent?)"
    except Exception as ex:
        return [], f"history search failed: {ex}"


def parse_lean_errors(log):
    """[(file, line, msg)] from lake / lean output"""
    errs = []
    for m in re.finditer(r"^(?:error: )?(\S+\.lean):(\d+):(\d+):(?: error(?:\([^)]*\))?:)? (.*)$", log, flags=re.M):
        errs.append((m.group(1), int(m.group(2)), m.group(4)))
    return errs


def decl_at(path, line):
    """name of the theorem/def/lemma enclosing `line` in file `path`"""
    full = path if os.path.isabs(path) else os.path.join(LEAN, path)
    try:
        with open(full) as f:
            lines = f.read().split("\n")
    except OSError:
        return None
    for i in range(min(line, len(lines)) - 1, -1, -1):
        m = re.match(r"\s*(?:@\[[^\]]*\]\s*)?(?:private\s+|protected\s+|noncomputable\s+)*(theorem|lemma|def|instance|example|abbrev)\s+(\S+)?", lines[i])
        if m:
            return (m.group(2) or "example") if m.group(1) != "example" else f"example@{i + 1}"
    return None


def audit_axioms(prop, module, thms):
    """run #print axioms for every property theorem; returns {name: [axioms]} and raw text"""
    os.makedirs(os.path.join(LEAN, "TF", "Audit"), exist_ok=True)
    path = os.path.join(LEAN, "TF", "Audit", f"{prop}.lean")
    body = f"import {module}\n" + "".join(f"#print axioms {n}\n" for n, _ in thms)
    with open(path, "w") as f:
        f.write(body)
    rc, out, err = sh(["lake", "env", "lean", path], cwd=LEAN, timeout=1800)
    text = out + err
    res = {}
    for m in re.finditer(r"'([^']+)' depends on axioms: \[([^\]]*)\]", text, flags=re.S):
        res[m.group(1)] = [a.strip() for a in m.group(2).replace("\n", " ").split(",") if a.strip()]
    for m in re.finditer(r"'([^']+)' does not depend on any axioms", text):
        res[m.group(1)] = []
    return res, text, rc


def forbidden_tokens():
    hits = []
    for root, _, files in os.walk(os.path.join(LEAN, "TF")):
        for fn in files:
            if not fn.endswith(".lean"):
                continue
            p = os.path.join(root, fn)
            with open(p) as f:
                text = strip_lean_comments(f.read())
            for ln, line in enumerate(text.split("\n"), 1):
                if FORBIDDEN.search(line):
                    hits.append(f"{os.path.relpath(p, LEAN)}:{ln}: {line.strip()[:100]}")
    return hits


def cargo_build(prop=None):
    with Lock("cargo"):
        lock_src = "/repo/Cargo.lock"
        lock_dst = os.path.join(HARNESS, "Cargo.lock")
        if not os.path.exists(lock_dst) and os.path.exists(lock_src):
            with open(lock_src) as s, open(lock_dst, "w") as d:
                d.write(s.read())
        rc, out, err = sh(["cargo", "build", "--release", "--offline"], cwd=HARNESS, timeout=3600)
        if rc != 0 and prop is not None and prop not in DERIVE_CORPUS_PROPS:
            # the derive corpus (C14) may be what no longer compiles: the other properties do not need it
            rc2, out2, err2 = sh(["cargo", "build", "--release", "--offline", "--no-default-features"], cwd=HARNESS, timeout=3600)
            if rc2 == 0:
                return 0, "built without the derive corpus (feature derive_corpus): " + (out + err)[-600:]
    return rc, out + err


def load_known():
    p = os.path.join(VERIF, "known_findings.json")
    if not os.path.exists(p):
        return []
    with open(p) as f:
        return json.load(f)


def write_replay(prop, seed, payload):
    d = os.path.join(VERIF, "replays")
    os.makedirs(d, exist_ok=True)
    path = os.path.join(d, f"{prop}-{seed}-{payload.get('kind', 'violation')}.json")
    with open(path, "w") as f:
        json.dump(payload, f, indent=1)
    return path


def run_check(prop, tier, seed):
    t0 = time.time()
    cfg = load_props(prop)
    genreg.main()
    os.makedirs(WORK, exist_ok=True)
    os.makedirs(os.path.join(VERIF, "evidence"), exist_ok=True)
    violations = []      # (kind, description, replay payload)
    known_lines = []
    notes = []

    # ---- 1. regenerate the translated part of the model from the current source
    status, regen_err = regenerate()
    failed_translations = {k: v for k, v in status.get("failed", {}).items()
                           if any(k.endswith(" " + t) or k == t for t in cfg.get("translated", []))}

    # ---- 2. build theorem module(s) + driver
    module = f"TF.Props.{prop}"
    props_file = os.path.join(LEAN, "TF", "Props", f"{prop}.lean")
    thms = theorems_of(props_file)
    rc, log = lake_build([module])
    broken = []
    if rc != 0:
        errs = parse_lean_errors(log)
        for (f, ln, msg) in errs:
            broken.append({"file": f, "line": ln, "decl": decl_at(f, ln), "msg": msg[:300]})
        if not errs:
            broken.append({"file": "?", "line": 0, "decl": None, "msg": log[-2000:]})
    # the driver is built on its own: a failure there is not a broken obligation of THIS property unless the property's
    # own theorem module failed too (it imports every generated definition it depends on)
    driver_ok = True
    tfm_bin = TFM
    rc2, log2 = lake_build(["tfm"])
    if rc2 != 0:
        derrs = parse_lean_errors(log2)
        notes.append("driver does not build with the regenerated definitions (" +
                     "; ".join(f"{f}:{ln} {msg[:80]}" for (f, ln, msg) in derrs[:3]) + "); using the driver built against the pinned generated files")
        fb, fblog = build_fallback_driver()
        if fb:
            tfm_bin = fb
        else:
            driver_ok = False
            notes.append("fallback driver build failed: " + fblog)

    # ---- 3. axiom audit (only meaningful when the module built)
    axioms = {}
    audit_text = ""
    discharged = []
    if rc == 0:
        axioms, audit_text, arc = audit_axioms(prop, module, thms)
        for n, _ in thms:
            ax = axioms.get(n)
            if ax is None:
                # names may be reported without leading namespace pieces; try suffix match
                cand = [k for k in axioms if k.endswith(n) or n.endswith(k)]
                ax = axioms.get(cand[0]) if cand else None
            if ax is not None and set(ax) <= ALLOWED_AXIOMS:
                discharged.append(n)
            else:
                broken.append({"file": f"TF/Props/{prop}.lean", "line": 0, "decl": n,
                               "msg": f"axiom audit: {ax if ax is not None else 'not reported: ' + audit_text[-300:]}"})
        hits = forbidden_tokens()
        if hits:
            for h in hits:
                broken.append({"file": h.split(":")[0], "line": 0, "decl": None, "msg": "forbidden token: " + h})
            discharged = []
    if tier == "thorough" and rc == 0:
        with Lock("lake"):
            crc, cout, cerr = sh(["lake", "env", "leanchecker", module], cwd=LEAN, timeout=3600)
        if crc != 0:
            broken.append({"file": module, "line": 0, "decl": None, "msg": "leanchecker: " + (cout + cerr)[-500:]})
            discharged = []
        else:
            notes.append("leanchecker re-checked " + module)

    # ---- 4. harness against the current working tree
    crc, clog = cargo_build(prop)
    harness_ok = crc == 0
    if harness_ok and clog.startswith("built without the derive corpus"):
        notes.append(clog)
    if not harness_ok:
        notes.append("harness build failed: " + clog[-3000:])

    # ---- 5. correspondence run
    evals = 0
    model_skips = 0
    impl_skips = 0
    disagreements = []
    oracle_fails = []
    gen_failed = None
    alt_failures = []    # failures seen only under the alternative environment (other thread-pool size)
    stats = {}
    samples = []
    distinct = set()
    ops_path = os.path.join(WORK, f"{prop}.{tier}.ops")
    # when a proof obligation broke, search at thorough size regardless of the tier (DESIGN §5.3)
    search_tier = "thorough" if (broken or failed_translations) else tier
    # change-triggered deepening: anchored source text differs from the pinned tree -> run the thorough-size streams
    changed_files = changed_anchor_files(prop)
    if changed_files and search_tier != "thorough":
        search_tier = "thorough"
        notes.append("anchored source files differ from the pinned tree (" + ", ".join(changed_files) +
                     "): correspondence and oracle streams run at thorough size")
    if harness_ok and driver_ok:
        lines = []
        cdir = os.path.join(VERIF, "corpus", prop)
        if os.path.isdir(cdir):
            for fn in sorted(os.listdir(cdir)):
                if fn.endswith(".ops"):
                    with open(os.path.join(cdir, fn)) as f:
                        lines += [l.rstrip("\n") for l in f if l.strip() and not l.startswith("#")]
        n_corpus = len(lines)
        # failing-input search for translated functions that differ from the pinned reference translation (z3; support only)
        smt_report = {}
        from concurrent.futures import ThreadPoolExecutor
        fns = [f for f in cfg.get("translated", []) if f in smtsearch.SPECS]
        with ThreadPoolExecutor(max_workers=8) as ex:
            for fn, (ops_found, why) in zip(fns, ex.map(lambda f: smtsearch.search(f, 90 if search_tier == "thorough" else 45), fns)):
                if why != "equal":
                    smt_report[fn] = why
                if ops_found:
                    lines = ops_found + lines
        if smt_report:
            notes.append("translated functions differing from the reference translation (z3 verdict): " + json.dumps(smt_report))
        env = dict(cfg.get("env", {}))
        # the op generator is part of the harness binary and calls a few functions of the crate (to place boundary values);
        # against a changed implementation it may crash or hang - then the ops of the last successful generation for this
        # property and seed are used instead (they depend on the seed only), and the failure is reported
        good_path = os.path.join(WORK, f"{prop}.{search_tier}.seed{seed}.ops.good")
        try:
            rcg, gout, gerr = sh([TFH, "gen", prop, "--seed", str(seed), "--tier", search_tier], env=env,
                                 timeout=int(os.environ.get("VERIF_GEN_TIMEOUT", "1500" if search_tier == "thorough" else "600")))
        except subprocess.TimeoutExpired:
            rcg, gout, gerr = -9, "", "the op generator did not terminate within its time limit"
        if rcg != 0:
            gen_failed = "the op generator of the harness crashed or hung against this implementation: " + gerr[-300:]
            notes.append(gen_failed)
            gout = ""
            for cand in (good_path, os.path.join(WORK, f"{prop}.quick.seed{seed}.ops.good"), os.path.join(WORK, f"{prop}.thorough.seed{seed}.ops.good")):
                if os.path.exists(cand):
                    with open(cand) as f:
                        gout = f.read()
                    notes.append("using the ops of the last successful generation: " + os.path.basename(cand))
                    break
        else:
            with open(good_path, "w") as f:
                f.write(gout)
        lines += [l for l in gout.split("\n") if l.strip()]
        with open(ops_path, "w") as f:
            f.write("\n".join(lines) + "\n")
        stats_path = os.path.join(WORK, f"{prop}.{tier}.stats.json")
        # three runs side by side: the implementation, the implementation again under a second thread-pool size
        # (RAYON_NUM_THREADS=3: not a power of two, not a divisor of the usual sizes), and the Lean model
        # wall-clock limits: a changed implementation may loop forever on some op - the stream is then cut at the first
        # unanswered line and that op is reported ("does not terminate")
        stream_limit = int(os.environ.get("VERIF_STREAM_TIMEOUT", "2700" if search_tier == "thorough" else "900"))

        def _run_impl():
            return run_stream([TFH, "run", "--stats", stats_path], ops_path, os.path.join(WORK, f"{prop}.{tier}.impl.out"), env=env, timeout=stream_limit)

        def _run_impl_t3():
            return run_stream([TFH, "run"], ops_path, os.path.join(WORK, f"{prop}.{tier}.impl3.out"), env=dict(env, **ALT_ENV), timeout=stream_limit)

        def _run_model():
            return run_stream([tfm_bin], ops_path, os.path.join(WORK, f"{prop}.{tier}.model.out"), timeout=2 * stream_limit)
        with ThreadPoolExecutor(max_workers=3) as ex3:
            f1, f2, f3 = ex3.submit(_run_impl), ex3.submit(_run_impl_t3), ex3.submit(_run_model)
            rci, iout, ierr, impl_timed_out = f1.result()
            rci2, iout2, ierr2, impl2_timed_out = f2.result()
            rcm, mout, merr, model_timed_out = f3.result()
        if impl_timed_out or impl2_timed_out or model_timed_out:
            notes.append(f"stream time limit {stream_limit}s hit: implementation={impl_timed_out} implementation-under-{ALT_TAG}={impl2_timed_out} model={model_timed_out}")
        impl = iout.split("\n")
        impl2 = iout2.split("\n")
        model = mout.split("\n")
        if rci != 0 or rcm != 0 or len(impl) < len(lines) or len(model) < len(lines):
            # a crash (abort, stack overflow, ...) of either side: find the line by bisection-free replay
            notes.append(f"run incomplete: impl rc={rci} lines={len(impl)} model rc={rcm} lines={len(model)} of {len(lines)}; "
                         f"stderr: {ierr[-300:]} {merr[-300:]}")
            k = min(len([x for x in impl if x]), len([x for x in model if x]))
            side = "implementation" if len([x for x in impl if x]) <= len([x for x in model if x]) else "model"
            if k < len(lines):
                what = "<does not terminate:" if (impl_timed_out and side == "implementation") or (model_timed_out and side == "model") else "<crash:"
                disagreements.append((lines[k], what + side + ">", "<no output>"))
            lines = lines[:k]
        try:
            with open(stats_path) as f:
                stats = json.load(f)
        except Exception:
            stats = {}
        for i, op in enumerate(lines):
            ir = impl[i]
            mr = model[i]
            orc = None
            if "\tORACLE-FAIL:" in ir:
                ir, orc = ir.split("\tORACLE-FAIL:", 1)
            if ir == "skip":
                # the harness has no opinion on this op line (it declines lines outside an op's documented argument
                # range before calling the crate): nothing to compare, whatever the model says
                if mr != "skip":
                    impl_skips += 1
                continue
            evals += 1
            toks = op.split()
            cls = " ".join(toks[:2])
            if ir not in ("skip",) and (len(toks) > 2):
                distinct.add(hashlib.sha1(op.encode()).hexdigest()[:12])
            if len(samples) < 12 and (i % max(1, len(lines) // 12) == 0):
                samples.append({"op": op[:300], "impl": ir[:200], "model": mr[:200]})
            if orc:
                oracle_fails.append((op, ir, mr, orc))
            if mr == "skip":
                model_skips += 1
                continue
            if mr == "bad-request" or ir == "bad-request":
                notes.append(f"bad request: {op[:120]} impl={ir[:40]} model={mr[:40]}")
                disagreements.append((op, ir, mr))
                continue
            if ir != mr:
                disagreements.append((op, ir, mr))
        # second pass (other thread-pool size): every line that differs from the first pass is classified on its own
        alt_evals = 0
        if rci2 != 0 or len(impl2) < len(lines):
            k2 = len([x for x in impl2 if x])
            if rci == 0 and k2 < len(lines):
                alt_failures.append((lines[k2], "<crash:implementation under " + ALT_TAG + ">", model[k2] if k2 < len(model) else "", None))
        for i, op in enumerate(lines[:len(impl2)]):
            if i >= len(impl) or impl2[i] == impl[i]:
                continue
            alt_evals += 1
            ir2, orc2 = impl2[i], None
            if "\tORACLE-FAIL:" in ir2:
                ir2, orc2 = ir2.split("\tORACLE-FAIL:", 1)
            alt_failures.append((op, ir2, model[i] if i < len(model) else "", orc2 or ("result depends on the thread-pool size: " + impl[i][:80] + " vs " + ir2[:80])))
        notes.append(f"implementation stream also run under {ALT_TAG}: {len(impl2)} lines, {alt_evals} differing from the first pass")

    # ---- 6. classify
    known = [k for k in load_known() if k["property"] == prop and k.get("status") == "known"]

    def known_match(op, ir=None, mr=None, orc=None):
        """a listed finding suppresses a failure only if the op line is of the listed class AND the failure has the listed
        signature: the implementation agrees with the model (whose proved negation witnesses predict the behaviour) and
        the failing oracle is one of the listed ones.  Any other failure on the same inputs is a different violation."""
        for k in known:
            if not re.search(k["match"], op):
                continue
            if k.get("requires_model_agreement") and (ir is None or mr is None or ir != mr):
                continue
            if k.get("oracle_match") and not (orc and re.search(k["oracle_match"], orc)):
                continue
            return k
        return None

    reported_known = {}
    viol_inputs = []
    for (op, ir, mr, orc) in oracle_fails:
        k = known_match(op, ir, mr, orc)
        if k:
            reported_known.setdefault(k["id"], (k, op))
            continue
        viol_inputs.append({"kind": "oracle", "op": op, "impl": ir, "model": mr, "oracle": orc})
    for (op, ir2, mr, orc2) in alt_failures:
        if any(v["op"] == op for v in viol_inputs):
            continue
        viol_inputs.append({"kind": "oracle-under-" + ALT_TAG, "op": op, "impl": ir2, "model": mr, "oracle": orc2, "env": ALT_ENV})
    for (op, ir, mr) in disagreements:
        if any(v["op"] == op for v in viol_inputs):
            continue
        k = known_match(op, ir, mr, None)
        if k:
            reported_known.setdefault(k["id"], (k, op))
            continue
        viol_inputs.append({"kind": "impl-differs-from-model", "op": op, "impl": ir, "model": mr, "oracle": None})

    # a known finding is only reported while its witness still fails
    for kid, (k, op) in reported_known.items():
        known_lines.append(f"KNOWN-FINDING: property={prop} {k['what']}")

    exit_code = 0
    out_lines = []
    if viol_inputs:
        v = viol_inputs[0]
        # a failure may depend on what ran BEFORE the op in the same process (caches, thread-locals, lazily initialised
        # state of the implementation): if the op alone does not reproduce it, find a window of preceding op lines that does
        history, hist_note = minimal_history(ops_path, v, tfm_bin)
        payload = {"property": prop, "kind": v["kind"], "seed": seed, "tier": tier, "op_lines": history + [v["op"]],
                   "history_note": hist_note,
                   "implementation_output": v["impl"], "model_output": v["model"], "oracle": v["oracle"],
                   "env": v.get("env", {}),
                   "all_failing_ops": [x["op"] for x in viol_inputs[:50]],
                   "broken_obligations": broken, "untranslatable": failed_translations,
                   "how_to_replay": f"cd /verif && ./check replay {{this file}}"}
        path = write_replay(prop, seed, payload)
        out_lines.append(f"VIOLATION property={prop} replay={path}")
        exit_code = 1
    elif broken or failed_translations or not harness_ok or not driver_ok or gen_failed:
        what = []
        if broken:
            what.append("theorems/lemmas that no longer check: " + ", ".join(sorted({str(b['decl']) for b in broken})))
        if failed_translations:
            what.append("functions the translator can no longer translate: " + ", ".join(failed_translations))
        if not harness_ok:
            what.append("the correspondence harness no longer builds against /repo")
        if not driver_ok:
            what.append("the model driver no longer builds")
        if gen_failed:
            what.append(gen_failed)
        payload = {"property": prop, "kind": "no-failing-input-found", "seed": seed, "tier": tier,
                   "broken_obligations": broken, "untranslatable": failed_translations,
                   "harness_build_ok": harness_ok, "driver_build_ok": driver_ok,
                   "searched": {"tier": search_tier, "evaluations": evals},
                   "what": what, "notes": notes[-5:]}
        path = write_replay(prop, seed, payload)
        out_lines.append(f"VIOLATION property={prop} replay={path} no-failing-input-found")
        exit_code = 1

    # ---- 7. evidence
    nontrivial_rule = cfg.get("rule", "op lines generated boundary-directed from one SplitMix64 state; a case is "
                                      "non-trivial if it carries operands (not a constant op) and distinct by its full op line")
    ev = {
        "property_id": prop,
        "tier": tier,
        "seed": seed,
        "level": "proof",
        "wall_s": round(time.time() - t0, 2),
        "violations": len(viol_inputs) + (1 if (exit_code == 1 and not viol_inputs) else 0),
        "coverage": {
            "obligations": max(1, len(thms)),
            "discharged": len(discharged),
            "checker_cmd": f"cd /verif/lean && lake build {module} tfm && lake env lean TF/Audit/{prop}.lean"
                           + (f" && lake env leanchecker {module}" if tier == "thorough" else ""),
            "trusted_base": cfg.get("trusted_base", []) + [
                "Lean 4.33.0 kernel; Mathlib v4.33.0 as compiled on this image",
                "axioms reported by #print axioms: " + ", ".join(sorted({a for v in axioms.values() for a in v}) or ["none"]),
                "tools/rs2lean.py (translator), validated on every run by running each translated function against the real one",
                "correspondence check: harness/ (Rust, calls the real crate in-process) and lean/Driver (compiled Lean model)",
            ],
            "theorems": [n for n, _ in thms],
            "theorems_discharged": discharged,
            "partial": cfg.get("partial", []),
            "translated_functions": {k: v for k, v in status.get("translated", {}).items() if k in cfg.get("translated", [])},
            "evaluations": evals,
            "distinct_nontrivial": len(distinct),
            "rule": nontrivial_rule,
            "samples": samples[:12] + [{"theorem": n} for n, _ in thms[:8]],
            "distribution": stats,
            "model_skipped_ops": model_skips,
            "implementation_skipped_ops": impl_skips,
            "disagreements": len(disagreements),
            "oracle_failures": len(oracle_fails),
            "known_findings_replayed": [k["id"] for k, _ in reported_known.values()],
            "broken_obligations": broken,
            "notes": notes[-10:],
        },
        "assumptions": cfg.get("assumptions", []),
    }
    with open(os.path.join(VERIF, "evidence", f"{prop}.json"), "w") as f:
        json.dump(ev, f, indent=1)

    for l in known_lines:
        print(l)
    for l in out_lines:
        print(l)
    if exit_code == 0:
        print(f"OK property={prop} tier={tier} theorems={len(discharged)}/{len(thms)} evaluations={evals} "
              f"distinct={len(distinct)} wall={ev['wall_s']}s")
    return exit_code


def replay(path):
    with open(path) as f:
        payload = json.load(f)
    print(json.dumps({k: payload[k] for k in payload if k not in ("all_failing_ops",)}, indent=1)[:4000])
    ops = payload.get("op_lines") or []
    if not ops:
        print("replay names broken obligations only (no failing input was found)")
        return 0
    genreg.main()
    regenerate()
    lake_build(["tfm"])
    cargo_build()
    text = "\n".join(ops) + "\n"
    p1 = subprocess.run([TFH, "run"], input=text, stdout=subprocess.PIPE, text=True, env=dict(os.environ, **payload.get("env", {})))
    p2 = subprocess.run([TFM], input=text, stdout=subprocess.PIPE, text=True)
    bad = 0
    outs = list(zip(ops, p1.stdout.split("\n"), p2.stdout.split("\n")))
    for i, (op, a, b) in enumerate(outs):
        print(f"op:    {op[:2000]}\nimpl:  {a[:2000]}\nmodel: {b[:2000]}")
        # with a history, only the last line is the claimed failure
        if i == len(outs) - 1 or len(outs) == 1:
            if "ORACLE-FAIL" in a or not a or (b != "skip" and a != "skip" and a.split("\t")[0] != b):
                bad += 1
    print("REPRODUCED" if bad else "not reproduced")
    return 1 if bad else 0


def main():
    args = sys.argv[1:]
    if not args:
        print("usage: check <Cxx> [--tier quick|thorough] | check replay <file>")
        return 2
    if args[0] == "replay":
        return replay(args[1])
    prop = args[0]
    tier = os.environ.get("VERIF_TIER", "quick")
    if "--tier" in args:
        tier = args[args.index("--tier") + 1]
    seed = int(os.environ.get("VERIF_SEED", "1"))
    return run_check(prop, tier, seed)


if __name__ == "__main__":
    sys.exit(main())
