#!/usr/bin/env python3
"""rs2lean_bfe.py -- extension of rs2lean_loops.py to functions over `BFieldElement` (C01) and the Tip5 state (C02).

A `BFieldElement` is its raw Montgomery word (Lean `Nat`), tracked as the separate scalar type "bfe" so that the
operators resolve to the *translated* field operations and never to machine arithmetic:

  `a + b`, `a - b`, `a * b`  (both operands bfe)   ->  `bfe_add a b`, `bfe_sub a b`, `bfe_mul a b`  (TF/Gen/BField.lean)
  `a += b` ..                                      ->  `a = a + b`  (the `*Assign` impls, checked to have that shape)
  `a == b`, `a != b`                               ->  equality of the raw words (derived `PartialEq`)
  `Self(w)` / `BFieldElement(w)`, `x.0`            ->  the word itself (type change u64 <-> bfe only)
  `BFieldElement::ZERO` / `ONE`                    ->  `bfe_new 0` / `bfe_new 1` (the argument is read from the `const` item)
  `TABLE[i]` for LOOKUP_TABLE / ROUND_CONSTANTS    ->  `TF.Gen.TABLE.getD i 0` (ROUND_CONSTANTS: `bfe_new` of the listed value)
  `w.to_le_bytes()`, `u64::from_le_bytes(b)`       ->  `TF.toLeBytes 8 w`, `TF.ofLeBytes b`  (TF/Model/WordBytes.lean)
  `self.state[i]` of `Tip5`                        ->  the state is a `List Nat` (16 raw words)

and to the following statement forms (everything else is REFUSED as before):

  `f(&mut place, ..);`  `x.m(..);`   call of a translated function with `&mut` parameters: the places are assigned the
                                     function's results (a function with `&mut` parameters returns
                                     `(value?, final values of the &mut parameters..)`)
  `assert_ne!(a, b, ..);` `assert_eq!(a, b, ..);`
  nested `fn` items (translated separately, the item itself is skipped; refused if it is not in the registry)
  calls that may run out of fuel *inside* an expression: hoisted into `Option.bind`s in evaluation order, but only through
  strict operators / call arguments (never out of `if`, `&&`, `||`)
  `match d { A => .., B => .. }` as a statement on a parameter of a field-less enum read from the source (exhaustive, unit
  patterns only)
  `a[..k].copy_from_slice(b)`, `a[i..j].copy_from_slice(b)`, `a[..k].try_into().unwrap()` (as the value of a function
  whose declared result is an array of exactly that length)
"""
import hashlib
import os
import re

import rs2lean_loops as L
from rs2lean import HEADER, INT_TYPES, OUT, NatEmitter, Unsupported, balanced, find_fn, write_if_changed
from rs2lean_loops import (ASSIGN_OPS, FnTranslator, K, LoopEmitter, LParser, expr_names, is_ivar, paren, tokenize,
                           tuple_term)

PREFIXES = ("Self", "BFieldElement", "Tip5", "<recv>")
OWNER_OF_PREFIX = {"BFieldElement": "BFieldElement", "Tip5": "Tip5"}

# shared by all emitters of one run (set by `run` / by the self-test)
CTX = {
    "sigs": {},         # rust name -> {"outs": [..], "has_ret": bool, "method": bool, "owner": str|None, "generics": int}
    "tables": {},       # rust name -> (lean name, element type, wrapper function or None, length)
    "bfe_consts": {},   # "ZERO" -> 0
    "ops": {},          # "+" -> "bfe_add"
    "assign_ops": set(),  # {"+=", ..}: the `*Assign` impl has the shape `*self = *self op rhs`
    "owner": None,      # impl the function being translated belongs to
    "enums": {},        # enum name -> [variant names]
    "named_consts": {},  # "Digest::LEN" -> (value, type)
}


def default_of(ty):
    return "[]" if isinstance(ty, tuple) and ty[0] in ("array", "vec") else "0"


# --------------------------------------------------------------------------------------------------------
# parser
# --------------------------------------------------------------------------------------------------------

class BfeParser(LParser):
    STRUCT_ARRAYS = dict(LParser.STRUCT_ARRAYS)

    def parse_unary(self):
        if self.peek()[1] == "&" and self.peek()[0] == "op" and self.peek(1)[1] == "mut" and self.peek(1)[0] == "id":
            self.next(); self.next()
            return ("mutref", self.parse_unary())
        return LParser.parse_unary(self)

    def parse_primary(self):
        # `Self { state }` / `Self { state: e }` / `Tip5 { state }`: the newtype-over-array struct literal
        if self.peek()[0] == "id" and self.peek()[1] in ("Self", "Tip5") and self.peek(1) == ("op", "{") \
                and self.peek(2) == ("id", "state") and self.peek(3)[1] in ("}", ":"):
            self.next(); self.next(); self.next()
            if self.accept(":"):
                e = self.parse_expr()
            else:
                e = ("path", ["state"])
            self.expect("}")
            return ("structlit", e)
        return LParser.parse_primary(self)

    def parse_postfix(self):
        # slices `a[..k]`, `a[i..j]` (only as receivers of copy_from_slice / try_into, checked by the emitter)
        e = self.parse_primary()
        while True:
            if self.accept("."):
                k, v = self.next()
                if k == "num":
                    e = ("field", e, int(v))
                elif k == "id":
                    if self.accept("("):
                        e = ("mcall", e, v, self.parse_args())
                    else:
                        e = ("fieldn", e, v)
                else:
                    raise Unsupported("postfix .")
            elif self.accept("["):
                lo = None
                if self.peek()[1] != "..":
                    lo = self.parse_expr(len(self.BIN) - 2)
                if self.accept(".."):
                    hi = self.parse_expr(len(self.BIN) - 2)
                    self.expect("]")
                    e = ("slice", e, lo, hi)
                else:
                    if self.peek()[1] != "]":       # the index was parsed only down to the additive level
                        raise Unsupported("index expression")
                    self.expect("]")
                    e = ("index", e, lo)
            else:
                return e

    def stmt_hook(self, stmts):
        k, v = self.peek()
        # nested items
        j = 0
        while self.peek(j)[0] == "id" and self.peek(j)[1] in ("pub", "const", "unsafe"):
            j += 1
        if self.peek(j) == ("id", "fn") and self.peek(j + 1)[0] == "id" and not (j == 1 and v == "const" and self.peek(2)[1] == ":"):
            for _ in range(j + 1):
                self.next()
            name = self.next()[1]
            depth = 0
            # skip the signature and the body
            while True:
                kk, vv = self.next()
                if kk == "eof":
                    raise Unsupported("nested fn item")
                if vv == "{" and kk == "op":
                    depth += 1
                elif vv == "}" and kk == "op":
                    depth -= 1
                    if depth == 0:
                        break
            stmts.append(("fnitem", name))
            return True
        if k == "id" and v == "use":
            # `use Domain::*;` only brings names into scope; enum variants are resolved against the enum read from the source
            while self.next()[1] != ";":
                if self.peek()[0] == "eof":
                    raise Unsupported("use item")
            return True
        if k == "id" and v in ("assert_ne", "assert_eq") and self.peek(1)[1] == "!":
            self.next(); self.next()
            self.expect("(")
            a = self.parse_expr()
            self.expect(",")
            b = self.parse_expr()
            depth = 1
            while depth:
                kk, vv = self.next()
                if kk == "eof":
                    raise Unsupported("assert")
                if vv == "(":
                    depth += 1
                elif vv == ")":
                    depth -= 1
            self.expect(";")
            stmts.append(("assert", ("bin", "!=" if v == "assert_ne" else "==", a, b)))
            return True
        if k == "id" and v == "match":
            self.next()
            scrut = self.parse_expr()
            self.expect("{")
            arms = []
            while not self.accept("}"):
                kk, pat = self.next()
                if kk != "id":
                    raise Unsupported("match pattern")
                path = [pat]
                while self.accept("::"):
                    path.append(self.next()[1])
                self.expect("=>")
                if self.peek()[1] == "{":
                    body = self.parse_block()
                elif self.peek()[1] == "(" and self.peek(1)[1] == ")":
                    self.next(); self.next()
                    body = []
                else:
                    raise Unsupported("match arm that is not a block or `()`")
                self.accept(",")
                arms.append((path, body))
            self.accept(";")
            stmts.append(("match", scrut, arms))
            return True
        if k == "id" and v not in ("let", "if", "while", "loop", "for", "return", "break", "continue", "assert",
                                   "debug_assert"):
            # `path(args);`  /  `recv.m(args);`  /  `a[..k].copy_from_slice(b);`
            save = self.i
            try:
                e = self.parse_expr()
            except Unsupported:
                self.i = save
                return False
            if e[0] in ("call", "mcall") and self.peek() == ("op", ";"):
                self.next()
                if e[0] == "call":
                    stmts.append(("callstmt", e, [a[1] for a in e[2] if a[0] == "mutref"]))
                elif e[2] == "copy_from_slice" and e[1][0] == "slice" and len(e[3]) == 1:
                    stmts.append(("copyslice", e[1], e[3][0], [e[1][1]]))
                else:
                    stmts.append(("mcallstmt", e))
                return True
            self.i = save
        return False


# `copyslice` assigns its base: teach the syntactic analysis of the base module (additive: unknown kinds were ignored)
_assigned_outer_base = L.assigned_outer


def _assigned_outer(stmts, local=None):
    local = set(local or ())
    out = []
    # same traversal as the base function, with the two statement kinds of this module added
    for st in stmts:
        if st[0] == "copyslice":
            n = L.lhs_base(st[3][0])
            if n not in local and n not in out:
                out.append(n)
        elif st[0] == "match":
            for _, body in st[2]:
                for n in _assigned_outer(body, local):
                    if n not in out:
                        out.append(n)
        else:
            for n in _assigned_outer_base([st], local):
                if n not in out:
                    out.append(n)
            if st[0] == "let":
                pat = st[1]
                for n in ([pat[1]] if pat[0] == "pid" else pat[1]):
                    local.add(n)
            elif st[0] == "letelse":
                local.add(st[1])
    return out


L.assigned_outer = _assigned_outer


# --------------------------------------------------------------------------------------------------------
# emitter
# --------------------------------------------------------------------------------------------------------

class BfeEmitter(LoopEmitter):
    ARRAY_FIELDS = ("values", "state")

    def __init__(self, consts, fns, pfns, self_name):
        LoopEmitter.__init__(self, consts, fns, pfns, self_name)
        self.allow_outs = False

    # ---- types
    def tyname(self, ty):
        if ty[0] == "named" and ty[1] == "BFieldElement":
            return "bfe"
        if ty[0] == "named" and ty[1] == "Digest":
            return ("array", "bfe")
        if ty[0] == "named" and ty[1] in CTX["enums"]:
            return ("enum", ty[1])
        if ty[0] == "named" and ty[1] == "Self" and self.self_ty_override is not None:
            return self.self_ty_override
        return LoopEmitter.tyname(self, ty)

    def param_type_ok(self, ty):
        if ty == "bfe":
            return True
        if isinstance(ty, tuple) and ty[0] == "enum":
            return True
        if isinstance(ty, tuple) and ty[0] in ("array", "vec"):
            return ty[1] in INT_TYPES or self.param_type_ok(ty[1])
        return False

    def resolve(self, t):
        if isinstance(t, tuple) and t and t[0] == "enum":
            return t
        return LoopEmitter.resolve(self, t)

    # ---- resolution of function names
    def lookup_fn(self, path):
        """rust name of a registered function called as `path(..)`, or None"""
        name = path[-1]
        if not (name in self.fns or name in self.pfns or name == self.self_name):
            return None
        if len(path) > 2 or (len(path) == 2 and path[0] not in PREFIXES):
            raise Unsupported(f"call {'::'.join(path)}: `{name}` is a translated function of another type")
        sig = CTX["sigs"].get(name, {})
        owner = sig.get("owner")
        if len(path) == 2 and path[0] == "Self" and owner != CTX["owner"]:
            raise Unsupported(f"Self::{name}: translated `{name}` belongs to {owner}")
        if len(path) == 2 and path[0] in OWNER_OF_PREFIX and owner != OWNER_OF_PREFIX[path[0]]:
            raise Unsupported(f"{path[0]}::{name}: translated `{name}` belongs to {owner}")
        if len(path) == 1 and owner is not None and not sig.get("free") and "::" not in name:
            raise Unsupported(f"{name}: translated `{name}` is an associated function of {owner}")
        return name

    def is_partial_call(self, e):
        if e[0] != "call":
            return False
        name = e[1][-1]
        if not (name in self.pfns or name == self.self_name):
            return False
        return self.lookup_fn(e[1]) is not None

    def total_call(self, name, args, env):
        lname, ptys, rty = self.fns[name]
        sig = CTX["sigs"].get(name, {})
        if sig.get("outs") and not self.allow_outs:
            raise Unsupported(f"call of {name} (writes through `&mut`) inside an expression")
        g = sig.get("generics", 0)
        if g:
            raise Unsupported(f"call of the const-generic function {name}")
        if len(ptys) != len(args):
            raise Unsupported(f"arity of {name}")
        parts = []
        for x, t in zip(args, ptys):
            tt, ty, ok = self.emit(x, env, t)
            self.unify(ty, t, f"argument of {name}")
            parts.append((tt, ok))
        argstr = " ".join(paren(p[0]) for p in parts)
        call = f"({lname} {argstr})".replace(" )", ")")
        return call, rty, self.conj(*[p[1] for p in parts], f"({lname}_ok {argstr})".replace(" )", ")"))

    # ---- expressions
    def emit(self, e, env, exp=None):
        k = e[0]
        exp = self.resolve(exp)
        if k == "mutref":
            return self.emit(e[1], env, exp)
        if k == "structlit":
            st = ("array", "bfe")
            if self.self_ty_override != st:
                raise Unsupported("struct literal outside an impl of the state type")
            t, ty, ok = self.emit(e[1], env, st)
            self.unify(ty, st, "struct literal")
            return t, st, ok
        if k == "path" and len(e[1]) == 2:
            a, b = e[1]
            if b in CTX["bfe_consts"] and (a == "BFieldElement" or (a == "Self" and self.self_ty_override == "bfe")):
                return f"(bfe_new {CTX['bfe_consts'][b]})", "bfe", None
            if "::".join(e[1]) in CTX["named_consts"]:
                v, ty = CTX["named_consts"]["::".join(e[1])]
                return str(v), ty, None
            if a in CTX["enums"] and b in CTX["enums"][a]:
                return str(CTX["enums"][a].index(b)), ("enum", a), None
        if k == "path" and len(e[1]) == 1 and e[1][0] not in env and e[1][0] in CTX["tables"]:
            lname, ety, wrap, n = CTX["tables"][e[1][0]]
            if wrap is None:
                return f"TF.Gen.{lname}", ("array", ety), None
        if k == "field" and e[2] == 0:
            t, ty, ok = self.emit(e[1], env, None)
            if self.resolve(ty) == "bfe":
                return t, "u64", ok
            raise Unsupported("tuple field access")
        if k == "index":
            base = e[1]
            if base[0] == "path" and len(base[1]) == 1 and base[1][0] not in env and base[1][0] in CTX["tables"]:
                lname, ety, wrap, n = CTX["tables"][base[1][0]]
                self.check_no_partial(e[2])
                i, ity, iok = self.emit(e[2], env, "usize")
                self.unify(ity, "usize", "array index")
                t = f"(TF.Gen.{lname}.getD {paren(i)} 0)"
                if wrap:
                    t = f"({wrap} {t})"
                return t, ety, self.conj(iok, f"decide ({i} < {n})")
            t, ety, _ = self.array_base(e[1], env)
            self.check_no_partial(e[2])
            i, ity, iok = self.emit(e[2], env, "usize")
            self.unify(ity, "usize", "array index")
            return f"({t}.getD {paren(i)} {default_of(ety)})", ety, self.conj(iok, f"decide ({i} < {t}.length)")
        if k == "call":
            path, args = e[1], e[2]
            name = path[-1]
            if len(path) == 1 and name in ("Self", "BFieldElement") and len(args) == 1:
                if name == "Self" and self.self_ty_override != "bfe":
                    raise Unsupported("Self(..) outside an impl of BFieldElement")
                t, ty, ok = self.emit(args[0], env, "u64")
                self.unify(ty, "u64", "BFieldElement(raw word)")
                return t, "bfe", ok
            if path == ["u64", "from_le_bytes"] and len(args) == 1:
                t, ty, ok = self.emit(args[0], env, ("array", "u8"))
                self.unify(ty, ("array", "u8"), "from_le_bytes")
                return f"(TF.ofLeBytes {paren(t)})", "u64", self.conj(ok, f"({t}.length == 8)")
            if path == ["Vec", "new"] and not args:
                return LoopEmitter.emit(self, e, env, exp)
            fn = self.lookup_fn(path)
            if fn is not None:
                if fn in self.pfns or fn == self.self_name:
                    raise Unsupported(f"call of {fn} (may not terminate within its fuel) inside an expression")
                return self.total_call(fn, args, env)
            if name in ("new", "from_raw_u64", "montyred", "zero", "one") or path[0] in ("Self", "BFieldElement", "Tip5"):
                raise Unsupported(f"call {'::'.join(path)}")
        if k == "mcall":
            recv, name, args = e[1], e[2], e[3]
            if name == "to_le_bytes" and not args:
                t, ty, ok = self.emit(recv, env, None)
                if self.resolve(ty) != "u64":
                    raise Unsupported("to_le_bytes on anything but u64")
                return f"(TF.toLeBytes 8 {paren(t)})", ("array", "u8"), ok
            if name == "unwrap" and not args and recv[0] == "mcall" and recv[2] == "try_into" and not recv[3] \
                    and recv[1][0] == "slice":
                # `a[lo..hi].try_into().unwrap()`: succeeds iff the slice has exactly the length of the target array type
                if not (isinstance(exp, tuple) and exp[0] == "array" and getattr(self, "expected_len", None) is not None):
                    raise Unsupported("try_into().unwrap() where the target array length is not known")
                t, ty, ok, ln = self.emit_slice(recv[1], env)
                self.unify(ty, exp, "try_into target")
                return t, ty, self.conj(ok, f"({ln} == {self.expected_len})")
            if name == "len" and not args:
                t, ty, ok = self.emit(recv, env, None)
                ty = self.resolve(ty)
                if isinstance(ty, tuple) and ty[0] in ("vec", "array"):
                    return f"{t}.length", "usize", ok
                raise Unsupported("len() of a non-array")
            if name in ("clone", "to_owned") and not args:
                return self.emit(recv, env, exp)
        if k == "slice":
            raise Unsupported("slice expression outside copy_from_slice / try_into().unwrap()")
        return LoopEmitter.emit(self, e, env, exp)

    def emit_slice(self, e, env):
        """`a[lo..hi]` -> (term, type, ok, length term)"""
        _, base, lo, hi = e
        t, ety, _ = self.array_base(base, env)
        h, hty, hok = self.emit(hi, env, "usize")
        self.unify(hty, "usize", "slice bound")
        if lo is None:
            return f"({t}.take {paren(h)})", ("array", ety), self.conj(hok, f"decide ({h} ≤ {t}.length)"), h
        l, lty, lok = self.emit(lo, env, "usize")
        self.unify(lty, "usize", "slice bound")
        return (f"(({t}.drop {paren(l)}).take ({h} - {l}))", ("array", ety),
                self.conj(lok, hok, f"decide ({l} ≤ {h})", f"decide ({h} ≤ {t}.length)"), f"({h} - {l})")

    def unify(self, a, b, what=""):
        ra, rb = self.resolve(a), self.resolve(b)
        if isinstance(ra, tuple) and isinstance(rb, tuple) and ra and rb and ra[0] == rb[0] == "enum":
            if ra == rb:
                return ra
            raise Unsupported(f"type mismatch {what}: {ra} vs {rb}")
        # an array is a Vec for reading purposes only when the types agree exactly; no implicit conversion
        return LoopEmitter.unify(self, a, b, what)

    def emit_bin(self, e, env, exp):
        _, op, l, r = e
        if op in ("+", "-", "*", "==", "!=") and l[0] != "lit":
            saved = self.dirty
            a, aty, aok = self.emit(l, env, None)
            self.dirty = saved
            if self.resolve(aty) == "bfe":
                b, bty, bok = self.emit(r, env, "bfe")
                if self.resolve(bty) != "bfe":
                    raise Unsupported(f"operator {op}: BFieldElement and {bty}")
                if op in ("==", "!="):
                    return f"({a} {op} {b})", "bool", self.conj(aok, bok)
                if op not in CTX["ops"]:
                    raise Unsupported(f"operator {op} of BFieldElement is not translated")
                f = CTX["ops"][op]
                return f"({f} {paren(a)} {paren(b)})", "bfe", self.conj(aok, bok, f"({f}_ok {paren(a)} {paren(b)})")
        elif op in ("+", "-", "*", "==", "!="):
            b, bty, bok = self.emit(r, env, None)
            if self.resolve(bty) == "bfe":
                raise Unsupported("integer literal combined with a BFieldElement")
        else:
            saved = self.dirty
            a, aty, aok = self.emit(l, env, None)
            self.dirty = saved
            if self.resolve(aty) == "bfe":
                raise Unsupported(f"operator {op} on BFieldElement")
        return LoopEmitter.emit_bin(self, e, env, exp)


# --------------------------------------------------------------------------------------------------------
# statements
# --------------------------------------------------------------------------------------------------------

def map_ast(x, f):
    """bottom-up rewrite of every tuple node"""
    if isinstance(x, tuple):
        return f(tuple(map_ast(y, f) for y in x))
    if isinstance(x, list):
        return [map_ast(y, f) for y in x]
    return x


class BfeFnTranslator(FnTranslator):
    EMITTER = BfeEmitter
    PARSER = BfeParser
    SUPPORTS_INOUT = True

    # ---- AST preparation: method calls of translated methods become calls with the receiver as first argument
    def prepare(self, stmts):
        sigs = CTX["sigs"]

        def norm(node):
            if node and node[0] == "mcall" and node[2] in sigs and sigs[node[2]].get("method") \
                    and len(node) == 4:
                return ("call", ["<recv>", node[2]], [node[1]] + list(node[3]))
            return node
        stmts = map_ast(stmts, norm)

        def qualify(node):
            # `Self::new(..)` inside `impl Tip5` when the registry has the qualified key `Tip5::new`
            if node and node[0] == "call" and len(node[1]) == 2:
                owner = CTX["owner"] if node[1][0] == "Self" else node[1][0]
                q = f"{owner}::{node[1][1]}"
                if q in self.em.fns or q in self.em.pfns:
                    return ("call", [q], node[2])
            return node
        stmts = map_ast(stmts, qualify)
        # `match` on a field-less enum becomes an if-chain here (so that the syntactic analyses of the base module see
        # the loops / calls inside the arms); the scrutinee's type is checked when the comparisons are emitted
        stmts = map_ast(stmts, lambda node: self.desugar_match(node) if node and node[0] == "match" else node)

        def fix(node):
            if node and node[0] == "mcallstmt" and node[1][0] == "call":
                e = node[1]
                sig = sigs[e[1][-1]]
                return ("callstmt", e, [e[2][j - sig.get("generics", 0)] for j in sig["outs"]])
            if node and node[0] == "callstmt":
                e = node[1]
                name = e[1][-1]
                if name in sigs:
                    sig = sigs[name]
                    targets = []
                    for j in sig["outs"]:
                        a = e[2][j - sig.get("generics", 0)] if j - sig.get("generics", 0) < len(e[2]) else None
                        if a is None:
                            raise Unsupported(f"arity of {name}")
                        targets.append(a[1] if a[0] == "mutref" else a)
                    return ("callstmt", e, targets)
            return node
        return map_ast(stmts, fix)

    # ---- result of a function with `&mut` parameters: (value?, final values of the &mut parameters ..)
    def adjust_result(self):
        names = [n for n, _ in self.params]
        self.out_names = [n for n in names if n in self.inouts or (n == "self" and self.mut_self)]
        self.has_ret = self.ret_ast is not None
        self.ret_base = self.em.tyname(self.ret_ast) if self.has_ret else None
        self.em.expected_len = None
        if self.has_ret and self.ret_ast[0] == "array" and len(self.ret_ast) == 3 and self.ret_ast[2] is not None:
            try:
                t, ty, ok = self.em.emit(self.ret_ast[2], {}, "usize")
                if ok is None:
                    self.em.expected_len = t
            except Unsupported:
                pass        # a length that is not a constant expression: try_into().unwrap() is refused in this function
        if self.has_ret and self.ret_ast == ("named", "Digest") and "Digest::LEN" in CTX["named_consts"]:
            self.em.expected_len = str(CTX["named_consts"]["Digest::LEN"][0])
        if not self.out_names:
            return
        comps = ([self.ret_base] if self.has_ret else []) + [dict(self.params)[n] for n in self.out_names]
        self.rty = comps[0] if len(comps) == 1 else ("tuple", comps)
        self.returns_self = False

    def outs_terms(self, env):
        ts = []
        for n in self.out_names:
            if env[n][0] is None:
                raise Unsupported(f"{n} is not initialised")
            ts.append(env[n][0])
        return ts

    def ret_value(self, e, env):
        if not getattr(self, "out_names", None):
            return FnTranslator.ret_value(self, e, env)
        em = self.em
        if not self.has_ret:
            if e is not None:
                raise Unsupported("value returned from a function without result type")
            return self.wrap(tuple_term(self.outs_terms(env))), None
        if e is None:
            raise Unsupported("return without value")
        em.check_no_partial(e)
        v, vty, vok = em.emit(e, env, self.ret_base)
        em.unify(vty, self.ret_base, "return value")
        return self.wrap(tuple_term([v] + self.outs_terms(env))), vok

    def fall_off_end(self, env):
        if not getattr(self, "out_names", None):
            return FnTranslator.fall_off_end(self, env)
        if self.has_ret:
            raise Unsupported("function body ends without a value")
        return self.wrap(tuple_term(self.outs_terms(env))), None

    # ---- hoisting of calls that may run out of fuel
    def contains_partial(self, e):
        names = expr_names(e, set())
        return any(n.startswith("call:") and (n[5:] in self.em.pfns or n[5:] == self.rust_name) for n in names)

    def hoist_expr(self, e, acc, top_ok):
        """rewrite `e`, moving partial calls into `acc` (list of (temp name, call)); `top_ok`: `e` itself may stay a call"""
        if not isinstance(e, tuple) or not self.contains_partial(e):
            return e
        k = e[0]
        if k == "call":
            args = [self.hoist_expr(a, acc, False) for a in e[2]]
            e2 = ("call", e[1], args)
            if self.em.is_partial_call(e2):
                if top_ok:
                    return e2
                self.hoist_counter += 1
                tmp = f"t_{e[1][-1]}_{self.hoist_counter}"
                acc.append((tmp, e2))
                return ("path", [tmp])
            return e2
        if k == "bin" and e[1] not in ("&&", "||"):
            l = self.hoist_expr(e[2], acc, False)
            r = self.hoist_expr(e[3], acc, False)
            return ("bin", e[1], l, r)
        if k in ("cast", "field", "fieldn", "not", "neg", "mutref"):
            return (k, self.hoist_expr(e[1], acc, False)) + tuple(e[2:])
        if k == "mcall":
            return ("mcall", self.hoist_expr(e[1], acc, False), e[2], [self.hoist_expr(a, acc, False) for a in e[3]])
        if k == "index":
            return ("index", self.hoist_expr(e[1], acc, False), self.hoist_expr(e[2], acc, False))
        if k == "tuple":
            return ("tuple", [self.hoist_expr(a, acc, False) for a in e[1]])
        raise Unsupported(f"call that may not terminate within its fuel inside a `{k}` expression")

    def hoist(self, stmts, i, env):
        st = stmts[i]
        kind = st[0]
        acc = []
        if kind == "let" and st[3] is not None and self.contains_partial(st[3]):
            e2 = self.hoist_expr(st[3], acc, True)
            new = ("let", st[1], st[2], e2, st[4])
        elif kind == "tail" and self.contains_partial(st[1]):
            e2 = self.hoist_expr(st[1], acc, not getattr(self, "out_names", None))
            new = ("tail", e2)
        elif kind == "return" and st[1] is not None and self.contains_partial(st[1]):
            e2 = self.hoist_expr(st[1], acc, not getattr(self, "out_names", None))
            new = ("return", e2)
        elif kind == "assign" and self.contains_partial(st[3]):
            if self.contains_partial(st[1]):
                raise Unsupported("call that may not terminate within its fuel in an assignment target")
            e2 = self.hoist_expr(st[3], acc, False)
            new = ("assign", st[1], st[2], e2)
        elif kind == "assert" and self.contains_partial(st[1]):
            e2 = self.hoist_expr(st[1], acc, False)
            new = ("assert", e2)
        elif kind == "callstmt" and self.contains_partial(st[1]):
            e = st[1]
            args = [self.hoist_expr(a, acc, False) for a in e[2]]
            new = ("callstmt", ("call", e[1], args), st[2])
        else:
            return None
        if not acc:
            return None
        for n, _ in acc:
            if n in env:
                raise Unsupported(f"temporary name {n} clashes with a variable")
        lets = [("let", ("pid", n), None, c, ("hoist", n)) for n, c in acc]
        return stmts[:i] + lets + [new] + stmts[i + 1:]

    def translate(self):
        self.hoist_counter = 0
        return FnTranslator.translate(self)

    def run_pass(self):
        self.hoist_counter = 0
        return FnTranslator.run_pass(self)

    # ---- statements
    def seq(self, stmts, i, env, k, ctl):
        em = self.em
        if i < len(stmts):
            h = self.hoist(stmts, i, env)
            if h is not None:
                return self.seq(h, i, env, k, ctl)
            st = stmts[i]
            kind = st[0]
            if kind == "fnitem":
                if st[1] not in em.fns and st[1] not in em.pfns:
                    raise Unsupported(f"nested fn {st[1]} is not translated")
                if not CTX["sigs"].get(st[1], {}).get("free"):
                    raise Unsupported(f"nested fn {st[1]}: the registered function of that name is not this item")
                return self.seq(stmts, i + 1, env, k, ctl)
            if kind == "callstmt":
                return self.do_callstmt(st, stmts, i, env, k, ctl)
            if kind == "copyslice":
                return self.do_copyslice(st, stmts, i, env, k, ctl)
            if kind == "match":
                raise Unsupported("match statement that was not desugared")
            if kind == "assign" and ASSIGN_OPS[st[2]] is not None:
                # compound assignment on a BFieldElement: only when the `*Assign` impl is `*self = *self op rhs`
                saved = em.dirty
                try:
                    _, lty, _ = em.emit(st[1], env, None)
                except Unsupported:
                    lty = None
                em.dirty = saved
                if em.resolve(lty) == "bfe" and st[2] not in CTX["assign_ops"]:
                    raise Unsupported(f"operator {st[2]} of BFieldElement is not translated")
        return FnTranslator.seq(self, stmts, i, env, k, ctl)

    def do_callstmt(self, st, stmts, i, env, k, ctl):
        em = self.em
        _, e, targets = st
        name = em.lookup_fn(e[1])
        if name is None:
            raise Unsupported(f"call statement of the untranslated function {'::'.join(e[1])}")
        sig = CTX["sigs"].get(name)
        if not sig or not sig["outs"]:
            raise Unsupported(f"call statement of {name}, which has no `&mut` parameter (its value would be dropped)")
        if sig["has_ret"]:
            raise Unsupported(f"call statement of {name}: its value is dropped")
        if len(targets) != len(sig["outs"]):
            raise Unsupported(f"call statement of {name}: `&mut` arguments")
        for j, a in enumerate(e[2]):
            is_out = (j + sig.get("generics", 0)) in sig["outs"]
            if a[0] == "mutref" and not is_out:
                raise Unsupported(f"`&mut` argument for a parameter of {name} that is not `&mut`")
            if is_out and a[0] != "mutref" and not (sig.get("method") and j == 0):
                raise Unsupported(f"argument {j} of {name} must be `&mut`")
        partial = name in em.pfns or name == self.rust_name
        if partial:
            call, rty, cok = self.partial_call(e, env)
        else:
            em.allow_outs = True
            try:
                call, rty, cok = em.total_call(name, e[2], env)
            finally:
                em.allow_outs = False
        rty = em.resolve(rty)
        env2 = dict(env)
        tmp = em.fresh("t_" + name, env2)
        env2["\0tmp"] = (tmp, None)
        binds = []
        oks = []
        if len(targets) == 1:
            comps = [(tmp, rty)]
        else:
            comps = [(NatEmitter.proj(tmp, idx, len(targets)), t) for idx, t in enumerate(rty[1])]
        for target, (comp, cty) in zip(targets, comps):
            ln, val, ok, env2 = self.assign_target(target, comp, cty, env2)
            binds.append((ln, val))
            oks.append(ok)
        del env2["\0tmp"]
        bt, bok = self.seq(stmts, i + 1, env2, k, ctl)
        term, okt = bt, bok
        for (ln, val), ok in reversed(list(zip(binds, oks))):
            term = self.let_(ln, val, term)
            okt = self.conj(ok, "(" + self.let_(ln, val, okt) + ")") if okt else ok
        if partial:
            return self.match_option(call, cok, tmp, term, okt)
        return self.let_(tmp, call, term), self.let_ok(tmp, call, cok, okt)

    def do_copyslice(self, st, stmts, i, env, k, ctl):
        em = self.em
        _, sl, src, _ = st
        em.check_no_partial(src)
        em.check_no_partial(sl)
        t, ety, name = em.array_base(sl[1], env)
        s, sty, sok = em.emit(src, env, ("array", ety))
        sty = em.resolve(sty)
        if not (isinstance(sty, tuple) and sty[0] in ("array", "vec")):
            raise Unsupported("copy_from_slice from a non-array")
        em.unify(sty[1], ety, "copy_from_slice")
        _, _, slok, ln = em.emit_slice(sl, env)
        hi, _, _ = em.emit(sl[3], env, "usize")
        if sl[2] is None:
            val = f"{paren(s)} ++ {t}.drop {paren(hi)}"
        else:
            lo, _, _ = em.emit(sl[2], env, "usize")
            val = f"{t}.take {paren(lo)} ++ {paren(s)} ++ {t}.drop {paren(hi)}"
        ok = self.conj(sok, slok, f"({paren(s)}.length == {ln})")
        bt, bok = self.seq(stmts, i + 1, dict(env), k, ctl)
        return self.let_(t, val, bt), self.let_ok(t, val, ok, bok)

    def desugar_match(self, st):
        """`match x { A => {..}, B => {..} }` on a field-less enum: an if-chain on the variant index"""
        _, scrut, arms = st
        names = [path[-1] for path, _ in arms]
        cands = [en for en, vs in CTX["enums"].items() if all(n in vs for n in names)]
        if len(cands) != 1:
            raise Unsupported("match on something that is not a known field-less enum")
        ty = ("enum", cands[0])
        variants = CTX["enums"][ty[1]]
        if len(variants) < 2:
            raise Unsupported("match on a single-variant enum")
        seen = []
        for path, body in arms:
            v = path[-1]
            if v not in variants or (len(path) == 2 and path[0] != ty[1]) or len(path) > 2:
                raise Unsupported(f"match pattern {'::'.join(path)}")
            if v in seen:
                raise Unsupported("duplicate match arm")
            seen.append(v)
        if sorted(seen) != sorted(variants):
            raise Unsupported("match is not exhaustive over the variants read from the source")
        # desugar into nested `if`s and let the base translator merge the branches
        chain = None
        for path, body in reversed(arms):
            idx = variants.index(path[-1])
            if chain is None:
                chain = body
            else:
                cond = ("bin", "==", scrut, ("path", [ty[1], path[-1]]))
                chain = [("if", cond, body, chain)]
        return chain[0]


# enum values compare with `==` on their variant index
_emit_bin_loop = LoopEmitter.emit_bin


def _bfe_emit_bin(self, e, env, exp):
    _, op, l, r = e
    if op == "==" and r[0] == "path" and len(r[1]) == 2 and r[1][0] in CTX["enums"]:
        a, aty, aok = self.emit(l, env, None)
        b, bty, bok = self.emit(r, env, None)
        self.unify(aty, bty, "enum comparison")
        return f"({a} == {b})", "bool", self.conj(aok, bok)
    return BfeEmitter._emit_bin_fields(self, e, env, exp)


BfeEmitter._emit_bin_fields = BfeEmitter.emit_bin
BfeEmitter.emit_bin = _bfe_emit_bin


# --------------------------------------------------------------------------------------------------------
# driver
# --------------------------------------------------------------------------------------------------------

def read_bfe_consts(bfe_src):
    out = {}
    for name, trait in (("ZERO", "ConstZero"), ("ONE", "ConstOne")):
        m = re.search(r"impl\s+" + trait + r"\s+for\s+BFieldElement\s*\{\s*const\s+" + name +
                      r"\s*:\s*Self\s*=\s*Self::new\(\s*([0-9_]+)\s*\)\s*;\s*\}", bfe_src)
        if m:
            out[name] = int(m.group(1).replace("_", ""))
    return out


def read_assign_ops(bfe_src):
    """`impl MulAssign for BFieldElement { fn mul_assign(&mut self, rhs: Self) { *self = *self * rhs; } }`"""
    out = set()
    for trait, fn, op in (("AddAssign", "add_assign", "+"), ("SubAssign", "sub_assign", "-"), ("MulAssign", "mul_assign", "*")):
        m = re.search(r"impl\s+" + trait + r"\s+for\s+BFieldElement\s*\{(.*?)\n\}", bfe_src, flags=re.S)
        if not m:
            continue
        body = re.sub(r"#\[[^\]]*\]", "", m.group(1))
        if re.fullmatch(r"\s*fn\s+" + fn + r"\(&mut\s+self,\s*rhs:\s*Self\)\s*\{\s*\*self\s*=\s*\*self\s*" + re.escape(op) +
                        r"\s*rhs\s*;?\s*\}\s*", body):
            out.add(op + "=")
    return out


def read_enum(src, name):
    m = re.search(r"\benum\s+" + name + r"\s*\{", src)
    if not m:
        return None
    st = m.end() - 1
    en = balanced(src, st)
    body = re.sub(r"#\[[^\]]*\]", "", src[st + 1:en - 1])
    vs = [x.strip() for x in body.split(",") if x.strip()]
    if not all(re.fullmatch(r"[A-Za-z_][A-Za-z0-9_]*", v) for v in vs):
        return None
    return vs


def table_is_bfe_new(tip5_src, name, n):
    m = re.search(r"\b" + name + r"\s*:\s*\[[^\]]*\]\s*=\s*\[", tip5_src)
    if not m:
        return False
    st = m.end() - 1
    en = balanced(tip5_src, st, "[", "]")
    body = tip5_src[st + 1:en - 1]
    return len(re.findall(r"BFieldElement::new\(\s*[0-9a-fA-Fx_]+\s*\)", body)) == n and \
        len([x for x in body.split(",") if x.strip()]) == n


GENFN_WRAPPER = '''/-- `generated_function(&x)` (twenty-first/src/math/mds.rs) for an array given as a list of words: the straight-line
    `UInt64` translation `TF.Gen.generated_function` applied to `x[0] … x[15]` -/
def generated_function_nat (input : List Nat) : List Nat :=
  (generated_function {args}).map UInt64.toNat

/-- `generated_function` indexes `input[0] … input[15]` -/
def generated_function_nat_ok (input : List Nat) : Bool :=
  decide (16 ≤ input.length)
'''


def run_group(status, changed, out_name, header_src, imports, specs, read_src, tfns, pfns, preamble="", outside=()):
    """specs: (lean name, rust name, fuel, file, owner, self_ty, kw) ; like rs2lean_loops.run_group with the bfe classes"""
    out = [HEADER.format(src=header_src).replace("rs2lean.py", "rs2lean.py (rs2lean_bfe.py)")]
    out += [f"import {m}\n" for m in imports]
    out += ["set_option linter.unusedVariables false\n", "namespace TF.Gen.Loops\nopen TF.Gen\n"]
    if preamble:
        out.append(preamble)
    for lname, rname, fuel, rel, owner, self_ty, kw in specs:
        src = read_src(rel)
        key = f"fn {lname}"
        if src is None:
            status["failed"][key] = "loops: source file not readable"
            continue
        CTX["owner"] = owner
        info = {}
        consts = kw.pop("consts", {})
        free = kw.pop("free", False)
        kw_key = kw.pop("key", None)       # registry key when the bare name is taken by another type's function
        try:
            text, ptys, rty, partial = L.translate_fn(src, rname, lname, rel, consts, tfns, pfns, fuel, self_ty=self_ty,
                                                      translator_cls=BfeFnTranslator, info=info, **kw)
        except Unsupported as ex:
            status["failed"][key] = "loops: " + str(ex)
            continue
        except Exception as ex:      # a translator crash is also a refusal, never a guess
            status["failed"][key] = f"loops: internal: {type(ex).__name__}: {ex}"
            continue
        out.append(text)
        key_name = kw_key or rname
        (pfns if partial else tfns)[key_name] = (lname, ptys, rty)
        info["owner"] = owner
        info["free"] = free
        if "::" in key_name:
            info["method"] = False
        CTX["sigs"][key_name] = info
        status["translated"][lname] = {"source": rel, "sha256": hashlib.sha256(text.encode()).hexdigest()[:16],
                                       "loops": True, "fuel": fuel}
    for lname, rname, fuel, rel, owner, self_ty, kw in outside:
        src = read_src(rel)
        CTX["owner"] = owner
        kw = dict(kw)
        consts = kw.pop("consts", {})
        kw.pop("free", None)
        kw.pop("key", None)
        try:
            L.translate_fn(src, rname, lname, rel, consts, tfns, pfns, fuel, self_ty=self_ty,
                           translator_cls=BfeFnTranslator, **kw)
            status.setdefault("outside_subset", {})[lname] = "translatable now (not emitted: not in the table of translated functions)"
        except Exception as ex:
            status.setdefault("outside_subset", {})[lname] = str(ex)
    out.append("end TF.Gen.Loops\n")
    if write_if_changed(os.path.join(OUT, out_name + ".lean"), "\n".join(out)):
        changed.append(out_name)


def reset_ctx():
    for k in ("sigs", "tables", "bfe_consts", "ops", "enums", "named_consts"):
        CTX[k] = {}
    CTX["assign_ops"] = set()
    CTX["owner"] = None


def run(status, changed, fns, read_src):
    """called by rs2lean_loops.run; `fns`: registry of rs2lean.py (rust name -> (lean name, param types, result type))"""
    reset_ctx()
    bfe_rel = "twenty-first/src/math/b_field_element.rs"
    tip5_rel = "twenty-first/src/math/tip5.rs"
    traits_rel = "twenty-first/src/math/traits.rs"
    sponge_rel = "twenty-first/src/util_types/sponge.rs"
    bfe = read_src(bfe_rel) or ""
    tip5 = read_src(tip5_rel) or ""
    cst = status.get("constants", {})

    # the loop-free translations of rs2lean.py with BFieldElement-typed signatures
    tfns, pfns = {}, {}
    base = {"montyred": ("montyred", ["u128"], "u64", None), "new": ("bfe_new", ["u64"], "bfe", "BFieldElement"),
            "canonical_representation": ("bfe_value", ["bfe"], "u64", "BFieldElement")}
    for rn, (ln, ptys, rty, owner) in base.items():
        if fns.get(rn) is not None and fns[rn][0] == ln:
            tfns[rn] = (ln, ptys, rty)
            CTX["sigs"][rn] = {"outs": [], "has_ret": True, "method": rn == "canonical_representation",
                               "owner": "BFieldElement", "free": False, "generics": 0}
    for op, rn, ln in (("+", "add", "bfe_add"), ("-", "sub", "bfe_sub"), ("*", "mul", "bfe_mul")):
        if fns.get(rn) is not None and fns[rn][0] == ln:
            CTX["ops"][op] = ln
    CTX["bfe_consts"] = read_bfe_consts(bfe)
    CTX["assign_ops"] = {o for o in read_assign_ops(bfe) if o[0] in CTX["ops"]}
    P = {k: (v, "u64") for k, v in cst.items() if k in ("P", "R2")}

    B = "BFieldElement"
    bkw = lambda after, **kw: dict({"after": after, "consts": dict(P)}, **kw)
    IMPL = r"impl BFieldElement \{"
    bfe_specs = [
        # (lean name, rust name, fuel, file, owner, type of Self, kw)
        ("bfe_from_raw_u64", "from_raw_u64", L.DEFAULT_FUEL, bfe_rel, B, "bfe", bkw(IMPL)),
        ("bfe_raw_u64", "raw_u64", L.DEFAULT_FUEL, bfe_rel, B, "bfe", bkw(IMPL)),
        ("bfe_raw_bytes", "raw_bytes", L.DEFAULT_FUEL, bfe_rel, B, "bfe", bkw(IMPL)),
        ("bfe_from_raw_bytes", "from_raw_bytes", L.DEFAULT_FUEL, bfe_rel, B, "bfe", bkw(IMPL)),
        ("bfe_zero", "zero", L.DEFAULT_FUEL, bfe_rel, B, "bfe", bkw(r"impl Zero for BFieldElement")),
        ("bfe_is_zero", "is_zero", L.DEFAULT_FUEL, bfe_rel, B, "bfe", bkw(r"impl Zero for BFieldElement")),
        ("bfe_one", "one", L.DEFAULT_FUEL, bfe_rel, B, "bfe", bkw(r"impl One for BFieldElement")),
        ("bfe_square", "square", L.DEFAULT_FUEL, traits_rel, B, "bfe", bkw(r"trait FiniteField")),
        ("bfe_mod_pow", "mod_pow", L.DEFAULT_FUEL, bfe_rel, B, "bfe", bkw(IMPL)),
        ("bfe_mod_pow_u32", "mod_pow_u32", L.DEFAULT_FUEL, bfe_rel, B, "bfe", bkw(r"impl ModPowU32 for BFieldElement")),
        ("bfe_mod_pow_u64", "mod_pow_u64", L.DEFAULT_FUEL, bfe_rel, B, "bfe", bkw(r"impl ModPowU64 for BFieldElement")),
        # `while i < exponent`: one more loop-head evaluation than iterations
        ("bfe_inverse_exp", "exp", "(exponent + 1)", bfe_rel, B, "bfe", bkw(r"impl Inverse for BFieldElement", free=True)),
        ("bfe_inverse", "inverse", L.DEFAULT_FUEL, bfe_rel, B, "bfe", bkw(r"impl Inverse for BFieldElement")),
        ("bfe_power_accumulator", "power_accumulator", "(N + M + 1)", bfe_rel, B, "bfe", bkw(IMPL, generic=["N", "M"])),
    ]
    bfe_outside = [
        # `FiniteField::batch_inversion` (a provided trait method) instantiated at Self = BFieldElement
        ("bfe_batch_inversion", "batch_inversion", L.DEFAULT_FUEL, traits_rel, B, "bfe", bkw(r"trait FiniteField")),
    ]
    run_group(status, changed, "BFieldLoops", bfe_rel + ", " + traits_rel, ["TF.Gen.BField", "TF.Model.WordBytes"],
              bfe_specs, read_src, tfns, pfns, outside=bfe_outside)

    # ---------------------------------------------------------------- Tip5
    if "LOOKUP_TABLE" in cst:
        CTX["tables"]["LOOKUP_TABLE"] = ("LOOKUP_TABLE", "u8", None, 256)
        m = re.search(r"LOOKUP_TABLE\s*:\s*\[\s*u8\s*;\s*([0-9]+)\s*\]", tip5)
        if not m:
            del CTX["tables"]["LOOKUP_TABLE"]
        else:
            CTX["tables"]["LOOKUP_TABLE"] = ("LOOKUP_TABLE", "u8", None, int(m.group(1)))
    sizes = {k: (cst[k], "usize") for k in ("STATE_SIZE", "NUM_SPLIT_AND_LOOKUP", "LOG2_STATE_SIZE", "CAPACITY", "RATE",
                                            "NUM_ROUNDS") if k in cst}
    if "ROUND_CONSTANTS" in cst and "NUM_ROUNDS" in cst and "STATE_SIZE" in cst and "new" in tfns:
        n = cst["NUM_ROUNDS"] * cst["STATE_SIZE"]
        if re.search(r"ROUND_CONSTANTS\s*:\s*\[\s*BFieldElement\s*;\s*NUM_ROUNDS\s*\*\s*STATE_SIZE\s*\]", tip5) and \
                table_is_bfe_new(tip5, "ROUND_CONSTANTS", n):
            CTX["tables"]["ROUND_CONSTANTS"] = ("ROUND_CONSTANTS", "bfe", "bfe_new", n)
    if "DIGEST_LEN" in cst:
        CTX["named_consts"]["Digest::LEN"] = (cst["DIGEST_LEN"], "usize")
    sponge = read_src(sponge_rel) or ""
    dom = read_enum(sponge, "Domain")
    if dom:
        CTX["enums"]["Domain"] = dom
    preamble = ""
    if "generated_function" in status.get("translated", {}):
        args = " ".join(f"(UInt64.ofNat (input.getD {i} 0))" for i in range(16))
        preamble = GENFN_WRAPPER.format(args=args)
        tfns["generated_function"] = ("generated_function_nat", [("array", "u64")], ("array", "u64"))
        CTX["sigs"]["generated_function"] = {"outs": [], "has_ret": True, "method": False, "owner": None, "free": True,
                                             "generics": 0}
    T = "Tip5"
    st = ("array", "bfe")
    tkw = lambda **kw: dict({"after": r"impl Tip5 \{", "consts": dict(sizes)}, **kw)
    tip5_specs = [
        ("tip5_split_and_lookup", "split_and_lookup", L.DEFAULT_FUEL, tip5_rel, T, st, tkw()),
        ("tip5_sbox_layer", "sbox_layer", L.DEFAULT_FUEL, tip5_rel, T, st, tkw()),
        ("tip5_mds_generated", "mds_generated", L.DEFAULT_FUEL, tip5_rel, T, st, tkw()),
        ("tip5_round", "round", L.DEFAULT_FUEL, tip5_rel, T, st, tkw()),
        ("tip5_permutation", "permutation", L.DEFAULT_FUEL, tip5_rel, T, st, tkw()),
        ("tip5_trace", "trace", L.DEFAULT_FUEL, tip5_rel, T, st, tkw()),
        ("tip5_new", "new", L.DEFAULT_FUEL, tip5_rel, T, st, tkw(key="Tip5::new")),
        ("tip5_hash_10", "hash_10", L.DEFAULT_FUEL, tip5_rel, T, st, tkw()),
    ]
    tip5_outside = [
        ("tip5_hash_pair", "hash_pair", L.DEFAULT_FUEL, tip5_rel, T, st, tkw()),
    ]
    BfeParser.STRUCT_ARRAYS = dict(LParser.STRUCT_ARRAYS)
    run_group(status, changed, "Tip5Loops", tip5_rel, ["TF.Gen.Consts", "TF.Gen.Tip5", "TF.Gen.BFieldLoops"], tip5_specs, read_src,
              tfns, pfns, preamble=preamble, outside=tip5_outside)
