#!/usr/bin/env python3
"""rs2lean_loops.py -- extension of rs2lean.py to integer functions with loops.

Subset (anything else is REFUSED, recorded in TF/Gen/status.json under "failed", never guessed):

  statements   `let [mut] x [: T] = e;`  `let (mut a, mut b) = e;`  `let x: T;` (deferred initialisation)
               `let Some(x) = e.checked_ilog2() else { <diverging block> };`
               `x = e;`  `x op= e;` (op in + - * / % & | ^ << >>)
               `v.push(e);`  `v.reverse();`            (Vec<u64>/Vec<u32> -> List Nat)
               `if c { .. } [else { .. }]`  `while c { .. }`  `loop { .. }`  `for i in a..b | a..=b | (a..b).rev() { .. }`
               `return e;`  `break;`  `continue;`  `continue 'l;` (only where it equals `break` of the innermost loop)
               `assert!(c, ..);`  (`debug_assert!` is dropped, as in rs2lean.py)
  expressions  everything of rs2lean.py plus `Some(e)`, `None`, `vec![..]`, `Vec::new()`, calls of functions translated
               by this module (such a call -- it may not terminate within its fuel -- is only allowed as the whole right-hand side
               of a `let` or as the whole value of the function), self-recursion (same restriction).

Emission ("nat" back end of rs2lean.py; Mathlib-free, executable):

  * `while`/`loop`  ->  `def f_loop<k> (fixed..) : (fuel : Nat) -> (state..) -> Option T`, structural in `fuel`;
                        `none` iff the fuel ran out.  state = the variables of enclosing scopes assigned in the loop.
                        T = tuple of the state (normal exit / `break`) or, for a `loop {}` without `break`, the
                        function's result type (`return e` -> `some e`).
  * `for`           ->  `def f_for<k> (fixed..) : (n : Nat) -> (i : Nat) -> (state..) -> T`, structural in the number
                        `n` of remaining iterations (exact: a Rust range evaluates its bounds once).
  * self-recursion  ->  `def f_rec : (fuel : Nat) -> (params..) -> Option R`.
  * every function whose body contains a `while`/`loop`, recursion or a call of such a function returns `Option R`
    (`none` = "does not finish within the fuel").  A Rust `Option<T>` result is an inner `Option`.
  * next to every definition `d` a definition `d_ok : .. -> Bool` (true iff no plain arithmetic operation overflowed,
    no shift amount was out of range, no division by zero and every `assert!` held on the executed path).

Untyped integer literals (`let mut count = 0;`) get their type by unification with later uses (the translation is re-run
until no new binding is found); if the type stays undetermined the function is refused.
"""
import hashlib
import os
import re

from rs2lean import (HEADER, INT_TYPES, OUT, NatEmitter, Parser, Unsupported, find_fn, p2, read, strip_comments,
                     write_if_changed)

DEFAULT_FUEL = 65   # one more loop-head evaluation than the widest machine word has bits (u64)

TOKEN_RE = re.compile(r"""
    (?P<ws>\s+)
  | (?P<str>"(?:[^"\\]|\\.)*")
  | (?P<num>0x[0-9a-fA-F_]+(?:[ui](?:8|16|32|64|128|size))? | [0-9][0-9_]*(?:[ui](?:8|16|32|64|128|size))?)
  | (?P<label>'[A-Za-z_][A-Za-z0-9_]*)
  | (?P<id>[A-Za-z_][A-Za-z0-9_]*)
  | (?P<op><<=|>>=|\.\.=|::|->|=>|<<|>>|<=|>=|==|!=|&&|\|\||\+=|-=|\*=|/=|%=|&=|\|=|\^=|\.\.|[-+*/%&|^!<>=.,;:(){}\[\]#])
""", re.X)

ASSIGN_OPS = {"=": None, "+=": "+", "-=": "-", "*=": "*", "/=": "/", "%=": "%", "&=": "&", "|=": "|", "^=": "^",
              "<<=": "<<", ">>=": ">>"}

LEAN_RESERVED = {"at", "from", "end", "open", "by", "fun", "do", "then", "else", "show", "have", "in", "le", "lt",
                 "fuel", "n", "t", "match", "with", "if", "let", "def", "some", "none", "where", "for", "instance",
                 "structure", "class", "theorem", "example", "namespace", "section", "variable", "universe", "import",
                 "mutual", "private", "protected", "partial", "unsafe", "macro", "syntax", "notation", "infix",
                 "prefix", "postfix", "deriving", "extends", "using", "calc", "Type", "Prop", "Sort", "forall",
                 "exists", "true", "false", "Nat", "List", "Option", "Bool"}


def tokenize(s):
    toks = []
    i = 0
    while i < len(s):
        m = TOKEN_RE.match(s, i)
        if not m:
            raise Unsupported(f"cannot tokenize at {s[i:i + 30]!r}")
        i = m.end()
        if m.lastgroup == "ws":
            continue
        toks.append((m.lastgroup, m.group(m.lastgroup)))
    toks.append(("eof", ""))
    return toks


# --------------------------------------------------------------------------------------------------------
# parser: statements
# --------------------------------------------------------------------------------------------------------

class LParser(Parser):
    """statement-level parser on top of the expression parser of rs2lean.py"""

    STRUCT_ARRAYS = {"U32s": "u32"}      # newtype structs over `[elem; N]` (single field `values`)

    def parse_type(self):
        if self.accept("&"):
            self.accept("mut")
            return self.parse_type()
        if self.peek()[0] == "id" and self.peek()[1] in self.STRUCT_ARRAYS:
            name = self.next()[1]
            if self.accept("<"):
                self.parse_expr(len(self.BIN) - 2)
                self.expect(">")
            return ("array", ("named", self.STRUCT_ARRAYS[name]), None)
        if self.peek()[0] == "id" and self.peek(1)[1] == "<" and self.peek()[1] in ("Vec", "Option"):
            name = self.next()[1]
            self.expect("<")
            arg = self.parse_type()
            if self.peek()[1] == ">>":       # split `>>` closing two generics
                self.t[self.i] = ("op", ">")
            else:
                self.expect(">")
            return ("generic", name, arg)
        return Parser.parse_type(self)

    def parse_primary(self):
        k, v = self.peek()
        if k == "id" and v == "vec" and self.peek(1)[1] == "!":
            self.next(); self.next()
            self.expect("[")
            items = []
            while not self.accept("]"):
                items.append(self.parse_expr())
                if self.peek()[1] == ";":
                    raise Unsupported("vec![x; n]")
                self.accept(",")
            return ("veclit", items)
        if k == "op" and v == "[":
            self.next()
            items = []
            while not self.accept("]"):
                items.append(self.parse_expr())
                if self.accept(";"):
                    if len(items) != 1:
                        raise Unsupported("array repeat expression")
                    cnt = self.parse_expr()
                    self.expect("]")
                    return ("arrayrep", items[0], cnt)
                self.accept(",")
            return ("arraylit", items)
        return Parser.parse_primary(self)

    # ---- BEGIN BT2 hook
    def stmt_hook(self, stmts):
        """a subclass may parse one statement here, append it to `stmts` and return True"""
        return False
    # ---- END BT2 hook

    def parse_block(self):
        self.expect("{")
        st = self.parse_stmts("}")
        self.expect("}")
        return st

    def parse_if_stmt(self):
        self.expect("if")
        if self.peek()[1] == "let":
            raise Unsupported("if let")
        c = self.parse_expr()
        a = self.parse_block()
        b = None
        if self.accept("else"):
            if self.peek()[1] == "if":
                b = [self.parse_if_stmt()]
            else:
                b = self.parse_block()
        return ("if", c, a, b)

    def skip_attribute(self):
        self.expect("#")
        self.expect("[")
        depth = 1
        while depth:
            k, v = self.next()
            if k == "eof":
                raise Unsupported("attribute")
            if v == "[":
                depth += 1
            elif v == "]":
                depth -= 1

    def parse_stmts(self, end):
        stmts = []
        while True:
            k, v = self.peek()
            if k in ("op", "eof") and v == end:
                break
            if k == "eof":
                raise Unsupported("unexpected end of block")
            if stmts and stmts[-1][0] == "tail":
                raise Unsupported("statement after the value of a block")
            if v == "#":
                self.skip_attribute()
                continue
            # ---- BEGIN BT2 hook: statement forms of a subclass (tools/rs2lean_bfe.py); the base parser has none
            if self.stmt_hook(stmts):
                continue
            # ---- END BT2 hook
            site = self.i
            label = None
            if k == "label":
                label = self.next()[1]
                self.expect(":")
                k, v = self.peek()
                if v not in ("while", "loop", "for"):
                    raise Unsupported("label on a non-loop")
            # ---- BEGIN hook BT3 (tools/rs2lean_ext.py): statements of the extended subset (subclasses only)
            hook = getattr(self, "parse_stmt_hook", None)
            if hook is not None:
                hst = hook(k, v, label, site)
                if hst is not None:
                    stmts.append(hst)
                    continue
            # ---- END hook BT3
            if k == "id" and v == "let":
                self.next()
                if self.peek()[1] == "Some":
                    self.next()
                    self.expect("(")
                    self.accept("mut")
                    kk, name = self.next()
                    if kk != "id":
                        raise Unsupported("let Some(pattern)")
                    self.expect(")")
                    self.expect("=")
                    e = self.parse_expr()
                    self.expect("else")
                    els = self.parse_block()
                    self.expect(";")
                    stmts.append(("letelse", name, e, els, site))
                    continue
                self.accept("mut")
                if self.accept("("):
                    names = []
                    while not self.accept(")"):
                        self.accept("mut")
                        kk, vv = self.next()
                        if kk != "id":
                            raise Unsupported("tuple pattern")
                        names.append(vv)
                        self.accept(",")
                    pat = ("ptuple", names)
                else:
                    kk, vv = self.next()
                    if kk != "id":
                        raise Unsupported("let pattern")
                    pat = ("pid", vv)
                ty = None
                if self.accept(":"):
                    ty = self.parse_type()
                e = None
                if self.accept("="):
                    e = self.parse_expr()
                self.expect(";")
                stmts.append(("let", pat, ty, e, site))
                continue
            if k == "id" and v == "while":
                self.next()
                if self.peek()[1] == "let":
                    raise Unsupported("while let")
                c = self.parse_expr()
                body = self.parse_block()
                self.accept(";")
                stmts.append(("while", label, c, body, site))
                continue
            if k == "id" and v == "loop":
                self.next()
                body = self.parse_block()
                self.accept(";")
                stmts.append(("loop", label, body, site))
                continue
            if k == "id" and v == "for":
                self.next()
                kk, var = self.next()
                if kk != "id":
                    raise Unsupported("for pattern")
                self.expect("in")
                rev = False
                paren = self.accept("(")
                lo = self.parse_expr(len(self.BIN) - 2)     # additive level: stops before `..`
                if self.accept(".."):
                    incl = False
                elif self.accept("..="):
                    incl = True
                else:
                    raise Unsupported("for over a non-range")
                hi = self.parse_expr(len(self.BIN) - 2)
                if paren:
                    self.expect(")")
                    if self.accept("."):
                        kk, vv = self.next()
                        if vv != "rev":
                            raise Unsupported(f"range adaptor {vv}")
                        self.expect("(")
                        self.expect(")")
                        rev = True
                body = self.parse_block()
                self.accept(";")
                stmts.append(("for", label, var, lo, hi, incl, rev, body, site))
                continue
            if k == "id" and v == "if":
                st = self.parse_if_stmt()
                if self.accept(";"):
                    pass
                stmts.append(st)
                continue
            if k == "id" and v == "return":
                self.next()
                e = None
                if not (self.peek()[1] in (";", "}") and self.peek()[0] == "op"):
                    e = self.parse_expr()
                self.accept(";")
                stmts.append(("return", e))
                continue
            if k == "id" and v in ("break", "continue"):
                self.next()
                lab = None
                if self.peek()[0] == "label":
                    lab = self.next()[1]
                if not (self.peek()[1] in (";", "}")):
                    raise Unsupported(f"{v} with value")
                self.accept(";")
                stmts.append((v, lab))
                continue
            if k == "id" and v in ("assert", "debug_assert") and self.peek(1)[1] == "!":
                is_debug = v == "debug_assert"
                self.next(); self.next()
                self.expect("(")
                cond = self.parse_expr()
                depth = 1
                while depth:
                    kk, vv = self.next()
                    if kk == "eof":
                        raise Unsupported("assert")
                    if vv == "(":
                        depth += 1
                    elif vv == ")":
                        depth -= 1
                self.expect(";")
                if not is_debug:
                    stmts.append(("assert", cond))
                continue
            e = self.parse_expr()
            kk, vv = self.peek()
            if kk == "op" and vv in ASSIGN_OPS:
                self.next()
                rhs = self.parse_expr()
                self.expect(";")
                stmts.append(("assign", e, vv, rhs))
                continue
            if self.accept(";"):
                if e[0] == "mcall":
                    stmts.append(("mcallstmt", e))
                    continue
                raise Unsupported("expression statement")
            stmts.append(("tail", e))
        return stmts


# --------------------------------------------------------------------------------------------------------
# syntactic analyses
# --------------------------------------------------------------------------------------------------------

def expr_names(e, acc):
    """identifiers (single-segment paths) and called function names occurring in an expression"""
    if isinstance(e, tuple):
        if e and e[0] == "path" and len(e[1]) == 1:
            acc.add(e[1][0])
        if e and e[0] == "call":
            acc.add("call:" + e[1][-1])
        if e and e[0] == "let" and len(e) == 5 and isinstance(e[1], tuple):   # expression-level let: names are local, harmless
            pass
        for x in e[1:]:
            expr_names(x, acc)
    elif isinstance(e, list):
        for x in e:
            expr_names(x, acc)
    return acc


def stmts_names(stmts, acc):
    for st in stmts:
        expr_names(st, acc)     # statements are tuples whose components are expressions / statement lists
    return acc


def lhs_base(e):
    while e[0] in ("index", "fieldn", "field"):
        e = e[1]
    if e[0] == "path" and len(e[1]) == 1:
        return e[1][0]
    raise Unsupported(f"assignment target {e[0]}")


def assigned_outer(stmts, local=None):
    """names assigned in `stmts` that are not declared inside (ordered list)"""
    local = set(local or ())
    out = []

    def add(n):
        if n not in local and n not in out:
            out.append(n)

    for st in stmts:
        k = st[0]
        if k == "let":
            pat = st[1]
            for n in ([pat[1]] if pat[0] == "pid" else pat[1]):
                local.add(n)
        elif k == "letelse":
            for n in assigned_outer(st[3], local):
                add(n)
            local.add(st[1])
        elif k == "assign":
            if st[1][0] == "tuple":
                for x in st[1][1]:
                    add(lhs_base(x))
            else:
                add(lhs_base(st[1]))
        elif k == "mcallstmt":
            add(lhs_base(st[1][1]))
        elif k == "callstmt":            # BT2: `f(&mut a, ..);` / `x.m(..);` of rs2lean_bfe.py: st[2] = the places written
            for x in st[2]:
                add(lhs_base(x))
        elif k == "if":
            for n in assigned_outer(st[2], local):
                add(n)
            if st[3]:
                for n in assigned_outer(st[3], local):
                    add(n)
        elif k == "while":
            for n in assigned_outer(st[3], local):
                add(n)
        elif k == "loop":
            for n in assigned_outer(st[2], local):
                add(n)
        elif k == "for":
            for n in assigned_outer(st[7], local | {st[2]}):
                add(n)
    return out


def walk_stmts(stmts, f, in_loop=False):
    """call f(stmt, in_nested_loop) on every statement (recursively)"""
    for st in stmts:
        f(st, in_loop)
        k = st[0]
        if k == "if":
            walk_stmts(st[2], f, in_loop)
            if st[3]:
                walk_stmts(st[3], f, in_loop)
        elif k == "letelse":
            walk_stmts(st[3], f, in_loop)
        elif k == "while":
            walk_stmts(st[3], f, True)
        elif k == "loop":
            walk_stmts(st[2], f, True)
        elif k == "for":
            walk_stmts(st[7], f, True)


# --------------------------------------------------------------------------------------------------------
# types
# --------------------------------------------------------------------------------------------------------

def is_ivar(t):
    return isinstance(t, tuple) and t and t[0] == "ivar"


def lean_ty(ty):
    if ty == "bool":
        return "Bool"
    if isinstance(ty, tuple):
        if ty[0] == "tuple":
            if not ty[1]:
                return "Unit"
            return "(" + " × ".join(lean_ty(t) for t in ty[1]) + ")"
        if ty[0] in ("array", "vec"):
            return "List " + lean_ty_atom(ty[1])
        if ty[0] == "option":
            return "Option " + lean_ty_atom(ty[1])
    return "Nat"


def lean_ty_atom(ty):
    s = lean_ty(ty)
    return s if " " not in s or s.startswith("(") else f"({s})"


def tuple_term(parts):
    if not parts:
        return "()"
    if len(parts) == 1:
        return parts[0]
    return "(" + ", ".join(parts) + ")"


def paren(t):
    t = t.strip()
    if re.fullmatch(r"[A-Za-z0-9_.']+", t):
        return t
    if t.startswith("(") and t.endswith(")"):
        d = 0
        for i, c in enumerate(t):
            if c == "(":
                d += 1
            elif c == ")":
                d -= 1
                if d == 0 and i != len(t) - 1:
                    break
        else:
            return t
    if t.startswith("[") and t.endswith("]") and t.count("[") == 1:
        return t
    return f"({t})"


# --------------------------------------------------------------------------------------------------------
# expression emitter with integer type variables
# --------------------------------------------------------------------------------------------------------

class LoopEmitter(NatEmitter):
    def __init__(self, consts, fns, pfns, self_name):
        NatEmitter.__init__(self, consts, fns)
        self.pfns = pfns            # rust name -> (lean name, [param types], ret type): calls may run out of fuel
        self.self_name = self_name
        self.bind = {}              # let site -> type     (survives restarts)
        self.new_binding = False
        self.dirty = False          # a width of an undetermined integer type was needed in this pass
        self.reserved = set(LEAN_RESERVED) | {v[0] for v in fns.values()} | {v[0] for v in pfns.values()}
        self.self_ty_override = None      # type of `Self` inside an impl of a newtype-over-array struct

    ARRAY_FIELDS = ("values",)      # BT2: field names of newtype structs over an array (a subclass may add some)

    def array_base(self, e, env):
        """`x` or `x.values` for a variable of array type -> (lean term, elem type, ok)"""
        if e[0] == "fieldn" and e[2] in self.ARRAY_FIELDS:
            e = e[1]
        while e[0] in ("deref",):
            e = e[1]
        if e[0] == "path" and len(e[1]) == 1 and e[1][0] in env:
            n = e[1][0]
            if env[n][0] is None:
                raise Unsupported(f"use of possibly uninitialised variable {n}")
            ty = self.resolve(env[n][1])
            if isinstance(ty, tuple) and ty[0] == "array":
                return env[n][0], ty[1], n
        raise Unsupported("indexing of something that is not an array variable")

    # ---- types
    def resolve(self, t):
        while is_ivar(t) and t[1] in self.bind:
            t = self.bind[t[1]]
        if isinstance(t, tuple) and t and t[0] in ("vec", "option", "array"):
            return (t[0], self.resolve(t[1]))
        if isinstance(t, tuple) and t and t[0] == "tuple":
            return ("tuple", [self.resolve(x) for x in t[1]])
        return t

    def unify(self, a, b, what=""):
        a, b = self.resolve(a), self.resolve(b)
        if a == b:
            return a
        if a == "int?" or a is None:
            return b
        if b == "int?" or b is None:
            return a
        if is_ivar(a):
            if b in INT_TYPES or is_ivar(b):
                if not is_ivar(b):
                    self.bind[a[1]] = b
                    self.new_binding = True
                return b
            raise Unsupported(f"type mismatch {what}: integer vs {b}")
        if is_ivar(b):
            return self.unify(b, a, what)
        if isinstance(a, tuple) and isinstance(b, tuple) and a[0] == b[0]:
            if a[0] in ("vec", "option", "array"):
                return (a[0], self.unify(a[1], b[1], what))
            if a[0] == "tuple" and len(a[1]) == len(b[1]):
                return ("tuple", [self.unify(x, y, what) for x, y in zip(a[1], b[1])])
        raise Unsupported(f"type mismatch {what}: {a} vs {b}")

    def width(self, ty):
        ty = self.resolve(ty)
        if ty in INT_TYPES:
            return INT_TYPES[ty]
        if ty == "int?" or is_ivar(ty):
            self.dirty = True
            return 64
        raise Unsupported(f"width of {ty}")

    def tyname(self, ty):
        if ty[0] == "array":
            return ("array", self.tyname(ty[1]))
        if ty[0] == "named" and ty[1] in ("Self", "Output") and self.self_ty_override is not None:
            return self.self_ty_override
        if ty[0] == "generic":
            inner = self.tyname(ty[2])
            return ("vec", inner) if ty[1] == "Vec" else ("option", inner)
        if ty[0] == "named" and ty[1] not in INT_TYPES and ty[1] != "bool":
            raise Unsupported(f"type {ty[1]}")
        if ty[0] == "tuple":
            return ("tuple", [self.tyname(t) for t in ty[1]])
        return NatEmitter.tyname(self, ty)

    def fresh(self, name, env):
        used = {v[0] for v in env.values() if v[0]}
        n = name
        if n in self.reserved:
            n = n + "_v"
        base = n
        i = 1
        while n in used or n in self.reserved:
            n = f"{base}_{i}"
            i += 1
        return n

    def is_partial_call(self, e):
        return e[0] == "call" and len(e[1]) == 1 and (e[1][0] in self.pfns or e[1][0] == self.self_name)

    def check_no_partial(self, e):
        names = expr_names(e, set())
        for n in names:
            if n.startswith("call:") and (n[5:] in self.pfns or n[5:] == self.self_name):
                raise Unsupported(f"call of {n[5:]} (may not terminate within its fuel) inside an expression")

    # ---- expressions
    def emit(self, e, env, exp=None):
        k = e[0]
        exp = self.resolve(exp)
        if k == "lit":
            ty = e[2] or exp
            if ty in INT_TYPES:
                if e[1] >= 2 ** INT_TYPES[ty]:
                    raise Unsupported("literal out of range")
                return str(e[1]), ty, None
            if ty is None or ty == "int?" or is_ivar(ty):
                return str(e[1]), (ty or "int?"), None
            raise Unsupported(f"literal of type {ty}")
        if k == "path" and len(e[1]) == 1 and e[1][0] in env:
            n = e[1][0]
            if env[n][0] is None:
                raise Unsupported(f"use of possibly uninitialised variable {n}")
            return env[n][0], self.resolve(env[n][1]), None
        if k == "fieldn" and e[2] in self.ARRAY_FIELDS:
            t, ety, _ = self.array_base(e, env)
            return t, ("array", ety), None
        if k == "index":
            t, ety, _ = self.array_base(e[1], env)
            self.check_no_partial(e[2])
            i, ity, iok = self.emit(e[2], env, "usize")
            self.unify(ity, "usize", "array index")
            return f"({t}.getD {paren(i)} 0)", ety, self.conj(iok, f"decide ({i} < {t}.length)")
        if k == "arrayrep":
            inner = exp[1] if isinstance(exp, tuple) and exp[0] == "array" else None
            v, vty, vok = self.emit(e[1], env, inner)
            c, cty, cok = self.emit(e[2], env, "usize")
            self.unify(cty, "usize", "array length")
            return f"(List.replicate {paren(c)} {paren(v)})", ("array", vty), self.conj(vok, cok)
        if k == "mcall" and e[2] == "overflowing_mul" and len(e[3]) == 1:
            a, aty, aok = self.emit(e[1], env, None)
            b, bty, bok = self.emit(e[3][0], env, aty)
            ty = self.unify(aty, bty, "overflowing_mul")
            w = self.width(ty)
            return f"((({a} * {b}) % {p2(w)}, decide ({a} * {b} ≥ {p2(w)})) : Nat × Bool)", \
                ("tuple", [ty, "bool"]), self.conj(aok, bok)
        if k == "mcall" and e[2] == "into" and not e[3]:
            a, aty, aok = self.emit(e[1], env, None)
            if aty == "bool" and exp in INT_TYPES:
                return f"(if {a} then 1 else 0)", exp, aok
            if self.resolve(aty) in INT_TYPES and exp in INT_TYPES and INT_TYPES[self.resolve(aty)] <= INT_TYPES[exp]:
                return a, exp, aok
            raise Unsupported("into() with undetermined target type")
        if k == "path" and e[1] == ["None"]:
            inner = exp[1] if isinstance(exp, tuple) and exp[0] == "option" else "int?"
            return "none", ("option", inner), None
        if k == "bin":
            return self.emit_bin(e, env, exp)
        if k == "veclit":
            inner = exp[1] if isinstance(exp, tuple) and exp[0] == "vec" else "int?"
            parts = []
            for x in e[1]:
                t, ty, ok = self.emit(x, env, inner)
                inner = self.unify(inner, ty, "vec! items")
                parts.append((t, ok))
            return "[" + ", ".join(p[0] for p in parts) + "]", ("vec", inner), self.conj(*[p[1] for p in parts])
        if k == "call":
            path = e[1]
            if path == ["Some"] and len(e[2]) == 1:
                inner = exp[1] if isinstance(exp, tuple) and exp[0] == "option" else None
                t, ty, ok = self.emit(e[2][0], env, inner)
                return f"(some {paren(t)})", ("option", ty), ok
            if len(path) == 2 and path[1] == "new" and len(e[2]) == 1 and self.self_ty_override is not None \
                    and path[0] in ("Self",) + tuple(LParser.STRUCT_ARRAYS):
                t, ty, ok = self.emit(e[2][0], env, self.self_ty_override)
                self.unify(ty, self.self_ty_override, "constructor argument")
                return t, self.self_ty_override, ok
            if path == ["Vec", "new"] and not e[2]:
                inner = exp[1] if isinstance(exp, tuple) and exp[0] == "vec" else "int?"
                return "[]", ("vec", inner), None
            if self.is_partial_call(e):
                raise Unsupported(f"call of {path[0]} (may not terminate within its fuel) inside an expression")
            if len(path) == 1 and path[0] in self.fns and self.fns[path[0]] is not None:
                lname, ptys, rty = self.fns[path[0]]
                if len(ptys) != len(e[2]):
                    raise Unsupported(f"arity of {path[0]}")
                parts = []
                for x, t in zip(e[2], ptys):
                    tt, ty, ok = self.emit(x, env, t)
                    self.unify(ty, t, f"argument of {path[0]}")
                    parts.append((tt, ok))
                argstr = " ".join(paren(p[0]) for p in parts)
                return f"({lname} {argstr})", rty, self.conj(*[p[1] for p in parts], f"({lname}_ok {argstr})")
        if k == "tuple":
            exps = exp[1] if isinstance(exp, tuple) and exp[0] == "tuple" and len(exp[1]) == len(e[1]) else [None] * len(e[1])
            parts = [self.emit(x, env, t) for x, t in zip(e[1], exps)]
            return "(" + ", ".join(p[0] for p in parts) + ")", ("tuple", [p[1] for p in parts]), \
                self.conj(*[p[2] for p in parts])
        if k == "cast":
            target = self.tyname(e[2])
            t, ty, ok = self.emit(e[1], env, None if e[1][0] != "lit" else target)
            ty = self.resolve(ty)
            if (ty == "int?" or is_ivar(ty)) and target in INT_TYPES:
                # the source type of the cast is still unknown: widths decide whether it truncates
                self.dirty = True
                return t, target, ok
        if k == "mcall" and e[2] == "checked_ilog2":
            raise Unsupported("checked_ilog2 outside `let Some(x) = .. else`")
        return NatEmitter.emit(self, e, env, exp)

    def emit_bin(self, e, env, exp):
        _, op, l, r = e
        cmp_ops = {"==": "==", "!=": "!=", "<": "<", ">": ">", "<=": "≤", ">=": "≥"}
        unsuffixed = lambda x: x[0] == "lit" and not x[2]
        if op in ("&&", "||"):
            a, aty, aok = self.emit(l, env, "bool")
            b, bty, bok = self.emit(r, env, "bool")
            if aty != "bool" or bty != "bool":
                raise Unsupported(f"operands of {op}")
            # Rust short-circuits: the right operand is only evaluated (and may only overflow) when needed
            if bok:
                bok = f"(if {a} then {bok} else true)" if op == "&&" else f"(if {a} then true else {bok})"
            return f"({a} {op} {b})", "bool", self.conj(aok, bok)
        if op in cmp_ops:
            if unsuffixed(l):
                b, bty, bok = self.emit(r, env, None)
                a, aty, aok = self.emit(l, env, bty)
            else:
                a, aty, aok = self.emit(l, env, None)
                b, bty, bok = self.emit(r, env, aty)
            ty = self.unify(aty, bty, f"comparison {op}")
            if not (ty in INT_TYPES or ty == "bool" or ty == "int?" or is_ivar(ty)):
                raise Unsupported(f"comparison of {ty}")
            if ty == "int?":
                self.dirty = True
            if op == "==":
                return f"({a} == {b})", "bool", self.conj(aok, bok)
            if op == "!=":
                return f"({a} != {b})", "bool", self.conj(aok, bok)
            return f"(decide ({a} {cmp_ops[op]} {b}))", "bool", self.conj(aok, bok)
        if op in ("<<", ">>"):
            a, aty, aok = self.emit(l, env, exp)
            b, bty, bok = self.emit(r, env, "u32" if r[0] == "lit" else None)
            if not (self.resolve(bty) in INT_TYPES or is_ivar(self.resolve(bty)) or bty == "int?"):
                raise Unsupported("shift amount type")
            w = self.width(aty)
            rng = None
            if r[0] == "lit":
                if r[1] >= w:
                    if self.dirty:
                        return f"({a})", aty, self.conj(aok, bok)
                    raise Unsupported("constant shift out of range")
                amount = str(r[1])
                pw = str(2 ** r[1])
            else:
                rng = f"decide ({b} < {w})"
                amount = f"({b} % {w})"      # release semantics: shift amount is masked
                pw = f"2 ^ {amount}"
            if op == ">>":
                return f"({a} / {pw})", aty, self.conj(aok, bok, rng)
            return f"({a} * {pw} % {p2(w)})", aty, self.conj(aok, bok, rng)
        if unsuffixed(l) and not r[0] == "lit":
            b, bty, bok = self.emit(r, env, exp)
            a, aty, aok = self.emit(l, env, bty)
        else:
            a, aty, aok = self.emit(l, env, exp)
            b, bty, bok = self.emit(r, env, aty)
        ty = self.unify(aty, bty, f"operands of {op}")
        if ty == "bool":
            m = {"&": "&&", "|": "||", "^": "^^"}
            if op not in m:
                raise Unsupported(f"operator {op} on bool")
            return f"({a} {m[op]} {b})", "bool", self.conj(aok, bok)
        w = self.width(ty)
        if op == "+":
            return f"(({a} + {b}) % {p2(w)})", ty, self.conj(aok, bok, f"decide ({a} + {b} < {p2(w)})")
        if op == "-":
            return f"(({a} + {p2(w)} - {b}) % {p2(w)})", ty, self.conj(aok, bok, f"decide ({b} ≤ {a})")
        if op == "*":
            return f"(({a} * {b}) % {p2(w)})", ty, self.conj(aok, bok, f"decide ({a} * {b} < {p2(w)})")
        if op == "/":
            return f"({a} / {b})", ty, self.conj(aok, bok, f"({b} != 0)")
        if op == "%":
            return f"({a} % {b})", ty, self.conj(aok, bok, f"({b} != 0)")
        if op in ("&", "|", "^"):
            m = {"&": "&&&", "|": "|||", "^": "^^^"}
            return f"({a} {m[op]} {b})", ty, self.conj(aok, bok)
        raise Unsupported(f"operator {op}")


# --------------------------------------------------------------------------------------------------------
# statement translation (continuation passing)
# --------------------------------------------------------------------------------------------------------

class K:
    """what happens when a block completes: `fall(env)` without a value, `value(expr, env)` with its tail expression"""
    def __init__(self, fall, value=None):
        self.fall = fall
        self._value = value

    def value(self, e, env):
        if self._value is None:
            raise Unsupported("block value in statement position")
        return self._value(e, env)


class LoopCtx:
    def __init__(self, label, cont, brk, outer_continue_is_break=None):
        self.label = label
        self.cont = cont
        self.brk = brk
        self.outer_continue_is_break = outer_continue_is_break   # label of the enclosing loop, if `continue 'that` == break


class Ctl:
    """control context: how `return`, `break`, `continue` are rendered here"""
    def __init__(self, ret, loops=()):
        self.ret = ret
        self.loops = list(loops)


class FnTranslator:
    # ---- BEGIN BT2 hooks: classes used for parsing / emitting, overridden by tools/rs2lean_bfe.py
    EMITTER = None      # set to LoopEmitter below the class
    PARSER = LParser
    SUPPORTS_INOUT = False

    def prepare(self, stmts):
        """AST pass after parsing (identity here)"""
        return stmts

    def adjust_result(self):
        """result type of functions with `&mut` parameters other than the base case `fn f(&mut self)` (nothing here)"""
    # ---- END BT2 hooks

    def __init__(self, lname, rust_name, params, ret_ty_ast, body_toks_src, consts, fns, pfns, fuel, rel,
                 self_ty=None, mut_self=False):
        self.mut_self = mut_self
        self.self_ty = self_ty
        self.lname = lname
        self.rust_name = rust_name
        self.params = params
        self.ret_ast = ret_ty_ast
        self.src = body_toks_src
        self.em = (self.EMITTER or LoopEmitter)(consts, fns, pfns, rust_name)
        self.em.self_ty_override = self_ty
        self.fuel = fuel
        self.rel = rel

    # ---- helpers
    def conj(self, *oks):
        return self.em.conj(*oks)

    @staticmethod
    def let_(name, val, body):
        return f"let {name} := {val}\n  {body}"

    def let_ok(self, name, val, vok, bok):
        if bok:
            return self.conj(vok, "(" + self.let_(name, val, bok) + ")")
        return vok

    def bind_tuple(self, tmp, names, body):
        """let n_k := tmp.proj_k ... body"""
        if len(names) == 1:
            return self.let_(names[0], tmp, body)
        head = ""
        for idx, n in enumerate(names):
            head += f"let {n} := {NatEmitter.proj(tmp, idx, len(names))}\n  "
        return head + body

    def env_order(self, env):
        return list(env.keys())

    # ---- the function
    def translate(self):
        ps = self.PARSER(tokenize(self.src))
        stmts = ps.parse_stmts("")
        if ps.peek()[0] != "eof":
            raise Unsupported(f"trailing tokens {ps.peek()}")
        stmts = self.prepare(stmts)      # BT2 hook
        self.stmts = stmts
        # partiality: loops, self recursion, calls of partial functions
        flags = {"loop": False}

        def scan(st, _):
            if st[0] in ("while", "loop"):
                flags["loop"] = True
        walk_stmts(stmts, scan)
        names = stmts_names(stmts, set())
        self.recursive = ("call:" + self.rust_name) in names
        calls_partial = any(("call:" + n) in names for n in self.em.pfns)
        self.partial = flags["loop"] or self.recursive or calls_partial
        self.rty = self.em.tyname(self.ret_ast) if self.ret_ast is not None else ("tuple", [])
        self.returns_self = False
        if self.ret_ast is None and self.mut_self:
            # `fn f(&mut self)`: the function's result is the final value of `*self`
            self.returns_self = True
            self.rty = dict(self.params)["self"]
        self.adjust_result()             # BT2 hook
        for attempt in range(12):
            self.em.new_binding = False
            self.em.dirty = False
            self.defs = []
            self.loop_counter = 0
            text = self.run_pass()
            if not self.em.new_binding:
                if self.em.dirty:
                    raise Unsupported("an integer literal's type could not be determined (rustc would fall back to i32)")
                return text
        raise Unsupported("type inference did not converge")

    def run_pass(self):
        em = self.em
        env = {}
        binders = []
        for n, t in self.params:
            ln = em.fresh(n, env)
            env[n] = (ln, t)
            binders.append(f"({ln} : {lean_ty(t)})")
        b = " ".join(binders)
        R = lean_ty(self.rty)
        optR = f"Option {lean_ty_atom(self.rty)}" if self.partial else R
        doc = (f"/-- true iff no plain arithmetic operation of `{self.lname}` overflows, no shift amount is out of range,\n"
               "    nothing divides by zero and every `assert!` holds on the executed path -/\n")
        ctl = Ctl(ret=self.ret_value)
        k = K(fall=self.fall_off_end, value=self.ret_value)
        if self.recursive:
            self.rec_name = f"{self.lname}_rec"
            argn = " ".join(env[n][0] for n, _ in self.params)
            term, ok = self.seq(self.stmts, 0, env, k, ctl)
            pats = ", ".join(env[n][0] for n, _ in self.params)
            unders = ", ".join("_" for _ in self.params)
            sig = " → ".join(f"({env[n][0]} : {lean_ty(t)})" for n, t in self.params)
            d = f"/-- the recursion of `{self.rust_name}`; `none` = recursion deeper than `fuel` -/\n"
            d += f"def {self.rec_name} : (fuel : Nat) → {sig} → {optR}\n  | 0, {unders} => none\n  | fuel+1, {pats} =>\n  {term}\n"
            d += f"\ndef {self.rec_name}_ok : (fuel : Nat) → {sig} → Bool\n  | 0, {unders} => true\n  | fuel+1, {pats} =>\n  {ok or 'true'}\n"
            self.defs.append(d)
            main = f"{self.rec_name} {self.fuel} {argn}"
            mainok = f"{self.rec_name}_ok {self.fuel} {argn}"
        else:
            main, mainok = self.seq(self.stmts, 0, env, k, ctl)
        text = "".join(x + "\n" for x in self.defs)
        text += f"/-- `{self.rust_name}` in {self.rel}"
        if self.partial:
            text += " (`none`: does not finish within the fuel)"
        text += f" -/\ndef {self.lname} {b} : {optR} :=\n  {main}\n\n"
        text += doc + f"def {self.lname}_ok {b} : Bool :=\n  {mainok or 'true'}\n"
        return text

    # ---- function-level continuations
    def wrap(self, v):
        return f"some {paren(v)}" if self.partial else v

    def ret_value(self, e, env):
        em = self.em
        if e is None:
            if self.rty != ("tuple", []):
                raise Unsupported("return without value")
            return self.wrap("()"), None
        if em.is_partial_call(e):
            t, ty, ok = self.partial_call(e, env)
            em.unify(ty, self.rty, "returned call")
            return t, ok
        em.check_no_partial(e)
        v, vty, vok = em.emit(e, env, self.rty)
        em.unify(vty, self.rty, "return value")
        return self.wrap(v), vok

    def fall_off_end(self, env):
        if self.returns_self:
            return self.wrap(env["self"][0]), None
        if self.rty != ("tuple", []):
            raise Unsupported("function body ends without a value")
        return self.wrap("()"), None

    def partial_call(self, e, env):
        """(term : Option rty, rty, ok)"""
        em = self.em
        name = e[1][-1]      # BT2: last path segment (`Self::f(..)`); identical for the single-segment calls of the base subset
        if name == self.rust_name and self.recursive:
            lname, ptys, rty = f"{self.rec_name} fuel", [t for _, t in self.params], self.rty
            okname = f"{self.rec_name}_ok fuel"
        else:
            ln, ptys, rty = em.pfns[name]
            lname, okname = ln, ln + "_ok"
        if len(ptys) != len(e[2]):
            raise Unsupported(f"arity of {name}")
        parts = []
        for x, t in zip(e[2], ptys):
            em.check_no_partial(x)
            tt, ty, ok = em.emit(x, env, t)
            em.unify(ty, t, f"argument of {name}")
            parts.append((tt, ok))
        argstr = " ".join(paren(p[0]) for p in parts)
        return f"{lname} {argstr}".strip(), rty, self.conj(*[p[1] for p in parts], f"({okname} {argstr})".replace(" )", ")"))

    def match_option(self, scrut, sok, tmp, body_term, body_ok):
        """`scrut : Option _` may be `none` (out of fuel): continue with its value bound to `tmp`.
        Emitted with `Option.bind` / `Option.elim`, not `match`: unfolding a definition whose body is a `match` on a
        call of another fuel-indexed function makes the kernel evaluate machine arithmetic on open terms."""
        term = f"({scrut}).bind fun {tmp} =>\n  {body_term}"
        if body_ok:
            ok = self.conj(sok, f"(({scrut}).elim true fun {tmp} =>\n  {body_ok})")
        else:
            ok = sok
        return term, ok

    # ---- classification of an `if` statement's branches
    def is_complex(self, stmts):
        """contains control flow leaving the block, a value, or something that can run out of fuel"""
        em = self.em
        res = {"c": False}

        def f(st, in_loop):
            k = st[0]
            if k == "return" or k == "tail":
                res["c"] = True
            if k in ("break", "continue") and not in_loop:
                res["c"] = True
            if k in ("break", "continue") and st[1] is not None:
                res["c"] = True
            if k in ("while", "loop", "letelse"):
                res["c"] = True
        walk_stmts(stmts, f)
        names = stmts_names(stmts, set())
        if any(n.startswith("call:") and (n[5:] in em.pfns or n[5:] == self.rust_name) for n in names):
            res["c"] = True
        return res["c"]

    # ---- statement sequences
    def seq(self, stmts, i, env, k, ctl):
        em = self.em
        if i == len(stmts):
            return k.fall(env)
        st = stmts[i]
        kind = st[0]
        rest = lambda env2: self.seq(stmts, i + 1, env2, k, ctl)

        if kind == "tail":
            if i != len(stmts) - 1:
                raise Unsupported("value in the middle of a block")
            return k.value(st[1], env)

        if kind == "return":
            return ctl.ret(st[1], env)

        if kind in ("break", "continue"):
            if not ctl.loops:
                raise Unsupported(f"{kind} outside a loop")
            inner = ctl.loops[-1]
            lab = st[1]
            if lab is None or lab == inner.label:
                return inner.brk(env) if kind == "break" else inner.cont(env)
            if kind == "continue" and inner.outer_continue_is_break == lab:
                return inner.brk(env)
            raise Unsupported(f"{kind} {lab} to a loop that is not the innermost one")

        if kind == "assert":
            em.check_no_partial(st[1])
            c, cty, cok = em.emit(st[1], env, "bool")
            if cty != "bool":
                raise Unsupported("assert condition")
            t, ok = rest(env)
            return t, self.conj(cok, c, ok)

        if kind == "let":
            _, pat, ty, val, site = st
            names = [pat[1]] if pat[0] == "pid" else pat[1]
            declared = em.tyname(ty) if ty else None
            if val is None:
                if pat[0] != "pid" or declared is None:
                    raise Unsupported("let without initialiser needs a type")
                env2 = dict(env)
                env2.pop(pat[1], None)
                ln = em.fresh(pat[1], env2)
                env2[pat[1]] = (None, declared, ln)
                return self.seq(stmts, i + 1, env2, k, ctl)
            if em.is_partial_call(val):
                call, cty, cok = self.partial_call(val, env)
                if declared is not None:
                    cty = em.unify(cty, declared, "let type")
                env2 = dict(env)
                if pat[0] == "pid":
                    for n in names:
                        env2.pop(n, None)
                    ln = em.fresh(pat[1], env2)
                    env2[pat[1]] = (ln, cty)
                    bt, bok = self.seq(stmts, i + 1, env2, k, ctl)
                    return self.match_option(call, cok, ln, bt, bok)
                if not (isinstance(cty, tuple) and cty[0] == "tuple" and len(cty[1]) == len(names)):
                    raise Unsupported("tuple pattern on non-tuple")
                for n in names:
                    env2.pop(n, None)
                tmp = em.fresh("t_" + "_".join(names), env2)
                env2["\0tmp"] = (tmp, None)
                lns = []
                for n, t in zip(names, cty[1]):
                    ln = em.fresh(n, env2)
                    env2[n] = (ln, t)
                    lns.append(ln)
                del env2["\0tmp"]
                bt, bok = self.seq(stmts, i + 1, env2, k, ctl)
                return self.match_option(call, cok, tmp, self.bind_tuple(tmp, lns, bt),
                                         self.bind_tuple(tmp, lns, bok) if bok else None)
            em.check_no_partial(val)
            exp = declared
            if exp is None and pat[0] == "pid":
                exp = em.resolve(("ivar", site))
                if is_ivar(exp):
                    exp = None
            v, vty, vok = em.emit(val, env, exp)
            if declared is not None:
                vty = em.unify(vty, declared, "let type")
            env2 = dict(env)
            if pat[0] == "pid":
                vty = self.site_type(vty, site)
                env2.pop(pat[1], None)
                ln = em.fresh(pat[1], env2)
                env2[pat[1]] = (ln, vty)
                bt, bok = self.seq(stmts, i + 1, env2, k, ctl)
                return self.let_(ln, v, bt), self.let_ok(ln, v, vok, bok)
            vty = em.resolve(vty)
            if not (isinstance(vty, tuple) and vty[0] == "tuple" and len(vty[1]) == len(names)):
                raise Unsupported("tuple pattern on non-tuple")
            for n in names:
                env2.pop(n, None)
            tmp = em.fresh("t_" + "_".join(names), env2)
            env2["\0tmp"] = (tmp, None)
            lns = []
            for n, t in zip(names, vty[1]):
                ln = em.fresh(n, env2)
                env2[n] = (ln, t)
                lns.append(ln)
            del env2["\0tmp"]
            bt, bok = self.seq(stmts, i + 1, env2, k, ctl)
            term = self.let_(tmp, v, self.bind_tuple(tmp, lns, bt))
            ok = self.let_ok(tmp, v, vok, self.bind_tuple(tmp, lns, bok) if bok else None)
            return term, ok

        if kind == "letelse":
            _, name, e, els, site = st
            if not (e[0] == "mcall" and e[2] == "checked_ilog2" and not e[3]):
                raise Unsupported("let-else on anything but checked_ilog2()")
            em.check_no_partial(e[1])
            a, aty, aok = em.emit(e[1], env, None)
            if em.resolve(aty) not in INT_TYPES:
                raise Unsupported("checked_ilog2 receiver type")

            def never(env2):
                raise Unsupported("else block of let-else does not diverge")
            et, eok = self.seq(els, 0, env, K(never), ctl)
            env2 = dict(env)
            env2.pop(name, None)
            ln = em.fresh(name, env2)
            env2[name] = (ln, "u32")
            bt, bok = self.seq(stmts, i + 1, env2, k, ctl)
            v = f"(Nat.log2 {paren(a)})"
            term = f"if ({a} == 0) then {paren(et)} else\n  {self.let_(ln, v, bt)}"
            ok = None
            if eok or bok:
                ok = f"(if ({a} == 0) then {eok or 'true'} else ({self.let_(ln, v, bok or 'true')}))"
            return term, self.conj(aok, ok)

        if kind == "assign":
            _, lhs, op, rhs = st
            bop = ASSIGN_OPS[op]
            em.check_no_partial(rhs)
            if lhs[0] == "tuple":
                # destructuring assignment `(a[i], c) = e;`: the right-hand side is evaluated first
                if bop is not None:
                    raise Unsupported("compound assignment to a tuple")
                v, vty, vok = em.emit(rhs, env, None)
                vty = em.resolve(vty)
                if not (isinstance(vty, tuple) and vty[0] == "tuple" and len(vty[1]) == len(lhs[1])):
                    raise Unsupported("destructuring assignment of a non-tuple")
                env2 = dict(env)
                tmp = em.fresh("t_assign", env2)
                env2["\0tmp"] = (tmp, None)
                binds = []
                oks = []
                for idx, (target, cty) in enumerate(zip(lhs[1], vty[1])):
                    comp = NatEmitter.proj(tmp, idx, len(lhs[1]))
                    ln, val, ok, env2 = self.assign_target(target, comp, cty, env2)
                    binds.append((ln, val))
                    oks.append(ok)
                del env2["\0tmp"]
                bt, bok = self.seq(stmts, i + 1, env2, k, ctl)
                term = bt
                okt = bok
                for (ln, val), ok in reversed(list(zip(binds, oks))):
                    term = self.let_(ln, val, term)
                    okt = self.conj(ok, "(" + self.let_(ln, val, okt) + ")") if okt else ok
                return self.let_(tmp, v, term), self.let_ok(tmp, v, vok, okt)
            if bop is None:
                exp = None
                if lhs[0] == "path" and len(lhs[1]) == 1 and lhs[1][0] in env:
                    exp = env[lhs[1][0]][1]
                elif lhs[0] == "index":
                    exp = em.array_base(lhs[1], env)[1]
                v, vty, vok = em.emit(rhs, env, exp)
            else:
                v, vty, vok = em.emit(("bin", bop, lhs, rhs), env, None)
            ln, val, ok, env2 = self.assign_target(lhs, v, vty, env)
            bt, bok = self.seq(stmts, i + 1, env2, k, ctl)
            return self.let_(ln, val, bt), self.let_ok(ln, val, self.conj(vok, ok), bok)

        if kind == "mcallstmt":
            _, recv, mname, args = st[1]
            if recv[0] != "path" or len(recv[1]) != 1 or recv[1][0] not in env:
                raise Unsupported(f"method statement on {recv}")
            name = recv[1][0]
            ln, vty = env[name][0], em.resolve(env[name][1])
            if ln is None or not (isinstance(vty, tuple) and vty[0] == "vec"):
                raise Unsupported(f"method {mname} on a non-Vec")
            if mname == "push" and len(args) == 1:
                em.check_no_partial(args[0])
                a, aty, aok = em.emit(args[0], env, vty[1] if vty[1] != "int?" else None)
                nty = ("vec", em.unify(vty[1], aty, "push"))
                v = f"{ln} ++ [{a}]"
            elif mname == "reverse" and not args:
                aok = None
                nty = vty
                v = f"{ln}.reverse"
            else:
                raise Unsupported(f"method statement {mname}")
            env2 = dict(env)
            env2[name] = (ln, nty)
            bt, bok = self.seq(stmts, i + 1, env2, k, ctl)
            return self.let_(ln, v, bt), self.let_ok(ln, v, aok, bok)

        if kind == "if":
            return self.do_if(st, stmts, i, env, k, ctl)
        if kind in ("while", "loop"):
            return self.do_while(st, stmts, i, env, k, ctl)
        if kind == "for":
            return self.do_for(st, stmts, i, env, k, ctl)
        raise Unsupported(f"statement {kind}")

    def assign_target(self, lhs, v, vty, env):
        """assignment of the value `v : vty` to `x` or `a[i]` / `a.values[i]`: (lean name, new value, ok, new env)"""
        em = self.em
        if lhs[0] == "path" and len(lhs[1]) == 1:
            name = lhs[1][0]
            if name not in env:
                raise Unsupported(f"assignment to unknown variable {name}")
            entry = env[name]
            ty = em.unify(entry[1], vty, f"assignment to {name}")
            ln = entry[0] if entry[0] is not None else entry[2]
            env2 = dict(env)
            env2[name] = (ln, ty)
            return ln, v, None, env2
        if lhs[0] == "index":
            t, ety, name = em.array_base(lhs[1], env)
            em.unify(ety, vty, f"assignment to an element of {name}")
            em.check_no_partial(lhs[2])
            ix, ity, iok = em.emit(lhs[2], env, "usize")
            em.unify(ity, "usize", "array index")
            return t, f"{t}.set {paren(ix)} {paren(v)}", self.conj(iok, f"decide ({ix} < {t}.length)"), dict(env)
        raise Unsupported(f"assignment to {lhs[0]}")

    def site_type(self, vty, site):
        """an untyped integer literal bound by `let` becomes the type variable of that let site"""
        em = self.em
        vty = em.resolve(vty)
        if vty == "int?":
            return em.resolve(("ivar", site))
        if isinstance(vty, tuple) and vty[0] == "vec" and vty[1] == "int?":
            return ("vec", em.resolve(("ivar", site)))
        return vty

    # ---- leaving a nested block: variables declared inside go out of scope
    @staticmethod
    def leave(env_outer, env_inner):
        out = {}
        for n in env_outer:
            e = env_inner[n]
            if env_outer[n][0] is None and e[0] is not None:
                e = env_outer[n]       # initialised inside a nested block only: still "possibly uninitialised" outside
            out[n] = e
        return out

    # ---- if
    def do_if(self, st, stmts, i, env, k, ctl):
        em = self.em
        _, c, A, B = st
        em.check_no_partial(c)
        ct, cty, cok = em.emit(c, env, "bool")
        if cty != "bool":
            raise Unsupported("if condition")
        B = B or []
        last = i == len(stmts) - 1
        if self.is_complex(A) or self.is_complex(B):
            # continuation duplicated into both branches
            def after(env2):
                return self.seq(stmts, i + 1, self.leave(env, env2), k, ctl)
            kk = K(after, (lambda e, env2: k.value(e, env2)) if last else None)
            at, aok = self.seq(A, 0, env, kk, ctl)
            bt, bok = self.seq(B, 0, env, kk, ctl)
            term = f"if {ct} then\n  {paren(at)}\n  else\n  {paren(bt)}"
            ok = None
            if aok or bok:
                ok = f"(if {ct} then {paren(aok or 'true')} else {paren(bok or 'true')})"
            return term, self.conj(cok, ok)
        # merge form: the branches only compute new values of the variables in M
        M = [n for n in self.env_order(env) if n in set(assigned_outer(A) + assigned_outer(B))]
        for n in assigned_outer(A) + assigned_outer(B):
            if n not in env:
                raise Unsupported(f"assignment to unknown variable {n}")

        def out(env2):
            parts = []
            for n in M:
                if env2[n][0] is None:
                    raise Unsupported(f"{n} is not initialised on every path")
                parts.append(env2[n][0])
            return tuple_term(parts), None
        at, aok = self.seq(A, 0, env, K(out), ctl)
        bt, bok = self.seq(B, 0, env, K(out), ctl)
        # types after the merge: unify what the branches produced (recorded through unify on assignment)
        branch_ok = None
        if aok or bok:
            branch_ok = f"(if {ct} then {paren(aok or 'true')} else {paren(bok or 'true')})"
        env2 = dict(env)
        lns = []
        for n in M:
            e = env[n]
            ln = e[0] if e[0] is not None else e[2]
            env2[n] = (ln, e[1])
            lns.append(ln)
        rt, rok = self.seq(stmts, i + 1, env2, k, ctl)
        if not M:
            return rt, self.conj(cok, branch_ok, rok)
        val = f"if {ct} then {paren(at)} else {paren(bt)}"
        if len(M) == 1:
            return self.let_(lns[0], val, rt), self.conj(cok, branch_ok, self.let_ok(lns[0], val, None, rok))
        tmp = em.fresh("t_" + "_".join(M), env2)
        term = self.let_(tmp, val, self.bind_tuple(tmp, lns, rt))
        ok = self.conj(cok, branch_ok,
                       self.let_ok(tmp, val, None, self.bind_tuple(tmp, lns, rok) if rok else None))
        return term, ok

    # ---- while / loop
    def loop_name(self, kind):
        self.loop_counter += 1
        return f"{self.lname}_{kind}" + ("" if self.loop_counter == 1 else str(self.loop_counter))

    def free_in(self, parts, env):
        names = set()
        for p in parts:
            if isinstance(p, list):
                stmts_names(p, names)
            else:
                expr_names(p, names)
        return names

    def do_while(self, st, stmts, i, env, k, ctl):
        em = self.em
        if st[0] == "while":
            _, label, cond, body, site = st
        else:
            _, label, body, site = st
            cond = None
        fname = self.loop_name("loop")
        S = [n for n in self.env_order(env) if n in set(assigned_outer(body))]
        for n in assigned_outer(body):
            if n not in env:
                raise Unsupported(f"assignment to unknown variable {n}")
        # a variable declared without initialiser and assigned inside the loop is not loop-carried: rustc's definite
        # assignment analysis guarantees it is written before it is read in every iteration and never read afterwards
        S = [n for n in S if env[n][0] is not None]
        used = self.free_in([cond, body] if cond is not None else [body], env)
        F = [n for n in self.env_order(env) if n in used and n not in S and env[n][0] is not None]
        # does the loop leave through `return` (only for `loop {}` without `break`) or through its state?
        fl = {"ret": False, "brk": False}

        def f(s, in_loop):
            if s[0] == "return":
                fl["ret"] = True
            if s[0] == "break" and (not in_loop or s[1] == label and label is not None):
                fl["brk"] = True
        walk_stmts(body, f)
        mode = "state"
        if fl["ret"]:
            if cond is not None or fl["brk"]:
                raise Unsupported("`return` inside a loop that can also exit normally")
            mode = "return"
        last_in_enclosing_loop = None
        if ctl.loops and i == len(stmts) - 1 and getattr(k, "is_loop_body", False):
            last_in_enclosing_loop = ctl.loops[-1].label
        benv = {n: env[n] for n in self.env_order(env) if n in F + S or env[n][0] is None}
        sty = ("tuple", [em.resolve(env[n][1]) for n in S])
        if len(S) == 1:
            sty = em.resolve(env[S[0]][1])
        fargs = " ".join(env[n][0] for n in F)
        call_prefix = f"{fname} {fargs}".strip()

        def state_of(env2):
            return [env2[n][0] for n in S]

        def cont(env2):
            a = " ".join(state_of(env2))
            return f"{call_prefix} fuel {a}".strip(), f"({fname}_ok {fargs} fuel {a})".replace("  ", " ")

        def brk(env2):
            if mode == "return":
                raise Unsupported("break in a returning loop")
            for n in S:
                self.em.unify(env2[n][1], env[n][1], f"loop state {n}")
            return f"some {paren(tuple_term(state_of(env2)))}", None

        def ret(e, env2):
            if mode != "return":
                raise Unsupported("`return` inside a loop that can also exit normally")
            return self.ret_value(e, env2)

        lctx = LoopCtx(label, cont, brk, last_in_enclosing_loop)
        bctl = Ctl(ret, ctl.loops + [lctx])

        def fall(env2):
            for n in S:
                self.em.unify(env2[n][1], env[n][1], f"loop state {n}")
            return cont(self.leave(benv, env2))
        bk = K(fall)
        bk.is_loop_body = True
        bt, bok = self.seq(body, 0, benv, bk, bctl)
        if cond is not None:
            em.check_no_partial(cond)
            ct, cty, cok = em.emit(cond, benv, "bool")
            if cty != "bool":
                raise Unsupported("while condition")
            exit_t, _ = brk(benv)
            bt = f"if {ct} then\n  {paren(bt)}\n  else {exit_t}"
            bok = self.conj(cok, f"(if {ct} then {paren(bok or 'true')} else true)")
        if mode == "return":
            RT = f"Option {lean_ty_atom(self.rty)}"
        else:
            RT = f"Option {lean_ty_atom(sty)}"
        fb = " ".join(f"({env[n][0]} : {lean_ty(em.resolve(env[n][1]))})" for n in F)
        sig = " → ".join(f"({env[n][0]} : {lean_ty(em.resolve(env[n][1]))})" for n in S)
        pats = ", ".join(env[n][0] for n in S)
        unders = ", ".join("_" for _ in S)
        sig_arrow = (sig + " → ") if S else ""
        p_some = (", " + pats) if S else ""
        p_under = (", " + unders) if S else ""
        what = "`while`" if cond is not None else "`loop`"
        d = f"/-- the {what} loop of `{self.rust_name}` (`none`: more than `fuel` evaluations of the loop head) -/\n"
        d += f"def {fname} {fb} : (fuel : Nat) → {sig_arrow}{RT}\n  | 0{p_under} => none\n  | fuel+1{p_some} =>\n  {bt}\n"
        d += f"\ndef {fname}_ok {fb} : (fuel : Nat) → {sig_arrow}Bool\n  | 0{p_under} => true\n  | fuel+1{p_some} =>\n  {bok or 'true'}\n"
        d = d.replace(f"def {fname}  :", f"def {fname} :").replace(f"def {fname}_ok  :", f"def {fname}_ok :")
        self.defs.append(d)
        a0 = " ".join(state_of(env))
        call = f"{call_prefix} {self.fuel} {a0}".strip()
        callok = f"({fname}_ok {fargs} {self.fuel} {a0})".replace("  ", " ")
        if mode == "return":
            if i != len(stmts) - 1:
                raise Unsupported("statements after a `loop` that never exits normally")
            return call, callok
        env2 = dict(env)
        lns = [env[n][0] for n in S]
        rt, rok = self.seq(stmts, i + 1, env2, k, ctl)
        if len(S) == 1:
            return self.match_option(call, callok, lns[0], rt, rok)
        if not S:
            return self.match_option(call, callok, "_", rt, rok)
        tmp = em.fresh("t_" + fname.split("_")[-1], env2)
        return self.match_option(call, callok, tmp, self.bind_tuple(tmp, lns, rt),
                                 self.bind_tuple(tmp, lns, rok) if rok else None)

    # ---- for
    def do_for(self, st, stmts, i, env, k, ctl):
        em = self.em
        _, label, var, lo, hi, incl, rev, body, site = st
        fname = self.loop_name("for")
        em.check_no_partial(lo)
        em.check_no_partial(hi)
        if lo[0] == "lit" and not lo[2]:
            ht, hty, hok = em.emit(hi, env, None)
            lt, lty, lok = em.emit(lo, env, hty)
        else:
            lt, lty, lok = em.emit(lo, env, None)
            ht, hty, hok = em.emit(hi, env, lty)
        ity = em.unify(lty, hty, "range bounds")
        if not (ity in INT_TYPES or is_ivar(ity) or ity == "int?"):
            raise Unsupported("range over non-integers")
        if ity == "int?":
            # BT2: both bounds are unsuffixed literals (`for i in 0..8`): the loop variable gets the type variable of this
            # `for` site, bound by its uses in the body (the translation is re-run until nothing new is bound)
            ity = em.resolve(("ivar", site))
            if is_ivar(ity):
                em.dirty = True
        if var in assigned_outer(body, ()):
            raise Unsupported("assignment to the loop variable")
        S = [n for n in self.env_order(env) if n in set(assigned_outer(body, {var})) and n != var]
        for n in assigned_outer(body, {var}):
            if n not in env:
                raise Unsupported(f"assignment to unknown variable {n}")
        S = [n for n in S if env[n][0] is not None]
        used = self.free_in([body], env)
        F = [n for n in self.env_order(env) if n in used and n not in S and n != var and env[n][0] is not None]
        impure = self.is_partial_block(body)
        fl = {"ret": False}

        def f(s, in_loop):
            if s[0] == "return":
                fl["ret"] = True
        walk_stmts(body, f)
        if fl["ret"]:
            raise Unsupported("`return` inside a `for` loop")
        benv = {n: env[n] for n in self.env_order(env) if n in F + S or env[n][0] is None}
        iv = em.fresh(var, benv)
        benv[var] = (iv, ity)
        lov = None
        if rev:
            benv2 = dict(benv)
            lov = em.fresh(var + "_lo", benv2)
        sty = ("tuple", [em.resolve(env[n][1]) for n in S])
        if len(S) == 1:
            sty = em.resolve(env[S[0]][1])
        fargs = " ".join([env[n][0] for n in F] + ([lov] if rev else []))
        call_prefix = f"{fname} {fargs}".strip()
        wrap = (lambda v: f"some {paren(v)}") if impure else (lambda v: v)

        def state_of(env2):
            return [env2[n][0] for n in S]

        def cont(env2):
            a = " ".join(state_of(env2))
            if rev:
                return f"{call_prefix} n {a}".strip(), f"({fname}_ok {fargs} n {a})"
            return f"{call_prefix} n ({iv} + 1) {a}".strip(), f"({fname}_ok {fargs} n ({iv} + 1) {a})"

        def brk(env2):
            for n in S:
                self.em.unify(env2[n][1], env[n][1], f"loop state {n}")
            return wrap(tuple_term(state_of(env2))), None

        def ret(e, env2):
            raise Unsupported("`return` inside a `for` loop")
        lctx = LoopCtx(label, cont, brk, None)
        bctl = Ctl(ret, ctl.loops + [lctx])

        def fall(env2):
            for n in S:
                self.em.unify(env2[n][1], env[n][1], f"loop state {n}")
            return cont(self.leave(benv, env2))
        bk = K(fall)
        bk.is_loop_body = True
        bt, bok = self.seq(body, 0, benv, bk, bctl)
        exit_t, _ = brk(benv)
        RT = lean_ty(sty)
        if impure:
            RT = f"Option {lean_ty_atom(sty)}"
        fb = " ".join([f"({env[n][0]} : {lean_ty(em.resolve(env[n][1]))})" for n in F] + ([f"({lov} : Nat)"] if rev else []))
        sig = " → ".join(f"({env[n][0]} : {lean_ty(em.resolve(env[n][1]))})" for n in S)
        pats = ", ".join(env[n][0] for n in S)
        unders = ", ".join("_" for _ in S)
        sig_arrow = (sig + " → ") if S else ""
        p_some = (", " + pats) if S else ""
        d = f"/-- the `for {var}` loop of `{self.rust_name}`; `n` = number of iterations still to run -/\n"
        if rev:
            head = f"let {iv} := {lov} + n\n  "
            d += f"def {fname} {fb} : (n : Nat) → {sig_arrow}{RT}\n  | 0{p_some} => {exit_t}\n  | n+1{p_some} =>\n  {head}{bt}\n"
            d += f"\ndef {fname}_ok {fb} : (n : Nat) → {sig_arrow}Bool\n  | 0{p_some} => true\n  | n+1{p_some} =>\n  {head}{bok or 'true'}\n"
        else:
            d += f"def {fname} {fb} : (n : Nat) → ({iv} : Nat) → {sig_arrow}{RT}\n  | 0, _{p_some} => {exit_t}\n  | n+1, {iv}{p_some} =>\n  {bt}\n"
            d += f"\ndef {fname}_ok {fb} : (n : Nat) → ({iv} : Nat) → {sig_arrow}Bool\n  | 0, _{p_some} => true\n  | n+1, {iv}{p_some} =>\n  {bok or 'true'}\n"
        d = d.replace(f"def {fname}  :", f"def {fname} :").replace(f"def {fname}_ok  :", f"def {fname}_ok :")
        self.defs.append(d)
        a0 = " ".join(state_of(env))
        count = f"({ht} + 1 - {lt})" if incl else f"({ht} - {lt})"
        pre = " ".join(env[n][0] for n in F)
        if rev:
            call = f"{fname} {pre} {paren(lt)} {count} {a0}".replace("  ", " ").strip()
            callok = f"({fname}_ok {pre} {paren(lt)} {count} {a0})".replace("  ", " ")
        else:
            call = f"{fname} {pre} {count} {paren(lt)} {a0}".replace("  ", " ").strip()
            callok = f"({fname}_ok {pre} {count} {paren(lt)} {a0})".replace("  ", " ")
        callok = self.conj(lok, hok, callok)
        env2 = dict(env)
        lns = [env[n][0] for n in S]
        rt, rok = self.seq(stmts, i + 1, env2, k, ctl)
        if impure:
            if len(S) == 1:
                return self.match_option(call, callok, lns[0], rt, rok)
            if not S:
                return self.match_option(call, callok, "_", rt, rok)
            tmp = em.fresh("t_" + fname.split("_")[-1], env2)
            return self.match_option(call, callok, tmp, self.bind_tuple(tmp, lns, rt),
                                     self.bind_tuple(tmp, lns, rok) if rok else None)
        if not S:
            return rt, self.conj(callok, rok)
        if len(S) == 1:
            return self.let_(lns[0], call, rt), self.let_ok(lns[0], call, callok, rok)
        tmp = em.fresh("t_" + fname.split("_")[-1], env2)
        return (self.let_(tmp, call, self.bind_tuple(tmp, lns, rt)),
                self.let_ok(tmp, call, callok, self.bind_tuple(tmp, lns, rok) if rok else None))

    def is_partial_block(self, stmts):
        fl = {"p": False}

        def f(s, _):
            if s[0] in ("while", "loop"):
                fl["p"] = True
        walk_stmts(stmts, f)
        names = stmts_names(stmts, set())
        if any(n.startswith("call:") and (n[5:] in self.em.pfns or n[5:] == self.rust_name) for n in names):
            fl["p"] = True
        return fl["p"]


# --------------------------------------------------------------------------------------------------------
# driver
# --------------------------------------------------------------------------------------------------------

def parse_params(text, em, self_ty=None, inouts=None):
    """[(name, type)], mut_self?   (BT2: names of `x: &mut T` parameters are appended to `inouts` when a list is given,
    otherwise such a parameter is refused)"""
    out = []
    mut_self = False
    ps = LParser(tokenize(text))
    while ps.peek()[0] != "eof":
        amp = ps.accept("&")
        mut = ps.accept("mut")
        k, n = ps.next()
        if k != "id":
            raise Unsupported(f"parameter {n!r}")
        if n == "self":
            if self_ty is None:
                raise Unsupported("self parameter")
            mut_self = amp and mut
            out.append(("self", self_ty))
        else:
            if amp:
                raise Unsupported("parameter pattern")
            ps.expect(":")
            # ---- BEGIN BT2: `&mut T` parameters, parameter types of a subclass emitter
            if ps.peek()[1] == "&" and ps.peek(1)[1] == "mut":
                if inouts is None:
                    raise Unsupported("`&mut` parameter")
                inouts.append(n)
            ty = em.tyname(ps.parse_type())
            if not (ty in INT_TYPES or ty == "bool" or (self_ty is not None and ty == self_ty)
                    or getattr(em, "param_type_ok", lambda t: False)(ty)):
                raise Unsupported(f"parameter type {ty}")
            # ---- END BT2
            out.append((n, ty))
        if not ps.accept(","):
            break
    if ps.peek()[0] != "eof":
        raise Unsupported("parameter list")
    return out, mut_self


def parse_ret(text, em):
    if not text.strip():
        return None
    ps = LParser(tokenize(text))
    ty = ps.parse_type()
    if ps.peek()[0] != "eof":
        raise Unsupported("return type")
    return ty


def translate_fn(src, rust_name, lname, rel, consts, fns, pfns, fuel=DEFAULT_FUEL, after=None, self_ty=None,
                 generic=None, translator_cls=None, info=None):
    """returns (lean text, param types, result type, partial?)
    self_ty: type of `Self` (impl of a newtype over an array); generic: name of a `const N: usize` parameter of the impl
    (BT2: or a list of such names), which become the first parameters of the Lean definition;
    BT2: translator_cls = subclass of FnTranslator (tools/rs2lean_bfe.py), info = dict that receives `outs` (indices of the
    `&mut` parameters), `has_ret`, `method`"""
    cls = translator_cls or FnTranslator
    params_text, ret_text, body = find_fn(src, rust_name, after)
    probe = (cls.EMITTER or LoopEmitter)(consts, fns, pfns, rust_name)
    probe.self_ty_override = self_ty
    inouts = [] if cls.SUPPORTS_INOUT else None
    params, mut_self = parse_params(params_text, probe, self_ty, inouts)
    generics = [generic] if isinstance(generic, str) else list(generic or [])
    params = [(g, "usize") for g in generics] + params
    ret_ast = parse_ret(ret_text, probe)
    tr = cls(lname, rust_name, params, ret_ast, body, consts, fns, pfns, fuel, rel, self_ty, mut_self)
    tr.inouts = inouts or []
    text = tr.translate()
    if info is not None:
        names = [n for n, _ in params]
        info["outs"] = [names.index(n) for n in names if n in tr.inouts or (n == "self" and mut_self)]
        info["has_ret"] = ret_ast is not None
        info["method"] = bool(names) and "self" in names and names.index("self") == len(generics)
        info["generics"] = len(generics)
    return text, [t for _, t in params], tr.em.resolve(tr.rty), tr.partial


MMR_LOOP_FUNCTIONS = [
    # (lean name, rust name, fuel)
    ("right_lineage_length_and_own_height", "right_lineage_length_and_own_height", 65),
    ("right_lineage_length_from_node_index", "right_lineage_length_from_node_index", 65),
    ("parent", "parent", 65),
    ("node_index_to_leaf_index", "node_index_to_leaf_index", 65),
    ("get_peak_heights", "get_peak_heights", 65),
    ("get_peak_heights_and_peak_node_indices", "get_peak_heights_and_peak_node_indices", 65),
    ("node_indices_added_by_append", "node_indices_added_by_append", 65),
    ("get_authentication_path_node_indices", "get_authentication_path_node_indices", 66),
]


U32S_IMPL = r"impl<const N: usize> U32s<N> \{"
U32S_FUNCTIONS = [
    # (lean name, rust name, anchor, fuel of `while` loops)
    ("u32s_get_bit", "get_bit", U32S_IMPL, DEFAULT_FUEL),
    ("u32s_set_bit", "set_bit", U32S_IMPL, DEFAULT_FUEL),
    ("u32s_div_two", "div_two", U32S_IMPL, DEFAULT_FUEL),
    ("u32s_mul_two", "mul_two", U32S_IMPL, DEFAULT_FUEL),
    ("u32s_sub", "sub", r"impl<const N: usize> Sub for U32s<N>", DEFAULT_FUEL),
    ("u32s_add", "add", r"impl<const N: usize> Add for U32s<N>", DEFAULT_FUEL),
    # the carry loops `while add_carry { assert!(i + j + k < N); .. k += 1 }` visit every limb at most once
    ("u32s_mul", "mul", r"impl<const N: usize> Mul for U32s<N>", "(N + 1)"),
]
# attempted on every run so that the report says why they are outside the subset (never listed as `translated`)
U32S_OUTSIDE = [
    ("u32s_rem_div", "rem_div", U32S_IMPL),
    ("u32s_cmp", "cmp", r"impl<const N: usize> Ord for U32s<N>"),
]


def run_group(status, changed, out_name, header_src, imports, specs, read_src, tfns, pfns, outside=()):
    out = [HEADER.format(src=header_src).replace("rs2lean.py", "rs2lean.py (rs2lean_loops.py)")]
    out += [f"import {m}\n" for m in imports]
    out += ["set_option linter.unusedVariables false\n", "namespace TF.Gen.Loops\nopen TF.Gen\n"]
    for spec in specs:
        lname, rname, fuel, rel, kw = spec
        src = read_src(rel)
        if src is None:
            status["failed"][f"fn {lname}"] = "loops: source file not readable"
            continue
        try:
            text, ptys, rty, partial = translate_fn(src, rname, lname, rel, {}, tfns, pfns, fuel, **kw)
        except Unsupported as ex:
            status["failed"][f"fn {lname}"] = "loops: " + str(ex)
            continue
        except Exception as ex:      # a translator crash is also a refusal, never a guess
            status["failed"][f"fn {lname}"] = f"loops: internal: {type(ex).__name__}: {ex}"
            continue
        out.append(text)
        if partial:
            pfns[rname] = (lname, ptys, rty)
        else:
            tfns[rname] = (lname, ptys, rty)
        status["translated"][lname] = {"source": rel, "sha256": hashlib.sha256(text.encode()).hexdigest()[:16],
                                       "loops": True, "fuel": fuel}
    for lname, rname, rel, kw in outside:
        src = read_src(rel)
        try:
            translate_fn(src, rname, lname, rel, {}, tfns, pfns, DEFAULT_FUEL, **kw)
            status.setdefault("outside_subset", {})[lname] = "translatable now (not emitted: not in the table of translated functions)"
        except Exception as ex:
            status.setdefault("outside_subset", {})[lname] = str(ex)
    out.append("end TF.Gen.Loops\n")
    if write_if_changed(os.path.join(OUT, out_name + ".lean"), "\n".join(out)):
        changed.append(out_name)


def run(status, changed, fns):
    """called by rs2lean.py after the loop-free functions; `fns` is its registry rust name -> (lean name, param types, ret)"""
    cache = {}

    def read_src(rel):
        if rel not in cache:
            try:
                cache[rel] = strip_comments(read(rel))
            except OSError:
                cache[rel] = None
        return cache[rel]

    sa_rel = "twenty-first/src/util_types/mmr/shared_advanced.rs"
    tfns = dict((k, v) for k, v in fns.items() if v is not None)
    run_group(status, changed, "MmrLoops", sa_rel, ["TF.Gen.MmrIndex"],
              [(ln, rn, fuel, sa_rel, {}) for ln, rn, fuel in MMR_LOOP_FUNCTIONS], read_src, tfns, {})

    # ---- BEGIN BT2 hook: BFieldElement / Tip5 functions (tools/rs2lean_bfe.py)
    try:
        import rs2lean_bfe
        rs2lean_bfe.run(status, changed, fns, read_src)
    except Exception as ex:      # never fatal for the other groups; recorded as a refusal
        status["failed"]["loops bfe"] = f"loops: internal: {type(ex).__name__}: {ex}"
    # ---- END BT2 hook

    # ---- BEGIN BT4 hook: sponge functions, MMR peak calculation, Merkle construction (tools/rs2lean_bt4.py); it reuses the
    # registries rs2lean_bfe.run left in rs2lean_bfe.CTX and restores everything it patches
    try:
        import rs2lean_bt4
        rs2lean_bt4.run(status, changed, fns, read_src)
    except Exception as ex:      # never fatal for the other groups; recorded as a refusal
        status["failed"]["bt4"] = f"bt4: internal: {type(ex).__name__}: {ex}"
    # ---- END BT4 hook

    u_rel = "twenty-first/src/amount/u32s.rs"
    arr = ("array", "u32")
    kw = lambda anchor: {"after": anchor, "self_ty": arr, "generic": "N"}
    run_group(status, changed, "U32sLoops", u_rel, ["TF.Model.Word"],
              [(ln, rn, fuel, u_rel, kw(anchor)) for ln, rn, anchor, fuel in U32S_FUNCTIONS], read_src, {}, {},
              outside=[(ln, rn, u_rel, kw(anchor)) for ln, rn, anchor in U32S_OUTSIDE])

    # ---- BEGIN hook BT3: extended subset (tools/rs2lean_ext.py): U32s rem_div/cmp/conversions, NTT, lattice
    try:
        import rs2lean_ext
        rs2lean_ext.run(status, changed, read_src)
    except Exception as ex:      # never fatal for the functions above; recorded as a refusal
        status["failed"]["ext"] = f"internal: {type(ex).__name__}: {ex}"
    # ---- END hook BT3

    # ---- BEGIN hook BT5: typed conversion subset (tools/rs2lean_conv.py): Digest/element conversions, codec leaves, Merkle indices
    try:
        import rs2lean_conv
        rs2lean_conv.run(status, changed, fns, read_src)
    except Exception as ex:      # never fatal for the functions above; recorded as a refusal
        status["failed"]["conv"] = f"internal: {type(ex).__name__}: {ex}"
    # ---- END hook BT5

    # ---- BEGIN BT6 hook: core loops of polynomial.rs (tools/rs2lean_poly.py -> TF/Gen/PolyLoops.lean)
    try:
        import rs2lean_poly
        rs2lean_poly.run(status, changed, read_src)
    except Exception as ex:      # never fatal for the functions above; recorded as a refusal
        status["failed"]["poly"] = f"internal: {type(ex).__name__}: {ex}"
    # ---- END BT6 hook
    # ---- BEGIN BT7 hook: MMR proof machinery (membership / successor proofs, accumulator methods) with opaque digests
    # (tools/rs2lean_mmr.py -> TF/Gen/MmrProofLoops.lean); restores everything it patches
    try:
        import rs2lean_mmr
        rs2lean_mmr.run(status, changed, fns, read_src)
    except Exception as ex:      # never fatal for the functions above; recorded as a refusal
        status["failed"]["mmr"] = f"internal: {type(ex).__name__}: {ex}"
    # ---- END BT7 hook
