#!/usr/bin/env python3
# BEGIN BT5 (whole file)
"""self-test of tools/rs2lean_conv.py (the typed conversion subset): accepted constructs translate to the expected Lean,
everything else is REFUSED (recorded under "failed"), never guessed.  Run: python3 tools/test_rs2lean_conv.py"""
import os
import sys
sys.path.insert(0, os.path.dirname(os.path.abspath(__file__)))
import rs2lean_conv as C
from rs2lean import Unsupported


def setup():
    C.reset()
    C.G.consts = {("BFieldElement", "P"): (18446744069414584321, "u64"), ("BFieldElement", "BYTES"): (8, "usize"),
                  ("Digest", "LEN"): (5, "usize"), ("Digest", "BYTES"): (40, "usize")}
    C.G.structs = {"Digest": ("tuple", None, ("sarray", "bfe", 5))}
    C.G.enums = {"E1": {"variants": ["A", "B"], "from": {}}, "E2": {"variants": ["Wrap", "C"], "from": {"E1": "Wrap"}}}
    C.G.funs = {("BFieldElement", "new"): ("bfe_new", ["u64"], "bfe"),
                ("BFieldElement", "canonical_representation"): ("bfe_value", ["bfe"], "u64"),
                ("BFieldElement", "is_canonical"): ("bfe_is_canonical", ["u64"], "bool")}
    C.G.bfe_consts = {"ZERO": 0}


def tr(src, owner="BFieldElement", self_ty="bfe", err="E1", reg=("none",)):
    status = {"failed": {}, "translated": {}}
    texts = []
    ok = C.translate_one(dict(lname="f", rel="test.rs", src="impl X { " + src + " }", fn="f", anchor=r"impl X \{", owner=owner,
                              self_ty=self_ty, err=err, reg=reg), status, texts)
    return ok, (texts[0] if texts else status["failed"].get("fn f"))


CASES = [
    # (expected substring of the Lean text | None = must be refused with this substring in the reason, source)
    ("TF.RustStd.ok_or (if (bfe_is_canonical v) then some (bfe_new v) else none) \"A\"",
     "fn f(v: u64) -> Result<Self, E1> { Self::is_canonical(v).then(|| Self::new(v)).ok_or(E1::A) }"),
    ("TF.RustStd.tryE (TF.RustStd.map_err (TF.RustStd.array_try_from 8 b \"TryFromSliceError\") \"B\")",
     "fn f(b: &[u8]) -> Result<[u8; 8], E1> { let a = <[u8; BFieldElement::BYTES]>::try_from(b).map_err(|_| Self::Error::B)?; Ok(a) }"),
    ("(TF.ofLeBytes a)", "fn f(a: [u8; 8]) -> u64 { u64::from_le_bytes(a) }"),
    ("(TF.RustStd.chunks_exact 8 b)", "fn f(b: [u8; 40]) -> usize { let c: Vec<_> = b.chunks_exact(BFieldElement::BYTES).map(|x| x.len()).collect(); c.len() }"),
    ("TF.RustStd.iter_cmp", "fn f(a: [u64; 5], b: [u64; 5]) -> std::cmp::Ordering { a.iter().rev().cmp(b.iter().rev()) }"),
    ("List.foldl", "fn f(v: BigUint) -> BigUint { let mut r = v; let m: BigUint = BFieldElement::P.into(); for _ in 0..Digest::LEN { r /= m.clone(); } r }"),
    ("arr_1.getD 4 0", "fn f(d: Digest) -> BFieldElement { let Digest([a, b, c, d3, e]) = d; e }"),
    # ---- refusals
    (None, "turbofish", "fn f(b: &[u8]) -> usize { b.first_chunk::<8>().len() }"),
    (None, "`?` inside", "fn f(b: &[u8]) -> Result<usize, E1> { let v: Vec<_> = b.iter().map(|x| Err(E1::A)?).collect(); Ok(0) }"),
    (None, "literal whose type", "fn f() -> bool { let a = 5; true }"),
    (None, "statement while", "fn f(x: u64) -> u64 { while x > 0 { } x }"),
    (None, "method frobnicate", "fn f(x: u64) -> u64 { x.frobnicate() }"),
    (None, "no `#[from] E2` variant", "fn f(r: Result<u64, E2>) -> Result<u64, E1> { let v = r?; Ok(v) }"),
    (None, "no `try_from` conversion", "fn f(b: &[u8]) -> Result<[u16; 4], E1> { let a = <[u16; 4]>::try_from(b).map_err(|_| E1::A)?; Ok(a) }"),
    (None, "array pattern of 4 items", "fn f(d: Digest) -> BFieldElement { let Digest([a, b, c, e]) = d; e }"),
    (None, "error payload that can panic", "fn f(a: u64, b: u64) -> Result<u64, E1> { Err(E1::A(a + b)) }"),
    (None, "for body is not straight-line", "fn f(v: BigUint) -> BigUint { let mut r = v; for _ in 0..5usize { if r.is_zero() { return r; } } r }"),
]

MACRO_OK = """
macro_rules! m { ($ty:ty, $size:literal) => { impl T for $ty { fn n() -> usize { $size } } }; }
m!(u64, 2);
m!(u128, 4);
"""
MACRO_BAD = """
macro_rules! m { ($ty:ty, $size:literal, $x:expr) => { impl T for $ty { fn n() -> usize { $size } } }; }
m!(u64, 2, 3);
"""


def main():
    bad = 0
    for case in CASES:
        setup()
        if case[0] is not None:
            want, src = case
            ok, text = tr(src)
            if not ok or want not in text:
                bad += 1
                print("FAIL (expected translation containing %r):\n  %s\n  -> %s" % (want, src, text))
        else:
            _, why, src = case
            ok, text = tr(src)
            if ok or why not in (text or ""):
                bad += 1
                print("FAIL (expected refusal %r):\n  %s\n  -> %s" % (why, src, text))
    # `?` with a `#[from]` conversion
    setup()
    ok, text = tr("fn f(r: Result<u64, E1>) -> Result<u64, E2> { let v = r?; Ok(v) }", err="E2")
    if not ok or 'TF.RustStd.tryFrom "Wrap"' not in text:
        bad += 1
        print("FAIL: ? with #[from]", text)
    # macros
    ex = C.expand_macro(MACRO_OK, "m")
    if [a for a, _ in ex] != [("u64", "2"), ("u128", "4")] or "impl T for u128 { fn n() -> usize { 4 } }" not in ex[1][1]:
        bad += 1
        print("FAIL: macro expansion", ex)
    try:
        C.expand_macro(MACRO_BAD, "m")
        bad += 1
        print("FAIL: changed macro shape accepted")
    except Unsupported:
        pass
    # BEGIN P03: Merkle index subset (struct seen through one field, checked_add + `?` on Option, slice::get, shifts) and
    # the refusals that keep it sound
    p03 = 0
    def tr2(src, owner, self_ty, err=None, alias=None):
        status = {"failed": {}, "translated": {}}
        texts = []
        ok = C.translate_one(dict(lname="f", rel="test.rs", src="impl X { " + src + " }", fn="f", anchor=r"impl X \{",
                                  owner=owner, self_ty=self_ty, err=err, result_alias=alias, reg=("none",)), status, texts)
        return ok, (texts[0] if texts else status["failed"].get("fn f"))
    P03_CASES = [
        ("TF.RustStd.checked_add 18446744073709551616", "MerkleTree", ("struct", "MerkleTree"),
         "fn f(&self, index: usize) -> Option<Digest> { let first = self.nodes.len() / 2; let k = first.checked_add(index)?; self.nodes.get(k).copied() }"),
        ("decide (self > 31)", "PartialMerkleTree", ("struct", "PartialMerkleTree"),
         "fn f(&self) -> Result<usize> { if self.tree_height > MAX_TREE_HEIGHT { return Err(E1::A); } Ok(1 << self.tree_height) }"),
        ("(Nat.log2 ", "MerkleTree", ("struct", "MerkleTree"),
         "fn f(&self) -> usize { let n = self.nodes.len() / 2; n.ilog2() as usize }"),
        (None, "only modelled through its field `tree_height`", "PartialMerkleTree", ("struct", "PartialMerkleTree"),
         "fn f(&self) -> usize { self.leaf_indices.len() }"),
        (None, "", "PartialMerkleTree", ("struct", "PartialMerkleTree"),
         "fn f(h: usize) -> Self { PartialMerkleTree { tree_height: h } }"),
        (None, "type T", None, None,
         "fn f<T: BFieldCodec>(n: usize, s: &[BFieldElement]) -> Result<Vec<T>, E1> { let w = T::static_length().unwrap(); Ok(vec![]) }"),
        (None, "", "MerkleTree", ("struct", "MerkleTree"),
         "fn f(&self) -> usize { let mut i = 0; for _ in 0..self.nodes.len() { if i > 3 { return i; } i += 1; } i }"),
    ]
    for case in P03_CASES:
        setup()
        C.G.consts[("", "MAX_TREE_HEIGHT")] = (31, "usize")
        C.G.structs["MerkleTree"] = ("field", "nodes", ("vec", ("struct", "Digest")))
        C.G.structs["PartialMerkleTree"] = ("view", "tree_height", "usize")
        if case[0] is not None:
            want, owner, sty, src = case
            ok, text = tr2(src, owner, sty, err="E1", alias="E1")
            if not ok or want not in text:
                bad += 1
                print("FAIL (expected translation containing %r):\n  %s\n  -> %s" % (want, src, text))
        else:
            _, why, owner, sty, src = case
            ok, text = tr2(src, owner, sty, err="E1", alias="E1")
            if ok or why not in (text or ""):
                bad += 1
                print("FAIL (expected refusal %r):\n  %s\n  -> %s" % (why, src, text))
        p03 += 1
    # END P03
    print("rs2lean_conv self-test: %d cases, %d failures" % (len(CASES) + 3 + p03, bad))
    return 1 if bad else 0


if __name__ == "__main__":
    sys.exit(main())
# END BT5
