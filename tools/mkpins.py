#!/usr/bin/env python3
"""mkpins.py -- pin the content hashes of every anchored source file at /repo HEAD (tools/srcpins.json).
Re-run after every commit to /repo.  The pins only steer search depth (checklib.changed_anchor_files)."""
import hashlib, json, os, subprocess
V = os.path.normpath(os.path.join(os.path.dirname(os.path.abspath(__file__)), ".."))
files = set()
for l in open(os.path.join(V, "properties.jsonl")):
    files |= set(json.loads(l).get("anchors", {}).get("files", []))
pins = {}
for fn in sorted(files):
    r = subprocess.run(["git", "-C", "/repo", "show", "HEAD:" + fn], stdout=subprocess.PIPE)
    if r.returncode == 0:
        pins[fn] = hashlib.sha256(r.stdout).hexdigest()
json.dump({"_head": subprocess.run(["git", "-C", "/repo", "rev-parse", "HEAD"], stdout=subprocess.PIPE, text=True).stdout.strip(), **pins},
          open(os.path.join(V, "tools", "srcpins.json"), "w"), indent=1)
print(len(pins), "files pinned")
# pinned copy of the generated Lean files (fallback driver build, checklib.build_fallback_driver); run AFTER tools/rs2lean.py
import shutil
gp = os.path.join(V, "tools", "gen_pinned")
shutil.rmtree(gp, ignore_errors=True)
os.makedirs(gp)
for fn in sorted(os.listdir(os.path.join(V, "lean", "TF", "Gen"))):
    if fn.endswith(".lean"):
        shutil.copy2(os.path.join(V, "lean", "TF", "Gen", fn), os.path.join(gp, fn))
print("generated files pinned:", sorted(os.listdir(gp)))
