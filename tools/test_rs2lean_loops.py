#!/usr/bin/env python3
"""self-test of tools/rs2lean_loops.py: constructs outside the subset must be REFUSED (Unsupported), never guessed.
Run: python3 tools/test_rs2lean_loops.py   (exit 0 = all expectations met)"""
import os
import sys
sys.path.insert(0, os.path.dirname(os.path.abspath(__file__)))
import rs2lean_loops as L
from rs2lean import Unsupported

FNS = {"left_child": ("left_child", ["u64", "u32"], "u64")}

CASES = [
    # (expected: "ok" | "refuse", source)
    ("ok", "fn f(n: u64) -> u32 { let mut c = 0; let mut x = n; while x != 0 { x = x >> 1; c += 1; } c }"),
    ("ok", "fn f(n: u64) -> Vec<u64> { let mut v = vec![]; for i in 0..n { if i & 1 == 1 { continue; } v.push(i); } v }"),
    ("ok", "fn f(n: u64) -> Option<u64> { if n == 0 { return None; } let mut x = n; loop { if x & 1 == 1 { return Some(x); } x >>= 1; } }"),
    ("refuse", "fn f(n: u64) -> u64 { let mut x = n; while let Some(y) = x.checked_sub(1) { x = y; } x }"),          # while let
    ("refuse", "fn f(n: u64) -> u64 { let mut x = n; while x != 0 { if x == 5 { return 7; } x -= 1; } x }"),           # return inside while
    ("refuse", "fn f(n: u64) -> u64 { let mut x = n; 'a: loop { loop { if x == 0 { break 'a; } x -= 1; } } x }"),      # break to outer loop
    ("refuse", "fn f(n: u64) -> u64 { let x = 5; x as u64 + n }"),                                                      # literal type undetermined (i32 fallback)
    ("refuse", "fn f(n: u64) -> u64 { let mut x = n; while x != 0 { x = x.saturating_sub(1); } x }"),                  # unknown method
    ("refuse", "fn f(n: u64) -> u64 { let v = vec![n; 3]; v[0] }"),                                                     # vec![x; n]
    ("refuse", "fn f(n: u64) -> u64 { let mut s = 0; for x in [1u64, 2, 3].iter() { s += x; } s }"),                   # iterator
    ("refuse", "fn f(n: u64) -> u64 { let mut x = n; while x != 0 { x = g(x); } x }"),                                  # unknown function
    ("refuse", "fn f(n: u64) -> u64 { match n { 0 => 1, _ => 2 } }"),                                                   # match
    ("refuse", "fn f(n: u64) -> u64 { let mut x = n; let y = f(x) + 1; y }"),                                           # recursion inside an expression
    ("refuse", "fn f(n: i64) -> i64 { n }"),                                                                             # signed
]


def main():
    bad = 0
    for exp, src in CASES:
        try:
            text, _, _, _ = L.translate_fn(src, "f", "f", "<test>", {}, dict(FNS), {})
            got = "ok"
        except Unsupported as ex:
            got = "refuse"
            text = str(ex)
        except Exception as ex:
            got = "refuse"       # a crash is recorded as a refusal by run_group, too
            text = f"internal {type(ex).__name__}: {ex}"
        flag = "   " if got == exp else "!!!"
        if got != exp:
            bad += 1
        print(f"{flag} expected {exp:6} got {got:6}  {src[:70]}...  {'' if got == 'ok' else '-> ' + text[:80]}")
    return 1 if bad else 0


if __name__ == "__main__":
    sys.exit(main())
