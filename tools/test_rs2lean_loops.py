#!/usr/bin/env python3
"""self-test of tools/rs2lean_loops.py: constructs outside the subset must be REFUSED (Unsupported), never guessed.
Run: python3 tools/test_rs2lean_loops.py   (exit 0 = all expectations met)"""
import os
import sys
sys.path.insert(0, os.path.dirname(os.path.abspath(__file__)))
import rs2lean_loops as L
from rs2lean import Unsupported

FNS = {"left_child": ("left_child", ["u64", "u32"], "u64")}

CASES = [
    # (expected: "ok" | "refuse", source)
    ("ok", "fn f(n: u64) -> u32 { let mut c = 0; let mut x = n; while x != 0 { x = x >> 1; c += 1; } c }"),
    ("ok", "fn f(n: u64) -> Vec<u64> { let mut v = vec![]; for i in 0..n { if i & 1 == 1 { continue; } v.push(i); } v }"),
    ("ok", "fn f(n: u64) -> Option<u64> { if n == 0 { return None; } let mut x = n; loop { if x & 1 == 1 { return Some(x); } x >>= 1; } }"),
    ("refuse", "fn f(n: u64) -> u64 { let mut x = n; while let Some(y) = x.checked_sub(1) { x = y; } x }"),          # while let
    ("refuse", "fn f(n: u64) -> u64 { let mut x = n; while x != 0 { if x == 5 { return 7; } x -= 1; } x }"),           # return inside while
    ("refuse", "fn f(n: u64) -> u64 { let mut x = n; 'a: loop { loop { if x == 0 { break 'a; } x -= 1; } } x }"),      # break to outer loop
    ("refuse", "fn f(n: u64) -> u64 { let x = 5; x as u64 + n }"),                                                      # literal type undetermined (i32 fallback)
    ("refuse", "fn f(n: u64) -> u64 { let mut x = n; while x != 0 { x = x.saturating_sub(1); } x }"),                  # unknown method
    ("refuse", "fn f(n: u64) -> u64 { let v = vec![n; 3]; v[0] }"),                                                     # vec![x; n]
    ("refuse", "fn f(n: u64) -> u64 { let mut s = 0; for x in [1u64, 2, 3].iter() { s += x; } s }"),                   # iterator
    ("refuse", "fn f(n: u64) -> u64 { let mut x = n; while x != 0 { x = g(x); } x }"),                                  # unknown function
    ("refuse", "fn f(n: u64) -> u64 { match n { 0 => 1, _ => 2 } }"),                                                   # match
    ("refuse", "fn f(n: u64) -> u64 { let mut x = n; let y = f(x) + 1; y }"),                                           # recursion inside an expression
    ("refuse", "fn f(n: i64) -> i64 { n }"),                                                                             # signed
]


# ---- BEGIN BT2: constructs of tools/rs2lean_bfe.py (BFieldElement-typed functions, Tip5 state, &mut parameters, ...)
# each case: (expected, [(rust name, kw)], source with several fns; the LAST listed fn decides; earlier ones are registered)
BFE_PRE = """
fn sq(base: BFieldElement, k: u64) -> BFieldElement { let mut r = base; let mut i = 0; while i < k { r = r * r; i += 1; } r }
fn g(x: &mut BFieldElement) { *x = *x * *x; }
fn h(x: &mut BFieldElement) -> u64 { *x = *x * *x; 1 }
fn pure1(x: BFieldElement) -> BFieldElement { x * x }
"""
BFE_CASES = [
    ("ok", "fn f(a: BFieldElement, b: BFieldElement) -> BFieldElement { let c = a * b; c + a }", "bfe_mul"),
    ("ok", "fn f(a: BFieldElement) -> BFieldElement { let mut c = a; c *= a; c += BFieldElement::ONE; c }", "bfe_add"),
    ("ok", "fn f(a: BFieldElement) -> BFieldElement { Self(Self::montyred(a.0 as u128 * a.0 as u128)) }", "montyred"),
    ("ok", "fn f(&mut self) { for i in 0..4 { Self::g(&mut self.state[i]); } }", "self.set i"),                       # call statement, &mut place
    ("ok", "fn f(x: &mut BFieldElement) { let mut b = x.0.to_le_bytes(); for i in 0..8 { b[i] = LOOKUP_TABLE[b[i] as usize]; } *x = Self(u64::from_le_bytes(b)); }", "LOOKUP_TABLE.getD"),
    ("ok", "fn f(&mut self, r: usize) { for i in 0..STATE_SIZE { self.state[i] += ROUND_CONSTANTS[r * STATE_SIZE + i]; } }", "bfe_new (TF.Gen.ROUND_CONSTANTS.getD"),
    ("ok", "fn f(x: BFieldElement) -> BFieldElement { assert_ne!(x, BFieldElement::ZERO, \"zero\"); sq(x, 3) * x }", ".bind fun"),   # hoisted fuel-indexed call
    ("ok", "fn f(x: BFieldElement) -> BFieldElement { const fn sq(b: BFieldElement, k: u64) -> BFieldElement { b } sq(x, 3) * x }", ".bind fun"),   # nested item: skipped, registered fn used
    ("ok", "fn f(&mut self) -> [BFieldElement; 16] { self.g2(); self.state }", "(self, self)"),                              # value and final *self
    ("ok", "fn f(d: Domain) -> u64 { let mut r = 0; match d { VariableLength => (), FixedLength => { r = 5; } } r }", "if (d == 0)"),
    ("ok", "fn f(&mut self, inp: [BFieldElement; 10]) { self.state[..10].copy_from_slice(&inp); }", "++ self.drop 10"),
    ("ok", "fn f(&mut self) -> [BFieldElement; 5] { self.state[..5].try_into().unwrap() }", "(self.take 5"),
    ("ok", "fn f(d: Domain) -> Self { let mut state = [BFieldElement::ZERO; STATE_SIZE]; match d { VariableLength => (), FixedLength => { let mut i = 10; while i < STATE_SIZE { state[i] = BFieldElement::ONE; i += 1; } } } Self { state } }", "Option (List Nat)"),
    ("refuse", "fn f(&mut self) -> u64 { let t = self.state[..5].try_into().unwrap(); 1 }", None),   # target length unknown
    ("refuse", "fn f(a: BFieldElement) -> BFieldElement { a + 1 }", None),                         # integer literal and field element
    ("refuse", "fn f(a: BFieldElement, b: BFieldElement) -> BFieldElement { a / b }", None),      # Div is not translated
    ("refuse", "fn f(a: BFieldElement) -> BFieldElement { a << 1 }", None),
    ("refuse", "fn f(a: BFieldElement) -> BFieldElement { let mut c = a; c -= a; c }", None),      # SubAssign impl not recognised in this context
    ("refuse", "fn f(a: BFieldElement) -> u64 { let mut c = a; let y = h(&mut c) + 1; y }", None),  # &mut call inside an expression
    ("refuse", "fn f(a: BFieldElement) -> BFieldElement { pure1(a); a }", None),                   # call statement without &mut: value dropped
    ("refuse", "fn f(a: u64) -> BFieldElement { Foo::new(a) }", None),                              # `new` of another type
    ("refuse", "fn f(x: BFieldElement) -> BFieldElement { let y = if x == x { sq(x, 3) } else { x }; y }", None),   # fuel-indexed call under `if`
    ("refuse", "fn f(x: BFieldElement) -> BFieldElement { fn other(b: BFieldElement) -> BFieldElement { b } other(x) }", None),  # nested fn not translated
    ("refuse", "fn f(&mut self) -> u64 { let t = self.state[..4]; 1 }", None),                     # slice as a value
    ("refuse", "fn f(d: Domain) -> u64 { let mut r = 0; match d { FixedLength => { r = 5; } } r }", None),   # non-exhaustive match
    ("refuse", "fn f(d: Domain) -> u64 { match d { VariableLength => 1, FixedLength => 2 } }", None),       # match with values
    ("refuse", "fn f(a: XFieldElement) -> XFieldElement { a }", None),
    ("refuse", "fn f(&mut self) { for i in 0..4 { self.state[i] = self.state[i].inverse_or_zero(); } }", None),   # unknown method
]


def bfe_cases():
    import rs2lean_bfe as B
    B.reset_ctx()
    B.CTX["ops"] = {"+": "bfe_add", "*": "bfe_mul"}
    B.CTX["assign_ops"] = {"+=", "*="}
    B.CTX["bfe_consts"] = {"ZERO": 0, "ONE": 1}
    B.CTX["tables"] = {"LOOKUP_TABLE": ("LOOKUP_TABLE", "u8", None, 256), "ROUND_CONSTANTS": ("ROUND_CONSTANTS", "bfe", "bfe_new", 80)}
    B.CTX["enums"] = {"Domain": ["VariableLength", "FixedLength"]}
    B.CTX["owner"] = "BFieldElement"
    tfns = {"montyred": ("montyred", ["u128"], "u64")}
    B.CTX["sigs"]["montyred"] = {"outs": [], "has_ret": True, "method": False, "owner": "BFieldElement", "free": False, "generics": 0}
    pfns = {}
    consts = {"STATE_SIZE": (16, "usize")}
    st = ("array", "bfe")
    pre = [("sq", "bfe", {"free": True}), ("g", "bfe", {}), ("h", "bfe", {}), ("pure1", "bfe", {"free": True})]
    for rn, self_ty, extra in pre:
        info = {}
        text, ptys, rty, partial = L.translate_fn(BFE_PRE, rn, rn, "<test>", consts, tfns, pfns, self_ty=self_ty,
                                                  translator_cls=B.BfeFnTranslator, info=info)
        (pfns if partial else tfns)[rn] = (rn, ptys, rty)
        info["owner"] = None if extra.get("free") else "BFieldElement"
        info["free"] = bool(extra.get("free"))
        B.CTX["sigs"][rn] = info
    # a `&mut self` method of the state type
    info = {}
    text, ptys, rty, partial = L.translate_fn("fn g2(&mut self) { self.state[0] = self.state[1]; }", "g2", "g2", "<test>", consts,
                                              tfns, pfns, self_ty=st, translator_cls=B.BfeFnTranslator, info=info)
    tfns["g2"] = ("g2", ptys, rty)
    info["owner"] = "BFieldElement"
    info["free"] = False
    B.CTX["sigs"]["g2"] = info
    out = []
    for exp, src, needle in BFE_CASES:
        self_ty = st if ("self" in src.split(")")[0] or "Self {" in src) else "bfe"
        try:
            text, _, _, _ = L.translate_fn(src, "f", "f", "<test>", consts, dict(tfns), dict(pfns), self_ty=self_ty,
                                           translator_cls=B.BfeFnTranslator)
            got = "ok"
            if needle is not None and needle not in text:
                got = "ok-but-missing:" + needle
        except Unsupported as ex:
            got, text = "refuse", str(ex)
        except Exception as ex:
            got, text = "refuse", f"internal {type(ex).__name__}: {ex}"
        out.append((exp, got, src, text))
    return out
# ---- END BT2


def main():
    bad = 0
    for exp, got, src, text in bfe_cases():
        flag = "   " if got == exp else "!!!"
        if got != exp:
            bad += 1
        print(f"{flag} expected {exp:6} got {got:6}  {src[:70]}...  {'' if got == 'ok' else '-> ' + text[:80]}")
    for exp, src in CASES:
        try:
            text, _, _, _ = L.translate_fn(src, "f", "f", "<test>", {}, dict(FNS), {})
            got = "ok"
        except Unsupported as ex:
            got = "refuse"
            text = str(ex)
        except Exception as ex:
            got = "refuse"       # a crash is recorded as a refusal by run_group, too
            text = f"internal {type(ex).__name__}: {ex}"
        flag = "   " if got == exp else "!!!"
        if got != exp:
            bad += 1
        print(f"{flag} expected {exp:6} got {got:6}  {src[:70]}...  {'' if got == 'ok' else '-> ' + text[:80]}")
    return 1 if bad else 0


if __name__ == "__main__":
    sys.exit(main())
