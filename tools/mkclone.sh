#!/bin/sh
# tools/mkclone.sh <name>: a builder's private clone of /verif under /root/agents/<name>, build products copied so the
# first build there is incremental.
set -e
d=/root/agents/$1
rm -rf "$d"; mkdir -p /root/agents
git clone -q /verif "$d"
for s in lean/.lake harness/target; do [ -d /verif/$s ] && cp -a /verif/$s "$d/$s"; done
mkdir -p "$d/work" "$d/evidence"
( cd "$d" && python3 tools/rs2lean.py >/dev/null && python3 tools/genreg.py >/dev/null )
echo "$d"
