#!/usr/bin/env python3
# BEGIN BT7
"""self-test of tools/rs2lean_mmr.py: the idioms it understands are translated (a marker string must occur in the output),
everything else must be REFUSED (Unsupported), never guessed.   Run: python3 tools/test_rs2lean_mmr.py   (exit 0 = ok)"""
import os
import sys
sys.path.insert(0, os.path.dirname(os.path.abspath(__file__)))
import rs2lean_loops as L
import rs2lean_bfe as B
import rs2lean_bt4 as T
import rs2lean_mmr as R
from rs2lean import Unsupported

VD = ("vec", "digest")
HD = [("H", "hfun"), ("d0", "digest"), ("digest_default", "digest")]
USES = "use super::shared_basic; use super::shared_advanced::parent; use crate::util_types::shared::bag_peaks;\n"
CASES = [
    # (expected, owner, self type, source, marker)
    # ---- module-qualified / imported calls of the regenerated index functions
    ("ok", "MmrMembershipProof", VD, "fn f(&self, i: u64, cnt: u64) -> u64 { let (a, b) = shared_basic::leaf_index_to_mt_index_and_peak_index(i, cnt); a }", "(leaf_index_to_mt_index_and_peak_index i cnt)"),
    ("ok", "MmrMembershipProof", VD, "fn f(&self, i: u64) -> u64 { let p = parent(i); p }", "(parent i).bind"),
    ("refuse", "MmrMembershipProof", VD, "fn f(&self, i: u64, n: u64) -> u64 { let (a, b) = shared_advanced::leaf_index_to_mt_index_and_peak_index(i, n); a }", None),   # not a function of that module
    ("refuse", "MmrMembershipProof", VD, "fn f(&self, i: u64, n: u64) -> u64 { let (a, b) = other::leaf_index_to_mt_index_and_peak_index(i, n); a }", None),             # unknown module
    ("refuse", "MmrMembershipProof", VD, "fn f(&self, i: u64, n: u64) -> u64 { let (a, b) = leaf_index_to_mt_index_and_peak_index(i, n); a }", None),                     # bare name without a `use` of the function
    ("refuse", "MmrMembershipProof", VD, "fn f(&self, i: u64) -> u64 { let p = shared_advanced::parent(i); p }", None),                                                    # module not imported as a whole
    # ---- integer try_into, digest equality, get/unwrap_or, last().unwrap()
    ("ok", "MmrMembershipProof", VD, "fn f(&self, peaks: &[Digest]) -> u32 { let c: u32 = peaks.len().try_into().unwrap(); c }", "decide (peaks.length < 4294967296)"),
    ("ok", "MmrMembershipProof", VD, "fn f(&self, a: Digest, b: Digest) -> bool { a != b }", "(a != b)"),
    ("ok", "MmrMembershipProof", VD, "fn f(&self, i: usize) -> Digest { self.authentication_path.get(i).copied().unwrap_or(Digest::default()) }", "(self.getD i digest_default)"),
    ("ok", "MmrMembershipProof", VD, "fn f(&self, v: Vec<u64>) -> u64 { *v.last().unwrap() }", "(!v.isEmpty)"),
    ("ok", "MmrMembershipProof", VD, "fn f(&self, v: Vec<u64>) -> u64 { let mut k = 0; for _ in 0..self.authentication_path.len() { k += 1; } k }", "it_"),
    ("refuse", "MmrMembershipProof", VD, "fn f(&self, peaks: &[Digest]) -> i32 { let c: i32 = peaks.len().try_into().unwrap(); c }", None),       # signed target
    ("refuse", "MmrMembershipProof", VD, "fn f(&self, peaks: &[Digest]) -> u32 { let c = peaks.len().try_into().unwrap(); c }", None),             # target type unknown
    ("refuse", "MmrMembershipProof", VD, "fn f(&self, i: usize) -> Digest { self.authentication_path.get(i).copied().unwrap_or_default() }", None),  # another adaptor
    ("refuse", "MmrMembershipProof", VD, "fn f(&self, i: usize) -> Digest { self.authentication_path.get(i).copied().unwrap() }", None),          # get().unwrap()
    ("refuse", "MmrMembershipProof", VD, "fn f(&self, v: Vec<u64>) -> u64 { *v.first().unwrap() }", None),                                         # first()
    ("refuse", "MmrMembershipProof", VD, "fn f(&self, a: Digest, b: Digest) -> bool { a < b }", None),                                             # order on opaque digests
    # ---- a local closure `|x: T| <pure expression>` is inlined; anything else is refused
    ("ok", "MmrMembershipProof", VD, "fn f(&self, cnt: u64) -> u32 { let g = |num: u64| (num.ilog2(), num - (1 << num.ilog2())); let (a, b) = g(cnt); a }", "(Nat.log2 cnt)"),
    ("refuse", "MmrMembershipProof", VD, "fn f(&self, n: u64) -> u32 { let g = |num| (num.ilog2(), num - 1); let (a, b) = g(n); a }", None),         # untyped parameter
    ("refuse", "MmrMembershipProof", VD, "fn f(&self, n: u64) -> u64 { let g = |num: u64| { num + 1 }; g(n) }", None),                               # block body
    ("refuse", "MmrMembershipProof", VD, "fn f(&self, n: u64) -> u64 { let g = |num: u64| num + 1; g(n + 1) }", None),                               # argument is not a variable
    ("refuse", "MmrMembershipProof", VD, "fn f(&self, n: u64) -> u64 { let g = |num: u64| num + 1; let h = g; h(n) }", None),                        # closure used as a value
    ("refuse", "MmrMembershipProof", VD, "fn f(&self, n: u64) -> u64 { let g = |num: u64| parent(num); g(n) }", None),                               # closure calls a function
    # ---- `return` inside `for x in <finite iterator>`
    ("ok", "MmrSuccessorProof", VD, "fn f(&self, ps: Vec<Digest>, q: Digest) -> bool { let mut k = 0; for p in ps.into_iter() { if p != q { return false; } k += 1; } k == self.paths.len() }", "TF.RustCtl.flow"),
    ("refuse", "MmrSuccessorProof", VD, "fn f(&self, ps: Vec<Digest>, q: Digest) -> bool { for p in ps.into_iter() { for r in ps.iter() { if p != q { return false; } } } true }", None),   # nested
    ("refuse", "MmrSuccessorProof", VD, "fn f(&self, ps: Vec<Digest>, q: Digest) -> bool { for (i, p) in ps.iter().enumerate() { if i == 3 { return false; } } true }", None),            # tuple pattern
    ("refuse", "MmrSuccessorProof", VD, "fn f(&self, ps: Vec<Digest>, q: Digest) -> bool { for p in ps.iter().filter(|x| true) { return false; } true }", None),                       # unknown adaptor
    # ---- the accumulator as the pair of its fields
    ("ok", "MmrAccumulator", R.ACC_TY, "fn f(&mut self, d: Digest) -> u64 { self.peaks = vec![]; self.leaf_count += 1; self.leaf_count }", "(self.1, [])"),
    ("ok", "MmrAccumulator", R.ACC_TY, "fn f(ds: Vec<Digest>) -> Self { let mut m = MmrAccumulator { leaf_count: 0, peaks: vec![] }; m }", "(0, [])"),
    ("ok", "MmrAccumulator", R.ACC_TY, "fn f(&self, a: &MmrAccumulator) -> bool { a.leaf_count == self.leaf_count }", "(a.1 == self.1)"),
    ("ok", "MmrAccumulator", R.ACC_TY, "fn f(&self, lm: LeafMutation) -> u64 { lm.leaf_index }", "lm.1"),
    ("refuse", "MmrAccumulator", R.ACC_TY, "fn f(ds: Vec<Digest>) -> Self { let mut m = MmrAccumulator { leaf_count: 0 }; m }", None),              # missing field
    ("refuse", "MmrAccumulator", R.ACC_TY, "fn f(&mut self, d: Digest) -> u64 { self.peaks[0] = d; self.leaf_count }", None),                       # element assignment through a field
    ("refuse", "MmrAccumulator", R.ACC_TY, "fn f(&self) -> u64 { self.height }", None),                                                            # unknown field
    ("refuse", "MmrAccumulator", R.ACC_TY, "fn f(&self, m: HashMap<u64, Digest>) -> u64 { 1 }", None),                                             # HashMap
    ("refuse", "MmrAccumulator", R.ACC_TY, "fn f(&self, H: u64) -> u64 { 1 }", None),                                                              # clashes with an added parameter
]
# shapes of `new_from_batch_append` that are outside the subset (each must be refused, with a reason)
REFUSED_SHAPES = [
    "fn f(&self, a: Vec<u64>, b: Vec<u32>) -> u64 { let mut k = 0; for (i, (x, h)) in a.iter().copied().zip(b).enumerate() { k += x; } k }",
    "fn f(&self, n: usize) -> usize { let mut v = vec![vec![]; n]; v[0].push(Some((0, 1))); v.len() }",
    "fn f(&self, ap: Vec<Digest>, l: Digest) -> Vec<Digest> { ap.into_iter().scan(l, |r, p| { let y = *r; *r = Tip5::hash_pair(p, *r); Some(y) }).collect_vec() }",
    "fn f(&self, v: Vec<u64>) -> bool { v.contains(&3) }",
    "fn f(&self, v: Vec<Vec<Digest>>) -> Vec<Digest> { v.concat() }",
]


def setup(owner):
    B.reset_ctx()
    B.CTX["named_consts"] = {}
    B.CTX["owner"] = owner
    T.X["opaque"] = True
    T.X["field"] = False
    T.X["mp_struct_ok"] = True
    T.X["plens"] = {}
    R.M["acc_struct_ok"] = R.M["sp_struct_ok"] = R.M["lm_struct_ok"] = True
    R.M["modules"] = {"shared_basic": {"leaf_index_to_mt_index_and_peak_index"}, "shared_advanced": {"parent"}, "shared": set()}
    R.M["cur"] = "test"
    R.M["imports"] = {"test": R.scan_imports(USES)}
    tfns = {"leaf_index_to_mt_index_and_peak_index": ("leaf_index_to_mt_index_and_peak_index", ["u64", "u64"], ("tuple", ["u64", "u32"]))}
    pfns = {"parent": ("parent", ["u64"], "u64")}
    for rn in list(tfns) + list(pfns):
        B.CTX["sigs"][rn] = {"outs": [], "has_ret": True, "method": False, "owner": None, "free": True, "generics": 0}
    return tfns, pfns


def run_one(owner, self_ty, src):
    tfns, pfns = setup(owner)
    try:
        text = R.translate_fn7(src, "f", "f", "test", {}, tfns, pfns, L.DEFAULT_FUEL, self_ty=self_ty, pre_params=HD)[0]
        return "ok", text
    except Unsupported as ex:
        return "refuse", str(ex)
    except Exception as ex:
        return "refuse", f"internal: {type(ex).__name__}: {ex}"


def main():
    bad = 0
    saved = L.lean_ty
    L.lean_ty = T.make_lean_ty(saved)
    T.install_patches()
    saved_sigs = B.CTX["sigs"]
    try:
        for exp, owner, self_ty, src, marker in CASES:
            got, text = run_one(owner, self_ty, src)
            good = got == exp and (marker is None or marker in text)
            if not good:
                bad += 1
                print(f"FAIL expected {exp} got {got}: {src[:100]}\n      {text[:400]}")
        for src in REFUSED_SHAPES:
            got, text = run_one("MmrSuccessorProof", VD, src)
            if got != "refuse" or not text:
                bad += 1
                print(f"FAIL expected a refusal with a reason: {src[:100]}\n      {text[:400]}")
    finally:
        L.lean_ty = saved
        T.X["opaque"] = False
        B.CTX["sigs"] = saved_sigs
        T.remove_patches()
    print("rs2lean_mmr self-test:", "ok" if not bad else f"{bad} failures")
    return 1 if bad else 0


if __name__ == "__main__":
    sys.exit(main())
# END BT7
