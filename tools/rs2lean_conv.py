#!/usr/bin/env python3
# BEGIN BT5 (whole file)
"""rs2lean_conv.py -- typed translator for the "conversion" subset (C20 Digest/element conversions, C03/C13 codec integer
leaves, C04 Merkle index arithmetic).  Called at the end of rs2lean_loops.run; everything here is additive.

Every value has a fully determined type (no inference variables: an integer literal must get its type from its context,
otherwise the function is REFUSED).  Types:

  u8 u16 u32 u64 u128 usize bool      machine integers (Lean `Nat`), `bool`
  bfe                                  a `BFieldElement` = its raw Montgomery word; arithmetic only through translated fns
  biguint                              `num_bigint::BigUint` = unbounded `Nat`
  ordering                             `std::cmp::Ordering`
  (sarray T n) (slice T) (vec T)       `[T; n]`, `&[T]`, `Vec<T>`  -> `List T` (the static length is tracked here)
  (iter T)                             an iterator pipeline -> the list of its items
  (option T)  (res T E)                `Option<T>`, `Result<T, E>` -> `Option T`, `Except String T` (error = variant name)
  (struct Digest) (struct XFieldElement)   the two newtypes (shape read from the source) -> `List Nat`
  (err E)                              a value of the error enum E -> the variant's name

Subset (anything else is REFUSED, recorded under "failed"/"outside_subset" in TF/Gen/status.json, never guessed):
  statements   `let PAT [: T] = e;` (PAT: name, `_`, `Digest(p)`, `[a, b, ..]`, `(a, b)`), `let [x] = s[..] else {return e;}`,
               `let Some(x) = e else { return e; }`, `const N: T = e;`, `if c { return e; }`, `x = e;`, `x op= e;`, `a[i] = e;`,
               `for x in a.iter_mut() {..}`, `for i in (a..b).rev() {..}`, `for i in a..b {..}` (straight-line bodies),
               `return e;`, `debug_assert!` (dropped), nested `fn` items (skipped; must be translated separately),
               `let x = match e { lit => e, .., _ => return e };`
  expressions  integer arithmetic of rs2lean.py; `?` (hoisted in evaluation order through strict positions only);
               `Ok Err Some None Box::new`; `b.then(|| e)`, `o.ok_or(E)`, `r.map_err(|_| E)`, `o.copied()`, `r.unwrap()`;
               `x.into()`, `x.try_into()`, `T::from(x)`, `T::try_from(x)`, `<[T; N]>::try_from(x)`: resolved through a table
               of conversions whose entries are either std (documented behaviour, TF/Model/RustStdConv.lean) or an `impl
               From/TryFrom` *found in the source* and translated; iterator pipelines `iter() rev() map(f) enumerate()
               chunks_exact(n)` consumed by `any all sum collect try_collect cmp concat`; `[T; N]::map(f)`;
               `macro_rules!` bodies instantiated for the invocations listed in the source (two fixed macro shapes).
"""
import hashlib
import os
import re

from rs2lean import (HEADER, INT_TYPES, OUT, NatEmitter, Parser, Unsupported, balanced, find_fn, p2, write_if_changed)

TOKEN_RE = re.compile(r"""
    (?P<ws>\s+)
  | (?P<str>"(?:[^"\\]|\\.)*")
  | (?P<num>0x[0-9a-fA-F_]+(?:[ui](?:8|16|32|64|128|size))? | [0-9][0-9_]*(?:[ui](?:8|16|32|64|128|size))?)
  | (?P<id>[A-Za-z_][A-Za-z0-9_]*)
  | (?P<op><<=|>>=|\.\.=|::|->|=>|<<|>>|<=|>=|==|!=|&&|\|\||\+=|-=|\*=|/=|%=|\.\.|[-+*/%&|^!<>=.,;:(){}\[\]#?])
""", re.X)

ASSIGN_OPS = {"=": None, "+=": "+", "-=": "-", "*=": "*", "/=": "/", "%=": "%"}
RESERVED = {"at", "from", "end", "open", "by", "fun", "do", "then", "else", "show", "have", "in", "le", "lt", "fuel", "n",
            "match", "with", "if", "let", "def", "some", "none", "where", "for", "instance", "structure", "class",
            "theorem", "example", "namespace", "section", "variable", "import", "mutual", "private", "partial",
            "true", "false", "Nat", "List", "Option", "Bool", "first", "array", "element", "value", "ret"}


def tokenize(s):
    toks, i = [], 0
    while i < len(s):
        m = TOKEN_RE.match(s, i)
        if not m:
            raise Unsupported(f"cannot tokenize at {s[i:i + 30]!r}")
        i = m.end()
        if m.lastgroup != "ws":
            toks.append((m.lastgroup, m.group(m.lastgroup)))
    toks.append(("eof", ""))
    return toks


def paren(t):
    t = t.strip()
    if re.fullmatch(r"[A-Za-z0-9_.']+", t) or re.fullmatch(r'"[^"]*"', t):
        return t
    if t[:1] in "([" and t[-1:] in ")]":
        d = 0
        for i, c in enumerate(t):
            if c in "([":
                d += 1
            elif c in ")]":
                d -= 1
                if d == 0 and i != len(t) - 1:
                    break
        else:
            return t
    return f"({t})"


# --------------------------------------------------------------------------------------------------------
# parser
# --------------------------------------------------------------------------------------------------------

class CParser(Parser):
    # ---- types: ("named", [path]) ("gen", name, [args]) ("arr", T, len expr|None) ("tup", [..]) ("infer",)
    def parse_type(self):
        if self.accept("&"):
            if self.peek()[0] == "op" and self.peek()[1] == "'":
                raise Unsupported("lifetime")
            self.accept("mut")
            return ("ref", self.parse_type())
        if self.accept("["):
            el = self.parse_type()
            n = None
            if self.accept(";"):
                n = self.parse_expr()
            self.expect("]")
            return ("arr", el, n)
        if self.accept("("):
            ts = []
            while not self.accept(")"):
                ts.append(self.parse_type())
                self.accept(",")
            return ("tup", ts)
        k, v = self.next()
        if k != "id":
            raise Unsupported(f"type {v!r}")
        if v == "_":
            return ("infer",)
        path = [v]
        while self.accept("::"):
            k, v = self.next()
            if k != "id":
                raise Unsupported("type path")
            path.append(v)
        if self.peek() == ("op", "<"):
            self.next()
            args = []
            while True:
                if self.peek()[1] == ">>":
                    self.t[self.i] = ("op", ">")
                    break
                if self.accept(">"):
                    break
                args.append(self.parse_type())
                self.accept(",")
            return ("gen", path[-1], args)
        return ("named", path)

    # ---- patterns: ("pid", n) ("pwild",) ("ptuple", [p]) ("pctor", name, p) ("parr", [p]) ("plit", v)
    def parse_pattern(self):
        self.accept("&")
        self.accept("mut")
        k, v = self.peek()
        if k == "num":
            e = self.parse_primary()
            return ("plit", e[1], e[2])
        if k == "op" and v == "(":
            self.next()
            ps = []
            while not self.accept(")"):
                ps.append(self.parse_pattern())
                self.accept(",")
            return ("ptuple", ps)
        if k == "op" and v == "[":
            self.next()
            ps = []
            while not self.accept("]"):
                ps.append(self.parse_pattern())
                self.accept(",")
            return ("parr", ps)
        if k == "id":
            self.next()
            if v == "_":
                return ("pwild",)
            if self.peek() == ("op", "("):
                self.next()
                inner = self.parse_pattern()
                self.expect(")")
                return ("pctor", v, inner)
            if self.peek()[1] in ("::", "{"):
                raise Unsupported("path / struct pattern")
            return ("pid", v)
        raise Unsupported(f"pattern {v!r}")

    def parse_closure(self):
        pats = []
        if self.accept("||"):
            pass
        else:
            self.expect("|")
            while not self.accept("|"):
                pats.append(self.parse_pattern())
                if self.peek()[1] == ":":
                    raise Unsupported("typed closure parameter")
                self.accept(",")
        if self.peek() == ("op", "{"):
            raise Unsupported("closure with a block body")
        return ("closure", pats, self.parse_expr())

    def parse_primary(self):
        k, v = self.peek()
        if k == "op" and v in ("|", "||"):
            return self.parse_closure()
        if k == "op" and v == "<":
            self.next()
            ty = self.parse_type()
            if self.accept("as"):
                raise Unsupported("`<T as Trait>` path")
            self.expect(">")
            self.expect("::")
            kk, name = self.next()
            if kk != "id":
                raise Unsupported("qualified path")
            if self.accept("("):
                return ("qcall", ty, name, self.parse_args())
            return ("qpath", ty, name)
        if k == "op" and v == "(":
            self.next()
            items, trailing = [], False
            while not self.accept(")"):
                e = self.parse_expr()
                if self.accept(".."):
                    hi = self.parse_expr()
                    e = ("range", e, hi)
                items.append(e)
                trailing = self.accept(",")
            if len(items) == 1 and not trailing:
                return items[0]
            return ("tuple", items)
        if k == "op" and v == "[":
            self.next()
            items = []
            while not self.accept("]"):
                items.append(self.parse_expr())
                if self.accept(";"):
                    if len(items) != 1:
                        raise Unsupported("array repeat expression")
                    cnt = self.parse_expr()
                    self.expect("]")
                    return ("arrayrep", items[0], cnt)
                self.accept(",")
            return ("arraylit", items)
        if k == "id" and v == "match":
            self.next()
            scrut = self.parse_expr()
            self.expect("{")
            arms = []
            while not self.accept("}"):
                pat = self.parse_pattern()
                if self.peek()[1] in ("|", "if"):
                    raise Unsupported("or-pattern / guard")
                self.expect("=>")
                if self.accept("return"):
                    body = ("ret", self.parse_expr())
                else:
                    body = self.parse_expr()
                if not self.accept(",") and self.peek()[1] != "}":
                    raise Unsupported("match arm")
                arms.append((pat, body))
            return ("match", scrut, arms)
        if k == "id" and self.peek(1) == ("op", "!") and self.peek(2)[1] in ("(", "["):
            self.next(); self.next()
            close = ")" if self.next()[1] == "(" else "]"
            items = []
            while not self.accept(close):
                items.append(self.parse_expr())
                if self.peek()[1] == ";":
                    raise Unsupported("macro with `;`")
                self.accept(",")
            return ("macro", v, items)
        if k == "id" and v[:1].isupper() and self.peek(1) == ("op", "{") and self.peek(2)[0] == "id" \
                and self.peek(3)[1] in ("}", ":", ","):
            self.next(); self.next()
            fields = []
            while not self.accept("}"):
                kk, fn = self.next()
                if kk != "id":
                    raise Unsupported("struct literal")
                fe = self.parse_expr() if self.accept(":") else ("path", [fn])
                fields.append((fn, fe))
                self.accept(",")
            return ("structlit", v, fields)
        return Parser.parse_primary(self)

    def parse_postfix(self):
        e = self.parse_primary()
        while True:
            if self.accept("."):
                k, v = self.next()
                if k == "num":
                    e = ("field", e, int(v))
                elif k == "id":
                    if self.peek()[1] == "::":
                        raise Unsupported("turbofish")
                    if self.accept("("):
                        e = ("mcall", e, v, self.parse_args())
                    else:
                        e = ("fieldn", e, v)
                else:
                    raise Unsupported("postfix .")
            elif self.accept("["):
                lo = None
                if self.peek()[1] != "..":
                    lo = self.parse_expr()
                if self.accept(".."):
                    hi = None if self.peek()[1] == "]" else self.parse_expr()
                    self.expect("]")
                    e = ("slice", e, lo, hi)
                else:
                    self.expect("]")
                    e = ("index", e, lo)
            elif self.accept("?"):
                e = ("try", e)
            else:
                return e

    # ---- statements
    def parse_block(self):
        self.expect("{")
        st = self.parse_stmts("}")
        self.expect("}")
        return st

    def skip_parens(self):
        self.expect("(")
        depth = 1
        while depth:
            k, v = self.next()
            if k == "eof":
                raise Unsupported("unbalanced")
            if v == "(":
                depth += 1
            elif v == ")":
                depth -= 1

    def parse_stmts(self, end):
        stmts = []
        while True:
            k, v = self.peek()
            if k in ("op", "eof") and v == end:
                break
            if k == "eof":
                raise Unsupported("unexpected end of block")
            if stmts and stmts[-1][0] == "tail":
                raise Unsupported("statement after the value of a block")
            if v == "#":
                self.next()
                self.expect("[")
                depth = 1
                while depth:
                    kk, vv = self.next()
                    if kk == "eof":
                        raise Unsupported("attribute")
                    depth += (vv == "[") - (vv == "]")
                continue
            if k == "id" and v == "fn":
                self.next()
                name = self.next()[1]
                depth = 0
                while True:
                    kk, vv = self.next()
                    if kk == "eof":
                        raise Unsupported("nested fn item")
                    if kk == "op" and vv == "{":
                        depth += 1
                    elif kk == "op" and vv == "}":
                        depth -= 1
                        if depth == 0:
                            break
                stmts.append(("fnitem", name))
                continue
            if k == "id" and v == "const":
                self.next()
                name = self.next()[1]
                self.expect(":")
                ty = self.parse_type()
                self.expect("=")
                e = self.parse_expr()
                self.expect(";")
                stmts.append(("let", ("pid", name), ty, e, None))
                continue
            if k == "id" and v == "let":
                self.next()
                pat = self.parse_pattern()
                ty = None
                if self.accept(":"):
                    ty = self.parse_type()
                self.expect("=")
                e = self.parse_expr()
                els = None
                if self.accept("else"):
                    els = self.parse_block()
                self.expect(";")
                stmts.append(("let", pat, ty, e, els))
                continue
            if k == "id" and v == "for":
                self.next()
                pat = self.parse_pattern()
                self.expect("in")
                it = self.parse_expr_nostruct()
                if self.accept(".."):
                    it = ("range", it, self.parse_expr_nostruct())
                body = self.parse_block()
                stmts.append(("for", pat, it, body))
                continue
            if k == "id" and v == "if":
                save = self.i
                self.next()
                c = self.parse_expr_nostruct()
                blk = self.parse_block()
                if self.peek()[1] == "else":
                    self.i = save       # an if/else is an expression (the value of the block)
                else:
                    stmts.append(("if", c, blk))
                    continue
            if k == "id" and v == "return":
                self.next()
                e = self.parse_expr()
                self.accept(";")
                stmts.append(("return", e))
                continue
            if k == "id" and v in ("while", "loop", "break", "continue", "unsafe"):
                raise Unsupported(f"statement {v}")
            if k == "id" and v in ("assert", "debug_assert", "debug_assert_eq", "assert_eq") and self.peek(1)[1] == "!":
                self.next(); self.next()
                if v == "assert":
                    self.expect("(")
                    cond = self.parse_expr()
                    depth = 1
                    while depth:
                        kk, vv = self.next()
                        if kk == "eof":
                            raise Unsupported("assert")
                        depth += (vv == "(") - (vv == ")")
                    stmts.append(("assert", cond))
                elif v == "assert_eq":
                    raise Unsupported("assert_eq!")
                else:
                    self.skip_parens()
                self.expect(";")
                continue
            e = self.parse_expr()
            kk, vv = self.peek()
            if kk == "op" and vv in ASSIGN_OPS:
                self.next()
                rhs = self.parse_expr()
                self.expect(";")
                stmts.append(("assign", e, vv, rhs))
                continue
            if self.accept(";"):
                if e[0] == "mcall" and e[2] in ("push",):
                    stmts.append(("push", e[1], e[3]))
                    continue
                raise Unsupported("expression statement")
            stmts.append(("tail", e))
        return stmts

    def parse_expr_nostruct(self):
        return self.parse_expr()


def subst(e, name, repl):
    if isinstance(e, tuple):
        if len(e) == 2 and e[0] == "path" and e[1] == [name]:
            return repl
        return tuple(subst(x, name, repl) for x in e)
    if isinstance(e, list):
        return [subst(x, name, repl) for x in e]
    return e


def names_in(e, acc):
    if isinstance(e, tuple):
        if len(e) == 2 and e[0] == "path" and isinstance(e[1], list) and len(e[1]) == 1:
            acc.add(e[1][0])
        for x in e:
            names_in(x, acc)
    elif isinstance(e, list):
        for x in e:
            names_in(x, acc)
    return acc


# --------------------------------------------------------------------------------------------------------
# types
# --------------------------------------------------------------------------------------------------------

LISTS = ("sarray", "slice", "vec", "iter")


def is_list(t):
    return isinstance(t, tuple) and t[0] in LISTS


def lean_ty(t):
    if t in INT_TYPES or t in ("bfe", "biguint"):
        return "Nat"
    if t == "bool":
        return "Bool"
    if t == "ordering":
        return "Ordering"
    if t == "unit":
        return "Unit"
    if isinstance(t, tuple):
        if t[0] in LISTS:
            return "List " + paren(lean_ty(t[1]))
        if t[0] == "option":
            return "Option " + paren(lean_ty(t[1]))
        if t[0] == "res":
            return "Except String " + paren(lean_ty(t[1]))
        # BEGIN P03: a struct registered with an underlying type other than an array of elements prints as that type
        if t[0] == "struct" and t[1] in G.structs and G.structs[t[1]][0] in ("field", "view") \
                and G.structs[t[1]][2] != ("sarray", "bfe", G.structs[t[1]][2][2] if isinstance(G.structs[t[1]][2], tuple) and len(G.structs[t[1]][2]) > 2 else None):
            return lean_ty(G.structs[t[1]][2])
        # END P03
        if t[0] == "struct":
            return "List Nat"
        if t[0] == "err":
            return "String"
        if t[0] == "tuple":
            return "(" + " × ".join(lean_ty(x) for x in t[1]) + ")"
    raise Unsupported(f"type {t}")


def default_of(t):
    if is_list(t) or (isinstance(t, tuple) and t[0] == "struct"):
        return "[]"
    if t == "bool":
        return "false"
    if t in INT_TYPES or t in ("bfe", "biguint"):
        return "0"
    raise Unsupported(f"default of {t}")


class G:
    """registry shared by all functions of one run (reset by `run`)"""
    consts = {}      # ("Digest","LEN") / ("", "MAX_TREE_HEIGHT") -> (value, type)
    structs = {}     # name -> ("tuple"|"field", field name|None, underlying type)
    enums = {}       # error enum -> {"variants": [names], "from": {source enum: variant}}
    funs = {}        # (owner, rust name) -> (lean name, [param types], result type)
    convs = {}       # (kind, src type, dst type) -> (lean name, result type)
    macros = {}      # "bfe" / "bfe_vec": True when the definition has the documented shape
    bfe_consts = {}  # "ZERO" -> 0


def same(a, b):
    """type equality, `None` in the error position of a `res` is a wildcard"""
    if a == b or a is None or b is None:
        return True
    if isinstance(a, tuple) and isinstance(b, tuple) and len(a) == len(b) and a[0] == b[0]:
        if a[0] == "res":
            return same(a[1], b[1]) and (a[2] is None or b[2] is None or a[2] == b[2])
        if a[0] in ("option",) + LISTS:
            return all(same(x, y) for x, y in zip(a[1:], b[1:]))
    return False


# --------------------------------------------------------------------------------------------------------
# expression emitter
# --------------------------------------------------------------------------------------------------------

class CEmitter(NatEmitter):
    def __init__(self, ctx):
        NatEmitter.__init__(self, {}, {})
        self.ctx = ctx          # owner, self_ty, err (assoc Error), ret
        self.uid = 0

    # ---- types
    def const_value(self, path):
        owner = self.ctx.get("owner")
        if len(path) == 1:
            return G.consts.get(("", path[0]))
        if len(path) == 2:
            a = owner if path[0] == "Self" else path[0]
            return G.consts.get((a, path[1]))
        return None

    def ty_of(self, ast):
        k = ast[0]
        if k == "ref":
            return self.ty_of(ast[1])
        if k == "infer":
            return None
        if k == "arr":
            el = self.ty_of(ast[1])
            if ast[2] is None:
                return ("slice", el)
            n = self.const_expr(ast[2])
            return ("sarray", el, n)
        if k == "tup":
            if not ast[1]:
                return "unit"
            return ("tuple", tuple(self.ty_of(t) for t in ast[1]))
        if k == "named":
            p = ast[1]
            n = p[-1]
            if len(p) == 1 and (n in INT_TYPES or n == "bool"):
                return n
            if n == "Self" and len(p) == 1:
                if self.ctx.get("self_ty") is None:
                    raise Unsupported("Self outside an impl")
                return self.ctx["self_ty"]
            if p in (["Self", "Error"], ["Self", "Err"]):
                if not self.ctx.get("err"):
                    raise Unsupported("Self::Error without `type Error`")
                return ("err", self.ctx["err"])
            if n == "BFieldElement":
                return "bfe"
            if n == "BigUint":
                return "biguint"
            if n == "Ordering":
                return "ordering"
            if n in G.structs:
                return ("struct", n)
            if n in G.enums:
                return ("err", n)
            raise Unsupported(f"type {'::'.join(p)}")
        if k == "gen":
            name, args = ast[1], ast[2]
            if name == "Vec" and len(args) == 1:
                return ("vec", self.ty_of(args[0]))
            if name == "Option" and len(args) == 1:
                return ("option", self.ty_of(args[0]))
            if name == "Box" and len(args) == 1:
                return self.ty_of(args[0])
            if name == "Result" and len(args) == 2:
                e = self.ty_of(args[1])
                if not (isinstance(e, tuple) and e[0] == "err"):
                    raise Unsupported("Result with a non-enum error")
                return ("res", self.ty_of(args[0]), e[1])
            if name == "Result" and len(args) == 1 and self.ctx.get("result_alias"):
                return ("res", self.ty_of(args[0]), self.ctx["result_alias"])
            raise Unsupported(f"generic type {name}")
        raise Unsupported(f"type {ast}")

    def tyname(self, ty):      # used by NatEmitter for `as` casts
        t = self.ty_of(ty)
        if t not in INT_TYPES:
            raise Unsupported(f"cast to {t}")
        return t

    def const_expr(self, e):
        t, ty, ok = self.emit(e, {}, "usize")
        if ok is not None or ty != "usize":
            raise Unsupported("array length that is not a constant")
        try:
            return int(eval(t.replace("%", "%").replace("/", "//"), {"__builtins__": {}}, {}))
        except Exception:
            raise Unsupported(f"array length {t!r}")

    def fresh(self, name, env):
        n = name
        if n in RESERVED or n.startswith("_"):
            n = n.lstrip("_") + "_v"
        return n

    def tmp(self, base):
        self.uid += 1
        return f"{base}_{self.uid}"

    # ---- error values
    def err_variant(self, path):
        """`Self::Error::X` / `Enum::X` -> (enum, variant) or None"""
        if len(path) < 2:
            return None
        head, v = path[:-1], path[-1]
        if head in (["Self", "Error"], ["Self", "Err"]):
            en = self.ctx.get("err")
        elif len(head) == 1 and head[0] in G.enums:
            en = head[0]
        else:
            return None
        if en is None or en not in G.enums or v not in G.enums[en]["variants"]:
            raise Unsupported(f"error variant {'::'.join(path)}")
        return en, v

    def pure_arg(self, e, env):
        """payload of an error variant: evaluated and dropped, so it must not be able to panic"""
        t, ty, ok = self.emit(e, env, None if e[0] != "lit" else "usize")
        if ok is not None:
            raise Unsupported("error payload that can panic")

    # ---- expressions
    def emit(self, e, env, exp=None):
        k = e[0]
        if k == "lit":
            ty = e[2] or exp
            if ty not in INT_TYPES:
                raise Unsupported(f"integer literal whose type is not determined by its context ({exp})")
            if e[1] >= 2 ** INT_TYPES[ty]:
                raise Unsupported("literal out of range")
            return str(e[1]), ty, None
        if k == "path":
            p = e[1]
            if len(p) == 1 and p[0] in env:
                return env[p[0]][0], env[p[0]][1], None
            if p == ["None"]:
                if not (isinstance(exp, tuple) and exp[0] == "option"):
                    raise Unsupported("None of undetermined type")
                return "none", exp, None
            if p in (["true"], ["false"]):
                return p[0], "bool", None
            c = self.const_value(p)
            if c is not None:
                return str(c[0]), c[1], None
            if len(p) == 2 and p[0] in ("BFieldElement", "Self") and p[1] in G.bfe_consts and \
                    (p[0] == "BFieldElement" or self.ctx.get("self_ty") == "bfe"):
                return f"(bfe_new {G.bfe_consts[p[1]]})", "bfe", None
            ev = self.err_variant(p)
            if ev is not None:
                return f'"{ev[1]}"', ("err", ev[0]), None
            if len(p) == 2 and p[0] in INT_TYPES and p[1] in ("MAX", "BITS"):
                return NatEmitter.emit(self, e, env, exp)
            raise Unsupported(f"path {'::'.join(p)}")
        if k in ("closure", "range", "match"):
            raise Unsupported(f"`{k}` in this position")
        if k == "try":
            raise Unsupported("`?` in a position from which it cannot be hoisted")
        if k == "bin":
            return self.emit_bin(e, env, exp)
        if k == "not":
            t, ty, ok = self.emit(e[1], env, exp)
            if ty == "bool":
                return f"(!{t})", ty, ok
            if ty in INT_TYPES:
                return f"({2 ** INT_TYPES[ty] - 1} - {t})", ty, ok
            raise Unsupported(f"! on {ty}")
        if k == "cast":
            return NatEmitter.emit(self, e, env, exp)
        if k == "if":
            return NatEmitter.emit(self, e, env, exp)
        if k == "tuple":
            exps = exp[1] if isinstance(exp, tuple) and exp[0] == "tuple" and len(exp[1]) == len(e[1]) else [None] * len(e[1])
            parts = [self.emit(x, env, t) for x, t in zip(e[1], exps)]
            return "(" + ", ".join(p[0] for p in parts) + ")", ("tuple", tuple(p[1] for p in parts)), \
                self.conj(*[p[2] for p in parts])
        if k == "arraylit":
            el = exp[1] if is_list(exp) else None
            parts = []
            for x in e[1]:
                t, ty, ok = self.emit(x, env, el)
                if el is not None and not same(ty, el):
                    raise Unsupported(f"array literal item {ty} vs {el}")
                el = ty
                parts.append((t, ok))
            if el is None:
                raise Unsupported("empty array literal of undetermined type")
            return "[" + ", ".join(p[0] for p in parts) + "]", ("sarray", el, len(parts)), self.conj(*[p[1] for p in parts])
        if k == "arrayrep":
            el = exp[1] if is_list(exp) else None
            t, ty, ok = self.emit(e[1], env, el)
            n = self.const_expr(e[2])
            return f"(List.replicate {n} {paren(t)})", ("sarray", ty, n), ok
        if k == "index":
            a, aty, aok = self.emit(e[1], env, None)
            if not is_list(aty) or aty[0] == "iter":
                raise Unsupported(f"indexing of {aty}")
            i, ity, iok = self.emit(e[2], env, "usize")
            if ity != "usize":
                raise Unsupported("index type")
            return f"({a}.getD {paren(i)} {default_of(aty[1])})", aty[1], self.conj(aok, iok, f"decide ({i} < {a}.length)")
        if k == "slice":
            a, aty, aok = self.emit(e[1], env, None)
            if not is_list(aty) or aty[0] == "iter":
                raise Unsupported(f"slicing of {aty}")
            if e[2] is None and e[3] is None:
                return a, ("slice", aty[1]), aok
            lo = ("0", "usize", None) if e[2] is None else self.emit(e[2], env, "usize")
            if e[3] is None:
                return f"({a}.drop {paren(lo[0])})", ("slice", aty[1]), self.conj(aok, lo[2], f"decide ({lo[0]} ≤ {a}.length)")
            hi = self.emit(e[3], env, "usize")
            if lo[1] != "usize" or hi[1] != "usize":
                raise Unsupported("slice bound type")
            return (f"(({a}.drop {paren(lo[0])}).take ({hi[0]} - {lo[0]}))", ("slice", aty[1]),
                    self.conj(aok, lo[2], hi[2], f"decide ({lo[0]} ≤ {hi[0]})", f"decide ({hi[0]} ≤ {a}.length)"))
        if k == "field":
            a, aty, aok = self.emit(e[1], env, None)
            if isinstance(aty, tuple) and aty[0] == "struct" and G.structs[aty[1]][0] == "tuple" and e[2] == 0:
                return a, G.structs[aty[1]][2], aok
            if isinstance(aty, tuple) and aty[0] == "tuple" and e[2] < len(aty[1]):
                return NatEmitter.proj(paren(a), e[2], len(aty[1])), aty[1][e[2]], aok
            raise Unsupported(f"field .{e[2]} of {aty}")
        if k == "fieldn":
            a, aty, aok = self.emit(e[1], env, None)
            if isinstance(aty, tuple) and aty[0] == "struct" and G.structs[aty[1]][:2] == ("field", e[2]):
                return a, G.structs[aty[1]][2], aok
            if isinstance(aty, tuple) and aty[0] == "record" and e[2] in aty[1]:
                return f"{a}_{e[2]}", aty[1][e[2]], aok
            # BEGIN P03
            if isinstance(aty, tuple) and aty[0] == "struct" and G.structs.get(aty[1], (None,))[0] == "view":
                if G.structs[aty[1]][1] == e[2]:
                    return a, G.structs[aty[1]][2], aok
                raise Unsupported(f"field .{e[2]} of {aty[1]}: the struct is only modelled through its field `{G.structs[aty[1]][1]}`")
            # END P03
            raise Unsupported(f"field .{e[2]} of {aty}")
        if k == "structlit":
            name = e[1]
            sname = self.ctx.get("owner") if name == "Self" else name
            if sname not in G.structs or G.structs[sname][0] != "field" or len(e[2]) != 1 or e[2][0][0] != G.structs[sname][1]:
                raise Unsupported(f"struct literal of {name}")
            t, ty, ok = self.emit(e[2][0][1], env, G.structs[sname][2])
            if not same(ty, G.structs[sname][2]):
                raise Unsupported(f"struct literal field type {ty}")
            return t, ("struct", sname), ok
        if k == "macro":
            return self.emit_macro(e, env, exp)
        if k == "call":
            return self.emit_call(e, env, exp)
        if k == "qcall":
            dst = self.ty_of(e[1])
            if e[2] in ("from", "try_from") and len(e[3]) == 1:
                a = self.emit(e[3][0], env, None)
                return self.convert(e[2], a, dst)
            raise Unsupported(f"<T>::{e[2]}")
        if k == "mcall":
            return self.emit_mcall(e, env, exp)
        raise Unsupported(f"expression kind {k}")

    # ---- binary operators
    def emit_bin(self, e, env, exp):
        _, op, l, r = e
        if op not in ("&&", "||", "<<", ">>") and l[0] != "lit":
            a, aty, aok = self.emit(l, env, None)
            if aty == "bfe":
                b, bty, bok = self.emit(r, env, "bfe")
                if bty != "bfe" or op not in ("==", "!="):
                    raise Unsupported(f"operator {op} on BFieldElement")
                return f"({a} {op} {b})", "bool", self.conj(aok, bok)      # derived PartialEq on the raw word
            if aty == "biguint":
                b, bty, bok = self.emit(r, env, "biguint")
                if bty != "biguint":
                    raise Unsupported(f"operator {op}: BigUint vs {bty}")
                if op in ("/", "%"):
                    return f"({a} {op} {b})", "biguint", self.conj(aok, bok, f"({b} != 0)")
                if op in ("+", "*"):
                    return f"({a} {op} {b})", "biguint", self.conj(aok, bok)
                raise Unsupported(f"operator {op} on BigUint")
            if not (aty in INT_TYPES or aty == "bool"):
                raise Unsupported(f"operator {op} on {aty}")
        if op in ("&&", "||"):
            a, aty, aok = self.emit(l, env, "bool")
            b, bty, bok = self.emit(r, env, "bool")
            if aty != "bool" or bty != "bool":
                raise Unsupported(f"operands of {op}")
            if bok:      # short circuit
                bok = f"(if {a} then {bok} else true)" if op == "&&" else f"(if {a} then true else {bok})"
            return f"({a} {op} {b})", "bool", self.conj(aok, bok)
        return NatEmitter.emit_bin(self, e, env, exp)

    # ---- conversions (`From` / `TryFrom`)
    def convert(self, kind, a, dst, err_exp=None):
        t, src, ok = a
        if dst is None:
            raise Unsupported(f"{kind}: target type is not determined")
        key = (kind, src, dst)
        if key in G.convs:
            lname, rty = G.convs[key]
            return f"({lname} {paren(t)})", rty, self.conj(ok, f"({lname}_ok {paren(t)})")
        if kind == "from":
            if src == dst:
                return t, dst, ok
            if src in INT_TYPES and dst in INT_TYPES:
                fine = INT_TYPES[src] <= INT_TYPES[dst] and src != "usize" and (dst != "usize" or src in ("u8", "u16"))
                if fine:
                    return t, dst, ok
            if src == "bool" and dst in INT_TYPES:
                return f"(if {t} then 1 else 0)", dst, ok
            if src in INT_TYPES and dst == "biguint":
                return t, dst, ok
        if kind == "try_from":
            if src in INT_TYPES and dst in INT_TYPES:
                return f"(TF.RustStd.int_try_from {p2(INT_TYPES[dst])} {paren(t)})", ("res", dst, "TryFromIntError"), ok
            if src == "biguint" and dst in INT_TYPES:
                return f"(TF.RustStd.int_try_from {p2(INT_TYPES[dst])} {paren(t)})", ("res", dst, "TryFromBigIntError"), ok
            if isinstance(src, tuple) and src[0] in ("slice", "vec") and isinstance(dst, tuple) and dst[0] == "sarray" \
                    and same(src[1], dst[1]):
                en = "TryFromSliceError" if src[0] == "slice" else "Vec"
                return f'(TF.RustStd.array_try_from {dst[2]} {paren(t)} "{en}")', ("res", dst, en), ok
        raise Unsupported(f"no `{kind}` conversion {src} -> {dst} (std table or translated impl)")

    # ---- macros of the crate (shape checked when the registry is built)
    def emit_macro(self, e, env, exp):
        _, name, items = e
        if name == "bfe" and G.macros.get("bfe") and len(items) == 1:
            return self.emit(("call", ["BFieldElement", "from"], items), env, "bfe")
        if name == "bfe_vec" and G.macros.get("bfe_vec"):
            parts = [self.emit(("call", ["BFieldElement", "from"], [x]), env, "bfe") for x in items]
            return "[" + ", ".join(p[0] for p in parts) + "]", ("vec", "bfe"), self.conj(*[p[2] for p in parts])
        if name == "vec":
            el = exp[1] if is_list(exp) else None
            parts = []
            for x in items:
                t, ty, ok = self.emit(x, env, el)
                el = ty
                parts.append((t, ok))
            if el is None:
                raise Unsupported("vec![] of undetermined type")
            return "[" + ", ".join(p[0] for p in parts) + "]", ("vec", el), self.conj(*[p[1] for p in parts])
        raise Unsupported(f"macro {name}!")

    # ---- calls
    def call_fn(self, entry, parts):
        lname, ptys, rty = entry
        if len(ptys) != len(parts):
            raise Unsupported(f"arity of {lname}")
        for p, t in zip(parts, ptys):
            if not same(p[1], t):
                raise Unsupported(f"argument of {lname}: {p[1]} vs {t}")
        args = " ".join(paren(p[0]) for p in parts)
        return f"({lname} {args})".replace(" )", ")"), rty, self.conj(*[p[2] for p in parts], f"({lname}_ok {args})".replace(" )", ")"))

    def owner_of(self, name):
        if name == "Self":
            return self.ctx.get("owner")
        return name

    def emit_call(self, e, env, exp):
        _, path, args = e
        name = path[-1]
        if path == ["Ok"] and len(args) == 1:
            inner = exp[1] if isinstance(exp, tuple) and exp[0] == "res" else None
            err = exp[2] if isinstance(exp, tuple) and exp[0] == "res" else None
            t, ty, ok = self.emit(args[0], env, inner)
            return f"(Except.ok {paren(t)} : Except String {paren(lean_ty(ty))})", ("res", ty, err), ok
        if path == ["Err"] and len(args) == 1:
            if not (isinstance(exp, tuple) and exp[0] == "res" and exp[1] is not None):
                raise Unsupported("Err(..) whose Ok type is undetermined")
            t, ty, ok = self.emit(args[0], env, ("err", exp[2]) if exp[2] else None)
            if not (isinstance(ty, tuple) and ty[0] == "err") or (exp[2] and ty[1] != exp[2]):
                raise Unsupported(f"Err(..) of {ty}")
            return f"(Except.error {t} : {lean_ty(('res', exp[1], ty[1]))})", ("res", exp[1], ty[1]), ok
        if path == ["Some"] and len(args) == 1:
            inner = exp[1] if isinstance(exp, tuple) and exp[0] == "option" else None
            t, ty, ok = self.emit(args[0], env, inner)
            return f"(some {paren(t)})", ("option", ty), ok
        if path == ["Box", "new"] and len(args) == 1:
            return self.emit(args[0], env, exp)
        ev = self.err_variant(path)
        if ev is not None:
            for x in args:
                self.pure_arg(x, env)
            return f'"{ev[1]}"', ("err", ev[0]), None
        if len(path) == 1 and self.owner_of(name) in G.structs and G.structs[self.owner_of(name)][0] == "tuple" and len(args) == 1:
            sn = self.owner_of(name)
            t, ty, ok = self.emit(args[0], env, G.structs[sn][2])
            if not same(ty, G.structs[sn][2]):
                raise Unsupported(f"{sn}(..) of {ty}")
            return t, ("struct", sn), ok
        if path == ["BigUint", "zero"] and not args:
            return "0", "biguint", None
        if path == ["u64", "from_le_bytes"] and len(args) == 1:
            t, ty, ok = self.emit(args[0], env, ("sarray", "u8", 8))
            if ty != ("sarray", "u8", 8):
                raise Unsupported(f"u64::from_le_bytes of {ty}")
            return f"(TF.ofLeBytes {paren(t)})", "u64", ok
        if len(path) == 2 and name in ("from", "try_from") and len(args) == 1:
            if path[0] in INT_TYPES:
                dst = path[0]
            else:
                dst = self.ty_of(("named", [path[0]]))
            a = self.emit(args[0], env, None if args[0][0] != "lit" else dst)
            return self.convert(name, a, dst)
        if len(path) <= 2:
            owner = self.owner_of(path[0]) if len(path) == 2 else ""
            entry = G.funs.get((owner, name))
            if entry is not None:
                parts = [self.emit(x, env, t) for x, t in zip(args, entry[1])]
                if len(parts) != len(args):
                    raise Unsupported(f"arity of {name}")
                return self.call_fn(entry, parts)
        raise Unsupported(f"call {'::'.join(path)}")

    # ---- closures
    def emit_closure(self, cl, ptys, env, exp=None):
        """-> (lean lambda, result type, lean lambda of the ok condition | None)"""
        if cl[0] in ("path", "qpath"):
            # a function used as a value: `.map(BFieldElement::try_from)`, `.map(<[u8; 8]>::from)`
            if len(ptys) != 1:
                raise Unsupported("function value with several parameters")
            arg = ("path", ["x_fn"])
            body = ("call", cl[1], [arg]) if cl[0] == "path" else ("qcall", cl[1], cl[2], [arg])
            cl = ("closure", [("pid", "x_fn")], body)
        if cl[0] != "closure":
            raise Unsupported("closure expected")
        pats = cl[1]
        if len(pats) != len(ptys):
            raise Unsupported("closure arity")
        env2 = dict(env)
        binders, heads = [], ""
        for pat, ty in zip(pats, ptys):
            if pat[0] == "pid":
                ln = self.fresh(pat[1], env2)
                env2[pat[1]] = (ln, ty)
                binders.append(ln)
            elif pat[0] == "pwild":
                binders.append("_")
            elif pat[0] == "ptuple" and isinstance(ty, tuple) and ty[0] == "tuple" and len(ty[1]) == len(pat[1]) \
                    and all(q[0] in ("pid", "pwild") for q in pat[1]):
                tmp = self.tmp("p")
                binders.append(tmp)
                for idx, (q, qt) in enumerate(zip(pat[1], ty[1])):
                    if q[0] == "pid":
                        ln = self.fresh(q[1], env2)
                        env2[q[1]] = (ln, qt)
                        heads += f"let {ln} := {NatEmitter.proj(tmp, idx, len(pat[1]))}; "
            else:
                raise Unsupported("closure parameter pattern")
        t, ty, ok = self.emit(cl[2], env2, exp)
        b = " ".join(binders) if binders else "_"
        return f"(fun {b} => {heads}{t})", ty, (f"(fun {b} => {heads}{ok})" if ok else None)

    # ---- method calls
    def emit_mcall(self, e, env, exp):
        _, recv, name, args = e
        # conversions driven by the expected type
        if name == "unwrap" and not args:
            inner_exp = ("res", exp, None) if exp is not None else None
            r, rty, rok = self.emit(recv, env, inner_exp)
            if isinstance(rty, tuple) and rty[0] == "res":
                m = re.fullmatch(r'\(TF\.RustStd\.array_try_from (\d+) (.*) "[A-Za-z]+"\)', r)
                if m:
                    return m.group(2), rty[1], self.conj(rok, f"({m.group(2)}.length == {m.group(1)})")
                m = re.fullmatch(r'\(TF\.RustStd\.int_try_from (\d+) (.*)\)', r)
                if m:
                    return m.group(2), rty[1], self.conj(rok, f"decide ({m.group(2)} < {m.group(1)})")
                return f"(TF.RustStd.unwrapE {r})", rty[1], self.conj(rok, f"(TF.RustStd.isOk {r})")
            if isinstance(rty, tuple) and rty[0] == "option":
                return f"({r}.getD {default_of(rty[1])})", rty[1], self.conj(rok, f"{r}.isSome")
            raise Unsupported(f"unwrap on {rty}")
        if name == "into" and not args:
            a = self.emit(recv, env, None)
            if exp is None:
                raise Unsupported("into() with undetermined target type")
            return self.convert("from", a, exp)
        if name == "try_into" and not args:
            a = self.emit(recv, env, None)
            if not (isinstance(exp, tuple) and exp[0] == "res" and exp[1] is not None):
                raise Unsupported("try_into() with undetermined target type")
            t, ty, ok = self.convert("try_from", a, exp[1])
            if exp[2] is not None and ty[2] != exp[2]:
                raise Unsupported(f"try_into(): error type {ty[2]} where {exp[2]} is expected")
            return t, ty, ok
        # receiver-driven
        if recv[0] == "range":
            lo = self.emit(recv[1], env, None if recv[1][0] != "lit" else "usize")
            hi = self.emit(recv[2], env, lo[1])
            if recv[1][0] == "lit" and recv[2][0] != "lit":
                hi = self.emit(recv[2], env, None)
                lo = self.emit(recv[1], env, hi[1])
            if lo[1] != hi[1] or lo[1] not in INT_TYPES:
                raise Unsupported("range bounds")
            if recv[1][0] == "lit" and recv[2][0] == "lit" and not recv[1][2] and not recv[2][2] and recv[2][1] >= 2 ** 15:
                # both bounds unsuffixed: rustc may fall back to i32; the values are the same in every integer type only
                # when they are small
                raise Unsupported("range of unsuffixed literals that is not small")
            a = f"((List.range ({hi[0]} - {lo[0]})).map (· + {lo[0]}))" if lo[0] != "0" else f"(List.range {paren(hi[0])})"
            aty, aok = ("iter", lo[1]), self.conj(lo[2], hi[2])
        else:
            a, aty, aok = self.emit(recv, env, None)
        if aty == "bool" and name == "then" and len(args) == 1:
            f, fty, fok = self.emit_closure(args[0], [], env, exp[1] if isinstance(exp, tuple) and exp[0] == "option" else None)
            body = f[len("(fun _ => "):-1]
            okb = fok[len("(fun _ => "):-1] if fok else None
            return f"(if {a} then some {paren(body)} else none)", ("option", fty), \
                self.conj(aok, f"(if {a} then {okb} else true)" if okb else None)
        if isinstance(aty, tuple) and aty[0] == "option":
            if name == "ok_or" and len(args) == 1:
                t, ty, ok = self.emit(args[0], env, None)
                if not (isinstance(ty, tuple) and ty[0] == "err") or ok is not None:
                    raise Unsupported("ok_or of a non-error value")
                return f"(TF.RustStd.ok_or {a} {t})", ("res", aty[1], ty[1]), aok
            if name in ("copied", "cloned") and not args:
                return a, aty, aok
        if isinstance(aty, tuple) and aty[0] == "res":
            if name == "map_err" and len(args) == 1 and args[0][0] == "closure" and len(args[0][1]) == 1 \
                    and (args[0][1][0][0] == "pwild" or (args[0][1][0][0] == "pid" and args[0][1][0][1].startswith("_"))):
                t, ty, ok = self.emit(args[0][2], env, None)
                if not (isinstance(ty, tuple) and ty[0] == "err") or ok is not None:
                    raise Unsupported("map_err closure that does not build an error variant")
                return f"(TF.RustStd.map_err {a} {t})", ("res", aty[1], ty[1]), aok
        if aty in INT_TYPES:
            w = INT_TYPES[aty]
            if name in ("checked_add", "checked_mul") and len(args) == 1:
                b, bty, bok = self.emit(args[0], env, aty)
                if bty != aty:
                    raise Unsupported(f"{name}: {aty} vs {bty}")
                return f"(TF.RustStd.{name} {p2(w)} {paren(a)} {paren(b)})", ("option", aty), self.conj(aok, bok)
            if name == "to_le_bytes" and not args:
                return f"(TF.toLeBytes {w // 8} {paren(a)})", ("sarray", "u8", w // 8), aok
            if name in ("ilog2", "is_power_of_two", "leading_zeros", "count_ones", "trailing_zeros"):
                return NatEmitter.emit_mcall(self, e, env, exp)
            if name == "clone" and not args:
                return a, aty, aok
        if aty == "biguint":
            if name == "bits" and not args:
                return f"(TF.bitLen {paren(a)})", "u64", aok
            if name == "clone" and not args:
                return a, aty, aok
            if name == "is_zero" and not args:
                return f"({a} == 0)", "bool", aok
        if aty == "bfe" or (isinstance(aty, tuple) and aty[0] == "struct"):
            owner = "BFieldElement" if aty == "bfe" else aty[1]
            entry = G.funs.get((owner, name))
            if entry is not None:
                parts = [(a, aty, aok)] + [self.emit(x, env, t) for x, t in zip(args, entry[1][1:])]
                return self.call_fn(entry, parts)
            if name in ("clone", "to_owned") and not args:
                return a, aty, aok
        if is_list(aty) and aty[0] != "iter":
            el = aty[1]
            if name == "len" and not args:
                return f"{a}.length", "usize", aok
            if name == "is_empty" and not args:
                return f"({a}.length == 0)", "bool", aok
            if name == "iter" and not args:
                return a, ("iter", el), aok
            if name == "to_vec" and not args:
                return a, ("vec", el), aok
            if name == "clone" and not args:
                return a, aty, aok
            if name == "get" and len(args) == 1:
                i, ity, iok = self.emit(args[0], env, "usize")
                if ity != "usize":
                    raise Unsupported("get: index type")
                return f"{a}[{i}]?", ("option", el), self.conj(aok, iok)
            if name == "chunks_exact" and len(args) == 1:
                n, nty, nok = self.emit(args[0], env, "usize")
                if nty != "usize":
                    raise Unsupported("chunks_exact: size type")
                return f"(TF.RustStd.chunks_exact {paren(n)} {paren(a)})", ("iter", ("slice", el)), self.conj(aok, nok, f"({n} != 0)")
            if name == "map" and len(args) == 1 and aty[0] == "sarray":      # `[T; N]::map` (eager)
                f, fty, fok = self.emit_closure(args[0], [el], env)
                return f"({paren(a)}.map {f})", ("sarray", fty, aty[2]), self.conj(aok, f"({paren(a)}.all {fok})" if fok else None)
            if name == "concat" and not args and is_list(el) and el[0] != "iter":
                return f"{paren(a)}.flatten", ("vec", el[1]), aok
        if isinstance(aty, tuple) and aty[0] == "iter":
            el = aty[1]
            if name == "rev" and not args:
                return f"{paren(a)}.reverse", aty, aok
            if name == "enumerate" and not args:
                return f"(TF.RustStd.enumerate {paren(a)})", ("iter", ("tuple", ("usize", el))), aok
            if name == "map" and len(args) == 1:
                f, fty, fok = self.emit_closure(args[0], [el], env)
                # the `_ok` twin asks the closure to be panic-free on every item (exact for consumers that drain the
                # iterator; a sufficient condition for the short-circuiting ones)
                return f"({paren(a)}.map {f})", ("iter", fty), self.conj(aok, f"({paren(a)}.all {fok})" if fok else None)
            if name in ("any", "all") and len(args) == 1:
                f, fty, fok = self.emit_closure(args[0], [el], env, "bool")
                if fty != "bool":
                    raise Unsupported(f"closure of `{name}` is not a predicate")
                return f"({paren(a)}.{name} {f})", "bool", self.conj(aok, f"({paren(a)}.all {fok})" if fok else None)
            if name == "sum" and not args:
                ty = exp if exp is not None else el
                if ty != el or el not in INT_TYPES:
                    raise Unsupported(f"sum of {el} into {ty}")
                b = p2(INT_TYPES[el])
                return f"(TF.RustStd.sum_w {b} {paren(a)})", el, self.conj(aok, f"(TF.RustStd.sum_ok {b} {paren(a)})")
            if name in ("collect", "collect_vec") and not args:
                ty = exp if exp is not None and name == "collect" else ("vec", el)
                if not (isinstance(ty, tuple) and ty[0] == "vec" and (ty[1] is None or same(ty[1], el))):
                    raise Unsupported(f"collect into {ty}")
                return a, ("vec", el), aok
            if name == "try_collect" and not args:
                if not (isinstance(el, tuple) and el[0] == "res"):
                    raise Unsupported("try_collect over non-Results")
                return f"(TF.RustStd.try_collect {paren(a)})", ("res", ("vec", el[1]), el[2]), aok
            if name == "cmp" and len(args) == 1:
                b, bty, bok = self.emit(args[0], env, aty)
                if bty != aty or el not in INT_TYPES:
                    raise Unsupported("Iterator::cmp operands")
                return f"(TF.RustStd.iter_cmp {paren(a)} {paren(b)})", "ordering", self.conj(aok, bok)
        raise Unsupported(f"method {name} on {aty}")


# --------------------------------------------------------------------------------------------------------
# statements / functions
# --------------------------------------------------------------------------------------------------------

def hoist_try(e, acc, counter):
    """replace every `X?` reachable through strict positions by a temporary, innermost/leftmost first"""
    if not isinstance(e, tuple):
        return e
    k = e[0]
    if k == "try":
        inner = hoist_try(e[1], acc, counter)
        counter[0] += 1
        tmp = f"t_try{counter[0]}"
        acc.append((tmp, inner))
        return ("path", [tmp])
    if k in ("lit", "path", "qpath"):
        return e
    if k == "closure" or k == "match" or k == "if" or (k == "bin" and e[1] in ("&&", "||")):
        if contains_try(e):
            raise Unsupported("`?` inside a closure / match / if / short-circuit operator")
        return e
    if k == "mcall":
        return ("mcall", hoist_try(e[1], acc, counter), e[2], [hoist_try(a, acc, counter) for a in e[3]])
    if k == "call":
        return ("call", e[1], [hoist_try(a, acc, counter) for a in e[2]])
    if k == "qcall":
        return ("qcall", e[1], e[2], [hoist_try(a, acc, counter) for a in e[3]])
    if k == "macro":
        return ("macro", e[1], [hoist_try(a, acc, counter) for a in e[2]])
    if k in ("tuple", "arraylit"):
        return (k, [hoist_try(a, acc, counter) for a in e[1]])
    if k == "bin":
        return ("bin", e[1], hoist_try(e[2], acc, counter), hoist_try(e[3], acc, counter))
    if k in ("cast", "field", "fieldn", "not", "neg"):
        return (k, hoist_try(e[1], acc, counter)) + tuple(e[2:])
    if k == "index":
        return ("index", hoist_try(e[1], acc, counter), hoist_try(e[2], acc, counter))
    if contains_try(e):
        raise Unsupported(f"`?` inside a `{k}` expression")
    return e


def contains_try(e):
    if isinstance(e, tuple):
        return e[:1] == ("try",) or any(contains_try(x) for x in e)
    if isinstance(e, list):
        return any(contains_try(x) for x in e)
    return False


class FnTr:
    def __init__(self, lname, rust_name, params, ret_ty, body_src, ctx, rel):
        self.lname, self.rust_name, self.params, self.rty, self.src, self.ctx, self.rel = \
            lname, rust_name, params, ret_ty, body_src, ctx, rel
        self.em = CEmitter(ctx)
        self.defs = []
        self.loops = 0
        self.counter = [0]

    def conj(self, *oks):
        return self.em.conj(*oks)

    @staticmethod
    def let_(name, val, body):
        return f"let {name} := {val}\n  {body}"

    def let_ok(self, name, val, vok, bok):
        if bok:
            return self.conj(vok, "(" + self.let_(name, val, bok) + ")")
        return vok

    # ---- value of the function
    def finish(self, e, env):
        v, vty, vok = self.em.emit(e, env, self.rty)
        if not same(vty, self.rty):
            raise Unsupported(f"value of type {vty} where the function returns {self.rty}")
        return v, vok

    def no_fall(self, env):
        if self.rty == "unit":
            return "()", None
        raise Unsupported("block ends without a value")

    # ---- `?`
    def bind_try(self, tmp, x, env, rest):
        """`let tmp = x?;` followed by `rest(env2)`"""
        em = self.em
        t, ty, ok = em.emit(x, env, None)
        env2 = dict(env)
        if isinstance(ty, tuple) and ty[0] == "res":
            if not (isinstance(self.rty, tuple) and self.rty[0] == "res"):
                raise Unsupported("`?` on a Result in a function that does not return a Result")
            env2[tmp] = (tmp, ty[1])
            bt, bok = rest(env2)
            if ty[2] == self.rty[2]:
                term = f"TF.RustStd.tryE {t} fun {tmp} =>\n  {bt}"
            else:
                conv = G.enums.get(self.rty[2], {}).get("from", {}).get(ty[2])
                if conv is None:
                    raise Unsupported(f"`?`: no `#[from] {ty[2]}` variant in {self.rty[2]}")
                term = f'TF.RustStd.tryFrom "{conv}" {t} fun {tmp} =>\n  {bt}'
            okt = self.conj(ok, f"(TF.RustStd.okE {t} fun {tmp} =>\n  {bok})" if bok else None)
            return term, okt
        if isinstance(ty, tuple) and ty[0] == "option":
            if not (isinstance(self.rty, tuple) and self.rty[0] == "option"):
                raise Unsupported("`?` on an Option in a function that does not return an Option")
            env2[tmp] = (tmp, ty[1])
            bt, bok = rest(env2)
            return f"({t}).bind fun {tmp} =>\n  {bt}", self.conj(ok, f"(TF.RustStd.okO {t} fun {tmp} =>\n  {bok})" if bok else None)
        raise Unsupported(f"`?` on {ty}")

    def with_hoisted(self, e, env, cont):
        """evaluate the `?`s of `e` (in order), then `cont(e', env')`"""
        acc = []
        e2 = hoist_try(e, acc, self.counter)

        def go(j, envj):
            if j == len(acc):
                return cont(e2, envj)
            tmp, x = acc[j]
            return self.bind_try(tmp, x, envj, lambda env3: go(j + 1, env3))
        return go(0, env)

    # ---- patterns
    def bind_pattern(self, pat, v, vty, env, body):
        """bind `pat` to the value term `v : vty`; body(env2) -> (term, ok); irrefutable patterns only"""
        em = self.em
        if pat[0] == "pwild":
            return body(env)
        if pat[0] == "pid":
            ln = em.fresh(pat[1], env)
            env2 = dict(env)
            env2[pat[1]] = (ln, vty)
            bt, bok = body(env2)
            return self.let_(ln, v, bt), (("(" + self.let_(ln, v, bok) + ")") if bok else None)
        if pat[0] == "pctor":
            sn = pat[1]
            if not (isinstance(vty, tuple) and vty[0] == "struct" and vty[1] == sn and G.structs[sn][0] == "tuple"):
                raise Unsupported(f"pattern {sn}(..) on {vty}")
            return self.bind_pattern(pat[2], v, G.structs[sn][2], env, body)
        if pat[0] == "parr":
            if not (isinstance(vty, tuple) and vty[0] == "sarray" and vty[2] == len(pat[1])):
                raise Unsupported(f"array pattern of {len(pat[1])} items on {vty}")
            tmp = em.tmp("arr")
            env2 = dict(env)
            heads = []
            for idx, q in enumerate(pat[1]):
                if q[0] == "pwild":
                    continue
                if q[0] != "pid":
                    raise Unsupported("nested array pattern")
                ln = em.fresh(q[1], env2)
                env2[q[1]] = (ln, vty[1])
                heads.append((ln, f"{tmp}.getD {idx} {default_of(vty[1])}"))
            bt, bok = body(env2)
            for ln, val in reversed(heads):
                bt = self.let_(ln, val, bt)
                bok = self.let_(ln, val, bok) if bok else None
            return self.let_(tmp, v, bt), (("(" + self.let_(tmp, v, bok) + ")") if bok else None)
        if pat[0] == "ptuple":
            if not (isinstance(vty, tuple) and vty[0] == "tuple" and len(vty[1]) == len(pat[1])):
                raise Unsupported("tuple pattern on a non-tuple")
            tmp = em.tmp("tup")
            env2 = dict(env)
            heads = []
            for idx, q in enumerate(pat[1]):
                if q[0] == "pwild":
                    continue
                if q[0] != "pid":
                    raise Unsupported("nested tuple pattern")
                ln = em.fresh(q[1], env2)
                env2[q[1]] = (ln, vty[1][idx])
                heads.append((ln, NatEmitter.proj(tmp, idx, len(pat[1]))))
            bt, bok = body(env2)
            for ln, val in reversed(heads):
                bt = self.let_(ln, val, bt)
                bok = self.let_(ln, val, bok) if bok else None
            return self.let_(tmp, v, bt), (("(" + self.let_(tmp, v, bok) + ")") if bok else None)
        raise Unsupported(f"pattern {pat[0]}")

    def diverging(self, blk, env):
        """a block that must end in `return e;`"""
        def never(env2):
            raise Unsupported("block that was expected to diverge falls through")
        return self.seq(blk, 0, env, never)

    # ---- statement sequences; `k(env)` = what happens when the block ends without a value
    def seq(self, stmts, i, env, k):
        em = self.em
        if i == len(stmts):
            return k(env)
        st = stmts[i]
        kind = st[0]
        rest = lambda env2: self.seq(stmts, i + 1, env2, k)
        if kind == "fnitem":
            if ("", st[1]) not in G.funs:
                raise Unsupported(f"nested fn {st[1]} is not translated")
            return rest(env)
        if kind == "tail":
            if i != len(stmts) - 1:
                raise Unsupported("value in the middle of a block")
            return self.with_hoisted(st[1], env, lambda e2, env2: self.finish(e2, env2))
        if kind == "return":
            return self.with_hoisted(st[1], env, lambda e2, env2: self.finish(e2, env2))
        if kind == "assert":
            c, cty, cok = em.emit(st[1], env, "bool")
            if cty != "bool":
                raise Unsupported("assert condition")
            t, ok = rest(env)
            return t, self.conj(cok, c, ok)
        if kind == "if":
            c, cty, cok = em.emit(st[1], env, "bool")
            if cty != "bool":
                raise Unsupported("if condition")
            at, aok = self.diverging(st[2], env)
            bt, bok = rest(env)
            ok = f"(if {c} then {paren(aok or 'true')} else {paren(bok or 'true')})" if (aok or bok) else None
            return f"if {c} then\n  {paren(at)}\n  else\n  {paren(bt)}", self.conj(cok, ok)
        if kind == "let":
            _, pat, tyast, val, els = st
            declared = em.ty_of(tyast) if tyast is not None else None
            if els is not None:
                return self.let_else(pat, val, els, env, rest)
            if val[0] == "match":
                return self.let_match(pat, declared, val, env, rest)

            def cont(e2, env2):
                v, vty, vok = em.emit(e2, env2, declared)
                if declared is not None and not same(vty, declared):
                    raise Unsupported(f"let: {vty} where {declared} is declared")
                bt, bok = self.bind_pattern(pat, v, vty, env2, rest)
                return bt, self.conj(vok, bok)
            return self.with_hoisted(val, env, cont)
        if kind == "assign":
            _, lhs, op, rhs = st
            bop = ASSIGN_OPS[op]
            if lhs[0] == "path" and len(lhs[1]) == 1 and lhs[1][0] in env:
                name = lhs[1][0]
                ln, ty = env[name]
                v, vty, vok = em.emit(rhs if bop is None else ("bin", bop, lhs, rhs), env, ty)
                if not same(vty, ty):
                    raise Unsupported(f"assignment of {vty} to {name} : {ty}")
                bt, bok = rest(env)
                return self.let_(ln, v, bt), self.let_ok(ln, v, vok, bok)
            if lhs[0] == "index" and lhs[1][0] == "path" and len(lhs[1][1]) == 1 and lhs[1][1][0] in env and bop is None:
                name = lhs[1][1][0]
                ln, ty = env[name]
                if not is_list(ty) or ty[0] == "iter":
                    raise Unsupported("element assignment to a non-array")
                ix, ity, iok = em.emit(lhs[2], env, "usize")
                v, vty, vok = em.emit(rhs, env, ty[1])
                if ity != "usize" or not same(vty, ty[1]):
                    raise Unsupported("element assignment types")
                val = f"{ln}.set {paren(ix)} {paren(v)}"
                bt, bok = rest(env)
                return self.let_(ln, val, bt), self.let_ok(ln, val, self.conj(iok, vok, f"decide ({ix} < {ln}.length)"), bok)
            raise Unsupported("assignment target")
        if kind == "push":
            _, recv, args = st
            if not (recv[0] == "path" and len(recv[1]) == 1 and recv[1][0] in env and len(args) == 1):
                raise Unsupported("push target")
            ln, ty = env[recv[1][0]]
            if not (isinstance(ty, tuple) and ty[0] == "vec"):
                raise Unsupported("push on a non-Vec")
            v, vty, vok = em.emit(args[0], env, ty[1])
            if not same(vty, ty[1]):
                raise Unsupported("push item type")
            val = f"{ln} ++ [{v}]"
            bt, bok = rest(env)
            return self.let_(ln, val, bt), self.let_ok(ln, val, vok, bok)
        if kind == "for":
            return self.do_for(st, env, rest)
        raise Unsupported(f"statement {kind}")

    def let_else(self, pat, val, els, env, rest):
        em = self.em
        v, vty, vok = em.emit(val, env, None)
        et, eok = self.diverging(els, env)
        if pat[0] == "parr" and isinstance(vty, tuple) and vty[0] in ("slice", "vec") and all(q[0] == "pid" for q in pat[1]):
            n = len(pat[1])
            bt, bok = self.bind_pattern(pat, v, ("sarray", vty[1], n), env, rest)
            c = f"({v}.length == {n})"
        elif pat[0] == "pctor" and pat[1] == "Some" and pat[2][0] == "pid" and isinstance(vty, tuple) and vty[0] == "option":
            bt, bok = self.bind_pattern(pat[2], f"({v}.getD {default_of(vty[1])})", vty[1], env, rest)
            c = f"{v}.isSome"
        else:
            raise Unsupported("let-else pattern")
        ok = f"(if {c} then {paren(bok or 'true')} else {paren(eok or 'true')})" if (bok or eok) else None
        return f"if {c} then\n  {paren(bt)}\n  else\n  {paren(et)}", self.conj(vok, ok)

    def let_match(self, pat, declared, m, env, rest):
        """`let x = match e { lit => e, .., _ => return e };` -> if-chain, the continuation is duplicated"""
        em = self.em
        _, scrut, arms = m
        s, sty, sok = em.emit(scrut, env, None)
        if sty not in INT_TYPES:
            raise Unsupported("match on a non-integer")
        if not arms or arms[-1][0] != ("pwild",):
            raise Unsupported("match whose last arm is not `_`")
        sv = em.tmp("scrut")
        out_t, out_ok = None, None
        for p, body in reversed(arms):
            if body[0] == "ret":
                bt, bok = self.finish(body[1], env)
            else:
                v, vty, vok = em.emit(body, env, declared)
                if declared is not None and not same(vty, declared):
                    raise Unsupported("match arm type")
                declared = vty
                bt, bok = self.bind_pattern(pat, v, vty, env, rest)
                bok = self.conj(vok, bok)
            if p == ("pwild",):
                if out_t is not None:
                    raise Unsupported("`_` arm that is not the last one")
                out_t, out_ok = bt, bok
            else:
                if p[0] != "plit" or p[2] not in (None, sty) or p[1] >= 2 ** INT_TYPES[sty]:
                    raise Unsupported("match pattern")
                c = f"({sv} == {p[1]})"
                if bok or out_ok:
                    out_ok = f"(if {c} then {paren(bok or 'true')} else {paren(out_ok or 'true')})"
                out_t = f"if {c} then\n  {paren(bt)}\n  else\n  {paren(out_t)}"
        return self.let_(sv, s, out_t), self.conj(sok, ("(" + self.let_(sv, s, out_ok) + ")") if out_ok else None)

    # ---- for loops with straight-line bodies
    def do_for(self, st, env, rest):
        em = self.em
        _, pat, it, body = st
        rev = False
        if it[0] == "mcall" and it[2] == "iter_mut" and not it[3] and it[1][0] == "path" and len(it[1][1]) == 1 \
                and pat[0] == "pid":
            arr = it[1][1][0]
            if arr not in env or not is_list(env[arr][1]):
                raise Unsupported("iter_mut over a non-array")
            var = "ix_" + pat[1]
            body = subst(body, pat[1], ("index", ("path", [arr]), ("path", [var])))
            lo, hi = ("0", "usize", None), (f"{env[arr][0]}.length", "usize", None)
        else:
            if it[0] == "mcall" and it[2] == "rev" and not it[3] and it[1][0] == "range":
                rev, it = True, it[1]
            if it[0] != "range" or pat[0] not in ("pid", "pwild"):
                raise Unsupported("for over something that is not a range / iter_mut()")
            var = pat[1] if pat[0] == "pid" else "it_"
            lo = em.emit(it[1], env, "usize")
            hi = em.emit(it[2], env, "usize")
            if lo[1] != "usize" or hi[1] != "usize":
                raise Unsupported("range bounds must be usize")
        for s in body:
            if s[0] not in ("let", "assign", "push") or (s[0] == "let" and (s[4] is not None or contains_try(s))) \
                    or contains_try(s):
                raise Unsupported("for body is not straight-line")
        assigned = []
        for s in body:
            if s[0] == "assign":
                tgt = s[1][1] if s[1][0] == "index" else s[1]
                if tgt[0] == "path" and len(tgt[1]) == 1 and tgt[1][0] not in assigned:
                    assigned.append(tgt[1][0])
            if s[0] == "push" and s[1][0] == "path" and s[1][1][0] not in assigned:
                assigned.append(s[1][1][0])
        local = {s[1][1] for s in body if s[0] == "let" and s[1][0] == "pid"}
        S = [n for n in env if n in assigned and n not in local]
        for n in assigned:
            if n not in env and n not in local:
                raise Unsupported(f"assignment to unknown variable {n}")
        used = names_in(body, set())
        F = [n for n in env if n in used and n not in S]
        # Emitted as a `List.foldl` over the list of indices (not as a recursive definition: generating the equation lemmas
        # of a structural recursion whose body calls `bfe_value` does not terminate in Lean 4.33).
        self.loops += 1
        iv = em.fresh(var, env)
        benv = {n: env[n] for n in F + S}
        benv[var] = (iv, "usize")
        if not S:
            raise Unsupported("for loop without effect")

        def tup(envx):
            parts = [envx[n][0] for n in S]
            return parts[0] if len(parts) == 1 else "(" + ", ".join(parts) + ")"

        bt, bok = self.seq(body, 0, benv, lambda env2: (tup(env2), None))
        st = em.tmp("st")
        if len(S) == 1:
            binds = f"let {env[S[0]][0]} := {st}\n  "
        else:
            binds = "".join(f"let {env[n][0]} := {NatEmitter.proj(st, idx, len(S))}\n  " for idx, n in enumerate(S))
        count = f"({hi[0]} - {lo[0]})" if lo[0] != "0" else paren(hi[0])
        idx = f"(List.range {count})" if lo[0] == "0" else f"((List.range {count}).map (· + {lo[0]}))"
        if rev:
            idx = f"{idx}.reverse"
        call = f"(List.foldl (fun {st} {iv} =>\n  {binds}{bt}) {tup(env)} {idx})"
        acc = em.tmp("acc")
        callok = None
        if bok:
            callok = (f"(List.foldl (fun {acc} {iv} =>\n  let {st} := {acc}.2\n  {binds}({acc}.1 && {paren(bok)},\n  {bt})) "
                      f"(true, {tup(env)}) {idx}).1")
        callok = self.conj(lo[2], hi[2], callok)
        rt, rok = rest(env)
        if len(S) == 1:
            ln = env[S[0]][0]
            return self.let_(ln, call, rt), self.let_ok(ln, call, callok, rok)
        tmp = em.tmp("st")
        heads = [(env[n][0], NatEmitter.proj(tmp, idx2, len(S))) for idx2, n in enumerate(S)]
        for ln, val in reversed(heads):
            rt = self.let_(ln, val, rt)
            rok = self.let_(ln, val, rok) if rok else None
        return self.let_(tmp, call, rt), self.let_ok(tmp, call, callok, rok)

    # ---- the function
    def translate(self):
        ps = CParser(tokenize(self.src))
        stmts = ps.parse_stmts("")
        if ps.peek()[0] != "eof":
            raise Unsupported(f"trailing tokens {ps.peek()}")
        env, binders, pre = {}, [], []
        for idx, (pat, ty) in enumerate(self.params):
            if pat[0] == "pid":
                ln = self.em.fresh(pat[1], env)
                env[pat[1]] = (ln, ty)
            else:
                ln = f"arg{idx}"
                pre.append((pat, ln, ty))
            if isinstance(ty, tuple) and ty[0] == "record":
                for f, ft in ty[1].items():
                    binders.append(f"({ln}_{f} : {lean_ty(ft)})")
            else:
                binders.append(f"({ln} : {lean_ty(ty)})")

        def body(envb):
            return self.seq(stmts, 0, envb, self.no_fall)

        def wrap(j, envj):
            if j == len(pre):
                return body(envj)
            pat, ln, ty = pre[j]
            return self.bind_pattern(pat, ln, ty, envj, lambda e2: wrap(j + 1, e2))
        term, ok = wrap(0, env)
        b = " ".join(binders)
        sep = " " if b else ""
        text = "".join(d + "\n" for d in self.defs)
        text += f"/-- `{self.rust_name}` in {self.rel} -/\ndef {self.lname}{sep}{b} : {lean_ty(self.rty)} :=\n  {term}\n\n"
        text += (f"/-- true iff no plain arithmetic operation of `{self.lname}` overflows, no index is out of range, no `unwrap()`\n"
                 "    fails and nothing divides by zero (closures of iterator adaptors: on every item) -/\n")
        text += f"def {self.lname}_ok{sep}{b} : Bool :=\n  {ok or 'true'}\n"
        return text


# --------------------------------------------------------------------------------------------------------
# source access: impl headers, `type Error`, macros, enums, structs
# --------------------------------------------------------------------------------------------------------

def parse_params(text, em):
    """[(pattern, type)]"""
    out = []
    ps = CParser(tokenize(text))
    while ps.peek()[0] != "eof":
        if ps.peek()[1] in ("&", "mut", "self"):
            save = ps.i
            ps.accept("&")
            ps.accept("mut")
            if ps.accept("self"):
                if em.ctx.get("self_ty") is None:
                    raise Unsupported("self parameter outside an impl")
                out.append((("pid", "self"), em.ctx["self_ty"]))
                if not ps.accept(","):
                    break
                continue
            ps.i = save
        pat = ps.parse_pattern()
        ps.expect(":")
        ty = em.ty_of(ps.parse_type())
        if ty is None:
            raise Unsupported("parameter type")
        out.append((pat, ty))
        if not ps.accept(","):
            break
    if ps.peek()[0] != "eof":
        raise Unsupported("parameter list")
    return out


def impl_error_type(src, anchor, fn_name):
    m = re.search(anchor, src)
    if not m:
        raise Unsupported(f"anchor {anchor!r} not found")
    f = re.compile(r"\bfn\s+" + re.escape(fn_name) + r"\b").search(src, m.end())
    if not f:
        raise Unsupported(f"fn {fn_name} not found")
    t = re.findall(r"\btype\s+(?:Error|Err)\s*=\s*([A-Za-z_][A-Za-z0-9_]*)\s*;", src[m.end():f.start()])
    return t[-1] if t else None


def read_enums(src, out):
    for m in re.finditer(r"\bpub\s+enum\s+([A-Za-z_][A-Za-z0-9_]*)\s*\{", src):
        st = m.end() - 1
        en = balanced(src, st)
        body = src[st + 1:en - 1]
        body_noattr = re.sub(r"#\[(?:[^\[\]]|\[[^\]]*\])*\]", lambda a: " @FROM " if "from" in a.group(0) and "#[from]" in a.group(0).replace(" ", "") else " ", body)
        variants, frm = [], {}
        depth, cur = 0, ""
        items = []
        for c in body_noattr:
            if c in "({<":
                depth += 1
            elif c in ")}>":
                depth -= 1
            if c == "," and depth == 0:
                items.append(cur)
                cur = ""
            else:
                cur += c
        items.append(cur)
        for it in items:
            it = it.strip()
            mm = re.match(r"([A-Za-z_][A-Za-z0-9_]*)", it)
            if not mm:
                continue
            variants.append(mm.group(1))
            f = re.search(r"\(\s*@FROM\s+([A-Za-z_][A-Za-z0-9_]*)\s*\)", it)
            if f:
                frm[f.group(1)] = mm.group(1)
        out[m.group(1)] = {"variants": variants, "from": frm}


def expand_macro(src, name):
    """[(args, expanded text)] for every invocation `name!(..);` of a `macro_rules!` of one of the two accepted shapes"""
    m = re.search(r"macro_rules!\s+" + re.escape(name) + r"\s*\{", src)
    if not m:
        raise Unsupported(f"macro {name} not found")
    st = m.end() - 1
    en = balanced(src, st)
    body = src[st + 1:en - 1].strip()
    a = re.match(r"\(\s*\$([a-z_]+):ty\s*,\s*\$([a-z_]+):literal\s*\)\s*=>\s*\{", body)
    b = re.match(r"\(\s*\$\(\s*\$([a-z_]+):ident\s*\)\s*,\s*\+\s*\$\(\s*,\s*\)\s*\?\s*\)\s*=>\s*\{\s*\$\(", body)
    rest = src[:m.start()] + src[en:]
    invs = re.findall(r"^\s*" + re.escape(name) + r"!\s*\(([^)]*)\)\s*;", rest, flags=re.M)
    out = []
    if a:
        t0 = body.index("{", a.end() - 1)
        t1 = balanced(body, t0)
        if body[t1:].strip() not in ("", ";"):
            raise Unsupported(f"macro {name}: more than one rule")
        tmpl = body[t0 + 1:t1 - 1]
        for inv in invs:
            args = [x.strip() for x in inv.split(",") if x.strip()]
            if len(args) != 2 or not re.fullmatch(r"[a-z0-9]+", args[0]) or not re.fullmatch(r"[0-9]+", args[1]):
                raise Unsupported(f"macro {name}: invocation {inv!r}")
            text = tmpl.replace("$" + a.group(1), args[0]).replace("$" + a.group(2), args[1])
            if "$" in text:
                raise Unsupported(f"macro {name}: unexpanded metavariable")
            out.append((tuple(args), text))
    elif b:
        t0 = body.index("(", b.end() - 1)
        t1 = balanced(body, t0, "(", ")")
        if not re.fullmatch(r"\+\s*\}\s*;?", body[t1:].strip()):
            raise Unsupported(f"macro {name}: shape of the repetition")
        tmpl = body[t0 + 1:t1 - 1]
        for inv in invs:
            for arg in [x.strip() for x in inv.split(",") if x.strip()]:
                if not re.fullmatch(r"[a-z0-9]+", arg):
                    raise Unsupported(f"macro {name}: invocation {inv!r}")
                text = tmpl.replace("$" + b.group(1), arg)
                if "$" in text:
                    raise Unsupported(f"macro {name}: unexpanded metavariable")
                out.append(((arg,), text))
    else:
        raise Unsupported(f"macro {name}: shape of the rule changed")
    if not out:
        raise Unsupported(f"macro {name}: no invocation found")
    return out


def translate_one(spec, status, texts):
    """spec: dict(lname, rel, src, fn, anchor, owner, self_ty, reg, [err], [result_alias], [record])"""
    lname = spec["lname"]
    try:
        src = spec["src"]
        if src is None:
            raise Unsupported("source file not readable")
        ctx = {"owner": spec.get("owner"), "self_ty": spec.get("self_ty"), "result_alias": spec.get("result_alias")}
        ctx["err"] = spec.get("err") or (impl_error_type(src, spec["anchor"], spec["fn"]) if spec.get("anchor") else None)
        params_text, ret_text, body = find_fn(src, spec["fn"], spec.get("anchor"))
        em = CEmitter(ctx)
        params = parse_params(params_text, em)
        rty = "unit"
        if ret_text.strip():
            ps = CParser(tokenize(ret_text))
            rty = em.ty_of(ps.parse_type())
            if ps.peek()[0] != "eof":
                raise Unsupported("return type")
        tr = FnTr(lname, spec["fn"], params, rty, body, ctx, spec["rel"])
        text = tr.translate()
    except Unsupported as ex:
        status["failed"][f"fn {lname}"] = "conv: " + str(ex)
        return False
    except Exception as ex:      # a translator crash is also a refusal, never a guess
        status["failed"][f"fn {lname}"] = f"conv: internal: {type(ex).__name__}: {ex}"
        return False
    texts.append(text)
    ptys = [t for _, t in params]
    reg = spec["reg"]
    if reg[0] == "fun":
        G.funs[(reg[1], reg[2])] = (lname, ptys, rty)
    elif reg[0] == "conv":
        if len(ptys) != 1 or not same(ptys[0], reg[2]):
            status["failed"][f"fn {lname}"] = f"conv: parameter type {ptys} of the impl is not {reg[2]}"
            texts.pop()
            return False
        want = reg[3]
        got = rty[1] if reg[1] == "try_from" and isinstance(rty, tuple) and rty[0] == "res" else rty
        if not same(got, want):
            status["failed"][f"fn {lname}"] = f"conv: result type {rty} of the impl is not {want}"
            texts.pop()
            return False
        G.convs[(reg[1], reg[2], reg[3])] = (lname, rty)
    status["translated"][lname] = {"source": spec["rel"], "sha256": hashlib.sha256(text.encode()).hexdigest()[:16],
                                   "conv": True}
    return True


def emit_file(changed, out_name, header_src, imports, texts):
    out = [HEADER.format(src=header_src).replace("rs2lean.py", "rs2lean.py (rs2lean_conv.py)")]
    out += [f"import {m}\n" for m in imports]
    out += ["set_option linter.unusedVariables false\n", "namespace TF.Gen.Loops\nopen TF.Gen\n"]
    out += texts
    out.append("end TF.Gen.Loops\n")
    if write_if_changed(os.path.join(OUT, out_name + ".lean"), "\n".join(out)):
        changed.append(out_name)


def reset():
    G.consts, G.structs, G.enums, G.funs, G.convs, G.macros, G.bfe_consts = {}, {}, {}, {}, {}, {}, {}


# --------------------------------------------------------------------------------------------------------
# driver
# --------------------------------------------------------------------------------------------------------

BFE_REL = "twenty-first/src/math/b_field_element.rs"
XFE_REL = "twenty-first/src/math/x_field_element.rs"
DIG_REL = "twenty-first/src/math/digest.rs"
ERR_REL = "twenty-first/src/error.rs"
COD_REL = "twenty-first/src/math/bfield_codec.rs"
MT_REL = "twenty-first/src/util_types/merkle_tree.rs"


def setup_registry(status, fns, read_src):
    reset()
    cst = status.get("constants", {})
    bfe, dig, xfe = read_src(BFE_REL) or "", read_src(DIG_REL) or "", read_src(XFE_REL) or ""
    for owner, name, key, ty in (("BFieldElement", "P", "P", "u64"), ("BFieldElement", "BYTES", "BFE_BYTES", "usize"),
                                 ("Digest", "LEN", "DIGEST_LEN", "usize"), ("", "EXTENSION_DEGREE", "EXTENSION_DEGREE", "usize"),
                                 ("", "MAX_TREE_HEIGHT", "MAX_TREE_HEIGHT", "usize"), ("", "ROOT_INDEX", "ROOT_INDEX", "usize")):
        if key in cst:
            G.consts[(owner, name)] = (cst[key], ty)
    if re.search(r"pub\s+const\s+BYTES\s*:\s*usize\s*=\s*Self::LEN\s*\*\s*BFieldElement::BYTES\s*;", dig) \
            and ("Digest", "LEN") in G.consts and ("BFieldElement", "BYTES") in G.consts:
        G.consts[("Digest", "BYTES")] = (G.consts[("Digest", "LEN")][0] * G.consts[("BFieldElement", "BYTES")][0], "usize")
    if re.search(r"pub\s+struct\s+Digest\s*\(\s*pub\s+\[\s*BFieldElement\s*;\s*Digest::LEN\s*\]\s*\)\s*;", dig) \
            and ("Digest", "LEN") in G.consts:
        G.structs["Digest"] = ("tuple", None, ("sarray", "bfe", G.consts[("Digest", "LEN")][0]))
    if re.search(r"pub\s+struct\s+XFieldElement\s*\{\s*pub\s+coefficients\s*:\s*\[\s*BFieldElement\s*;\s*EXTENSION_DEGREE\s*\]\s*,?\s*\}", xfe) \
            and ("", "EXTENSION_DEGREE") in G.consts:
        G.structs["XFieldElement"] = ("field", "coefficients", ("sarray", "bfe", G.consts[("", "EXTENSION_DEGREE")][0]))
    for rel in (ERR_REL, COD_REL, MT_REL):
        s = read_src(rel)
        if s:
            read_enums(s, G.enums)
    if re.search(r"macro_rules!\s+bfe\s*\{\s*\(\s*\$value:expr\s*\)\s*=>\s*\{\s*BFieldElement::from\(\s*\$value\s*\)\s*\}\s*;\s*\}", bfe):
        G.macros["bfe"] = True
    if re.search(r"\(\s*\$\(\s*\$b:expr\s*\)\s*,\s*\*\s*\$\(\s*,\s*\)\s*\?\s*\)\s*=>\s*\{\s*vec!\[\s*\$\(\s*BFieldElement::from\(\s*\$b\s*\)\s*\)\s*,\s*\*\s*\]\s*\}",
                 bfe[bfe.find("macro_rules! bfe_vec"):bfe.find("macro_rules! bfe_vec") + 400] if "macro_rules! bfe_vec" in bfe else ""):
        G.macros["bfe_vec"] = True
    try:
        import rs2lean_bfe
        G.bfe_consts = rs2lean_bfe.read_bfe_consts(bfe)
    except Exception:
        G.bfe_consts = {}
    base = {"new": ("bfe_new", ["u64"], "bfe"), "canonical_representation": ("bfe_value", ["bfe"], "u64"),
            "is_canonical": ("bfe_is_canonical", ["u64"], "bool")}
    for rn, (ln, ptys, rty) in base.items():
        if fns.get(rn) is not None and fns[rn][0] == ln:
            G.funs[("BFieldElement", rn)] = (ln, ptys, rty)
    if fns.get("mod_reduce") is not None and fns["mod_reduce"][0] == "mod_reduce":
        G.funs[("", "mod_reduce")] = ("mod_reduce", ["u128"], "u64")


def conv_specs(read_src):
    bfe, dig, xfe = read_src(BFE_REL), read_src(DIG_REL), read_src(XFE_REL)
    B, D, X = "BFieldElement", "Digest", "XFieldElement"
    dt, xt = ("struct", D), ("struct", X)
    nb = G.consts.get((B, "BYTES"), (8, "usize"))[0]
    nd = G.consts.get((D, "BYTES"), (40, "usize"))[0]
    u8s = ("slice", "u8")
    return [
        dict(lname="conv_bfe_value", rel=BFE_REL, src=bfe, fn="value", anchor=r"impl BFieldElement \{", owner=B,
             self_ty="bfe", reg=("fun", B, "value")),
        dict(lname="conv_bfe_try_new", rel=BFE_REL, src=bfe, fn="try_new", anchor=r"impl BFieldElement \{", owner=B,
             self_ty="bfe", reg=("fun", B, "try_new")),
        dict(lname="conv_bfe_to_bytes", rel=BFE_REL, src=bfe, fn="from",
             anchor=r"impl From<BFieldElement> for \[u8; BFieldElement::BYTES\]", owner=None, self_ty=("sarray", "u8", nb),
             reg=("conv", "from", "bfe", ("sarray", "u8", nb))),
        dict(lname="conv_bfe_try_from_array", rel=BFE_REL, src=bfe, fn="try_from",
             anchor=r"impl TryFrom<\[u8; BFieldElement::BYTES\]> for BFieldElement", owner=B, self_ty="bfe",
             reg=("conv", "try_from", ("sarray", "u8", nb), "bfe")),
        dict(lname="conv_bfe_try_from_slice", rel=BFE_REL, src=bfe, fn="try_from",
             anchor=r"impl TryFrom<&\[u8\]> for BFieldElement", owner=B, self_ty="bfe",
             reg=("conv", "try_from", u8s, "bfe")),
        dict(lname="conv_digest_new", rel=DIG_REL, src=dig, fn="new", anchor=r"impl Digest \{", owner=D, self_ty=dt,
             reg=("fun", D, "new")),
        dict(lname="conv_digest_values", rel=DIG_REL, src=dig, fn="values", anchor=r"impl Digest \{", owner=D, self_ty=dt,
             reg=("fun", D, "values")),
        dict(lname="conv_digest_reversed", rel=DIG_REL, src=dig, fn="reversed", anchor=r"impl Digest \{", owner=D,
             self_ty=dt, reg=("fun", D, "reversed")),
        dict(lname="conv_digest_cmp", rel=DIG_REL, src=dig, fn="cmp", anchor=r"impl Ord for Digest", owner=D, self_ty=dt,
             reg=("fun", D, "cmp")),
        dict(lname="conv_digest_partial_cmp", rel=DIG_REL, src=dig, fn="partial_cmp", anchor=r"impl PartialOrd for Digest",
             owner=D, self_ty=dt, reg=("fun", D, "partial_cmp")),
        dict(lname="conv_digest_to_bytes", rel=DIG_REL, src=dig, fn="from",
             anchor=r"impl From<Digest> for \[u8; Digest::BYTES\]", owner=None, self_ty=("sarray", "u8", nd),
             reg=("conv", "from", dt, ("sarray", "u8", nd))),
        dict(lname="conv_digest_try_from_array", rel=DIG_REL, src=dig, fn="try_from",
             anchor=r"impl TryFrom<\[u8; Digest::BYTES\]> for Digest", owner=D, self_ty=dt,
             reg=("conv", "try_from", ("sarray", "u8", nd), dt)),
        dict(lname="conv_digest_try_from_slice", rel=DIG_REL, src=dig, fn="try_from",
             anchor=r"impl TryFrom<&\[u8\]> for Digest", owner=D, self_ty=dt, reg=("conv", "try_from", u8s, dt)),
        dict(lname="conv_digest_try_from_biguint", rel=DIG_REL, src=dig, fn="try_from",
             anchor=r"impl TryFrom<BigUint> for Digest", owner=D, self_ty=dt, reg=("conv", "try_from", "biguint", dt)),
        dict(lname="conv_digest_to_biguint", rel=DIG_REL, src=dig, fn="from", anchor=r"impl From<Digest> for BigUint",
             owner=None, self_ty="biguint", reg=("conv", "from", dt, "biguint")),
        dict(lname="conv_xfe_new", rel=XFE_REL, src=xfe, fn="new", anchor=r"impl XFieldElement \{", owner=X, self_ty=xt,
             reg=("fun", X, "new")),
        dict(lname="conv_xfe_to_digest", rel=XFE_REL, src=xfe, fn="from", anchor=r"impl From<XFieldElement> for Digest",
             owner=D, self_ty=dt, reg=("conv", "from", xt, dt)),
        dict(lname="conv_xfe_try_from_digest", rel=XFE_REL, src=xfe, fn="try_from",
             anchor=r"impl TryFrom<Digest> for XFieldElement", owner=X, self_ty=xt, reg=("conv", "try_from", dt, xt)),
    ]


def codec_specs(read_src, status):
    """the macro-generated and hand-written leaf impls of `BFieldCodec` and the `From` impls they go through"""
    bfe, cod = read_src(BFE_REL), read_src(COD_REL)
    B = "BFieldElement"
    specs = []

    def expand(src, name):
        try:
            return expand_macro(src, name)
        except Unsupported as ex:
            status["failed"][f"macro {name}"] = "conv: " + str(ex)
            return []
    # From<&BFieldElement> for u64 / u128 (macro impl_into_for_int), From<uN> for BFieldElement
    for (t,), text in expand(bfe or "", "impl_into_for_int"):
        if t in ("u64", "u128"):
            specs.append(dict(lname=f"codec_{t}_from_bfe", rel=BFE_REL, src=text, fn="from",
                              anchor=r"impl From<&BFieldElement> for " + t, owner=None, self_ty=t,
                              reg=("conv", "from", "bfe", t)))
    for (t,), text in expand(bfe or "", "impl_from_for_small_unsigned_int"):
        specs.append(dict(lname=f"codec_bfe_from_{t}", rel=BFE_REL, src=text, fn="from",
                          anchor=r"impl From<" + t + r"> for BFieldElement", owner=B, self_ty="bfe",
                          reg=("conv", "from", t, "bfe")))
    specs.append(dict(lname="codec_bfe_from_u128", rel=BFE_REL, src=bfe, fn="from", anchor=r"impl From<u128> for BFieldElement",
                      owner=B, self_ty="bfe", reg=("conv", "from", "u128", "bfe")))

    def leaf(t, text):
        a = r"impl BFieldCodec for " + t + r" \{"
        return [dict(lname=f"codec_{t}_{f}", rel=COD_REL, src=text, fn=f, anchor=a, owner=t, self_ty=t,
                     reg=("fun", "codec:" + t, f)) for f in ("decode", "encode", "static_length")]
    for (t, n), text in expand(cod or "", "impl_bfield_codec_for_big_primitive_uint"):
        specs += leaf(t, text)
    for (t,), text in expand(cod or "", "impl_bfield_codec_for_small_primitive_uint"):
        specs += leaf(t, text)
    specs += leaf("bool", cod)
    for sp in leaf("BFieldElement", cod):
        sp["lname"] = sp["lname"].replace("BFieldElement", "bfe")
        sp["self_ty"] = "bfe"
        specs.append(sp)
    return specs


# attempted on every run so that the report says why they are outside the subset (never listed as `translated`)
CONV_OUTSIDE = [
    ("conv_bfe_from_str", BFE_REL, "from_str", r"impl FromStr for BFieldElement", "BFieldElement", "bfe"),
    ("conv_digest_from_str", DIG_REL, "from_str", r"impl FromStr for Digest", "Digest", ("struct", "Digest")),
    ("conv_digest_try_from_hex", DIG_REL, "try_from_hex", None, "Digest", ("struct", "Digest")),
    ("conv_digest_to_hex", DIG_REL, "to_hex", None, "Digest", ("struct", "Digest")),
    ("conv_digest_try_from_bfe_slice", DIG_REL, "try_from", r"impl TryFrom<&\[BFieldElement\]> for Digest", "Digest",
     ("struct", "Digest")),
]


def run_outside(status, read_src, table):
    for lname, rel, fn, anchor, owner, self_ty in table:
        scratch = {"failed": {}, "translated": {}}
        saved = (dict(G.funs), dict(G.convs))
        ok = translate_one(dict(lname=lname, rel=rel, src=read_src(rel), fn=fn, anchor=anchor, owner=owner, self_ty=self_ty,
                                reg=("none",)), scratch, [])
        G.funs, G.convs = saved
        status.setdefault("outside_subset", {})[lname] = \
            "translatable now (not emitted: not in the table of translated functions)" if ok else \
            scratch["failed"].get(f"fn {lname}", "refused")


# BEGIN P03: C04 Merkle index arithmetic (digests opaque: a `Digest` is its five words, never inspected here)
def merkle_setup(read_src):
    """`MerkleTree { nodes: Vec<Digest> }` is its node vector; `PartialMerkleTree` is seen through `tree_height: usize` only
    (reading any other field is refused); both shapes are read from the source"""
    mt = read_src(MT_REL) or ""
    if re.search(r"pub\s+struct\s+MerkleTree\s*\{\s*nodes\s*:\s*Vec<Digest>\s*,?\s*\}", mt) and "Digest" in G.structs:
        G.structs["MerkleTree"] = ("field", "nodes", ("vec", ("struct", "Digest")))
    m = re.search(r"struct\s+PartialMerkleTree\s*\{([^}]*)\}", mt)
    if m and re.search(r"(^|,)\s*tree_height\s*:\s*usize\s*(,|$)", m.group(1).strip()):
        G.structs["PartialMerkleTree"] = ("view", "tree_height", "usize")
    return mt


def merkle_specs(mt):
    M, PM = "MerkleTree", "PartialMerkleTree"
    alias = None
    if re.search(r"type\s+Result<T>\s*=\s*result::Result<T,\s*MerkleTreeError>\s*;", mt):
        alias = "MerkleTreeError"
    a, pa = r"impl MerkleTree \{", r"impl PartialMerkleTree \{"
    return [
        dict(lname="mt_num_leafs", rel=MT_REL, src=mt, fn="num_leafs", anchor=a, owner=M, self_ty=("struct", M),
             reg=("fun", M, "num_leafs"), result_alias=alias, err=alias),
        dict(lname="mt_height", rel=MT_REL, src=mt, fn="height", anchor=a, owner=M, self_ty=("struct", M),
             reg=("fun", M, "height"), result_alias=alias, err=alias),
        dict(lname="mt_node", rel=MT_REL, src=mt, fn="node", anchor=a, owner=M, self_ty=("struct", M),
             reg=("fun", M, "node"), result_alias=alias, err=alias),
        dict(lname="mt_leaf", rel=MT_REL, src=mt, fn="leaf", anchor=a, owner=M, self_ty=("struct", M),
             reg=("fun", M, "leaf"), result_alias=alias, err=alias),
        dict(lname="pmt_num_leafs", rel=MT_REL, src=mt, fn="num_leafs", anchor=pa, owner=PM, self_ty=("struct", PM),
             reg=("fun", PM, "num_leafs"), result_alias=alias, err=alias),
    ]


# the two list decoders of bfield_codec.rs (C03/C13): attempted on every run, the reason of the refusal is recorded
CODEC_LIST_OUTSIDE = [
    ("codec_decode_list_static", COD_REL, "bfield_codec_decode_list_with_statically_sized_items", None, None, None),
    ("codec_decode_list_dynamic", COD_REL, "bfield_codec_decode_list_with_dynamically_sized_items", None, None, None),
]


LIST_DECODER_OBSTACLES = [
    (r"\bfn\s+\w+\s*<\s*T\s*:\s*BFieldCodec\s*>",
     "generic over `T: BFieldCodec` (the subset has no type parameters: `Vec<T>` has no Lean type here)"),
    (r"\bT::static_length\s*\(\s*\)", "`T::static_length()` is a call through the trait bound (would have to become a parameter `Option Nat`)"),
    (r"\bT::decode\s*\(", "`T::decode(..)` is a call through the trait bound (would have to become a parameter `List Nat -> Except String a`)"),
    (r"\blet\s+mut\s+\w+\s*=\s*vec!\[\s*\]\s*;", "`let mut vec = vec![]`: the element type is only determined by a later `push` (every value must have a determined type)"),
    (r"\blet\s+mut\s+\w+\s*=\s*[0-9_]+\s*;", "`let mut sequence_index = 0`: integer literal whose type is only determined by later uses"),
    (r"\bfor\b[^{]*\{(?:[^{}]|\{[^{}]*\})*\?\s*;", "`for` loop whose body exits early through `?` / `return Err(..)` (only straight-line loop bodies are in the subset)"),
    (r"map_err\(\s*\|\s*e\s*\|\s*e\.into\(\)\s*\)", "`.map_err(|e| e.into())?`: the closure uses its argument (`T::Error: Into<Box<dyn Error>>`, then `#[from]`); only `|_| Variant` closures are in the subset"),
    (r"\*\s*T::decode", "`*T::decode(..)`: dereference of the returned `Box<T>`"),
]


def list_decoder_refusals(status, read_src):
    """the two list decoders are attempted like every other function (first obstacle reported by the translator itself);
    in addition every construct of their *current* text that is outside the subset is listed, so the record says precisely
    why they are refused.  Nothing is emitted for them."""
    run_outside(status, read_src, CODEC_LIST_OUTSIDE)
    cod = read_src(COD_REL) or ""
    for lname, _rel, fn, _a, _o, _s in CODEC_LIST_OUTSIDE:
        try:
            params_text, ret_text, body = find_fn(cod, fn, None)
            m = re.search(r"\bfn\s+" + re.escape(fn) + r"\b[^{]*", cod)
            text = (m.group(0) if m else "") + "{" + body + "}"
        except Exception as ex:
            status.setdefault("outside_subset", {})[lname] = f"conv: function not found ({ex})"
            continue
        found = [why for rx, why in LIST_DECODER_OBSTACLES if re.search(rx, text, flags=re.S)]
        first = status.get("outside_subset", {}).get(lname, "refused")
        if first.startswith("translatable now"):
            continue
        status["outside_subset"][lname] = first + " | constructs outside the subset: " + "; ".join(found)


def run_p03(status, changed, read_src):
    mt = merkle_setup(read_src)
    texts = []
    for spec in merkle_specs(mt):
        translate_one(spec, status, texts)
    emit_file(changed, "MerkleIndex", MT_REL, ["TF.Gen.Consts", "TF.Model.RustStdConv"], texts)
    list_decoder_refusals(status, read_src)
# END P03


def run(status, changed, fns, read_src):
    """called at the end of rs2lean_loops.run; `fns`: registry of rs2lean.py"""
    setup_registry(status, fns, read_src)
    texts = []
    for spec in conv_specs(read_src):
        translate_one(spec, status, texts)
    emit_file(changed, "ConvLoops", ", ".join((BFE_REL, DIG_REL, XFE_REL)),
              ["TF.Gen.Consts", "TF.Gen.BField", "TF.Model.RustStdConv"], texts)
    run_outside(status, read_src, CONV_OUTSIDE)
    texts = []
    for spec in codec_specs(read_src, status):
        translate_one(spec, status, texts)
    emit_file(changed, "CodecLeaves", ", ".join((COD_REL, BFE_REL)), ["TF.Gen.ConvLoops"], texts)
    run_p03(status, changed, read_src)      # P03
    # ---- BEGIN BT8 hook: generic codec combinators (tools/rs2lean_codec.py); reuses the registries left in G
    try:
        import rs2lean_codec
        rs2lean_codec.run(status, changed, read_src)
    except Exception as ex:      # never fatal for the functions above; recorded as a refusal
        status["failed"]["codec generic"] = f"internal: {type(ex).__name__}: {ex}"
    # ---- END BT8 hook
# END BT5
