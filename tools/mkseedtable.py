#!/usr/bin/env python3
"""rewrite the table of seeded changes in DESIGN.md (§12) from /verif/seeded/*/meta.json"""
import json, os, re
V = os.path.normpath(os.path.join(os.path.dirname(os.path.abspath(__file__)), ".."))
rows = ["| seeded change | breaks | what it does | needs to manifest | detected by |", "|---|---|---|---|---|"]
for d in sorted(os.listdir(os.path.join(V, "seeded"))):
    mp = os.path.join(V, "seeded", d, "meta.json")
    if not os.path.exists(mp):
        continue
    m = json.load(open(mp))
    cell = lambda x: str(x).replace("|", "\\|").replace("\n", " ")
    rows.append(f"| `{d}` | {m.get('breaks')} | {cell(m.get('what'))[:400]} | {cell(m.get('needs_to_manifest'))[:300]} | {cell(m.get('detected_by'))[:700]} |")
table = "<!-- SEEDED:BEGIN -->\n" + "\n".join(rows) + "\n<!-- SEEDED:END -->"
p = os.path.join(V, "DESIGN.md")
s = open(p).read()
if "SEEDED_TABLE" in s:
    s = s.replace("SEEDED_TABLE", table)
else:
    s = re.sub(r"<!-- SEEDED:BEGIN -->.*?<!-- SEEDED:END -->", lambda _: table, s, flags=re.S)
open(p, "w").write(s)
print(len(rows) - 2, "seeded changes listed")
